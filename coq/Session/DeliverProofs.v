(* Proofs about the routing model (Session/Deliver.v): what the merge of overlapping subscriptions
   computes, stated against the specification side (ent_subs / spec_qos / spec_ids / spec_retain /
   spec_entitled), for every state, every oracle and every order in which subscriptions are gathered. *)
From MV Require Import Base.Val Topics.Levels Topics.Match Topics.Alist Topics.AlistProofs Topics.LevelsProofs
  Session.Deliver.
From Coq Require Import Lia ZifyBool ZifyN ZifyNat Permutation.
Open Scope N_scope.

Local Notation aget := (al_get beq_bytes).
Local Notation aset := (al_set beq_bytes).
Local Notation adel := (al_del beq_bytes).

(* ---------- sorting ---------- *)
Lemma insert_perm x l : Permutation (insert x l) (x :: l).
Proof.
  induction l as [|y l IH]; cbn; [reflexivity|].
  destruct (x <=? y); [reflexivity|]. rewrite IH. apply perm_swap.
Qed.
Lemma isort_perm l : Permutation (isort l) l.
Proof. induction l as [|x l IH]; cbn; [reflexivity|]. rewrite insert_perm. constructor. exact IH. Qed.

Lemma filter_perm {A} (f : A -> bool) l l' : Permutation l l' -> Permutation (filter f l) (filter f l').
Proof.
  induction 1; cbn.
  - reflexivity.
  - destruct (f x); [constructor|]; assumption.
  - destruct (f x), (f y); try reflexivity. apply perm_swap.
  - etransitivity; eassumption.
Qed.

(* ---------- identifier maps ---------- *)
(* [Inv ids S]: the association list has unique keys and its positive entries are exactly S *)
Definition Inv (ids : list (bytes * N)) (S : bytes -> N -> Prop) : Prop :=
  NoDup (map fst ids) /\ forall f i, pos i = true -> (In (f, i) ids <-> S f i).

Lemma Inv_ext ids (S S' : bytes -> N -> Prop) :
  (forall f i, pos i = true -> (S f i <-> S' f i)) -> Inv ids S -> Inv ids S'.
Proof.
  intros E [ND H]. split; [exact ND|]. intros f i P. rewrite (H f i P). apply E. exact P.
Qed.

Lemma In_aset_iff (k : bytes) (v : N) (l : list (bytes * N)) f i :
  NoDup (map fst l) -> (In (f, i) (aset k v l) <-> (f = k /\ i = v) \/ (f <> k /\ In (f, i) l)).
Proof.
  intro ND.
  assert (ND' : NoDup (map fst (aset k v l))) by (apply (NoDup_al_set beq_bytes beq_bytes_eq); exact ND).
  split.
  - intro HI. apply (In_al_get beq_bytes beq_bytes_eq) in HI; [|exact ND'].
    destruct (eqb_dec beq_bytes beq_bytes_eq f k) as [E|NE].
    + subst f. rewrite (al_get_set_same beq_bytes beq_bytes_eq) in HI. left. split; congruence.
    + rewrite (al_get_set_other beq_bytes beq_bytes_eq) in HI by exact NE. right. split; [exact NE|].
      apply (al_get_In beq_bytes beq_bytes_eq). exact HI.
  - intros [[E1 E2]|[NE HI]].
    + subst. apply (al_get_In beq_bytes beq_bytes_eq). apply (al_get_set_same beq_bytes beq_bytes_eq).
    + apply (al_get_In beq_bytes beq_bytes_eq). rewrite (al_get_set_other beq_bytes beq_bytes_eq) by exact NE.
      apply (In_al_get beq_bytes beq_bytes_eq); assumption.
Qed.

Lemma set_pos_inv ids S k v :
  Inv ids S -> (pos v = true -> forall j, pos j = true -> S k j -> j = v) ->
  Inv (set_pos ids (k, v)) (fun f i => S f i \/ (f = k /\ i = v)).
Proof.
  intros [ND H] C. unfold set_pos. cbn [fst snd]. destruct (pos v) eqn:PV.
  - split; [apply (NoDup_al_set beq_bytes beq_bytes_eq); exact ND|].
    intros f i P. rewrite In_aset_iff by exact ND. rewrite (H f i P). split.
    + intros [[-> ->]|[NE HS]]; [right; split; reflexivity|left; exact HS].
    + intros [HS|[-> ->]]; [|left; split; reflexivity].
      destruct (eqb_dec beq_bytes beq_bytes_eq f k) as [E|NE]; [|right; split; assumption].
      subst f. left. split; [reflexivity|]. apply C; [reflexivity|assumption..].
  - split; [exact ND|]. intros f i P. rewrite (H f i P). split; [intro HS; left; exact HS|].
    intros [HS|[-> ->]]; [exact HS|]. congruence.
Qed.

Lemma fold_set_pos_inv m : forall ids S,
  Inv ids S ->
  (forall f i j, pos i = true -> pos j = true -> (S f i \/ In (f, i) m) -> (S f j \/ In (f, j) m) -> i = j) ->
  Inv (fold_left set_pos m ids) (fun f i => S f i \/ In (f, i) m).
Proof.
  induction m as [|[k v] m IH]; intros ids S HI C; cbn [fold_left].
  - eapply Inv_ext; [|exact HI]. intros f i P. cbn. tauto.
  - assert (H1 : Inv (set_pos ids (k, v)) (fun f i => S f i \/ (f = k /\ i = v))).
    { apply set_pos_inv; [exact HI|]. intros PV j PJ SJ.
      apply (C k j v PJ PV); [left; exact SJ|right; left; reflexivity]. }
    specialize (IH _ _ H1).
    eapply Inv_ext; [|apply IH].
    + intros f i P. cbn. split.
      * intros [[HS|[-> ->]]|HM]; [left; exact HS|right; left; reflexivity|right; right; exact HM].
      * intros [HS|[E|HM]]; [left; left; exact HS|left; right; inversion E; split; reflexivity|right; exact HM].
    + intros f i j PI PJ A B. apply (C f i j PI PJ).
      * destruct A as [[HS|[-> ->]]|HM]; [left; exact HS|right; left; reflexivity|right; right; exact HM].
      * destruct B as [[HS|[-> ->]]|HM]; [left; exact HS|right; left; reflexivity|right; right; exact HM].
Qed.

(* ---------- what a merged subscription stands for ---------- *)
Definition pairs_in (L : list (bytes * subopt)) (f : bytes) (i : N) : Prop := exists o, In (f, o) L /\ so_id o = i.
Definition functional (L : list (bytes * subopt)) : Prop := forall f o o', In (f, o) L -> In (f, o') L -> o = o'.

Lemma NoDup_functional (L : list (bytes * subopt)) : NoDup (map fst L) -> functional L.
Proof.
  intros ND f o o' H1 H2.
  apply (In_al_get beq_bytes beq_bytes_eq _ _ _ ND) in H1. apply (In_al_get beq_bytes beq_bytes_eq _ _ _ ND) in H2. congruence.
Qed.

Lemma functional_pairs L f i j : functional L -> pairs_in L f i -> pairs_in L f j -> i = j.
Proof. intros F [o [H1 E1]] [o' [H2 E2]]. rewrite (F f o o' H1 H2) in E1. congruence. Qed.

Lemma pairs_in_app L1 L2 f i : pairs_in (L1 ++ L2) f i <-> pairs_in L1 f i \/ pairs_in L2 f i.
Proof.
  unfold pairs_in. split.
  - intros [o [H E]]. apply in_app_or in H. destruct H as [H|H]; [left|right]; exists o; split; assumption.
  - intros [[o [H E]]|[o [H E]]]; exists o; split; try assumption; apply in_or_app; [left|right]; assumption.
Qed.

Definition nl_of (fo : bytes * subopt) : bool := so_nolocal (snd fo).
Definition rap_of (fo : bytes * subopt) : bool := so_rap (snd fo).

Record MOK (m : msub) (L : list (bytes * subopt)) : Prop := mkMOK {
  mok_ids : exists ids, ms_ids m = Some ids /\ Inv ids (pairs_in L);
  mok_base : pairs_in L (ms_filter m) (ms_id m);
  mok_qos : ms_qos m = max_qos L;
  mok_nl : ms_nolocal m = existsb nl_of L;
  mok_rap : ms_rap m = existsb rap_of L;
  mok_fwd : ms_fwd m = false }.

Lemma max_qos_app L1 L2 : max_qos (L1 ++ L2) = N.max (max_qos L1) (max_qos L2).
Proof.
  induction L1 as [|x L1 IH]; cbn [app].
  - change (max_qos []) with 0. lia.
  - change (max_qos (x :: L1 ++ L2)) with (N.max (so_qos (snd x)) (max_qos (L1 ++ L2))).
    change (max_qos (x :: L1)) with (N.max (so_qos (snd x)) (max_qos L1)). rewrite IH. lia.
Qed.

(* the identifier map of [merge s n] *)
Lemma merge_ids s n (Ss Sn : bytes -> N -> Prop) :
  Inv (idmap s) Ss ->
  (pos (ms_id n) = true -> Sn (ms_filter n) (ms_id n)) ->
  (forall f i, pos i = true -> In (f, i) (match ms_ids n with Some m => m | None => [] end) -> Sn f i) ->
  (forall f i, pos i = true -> Sn f i ->
     (f = ms_filter n /\ i = ms_id n) \/ In (f, i) (match ms_ids n with Some m => m | None => [] end)) ->
  (forall f i j, pos i = true -> pos j = true -> (Ss f i \/ Sn f i) -> (Ss f j \/ Sn f j) -> i = j) ->
  exists ids, ms_ids (merge s n) = Some ids /\ Inv ids (fun f i => Ss f i \/ Sn f i).
Proof.
  intros HI HB HM HC HF. unfold merge. cbn [ms_ids]. eexists. split; [reflexivity|].
  set (m := match ms_ids n with Some m => m | None => [] end) in *.
  change (fold_left set_pos m (set_pos (idmap s) (ms_filter n, ms_id n)))
    with (fold_left set_pos ((ms_filter n, ms_id n) :: m) (idmap s)).
  eapply Inv_ext; [|apply (fold_set_pos_inv ((ms_filter n, ms_id n) :: m) (idmap s) Ss HI)].
  - intros f i P. cbn [In]. split.
    + intros [HS|[E|HIn]]; [left; exact HS|right|right; apply HM; assumption].
      inversion E; subst. apply HB. exact P.
    + intros [HS|HS]; [left; exact HS|]. right. destruct (HC f i P HS) as [[-> ->]|HIn]; [left; reflexivity|right; exact HIn].
  - intros f i j PI PJ A B. apply (HF f i j PI PJ).
    + destruct A as [HS|[E|HIn]]; [left; exact HS|right|right; apply HM; assumption]. inversion E; subst. apply HB. exact PI.
    + destruct B as [HS|[E|HIn]]; [left; exact HS|right|right; apply HM; assumption]. inversion E; subst. apply HB. exact PJ.
Qed.

Lemma idmap_msub_of x : Inv (idmap (msub_of x)) (pairs_in [x]).
Proof.
  destruct x as [f o]. unfold idmap, msub_of. cbn. split.
  - constructor; [intros []|constructor].
  - intros g i P. unfold pairs_in. cbn. split.
    + intros [E|[]]. inversion E; subst. exists o. split; [left; reflexivity|reflexivity].
    + intros [o' [[E|[]] E2]]. inversion E; subst. left. reflexivity.
Qed.

Lemma idmap_MOK a L : MOK a L -> Inv (idmap a) (pairs_in L).
Proof. intros [[ids [E HI]] _ _ _ _ _]. unfold idmap. rewrite E. exact HI. Qed.

(* merging one more plain subscription *)
Lemma MOK_merge_one a L y (Sa : bytes -> N -> Prop) :
  Inv (idmap a) Sa -> (forall f i, pos i = true -> (Sa f i <-> pairs_in L f i)) ->
  pairs_in (L ++ [y]) (ms_filter a) (ms_id a) ->
  ms_qos a = max_qos L -> ms_nolocal a = existsb nl_of L -> ms_rap a = existsb rap_of L -> ms_fwd a = false ->
  functional (L ++ [y]) ->
  MOK (merge a (msub_of y)) (L ++ [y]).
Proof.
  intros HI HS HB HQ HN HR HFw F.
  destruct y as [fy oy].
  destruct (merge_ids a (msub_of (fy, oy)) Sa (pairs_in [(fy, oy)])) as [ids [E I2]].
  - exact HI.
  - intro P. cbn. exists oy. split; [left; reflexivity|reflexivity].
  - cbn. intros f i P [].
  - cbn. intros f i P [o [[E|[]] E2]]. inversion E; subst. left. split; reflexivity.
  - intros f i j PI PJ A B. apply (functional_pairs (L ++ [(fy, oy)]) f i j F).
    + apply pairs_in_app. destruct A as [A|A]; [left; apply HS; assumption|right; exact A].
    + apply pairs_in_app. destruct B as [B|B]; [left; apply HS; assumption|right; exact B].
  - constructor.
    + exists ids. split; [exact E|]. eapply Inv_ext; [|exact I2]. intros f i P. rewrite pairs_in_app. rewrite (HS f i P). tauto.
    + exact HB.
    + cbn [merge ms_qos msub_of fst snd]. rewrite max_qos_app. cbn. rewrite HQ.
      destruct (max_qos L <? so_qos oy) eqn:C; lia.
    + cbn [merge ms_nolocal msub_of fst snd]. rewrite existsb_app. cbn. rewrite HN. unfold nl_of at 2. cbn. rewrite orb_false_r. reflexivity.
    + cbn [merge ms_rap msub_of fst snd]. rewrite existsb_app. cbn. rewrite HR. unfold rap_of at 2. cbn. rewrite orb_false_r. reflexivity.
    + cbn. exact HFw.
Qed.

Lemma MOK_first x : MOK (merge (msub_of x) (msub_of x)) [x].
Proof.
  assert (H := MOK_merge_one (msub_of x) [] x (pairs_in [x]) (idmap_msub_of x)).
  (* direct proof is simpler *)
  clear H. destruct x as [f o].
  destruct (merge_ids (msub_of (f, o)) (msub_of (f, o)) (pairs_in [(f, o)]) (pairs_in [(f, o)])) as [ids [E I2]].
  - apply idmap_msub_of.
  - intro P. exists o. split; [left; reflexivity|reflexivity].
  - cbn. intros g i P [].
  - cbn. intros g i P [o' [[E|[]] E2]]. inversion E; subst. left. split; reflexivity.
  - intros g i j PI PJ A B. apply (functional_pairs [(f, o)] g i j).
    + intros g' o1 o2 [E1|[]] [E2|[]]. congruence.
    + tauto.
    + tauto.
  - constructor.
    + exists ids. split; [exact E|]. eapply Inv_ext; [|exact I2]. intros g i P. tauto.
    + cbn. exists o. split; [left; reflexivity|reflexivity].
    + cbn. destruct (so_qos o <? so_qos o) eqn:C; lia.
    + cbn. unfold nl_of. cbn. rewrite orb_false_r. apply orb_diag.
    + cbn. unfold rap_of. cbn. rewrite orb_false_r. apply orb_diag.
    + reflexivity.
Qed.

Lemma MOK_next a L y : MOK a L -> functional (L ++ [y]) -> MOK (merge a (msub_of y)) (L ++ [y]).
Proof.
  intros M F. apply (MOK_merge_one a L y (pairs_in L)).
  - apply idmap_MOK. exact M.
  - tauto.
  - apply pairs_in_app. left. apply (mok_base _ _ M).
  - apply (mok_qos _ _ M).
  - apply (mok_nl _ _ M).
  - apply (mok_rap _ _ M).
  - apply (mok_fwd _ _ M).
  - exact F.
Qed.

(* merging two merged subscriptions (MergeSharedSelected) *)
Lemma MOK_merge_two g sel L1 L2 : MOK g L1 -> MOK sel L2 -> functional (L1 ++ L2) -> MOK (merge g sel) (L1 ++ L2).
Proof.
  intros M1 M2 F.
  destruct (mok_ids _ _ M2) as [ids2 [E2 I2]].
  destruct (merge_ids g sel (pairs_in L1) (pairs_in L2)) as [ids [E I]].
  - apply idmap_MOK. exact M1.
  - intros _. apply (mok_base _ _ M2).
  - rewrite E2. intros f i P HIn. apply (proj2 I2 f i P). exact HIn.
  - rewrite E2. intros f i P HS. right. apply (proj2 I2 f i P). exact HS.
  - intros f i j PI PJ A B. apply (functional_pairs (L1 ++ L2) f i j F); apply pairs_in_app; assumption.
  - constructor.
    + exists ids. split; [exact E|]. eapply Inv_ext; [|exact I]. intros f i P. rewrite pairs_in_app. tauto.
    + cbn. apply pairs_in_app. left. apply (mok_base _ _ M1).
    + cbn. rewrite max_qos_app, (mok_qos _ _ M1), (mok_qos _ _ M2). destruct (max_qos L1 <? max_qos L2) eqn:C; lia.
    + cbn. rewrite existsb_app, (mok_nl _ _ M1), (mok_nl _ _ M2). reflexivity.
    + cbn. rewrite existsb_app, (mok_rap _ _ M1), (mok_rap _ _ M2). reflexivity.
    + cbn. apply (mok_fwd _ _ M1).
Qed.

Lemma MOK_merge_self sel L : MOK sel L -> functional L -> MOK (merge sel sel) L.
Proof.
  intros M F.
  destruct (mok_ids _ _ M) as [ids2 [E2 I2]].
  destruct (merge_ids sel sel (pairs_in L) (pairs_in L)) as [ids [E I]].
  - apply idmap_MOK. exact M.
  - intros _. apply (mok_base _ _ M).
  - rewrite E2. intros f i P HIn. apply (proj2 I2 f i P). exact HIn.
  - rewrite E2. intros f i P HS. right. apply (proj2 I2 f i P). exact HS.
  - intros f i j PI PJ A B. apply (functional_pairs L f i j F); tauto.
  - constructor.
    + exists ids. split; [exact E|]. eapply Inv_ext; [|exact I]. intros f i P. tauto.
    + cbn. apply (mok_base _ _ M).
    + cbn. destruct (ms_qos sel <? ms_qos sel) eqn:C; [lia|]. apply (mok_qos _ _ M).
    + cbn. rewrite orb_diag. apply (mok_nl _ _ M).
    + cbn. rewrite orb_diag. apply (mok_rap _ _ M).
    + cbn. apply (mok_fwd _ _ M).
Qed.

Lemma functional_prefix L r : functional (L ++ r) -> functional L.
Proof. intros F f o o' H1 H2. apply (F f o o'); apply in_or_app; left; assumption. Qed.

(* the fold over a gather order *)
Lemma merge_all_from r : forall a L, MOK a L -> functional (L ++ r) ->
  exists m, fold_left merge_into r (Some a) = Some m /\ MOK m (L ++ r).
Proof.
  induction r as [|y r IH]; intros a L M F; cbn [fold_left].
  - exists a. rewrite app_nil_r. split; [reflexivity|exact M].
  - unfold merge_into at 2. cbn.
    assert (F1 : functional (L ++ [y])).
    { apply (functional_prefix _ r). rewrite <- app_assoc. exact F. }
    destruct (IH _ _ (MOK_next a L y M F1)) as [m [E M']].
    + rewrite <- app_assoc. exact F.
    + exists m. split; [exact E|]. rewrite <- app_assoc in M'. exact M'.
Qed.

Lemma merge_all_spec L : functional L ->
  match L with [] => merge_all L = None | _ :: _ => exists m, merge_all L = Some m /\ MOK m L end.
Proof.
  intro F. destruct L as [|x r]; [reflexivity|].
  unfold merge_all. cbn [fold_left]. unfold merge_into at 2. cbn.
  apply (merge_all_from r _ [x] (MOK_first x)). exact F.
Qed.

(* Subscribers.Subscriptions[c] is the merge of exactly the subscriptions that entitle c *)
Lemma merged_client_spec c cl t orc :
  NoDup (map fst (ent_subs c cl t orc)) ->
  match ent_subs c cl t orc with
  | [] => merged_client c cl t orc = None
  | _ :: _ => exists m, merged_client c cl t orc = Some m /\ MOK m (ent_subs c cl t orc)
  end.
Proof.
  unfold ent_subs, merged_client. intro ND. apply NoDup_functional in ND.
  set (Nn := nonshared_matching cl t) in *. set (Ss := picks_of c cl t orc) in *.
  assert (FN : functional Nn) by (apply (functional_prefix _ Ss); exact ND).
  assert (FS : functional Ss).
  { intros f o o' H1 H2. apply (ND f o o'); apply in_or_app; right; assumption. }
  assert (HN := merge_all_spec Nn FN). assert (HS := merge_all_spec Ss FS).
  destruct Ss as [|s0 Ss'].
  - rewrite HS. rewrite app_nil_r. exact HN.
  - destruct HS as [sel [ES MS]]. rewrite ES.
    destruct Nn as [|n0 Nn'].
    + rewrite HN. cbn [app]. exists (merge sel sel). split; [reflexivity|]. apply MOK_merge_self; assumption.
    + destruct HN as [g [EG MG]]. rewrite EG. cbn [app].
      exists (merge g sel). split; [reflexivity|]. apply (MOK_merge_two g sel _ _ MG MS). exact ND.
Qed.

(* ---------- uniqueness of the entitling subscriptions ---------- *)
Lemma NoDup_map_filter {A B} (g : A -> B) (p : A -> bool) l : NoDup (map g l) -> NoDup (map g (filter p l)).
Proof.
  induction l as [|x l IH]; cbn; intro ND; [constructor|]. inversion ND as [|? ? NI ND']; subst.
  destruct (p x); cbn; [constructor|]; auto.
  intro HI. apply NI. apply in_map_iff in HI. destruct HI as [y [E HI]]. apply filter_In in HI.
  apply in_map_iff. exists y. tauto.
Qed.

Lemma NoDup_app' {A} (l1 l2 : list A) :
  NoDup l1 -> NoDup l2 -> (forall x, In x l1 -> In x l2 -> False) -> NoDup (l1 ++ l2).
Proof.
  induction l1 as [|x l1 IH]; cbn; intros N1 N2 D; [exact N2|]. inversion N1 as [|? ? NI N1']; subst.
  constructor.
  - intro HI. apply in_app_or in HI. destruct HI as [HI|HI]; [contradiction|]. apply (D x); [left; reflexivity|exact HI].
  - apply IH; [exact N1'|exact N2|]. intros y H1 H2. apply (D y); [right; exact H1|exact H2].
Qed.

Lemma picks_keys c cl t orc k :
  In k (map fst (picks_of c cl t orc)) -> In k (map fst orc) /\ shared_matches t k = true.
Proof.
  unfold picks_of. induction orc as [|[k0 c0] r IH]; cbn [flat_map map fst snd]; [intros []|].
  rewrite map_app. intro HI. apply in_app_or in HI. destruct HI as [HI|HI].
  - destruct (beq_bytes c0 c && shared_matches t k0) eqn:E; [|destruct HI].
    destruct (al_get beq_bytes k0 (cl_subs cl)); [|destruct HI]. cbn in HI. destruct HI as [<-|[]].
    apply andb_true_iff in E. split; [left; reflexivity|tauto].
  - destruct (IH HI) as [H1 H2]. split; [right; exact H1|exact H2].
Qed.

Lemma picks_nodup c cl t orc : NoDup (map fst orc) -> NoDup (map fst (picks_of c cl t orc)).
Proof.
  induction orc as [|[k0 c0] r IH]; cbn [map fst]; intro ND; [constructor|].
  inversion ND as [|? ? NI ND']; subst.
  change (picks_of c cl t ((k0, c0) :: r))
    with ((if beq_bytes c0 c && shared_matches t k0
           then match al_get beq_bytes k0 (cl_subs cl) with Some o => [(k0, o)] | None => [] end else [])
          ++ picks_of c cl t r).
  rewrite map_app. apply NoDup_app'.
  - destruct (beq_bytes c0 c && shared_matches t k0); [|constructor].
    destruct (al_get beq_bytes k0 (cl_subs cl)); cbn; [constructor; [intros []|constructor]|constructor].
  - apply IH. exact ND'.
  - intros x H1 H2. apply NI.
    assert (x = k0).
    { destruct (beq_bytes c0 c && shared_matches t k0); [|destruct H1].
      destruct (al_get beq_bytes k0 (cl_subs cl)); [|destruct H1]. cbn in H1. destruct H1 as [<-|[]]. reflexivity. }
    subst x. apply (picks_keys c cl t r k0 H2).
Qed.

Lemma ent_subs_nodup c cl t orc :
  NoDup (map fst (cl_subs cl)) -> NoDup (map fst orc) -> NoDup (map fst (ent_subs c cl t orc)).
Proof.
  intros N1 N2. unfold ent_subs. rewrite map_app. apply NoDup_app'.
  - unfold nonshared_matching. apply NoDup_map_filter. exact N1.
  - apply picks_nodup. exact N2.
  - intros k H1 H2. unfold nonshared_matching in H1. apply in_map_iff in H1. destruct H1 as [[f o] [E H1]].
    apply filter_In in H1. destruct H1 as [_ H1]. unfold sub_matches in H1. cbn in *. subst f.
    apply picks_keys in H2. destruct H2 as [_ H2]. unfold shared_matches in H2.
    destruct (is_share k); cbn in *; congruence.
Qed.

(* ---------- identifiers on the wire ---------- *)
Lemma NoDup_keys_NoDup {A B} (l : list (A * B)) : NoDup (map fst l) -> NoDup l.
Proof.
  induction l as [|x l IH]; cbn; intro ND; [constructor|]. inversion ND as [|? ? NI ND']; subst.
  constructor; [|apply IH; exact ND']. intro HI. apply NI. apply in_map. exact HI.
Qed.

Lemma NoDup_filter' {A} (p : A -> bool) l : NoDup l -> NoDup (filter p l).
Proof.
  induction l as [|x l IH]; cbn; intro ND; [constructor|]. inversion ND as [|? ? NI ND']; subst.
  destruct (p x); [constructor|]; auto. intro HI. apply filter_In in HI. tauto.
Qed.

Lemma map_snd_filter {A} (p : N -> bool) (l : list (A * N)) :
  map snd (filter (fun e => p (snd e)) l) = filter p (map snd l).
Proof. induction l as [|x l IH]; cbn; [reflexivity|]. destruct (p (snd x)); cbn; rewrite IH; reflexivity. Qed.

Definition pairs_of (L : list (bytes * subopt)) : list (bytes * N) := map (fun fo => (fst fo, so_id (snd fo))) L.

Lemma ids_perm ids L :
  Inv ids (pairs_in L) -> NoDup (map fst L) -> Permutation (filter pos (map snd ids)) (spec_ids L).
Proof.
  intros [ND H] NL. unfold spec_ids.
  replace (map (fun fo => so_id (snd fo)) L) with (map snd (pairs_of L))
    by (unfold pairs_of; rewrite map_map; reflexivity).
  rewrite <- !map_snd_filter. apply Permutation_map. apply NoDup_Permutation.
  - apply NoDup_filter'. apply NoDup_keys_NoDup. exact ND.
  - apply NoDup_filter'. apply NoDup_keys_NoDup. unfold pairs_of. rewrite map_map. cbn. exact NL.
  - intros [f i]. rewrite !filter_In. cbn [snd]. split.
    + intros [HI P]. split; [|exact P]. apply (H f i P) in HI. destruct HI as [o [HI E]].
      unfold pairs_of. apply in_map_iff. exists (f, o). cbn. split; [congruence|exact HI].
    + intros [HI P]. split; [|exact P]. apply (H f i P). unfold pairs_of in HI. apply in_map_iff in HI.
      destruct HI as [[f' o] [E HI]]. cbn in E. inversion E; subst. exists o. split; [exact HI|reflexivity].
Qed.

(* ---------- the delivery decision ---------- *)
Definition is_send (p : pres) : bool := match p with PSend _ => true | _ => false end.

Lemma existsb_not_excluded c m L :
  existsb (not_excluded c m) L =
  if beq_bytes (m_origin m) c then existsb (fun fo => negb (nl_of fo)) L else negb (nilb L).
Proof.
  induction L as [|x L IH]; cbn; [destruct (beq_bytes (m_origin m) c); reflexivity|].
  rewrite IH. unfold not_excluded, nl_of. destruct (beq_bytes (m_origin m) c); cbn.
  - rewrite andb_true_r. reflexivity.
  - rewrite andb_false_r. reflexivity.
Qed.

Lemma existsb_false_all {A} (p : A -> bool) l : existsb p l = false -> existsb (fun x => negb (p x)) l = negb (nilb l).
Proof.
  induction l as [|x l IH]; cbn; [reflexivity|]. intro H. apply orb_false_iff in H. destruct H as [H1 H2].
  rewrite H1. reflexivity.
Qed.

(* C03: a PUBLISH is handed to the connection exactly when the client is entitled and the queue has room
   (outside the No Local merge finding) *)
Theorem deliver_send_iff s orc drops m c cl :
  NoDup (map fst (cl_subs cl)) -> NoDup (map fst orc) ->
  KF_C03_nolocal_merge c m (ent_subs c cl (m_topic m) orc) = false ->
  is_send (deliver_to s orc drops m c cl)
  = spec_entitled s c cl m (ent_subs c cl (m_topic m) orc) && negb (existsb (beq_bytes c) drops).
Proof.
  intros N1 N2 KF. unfold deliver_to, spec_entitled.
  assert (HM := merged_client_spec c cl (m_topic m) orc (ent_subs_nodup c cl _ orc N1 N2)).
  rewrite existsb_not_excluded.
  remember (ent_subs c cl (m_topic m) orc) as L0 eqn:HL0. clear HL0.
  destruct L0 as [|x L'].
  - rewrite HM. cbn. destruct (beq_bytes (m_origin m) c); cbn; rewrite !andb_false_r; reflexivity.
  - destruct HM as [sub [E M]]. rewrite E.
    assert (NE : negb (nilb (x :: L')) = true) by reflexivity.
    remember (x :: L') as L eqn:EL in *. clear EL.
    unfold publish_to_client. rewrite (mok_nl _ _ M).
    unfold KF_C03_nolocal_merge in KF.
    change (fun fo : bytes * subopt => so_nolocal (snd fo)) with nl_of in KF.
    change (fun fo : bytes * subopt => negb (so_nolocal (snd fo))) with (fun fo => negb (nl_of fo)) in KF.
    destruct (beq_bytes (m_origin m) c) eqn:EO.
    + destruct (existsb nl_of L) eqn:ENL; cbn [andb].
      * cbn in KF. rewrite KF. cbn. rewrite !andb_false_r. reflexivity.
      * rewrite (existsb_false_all nl_of L ENL), NE.
        destruct (denied s c (m_topic m)); cbn; [rewrite !andb_false_r; reflexivity|].
        destruct (cl_conn cl); cbn.
        -- destruct (existsb (beq_bytes c) drops); reflexivity.
        -- destruct (_ =? 0); reflexivity.
    + rewrite andb_false_r, NE.
      destruct (denied s c (m_topic m)); cbn; [rewrite !andb_false_r; reflexivity|].
      destruct (cl_conn cl); cbn.
      * destruct (existsb (beq_bytes c) drops); reflexivity.
      * destruct (_ =? 0); reflexivity.
Qed.

Lemma min3_spec a b c : min3 a b c = N.min a (N.min b c).
Proof. unfold min3. destruct (b <? a) eqn:E1; destruct (c <? _) eqn:E2; lia. Qed.

(* C03 (fields) / C04: what is on the wire *)
Theorem deliver_fields s orc drops m c cl d :
  NoDup (map fst (cl_subs cl)) -> NoDup (map fst orc) -> cl_ver cl <= 5 ->
  deliver_to s orc drops m c cl = PSend d ->
  let L := ent_subs c cl (m_topic m) orc in
  d_to d = TClient c /\ d_topic d = m_topic m /\ d_payload d = m_payload m /\
  d_qos d = spec_qos (st_maxqos s) (m_qos m) L /\
  d_retain d = spec_retain (cl_ver cl) (m_retain m) L /\
  (cl_ver cl = 5 -> Permutation (d_ids d) (spec_ids L) /\ d_props d = m_props m) /\
  (cl_ver cl <> 5 -> d_ids d = [] /\ d_props d = mp_none).
Proof.
  intros N1 N2 V. unfold deliver_to.
  assert (NL := ent_subs_nodup c cl (m_topic m) orc N1 N2).
  assert (HM := merged_client_spec c cl (m_topic m) orc NL).
  intro HD. cbv zeta. remember (ent_subs c cl (m_topic m) orc) as L0 eqn:HL0. clear HL0.
  destruct L0 as [|x L']; [rewrite HM in HD; discriminate|].
  destruct HM as [sub [E M]]. rewrite E in HD. remember (x :: L') as L eqn:EL in *. clear EL.
  unfold publish_to_client in HD.
  destruct (ms_nolocal sub && beq_bytes (m_origin m) c); [discriminate|].
  destruct (denied s c (m_topic m)); [discriminate|].
  destruct (cl_conn cl); cbn [negb] in HD; [|destruct (_ =? 0); discriminate].
  destruct (existsb (beq_bytes c) drops); [discriminate|].
  inversion HD as [HD']. clear HD.
  destruct (mok_ids _ _ M) as [ids [EI II]].
  assert (QQ : min3 (m_qos m) (ms_qos sub) (st_maxqos s) = spec_qos (st_maxqos s) (m_qos m) L).
  { rewrite min3_spec, (mok_qos _ _ M). unfold spec_qos. reflexivity. }
  assert (RR : (if negb (ms_fwd sub) && ((cl_ver cl =? 5) && negb (ms_rap sub) || (cl_ver cl <? 5)) then false else m_retain m)
               = spec_retain (cl_ver cl) (m_retain m) L).
  { rewrite (mok_fwd _ _ M), (mok_rap _ _ M). unfold spec_retain. fold rap_of.
    change (fun fo : bytes * subopt => so_rap (snd fo)) with rap_of.
    destruct (cl_ver cl =? 5) eqn:E5; destruct (cl_ver cl <? 5) eqn:E4; destruct (existsb rap_of L); destruct (m_retain m); cbn; try reflexivity; lia. }
  unfold wire. destruct (cl_ver cl =? 5) eqn:E5; cbn.
  - split; [reflexivity|]. split; [reflexivity|]. split; [reflexivity|]. split; [exact QQ|]. split; [exact RR|].
    split.
    + intros _. split; [|reflexivity]. rewrite EI. etransitivity; [apply filter_perm; apply isort_perm|].
      apply ids_perm; assumption.
    + intros NE. exfalso. apply NE. lia.
  - split; [reflexivity|]. split; [reflexivity|]. split; [reflexivity|]. split; [exact QQ|]. split; [exact RR|].
    split.
    + intro H5. exfalso. lia.
    + intros _. split; reflexivity.
Qed.

Lemma deliver_target s orc drops m c cl d : deliver_to s orc drops m c cl = PSend d -> d_to d = TClient c.
Proof.
  unfold deliver_to. destruct (merged_client c cl (m_topic m) orc); [|discriminate].
  unfold publish_to_client.
  destruct (_ && _); [discriminate|]. destruct (denied _ _ _); [discriminate|].
  destruct (negb (cl_conn cl)); [destruct (_ =? 0); discriminate|]. destruct (existsb _ _); [discriminate|].
  intro H. inversion H. unfold wire. destruct (cl_ver cl =? 5); reflexivity.
Qed.

(* C03 / C06: number of copies a client gets from one publish *)
Definition to_client (c : cid) (d : delivery) : bool :=
  match d_to d with TClient c' => beq_bytes c' c | TInline _ => false end.

Lemma route_count_gen s orc drops m c (l : list (cid * client)) :
  NoDup (map fst l) ->
  length (filter (to_client c)
            (sends (map (fun e => (fst e, deliver_to s orc drops m (fst e) (snd e))) l)))
  = match al_get beq_bytes c l with
    | Some cl => if is_send (deliver_to s orc drops m c cl) then 1%nat else 0%nat
    | None => 0%nat
    end.
Proof.
  induction l as [|[c0 cl0] l IH]; cbn [map fst snd al_get]; intro ND; [reflexivity|].
  inversion ND as [|? ? NI ND']; subst. specialize (IH ND').
  unfold sends in *. cbn [flat_map fst snd]. rewrite filter_app, app_length, IH.
  destruct (beq_bytes c0 c) eqn:EC.
  - apply beq_bytes_eq in EC. subst c0.
    assert (al_get beq_bytes c l = None) as -> by (apply (al_get_None_notin beq_bytes beq_bytes_eq); exact NI).
    destruct (deliver_to s orc drops m c cl0) eqn:ED; cbn; try reflexivity.
    unfold to_client. rewrite (deliver_target _ _ _ _ _ _ _ ED). rewrite beq_bytes_refl. reflexivity.
  - destruct (deliver_to s orc drops m c0 cl0) eqn:ED; cbn; try reflexivity.
    unfold to_client. rewrite (deliver_target _ _ _ _ _ _ _ ED). rewrite EC. reflexivity.
Qed.

Theorem route_count s orc drops m c :
  NoDup (map fst (st_clients s)) ->
  length (filter (to_client c) (sends (route s orc drops m)))
  = match get_client s c with
    | Some cl => if is_send (deliver_to s orc drops m c cl) then 1%nat else 0%nat
    | None => 0%nat
    end.
Proof. apply route_count_gen. Qed.

(* ---------- C04: granted QoS ---------- *)
Theorem granted_qos s c ver fo :
  sub_accepted s c fo = true -> so_qos (snd fo) <= 2 ->
  sub_code s c ver fo = spec_granted (st_maxqos s) (so_qos (snd fo)).
Proof.
  unfold sub_accepted, sub_code, sub_code_raw, spec_granted. intros A Q.
  destruct (negb (valid_filter_spec (fst fo))); [cbn in A; discriminate|].
  destruct (so_nolocal (snd fo) && is_share (fst fo)); [cbn in A; discriminate|].
  destruct (denied s c (fst fo)); [cbn in A; discriminate|].
  destruct (st_maxqos s <? so_qos (snd fo)) eqn:E.
  - assert (H : (2 <? st_maxqos s) = false) by lia. rewrite H. cbn. lia.
  - assert (H : (2 <? so_qos (snd fo)) = false) by lia. rewrite H. cbn. lia.
Qed.

(* ---------- retained deliveries (publishRetainedToClient) ---------- *)
Theorem retained_delivery s c cl f o m d :
  publish_to_client s c cl (retained_sub f o) m false = PSend d ->
  d_to d = TClient c /\ d_topic d = m_topic m /\ d_payload d = m_payload m /\
  d_retain d = m_retain m /\
  d_qos d = N.min (m_qos m) (N.min (so_qos o) (st_maxqos s)) /\
  d_ids d = (if (cl_ver cl =? 5) && pos (so_id o) then [so_id o] else []) /\
  d_props d = (if cl_ver cl =? 5 then m_props m else mp_none).
Proof.
  unfold publish_to_client, retained_sub. cbn [ms_nolocal ms_fwd ms_rap ms_ids ms_qos].
  destruct (so_nolocal o && beq_bytes (m_origin m) c); [discriminate|].
  destruct (denied s c (m_topic m)); [discriminate|].
  destruct (negb (cl_conn cl)); [destruct (_ =? 0); discriminate|].
  intro H. inversion H as [H']. clear H H'. rewrite min3_spec. cbn [negb andb].
  unfold wire. destruct (cl_ver cl =? 5); destruct (pos (so_id o)) eqn:P; cbn; rewrite ?P; repeat split; reflexivity.
Qed.

Theorem retained_for_cases s c cl f o existed :
  so_rh o <= 2 ->
  retained_for s c cl f o existed =
  if is_share f || negb (rh_sends (so_rh o) existed) then []
  else map (fun m => publish_to_client s c cl (retained_sub f o) m false) (retained_matching s f).
Proof.
  intro R. unfold retained_for, rh_sends. destruct (is_share f); [reflexivity|]. cbn [orb].
  destruct (so_rh o =? 0) eqn:E0; destruct (so_rh o =? 1) eqn:E1; destruct (so_rh o =? 2) eqn:E2; destruct existed; cbn; try reflexivity; lia.
Qed.

(* ---------- state invariant ---------- *)
Definition retained_wf (r : list (bytes * msg)) : Prop :=
  NoDup (map fst r) /\ forall t m, In (t, m) r -> m_topic m = t /\ m_retain m = true /\ m_payload m <> [].

Definition clients_wf (cs : list (cid * client)) : Prop :=
  NoDup (map fst cs) /\ forall c cl, In (c, cl) cs -> NoDup (map fst (cl_subs cl)) /\ cl_ver cl <= 5.

Definition wf_state (s : state) : Prop := clients_wf (st_clients s) /\ retained_wf (st_retained s).

Definition op_ok (o : op) : bool := match o with OConnect _ ver _ _ _ => ver <=? 5 | _ => true end.

Lemma clients_wf_set cs c cl :
  clients_wf cs -> NoDup (map fst (cl_subs cl)) -> cl_ver cl <= 5 -> clients_wf (al_set beq_bytes c cl cs).
Proof.
  intros [ND H] N V. split; [apply (NoDup_al_set beq_bytes beq_bytes_eq); exact ND|].
  intros c' cl' HI. apply In_al_set_inv in HI. destruct HI as [E|HI]; [inversion E; subst; split; assumption|].
  apply (H c' cl' HI).
Qed.

Lemma clients_wf_del cs c : clients_wf cs -> clients_wf (al_del beq_bytes c cs).
Proof.
  intros [ND H]. split; [apply (NoDup_al_del beq_bytes); exact ND|].
  intros c' cl' HI. apply In_al_del_inv in HI. apply (H c' cl' HI).
Qed.

Lemma clients_wf_get cs c cl : clients_wf cs -> al_get beq_bytes c cs = Some cl -> NoDup (map fst (cl_subs cl)) /\ cl_ver cl <= 5.
Proof. intros [ND H] G. apply (H c cl). apply (al_get_In beq_bytes beq_bytes_eq). exact G. Qed.

Lemma subscribe_all_nodup s c ver subs : forall cur,
  NoDup (map fst cur) -> NoDup (map fst (fst (subscribe_all s c ver subs cur))).
Proof.
  induction subs as [|fo r IH]; intros cur ND; cbn [subscribe_all]; [exact ND|].
  destruct (sub_accepted s c fo).
  - specialize (IH (al_set beq_bytes (fst fo) (snd fo) cur) (NoDup_al_set beq_bytes beq_bytes_eq _ _ _ ND)).
    destruct (subscribe_all s c ver r (al_set beq_bytes (fst fo) (snd fo) cur)). exact IH.
  - specialize (IH cur ND). destruct (subscribe_all s c ver r cur). exact IH.
Qed.

Lemma unsub_nodup (fs : list bytes) : forall (cur : list (bytes * subopt)),
  NoDup (map fst cur) -> NoDup (map fst (fold_left (fun acc f => al_del beq_bytes f acc) fs cur)).
Proof.
  induction fs as [|f r IH]; intros cur ND; cbn [fold_left]; [exact ND|].
  apply IH. apply (NoDup_al_del beq_bytes). exact ND.
Qed.

Lemma queue_pending_wf r cs : clients_wf cs -> clients_wf (queue_pending r cs).
Proof.
  intros [ND H]. unfold queue_pending. split.
  - rewrite map_map. erewrite map_ext; [exact ND|]. intros [c cl]. cbn.
    destruct (al_get beq_bytes c r) as [[| | |]|]; reflexivity.
  - intros c cl HI. apply in_map_iff in HI. destruct HI as [[c0 cl0] [E HI]].
    specialize (H c0 cl0 HI).
    destruct (al_get beq_bytes c0 r) as [[| | |]|]; inversion E; subst; cbn; exact H.
Qed.

Lemma retain_message_wf s m :
  retained_wf (st_retained s) -> m_retain m = true -> retained_wf (st_retained (retain_message s m)).
Proof.
  intros [ND H] R. unfold retain_message. destruct (negb (st_retain_avail s)); [split; assumption|].
  destruct (nilb (m_payload m)) eqn:EP; cbn.
  - split; [apply (NoDup_al_del beq_bytes); exact ND|]. intros t m' HI. apply In_al_del_inv in HI. apply (H t m' HI).
  - split; [apply (NoDup_al_set beq_bytes beq_bytes_eq); exact ND|]. intros t m' HI. apply In_al_set_inv in HI.
    destruct HI as [E|HI]; [|apply (H t m' HI)]. inversion E; subst. repeat split; try assumption.
    intro E2. rewrite E2 in EP. discriminate.
Qed.

Lemma publish_wf orc drops s m : wf_state s -> wf_state (fst (publish orc drops s m)).
Proof.
  intros [HC HR]. unfold publish. cbn [fst]. unfold wf_state. cbn [st_clients st_retained with_clients].
  set (m' := mkMsg _ _ _ _ _ _).
  assert (HR' : retained_wf (st_retained (if m_retain m' then retain_message s m' else s))).
  { destruct (m_retain m') eqn:R; [apply retain_message_wf; assumption|exact HR]. }
  assert (HC' : st_clients (if m_retain m' then retain_message s m' else s) = st_clients s).
  { destruct (m_retain m'); [|reflexivity]. unfold retain_message.
    destruct (negb (st_retain_avail s)); [reflexivity|]. destruct (nilb (m_payload m')); reflexivity. }
  split; [|exact HR']. apply queue_pending_wf. rewrite HC'. exact HC.
Qed.

Lemma step_wf orc drops s o : wf_state s -> op_ok o = true -> wf_state (fst (step orc drops s o)).
Proof.
  intros W OK. destruct W as [HC HR]. destruct o; cbn [step].
  - (* connect *)
    cbn in OK. assert (V : ver <= 5) by lia. unfold get_client.
    destruct (al_get beq_bytes c (st_clients s)) as [old|] eqn:G.
    + destruct clean; cbn [fst]; (split; [|exact HR]); apply clients_wf_set; try assumption; cbn; try constructor.
      apply (clients_wf_get _ _ _ HC G).
    + cbn [fst]. split; [|exact HR]. apply clients_wf_set; try assumption; cbn; constructor.
  - (* disconnect *)
    unfold get_client. destruct (al_get beq_bytes c (st_clients s)) as [cl|] eqn:G; [|split; assumption].
    destruct (clients_wf_get _ _ _ HC G) as [N V].
    destruct (cl_persist cl); cbn [fst]; (split; [|exact HR]).
    + apply clients_wf_set; assumption.
    + apply clients_wf_del. exact HC.
  - (* subscribe *)
    unfold get_client. destruct (al_get beq_bytes c (st_clients s)) as [cl|] eqn:G; [|split; assumption].
    destruct (clients_wf_get _ _ _ HC G) as [N V].
    destruct (cl_conn cl); [|split; assumption].
    assert (H := subscribe_all_nodup s c (cl_ver cl) subs (cl_subs cl) N).
    destruct (subscribe_all s c (cl_ver cl) subs (cl_subs cl)) as [cur info]. cbn [fst] in *.
    split; [|exact HR]. apply clients_wf_set; assumption.
  - (* unsubscribe *)
    unfold get_client. destruct (al_get beq_bytes c (st_clients s)) as [cl|] eqn:G; [|split; assumption].
    destruct (clients_wf_get _ _ _ HC G) as [N V].
    destruct (cl_conn cl); [|split; assumption]. cbn [fst]. split; [|exact HR].
    apply clients_wf_set; [exact HC| |exact V]. cbn. apply unsub_nodup. exact N.
  - destruct (valid_pub_topic (m_topic m)); [apply publish_wf|]; split; assumption.
  - apply publish_wf. split; assumption.
  - destruct (valid_filter_spec f); split; assumption.
  - destruct (valid_filter_spec f); split; assumption.
Qed.

Definition hist := list (oracle * list cid * op).
Definition ops_of (h : hist) : list op := map snd h.

Lemma run_wf (h : hist) : forall s, wf_state s -> forallb op_ok (ops_of h) = true -> wf_state (run s h).
Proof.
  induction h as [|[[orc drops] o] r IH]; intros s W OK; cbn [run]; [exact W|].
  cbn in OK. apply andb_true_iff in OK. destruct OK as [O1 O2]. apply IH; [|exact O2]. apply step_wf; assumption.
Qed.

Lemma init_wf mq ra deny : wf_state (init mq ra deny).
Proof. split; split; cbn; try apply NoDup_nil; intros ? ? []. Qed.

(* ---------- C05: the retained store after a history ---------- *)
Lemma retain_message_caps s m :
  st_maxqos (retain_message s m) = st_maxqos s /\ st_retain_avail (retain_message s m) = st_retain_avail s.
Proof.
  unfold retain_message. destruct (negb (st_retain_avail s)); [split; reflexivity|].
  destruct (nilb (m_payload m)); split; reflexivity.
Qed.

Lemma step_caps orc drops s o :
  st_maxqos (fst (step orc drops s o)) = st_maxqos s /\ st_retain_avail (fst (step orc drops s o)) = st_retain_avail s.
Proof.
  assert (P : forall m, st_maxqos (fst (publish orc drops s m)) = st_maxqos s
                        /\ st_retain_avail (fst (publish orc drops s m)) = st_retain_avail s).
  { intro m. unfold publish. cbn [fst with_clients st_maxqos st_retain_avail].
    match goal with |- context [if ?b then _ else _] => destruct b end; [apply retain_message_caps|split; reflexivity]. }
  destruct o; cbn [step]; unfold get_client.
  - destruct (al_get beq_bytes c (st_clients s)); [destruct clean|]; split; reflexivity.
  - destruct (al_get beq_bytes c (st_clients s)) as [cl|]; [destruct (cl_persist cl)|]; split; reflexivity.
  - destruct (al_get beq_bytes c (st_clients s)) as [cl|]; [|split; reflexivity].
    destruct (cl_conn cl); [|split; reflexivity]. destruct (subscribe_all _ _ _ _ _). split; reflexivity.
  - destruct (al_get beq_bytes c (st_clients s)) as [cl|]; [destruct (cl_conn cl)|]; split; reflexivity.
  - destruct (valid_pub_topic (m_topic m)); [apply P|split; reflexivity].
  - apply P.
  - destruct (valid_filter_spec f); split; reflexivity.
  - destruct (valid_filter_spec f); split; reflexivity.
Qed.

Definition latest_step (ravail : bool) (maxqos : N) (o : op) (t : bytes) (acc : option msg) : option msg :=
  match pub_of o with
  | Some m => if m_retain m && ravail && beq_bytes (m_topic m) t
              then (if nilb (m_payload m) then None else Some (accepted maxqos m)) else acc
  | None => acc
  end.

Lemma publish_retained orc drops s m t :
  al_get beq_bytes t (st_retained (fst (publish orc drops s m))) =
  if m_retain m && st_retain_avail s && beq_bytes (m_topic m) t
  then (if nilb (m_payload m) then None else Some (accepted (st_maxqos s) m))
  else al_get beq_bytes t (st_retained s).
Proof.
  unfold publish. cbn [fst with_clients st_retained m_retain].
  destruct (m_retain m) eqn:R; cbn [andb]; [|reflexivity].
  unfold retain_message. cbn [m_payload m_topic]. destruct (st_retain_avail s); cbn [negb andb]; [|reflexivity].
  destruct (nilb (m_payload m)) eqn:EP; cbn [st_retained with_retained].
  - destruct (beq_bytes (m_topic m) t) eqn:ET.
    + apply beq_bytes_eq in ET. subst t. apply al_get_del_same.
    + apply (al_get_del_other beq_bytes beq_bytes_eq). intro E. subst t. rewrite beq_bytes_refl in ET. discriminate.
  - destruct (beq_bytes (m_topic m) t) eqn:ET.
    + apply beq_bytes_eq in ET. subst t. rewrite (al_get_set_same beq_bytes beq_bytes_eq).
      unfold accepted. rewrite R. reflexivity.
    + apply (al_get_set_other beq_bytes beq_bytes_eq). intro E. subst t. rewrite beq_bytes_refl in ET. discriminate.
Qed.

Lemma step_retained orc drops s o t :
  al_get beq_bytes t (st_retained (fst (step orc drops s o)))
  = latest_step (st_retain_avail s) (st_maxqos s) o t (al_get beq_bytes t (st_retained s)).
Proof.
  unfold latest_step. destruct o; cbn [step pub_of]; unfold get_client.
  - destruct (al_get beq_bytes c (st_clients s)); [destruct clean|]; reflexivity.
  - destruct (al_get beq_bytes c (st_clients s)) as [cl|]; [destruct (cl_persist cl)|]; reflexivity.
  - destruct (al_get beq_bytes c (st_clients s)) as [cl|]; [|reflexivity].
    destruct (cl_conn cl); [|reflexivity]. destruct (subscribe_all _ _ _ _ _). reflexivity.
  - destruct (al_get beq_bytes c (st_clients s)) as [cl|]; [destruct (cl_conn cl)|]; reflexivity.
  - destruct (valid_pub_topic (m_topic m)); [|reflexivity]. rewrite publish_retained. reflexivity.
  - rewrite publish_retained. reflexivity.
  - destruct (valid_filter_spec f); reflexivity.
  - destruct (valid_filter_spec f); reflexivity.
Qed.

Lemma latest_unfold ra mq o r t acc : latest ra mq (o :: r) t acc = latest ra mq r t (latest_step ra mq o t acc).
Proof. reflexivity. Qed.

Theorem latest_run (h : hist) : forall s t,
  al_get beq_bytes t (st_retained (run s h))
  = latest (st_retain_avail s) (st_maxqos s) (ops_of h) t (al_get beq_bytes t (st_retained s)).
Proof.
  induction h as [|[[orc drops] o] r IH]; intros s t; cbn [run ops_of map snd]; [reflexivity|].
  rewrite IH. destruct (step_caps orc drops s o) as [-> ->]. rewrite step_retained.
  fold (ops_of r). rewrite latest_unfold. reflexivity.
Qed.

(* what a new subscription to f is sent from the store: exactly the latest retained message of every
   matching topic, once, with the retain flag set *)
Theorem retained_matching_latest mq ra deny (h : hist) f :
  forallb op_ok (ops_of h) = true ->
  let s := run (init mq ra deny) h in
  (forall m, In m (retained_matching s f) <->
             topic_matches f (m_topic m) = true /\ latest ra mq (ops_of h) (m_topic m) None = Some m)
  /\ NoDup (map m_topic (retained_matching s f))
  /\ (forall m, In m (retained_matching s f) -> m_retain m = true /\ m_payload m <> []).
Proof.
  intros OK s.
  assert (W : wf_state s) by (apply run_wf; [apply init_wf|exact OK]).
  destruct W as [_ [ND HR]].
  assert (L : forall t, al_get beq_bytes t (st_retained s) = latest ra mq (ops_of h) t None).
  { intro t. unfold s. rewrite latest_run. reflexivity. }
  unfold retained_matching. split; [|split].
  - intro m. rewrite in_map_iff. split.
    + intros [[t m'] [E HI]]. cbn in E. subst m'. apply filter_In in HI. destruct HI as [HI HT]. cbn in HT.
      destruct (HR t m HI) as [ET _]. subst t. split; [exact HT|]. rewrite <- L.
      apply (In_al_get beq_bytes beq_bytes_eq); assumption.
    + intros [HT HL]. rewrite <- L in HL. apply (al_get_In beq_bytes beq_bytes_eq) in HL.
      exists (m_topic m, m). split; [reflexivity|]. apply filter_In. split; assumption.
  - assert (E : map m_topic (map snd (filter (fun e => topic_matches f (fst e)) (st_retained s)))
                = map fst (filter (fun e => topic_matches f (fst e)) (st_retained s))).
    { rewrite map_map. apply map_ext_in. intros [t m] HI. apply filter_In in HI. destruct HI as [HI _].
      cbn. apply (HR t m HI). }
    rewrite E. apply NoDup_map_filter. exact ND.
  - intros m HI. apply in_map_iff in HI. destruct HI as [[t m'] [E HI]]. cbn in E. subst m'.
    apply filter_In in HI. destruct HI as [HI _]. destruct (HR t m HI) as [_ H2]. exact H2.
Qed.

Theorem retained_unavailable mq deny (h : hist) : st_retained (run (init mq false deny) h) = [].
Proof.
  assert (G : forall s, st_retain_avail s = false -> st_retained s = [] -> st_retained (run s h) = []).
  { induction h as [|[[orc drops] o] r IH]; intros s A E; cbn [run]; [exact E|].
    apply IH.
    - rewrite (proj2 (step_caps orc drops s o)). exact A.
    - assert (P : forall m, st_retained (fst (publish orc drops s m)) = []).
      { intro m. unfold publish. cbn [fst with_clients st_retained].
        match goal with |- context [if ?b then _ else _] => destruct b end; [|exact E].
        unfold retain_message. rewrite A. cbn. exact E. }
      destruct o; cbn [step]; unfold get_client.
      + destruct (al_get beq_bytes c (st_clients s)); [destruct clean|]; exact E.
      + destruct (al_get beq_bytes c (st_clients s)) as [cl|]; [destruct (cl_persist cl)|]; exact E.
      + destruct (al_get beq_bytes c (st_clients s)) as [cl|]; [|exact E].
        destruct (cl_conn cl); [|exact E]. destruct (subscribe_all _ _ _ _ _). exact E.
      + destruct (al_get beq_bytes c (st_clients s)) as [cl|]; [destruct (cl_conn cl)|]; exact E.
      + destruct (valid_pub_topic (m_topic m)); [apply P|exact E].
      + apply P.
      + destruct (valid_filter_spec f); exact E.
      + destruct (valid_filter_spec f); exact E. }
  apply G; reflexivity.
Qed.

(* ---------- C06: shared subscriptions ---------- *)
Lemma existsb_beq_In x l : existsb (beq_bytes x) l = true <-> In x l.
Proof.
  rewrite existsb_exists. split.
  - intros [y [HI E]]. apply beq_bytes_eq in E. subst. exact HI.
  - intro HI. exists x. split; [exact HI|apply beq_bytes_refl].
Qed.

Lemma nodupb_NoDup l : nodupb l = true <-> NoDup l.
Proof.
  induction l as [|x l IH]; cbn; [split; [constructor|reflexivity]|].
  rewrite andb_true_iff, negb_true_iff, IH. split.
  - intros [H1 H2]. constructor; [|exact H2]. intro HI. apply existsb_beq_In in HI. congruence.
  - intro ND. inversion ND as [|? ? NI ND']; subst. split; [|exact ND'].
    destruct (existsb (beq_bytes x) l) eqn:E; [|reflexivity]. apply existsb_beq_In in E. contradiction.
Qed.

Lemma nodup_b_In x l : In x (nodup_b l) <-> In x l.
Proof.
  induction l as [|y l IH]; cbn; [tauto|]. destruct (existsb (beq_bytes y) l) eqn:E.
  - rewrite IH. split; [tauto|]. intros [->|H]; [apply existsb_beq_In; exact E|exact H].
  - cbn. rewrite IH. tauto.
Qed.

Lemma nodup_b_NoDup l : NoDup (nodup_b l).
Proof.
  induction l as [|y l IH]; cbn; [constructor|]. destruct (existsb (beq_bytes y) l) eqn:E; [exact IH|].
  constructor; [|exact IH]. rewrite nodup_b_In. intro HI. apply existsb_beq_In in HI. congruence.
Qed.

Lemma NoDup_map_inj {A B} (g : A -> B) l x y : NoDup (map g l) -> In x l -> In y l -> g x = g y -> x = y.
Proof.
  induction l as [|z l IH]; cbn; intros ND HX HY E; [contradiction|]. inversion ND as [|? ? NI ND']; subst.
  destruct HX as [->|HX]; destruct HY as [->|HY]; try reflexivity.
  - exfalso. apply NI. rewrite E. apply in_map. exact HY.
  - exfalso. apply NI. rewrite <- E. apply in_map. exact HX.
  - apply IH; assumption.
Qed.

Lemma member_in_cands s t k c :
  is_member s k c = true -> shared_matches t k = true -> In (k, c) (shared_cands s t).
Proof.
  unfold is_member, get_client, shared_cands. intros HM HS.
  destruct (al_get beq_bytes c (st_clients s)) as [cl|] eqn:G; [|discriminate].
  rewrite al_mem_get in HM. destruct (al_get beq_bytes k (cl_subs cl)) as [o|] eqn:G2; [|discriminate].
  apply (al_get_In beq_bytes beq_bytes_eq) in G. apply (al_get_In beq_bytes beq_bytes_eq) in G2.
  apply in_flat_map. exists (c, cl). split; [exact G|]. cbn. apply in_map_iff. exists (k, o). split; [reflexivity|].
  apply filter_In. split; assumption.
Qed.

(* what a well-formed oracle is: one member per group (as the code identifies groups) *)
Theorem oracle_choice s t orc :
  wf_oracle s t orc = true ->
  NoDup (map fst orc)
  /\ (forall k c, In (k, c) orc -> shared_matches t k = true /\ is_member s k c = true /\ In k (shared_keys s t))
  /\ (forall k, In k (shared_keys s t) -> exists c, In (k, c) orc)
  /\ (forall k c c', In (k, c) orc -> In (k, c') orc -> c = c').
Proof.
  unfold wf_oracle. rewrite !andb_true_iff. intros [[H1 H2] H3]. apply nodupb_NoDup in H1.
  rewrite forallb_forall in H2. rewrite forallb_forall in H3.
  split; [exact H1|]. split; [|split].
  - intros k c HI. specialize (H2 (k, c) HI). cbn in H2. apply andb_true_iff in H2. destruct H2 as [A B].
    split; [exact A|]. split; [exact B|]. unfold shared_keys. apply in_map_iff. exists (k, c). split; [reflexivity|].
    apply member_in_cands; assumption.
  - intros k HI. specialize (H3 k HI). apply existsb_exists in H3. destruct H3 as [[k' c] [HI' E]]. cbn in E.
    apply beq_bytes_eq in E. subst k'. exists c. exact HI'.
  - intros k c c' A B.
    apply (In_al_get beq_bytes beq_bytes_eq _ _ _ H1) in A. apply (In_al_get beq_bytes beq_bytes_eq _ _ _ H1) in B. congruence.
Qed.

Lemma picks_none c cl t orc : (forall k, ~ In (k, c) orc) -> picks_of c cl t orc = [].
Proof.
  unfold picks_of. induction orc as [|[k0 c0] r IH]; intro H; cbn [flat_map fst snd]; [reflexivity|].
  rewrite IH by (intros k HI; apply (H k); right; exact HI).
  destruct (beq_bytes c0 c) eqn:E; [|reflexivity]. apply beq_bytes_eq in E. subst c0.
  exfalso. apply (H k0). left. reflexivity.
Qed.

(* a member that was not chosen and has no other matching subscription gets nothing *)
Theorem not_chosen_nothing s orc drops m c cl :
  nonshared_matching cl (m_topic m) = [] -> (forall k, ~ In (k, c) orc) -> deliver_to s orc drops m c cl = PNone.
Proof.
  intros HN HP. unfold deliver_to.
  assert (E : ent_subs c cl (m_topic m) orc = []) by (unfold ent_subs; rewrite HN, picks_none by exact HP; reflexivity).
  assert (HM := merged_client_spec c cl (m_topic m) orc). rewrite E in HM. rewrite HM; [reflexivity|constructor].
Qed.

(* the chosen member of a group is among the clients the message is merged for *)
Theorem chosen_entitled c cl t orc k o :
  In (k, c) orc -> shared_matches t k = true -> al_get beq_bytes k (cl_subs cl) = Some o ->
  In (k, o) (ent_subs c cl t orc).
Proof.
  intros HI HS G. unfold ent_subs. apply in_or_app. right. unfold picks_of. apply in_flat_map.
  exists (k, c). split; [exact HI|]. cbn. rewrite beq_bytes_refl, HS, G. left. reflexivity.
Qed.

Lemma filter_le_one {A} (p : A -> bool) (g : A -> bytes) l :
  NoDup (map g l) -> (forall x y, In x l -> In y l -> p x = true -> p y = true -> g x = g y) ->
  (length (filter p l) <= 1)%nat.
Proof.
  induction l as [|x l IH]; cbn; intros ND H; [lia|]. inversion ND as [|? ? NI ND']; subst.
  destruct (p x) eqn:PX.
  - assert (E : filter p l = []).
    { destruct (filter p l) as [|y r] eqn:EF; [reflexivity|]. exfalso.
      assert (HY : In y (filter p l)) by (rewrite EF; left; reflexivity). apply filter_In in HY. destruct HY as [HY PY].
      apply NI. rewrite (H x y); [apply in_map; exact HY|left; reflexivity|right; exact HY|exact PX|exact PY]. }
    rewrite E. cbn. lia.
  - apply IH; [exact ND'|]. intros a b HA HB. apply H; right; assumption.
Qed.

(* C06 as the property states it (groups = share names), outside the listed finding *)
Theorem one_pick_per_name s t orc g :
  wf_oracle s t orc = true -> KF_C06_group_by_filter s t = false ->
  In g (map share_group (shared_keys s t)) ->
  length (picks_for_name g orc) = 1%nat.
Proof.
  intros W KF HG. destruct (oracle_choice s t orc W) as [ND [HA [HB HC]]].
  unfold KF_C06_group_by_filter in KF. apply negb_false_iff in KF. apply nodupb_NoDup in KF.
  unfold picks_for_name.
  assert (LE : (length (filter (fun kc : bytes * cid => beq_bytes (share_group (fst kc)) g) orc) <= 1)%nat).
  { apply (filter_le_one _ fst); [exact ND|]. intros [k1 c1] [k2 c2] H1 H2 P1 P2. cbn [fst] in *.
    apply beq_bytes_eq in P1. apply beq_bytes_eq in P2.
    apply (NoDup_map_inj share_group (nodup_b (shared_keys s t))); [exact KF| | |congruence].
    - apply nodup_b_In. apply (HA k1 c1 H1).
    - apply nodup_b_In. apply (HA k2 c2 H2). }
  apply in_map_iff in HG. destruct HG as [k0 [E HK]]. destruct (HB k0 HK) as [c0 HI].
  assert (GE : In (k0, c0) (filter (fun kc : bytes * cid => beq_bytes (share_group (fst kc)) g) orc)).
  { apply filter_In. split; [exact HI|]. cbn. apply beq_bytes_eq. exact E. }
  destruct (filter (fun kc : bytes * cid => beq_bytes (share_group (fst kc)) g) orc); [destruct GE|]. cbn in *. lia.
Qed.

(* ---------- C40: inline subscriptions ---------- *)
Lemma nodup_N_In x l : In x (nodup_N l) <-> In x l.
Proof.
  induction l as [|y l IH]; cbn; [tauto|]. destruct (existsb (N.eqb y) l) eqn:E.
  - rewrite IH. split; [tauto|]. intros [->|H]; [|exact H]. apply existsb_exists in E. destruct E as [z [HZ EZ]].
    apply N.eqb_eq in EZ. subst. exact HZ.
  - cbn. rewrite IH. tauto.
Qed.

Lemma nodup_N_NoDup l : NoDup (nodup_N l).
Proof.
  induction l as [|y l IH]; cbn; [constructor|]. destruct (existsb (N.eqb y) l) eqn:E; [exact IH|].
  constructor; [|exact IH]. rewrite nodup_N_In. intro HI.
  assert (existsb (N.eqb y) l = true) by (apply existsb_exists; exists y; split; [exact HI|apply N.eqb_refl]). congruence.
Qed.

Lemma inline_ids_spec s t id : In id (inline_ids s t) <-> inline_matching s t id = true.
Proof.
  unfold inline_ids, inline_matching. rewrite nodup_N_In, in_map_iff, existsb_exists. split.
  - intros [[i f] [E HI]]. cbn in E. subst i. apply filter_In in HI. destruct HI as [HI HT]. exists (id, f).
    split; [exact HI|]. cbn in *. rewrite N.eqb_refl, HT. reflexivity.
  - intros [[i f] [HI E]]. cbn in E. apply andb_true_iff in E. destruct E as [E1 E2]. apply N.eqb_eq in E1. subst i.
    exists (id, f). split; [reflexivity|]. apply filter_In. split; assumption.
Qed.

Definition to_inline (id : N) (d : delivery) : bool := match d_to d with TInline i => i =? id | TClient _ => false end.

Lemma count_inline m id (l : list N) :
  NoDup l -> length (filter (to_inline id) (map (inline_delivery m) l)) = if existsb (N.eqb id) l then 1%nat else 0%nat.
Proof.
  induction l as [|x l IH]; intro ND; [reflexivity|]. inversion ND as [|? ? NI ND']; subst.
  cbn [map filter existsb].
  change (to_inline id (inline_delivery m x)) with (x =? id).
  rewrite (N.eqb_sym id x). destruct (x =? id) eqn:E; cbn [length orb].
  - rewrite IH by exact ND'. apply N.eqb_eq in E. subst x.
    assert (existsb (N.eqb id) l = false) as ->; [|reflexivity].
    destruct (existsb (N.eqb id) l) eqn:E2; [|reflexivity]. apply existsb_exists in E2. destruct E2 as [z [HZ EZ]].
    apply N.eqb_eq in EZ. subst. contradiction.
  - apply IH. exact ND'.
Qed.

(* every inline identifier with a matching subscription is called exactly once *)
Theorem inline_once s m id :
  length (filter (to_inline id) (route_inline s m)) = if inline_matching s (m_topic m) id then 1%nat else 0%nat.
Proof.
  unfold route_inline. rewrite count_inline by apply nodup_N_NoDup.
  destruct (inline_matching s (m_topic m) id) eqn:E.
  - apply inline_ids_spec in E. assert (existsb (N.eqb id) (inline_ids s (m_topic m)) = true) as ->; [|reflexivity].
    apply existsb_exists. exists id. split; [exact E|apply N.eqb_refl].
  - destruct (existsb (N.eqb id) (inline_ids s (m_topic m))) eqn:E2; [|reflexivity].
    apply existsb_exists in E2. destruct E2 as [z [HZ EZ]]. apply N.eqb_eq in EZ. subst z.
    apply inline_ids_spec in HZ. congruence.
Qed.

(* an inline publish cannot be excluded by No Local of a regular client *)
Lemma inline_no_kf c m L : beq_bytes (m_origin m) c = false -> KF_C03_nolocal_merge c m L = false.
Proof. intro E. unfold KF_C03_nolocal_merge. rewrite E. reflexivity. Qed.

Theorem inline_subscribe_step orc drops s id f :
  valid_filter_spec f = true ->
  let r := step orc drops s (OInlineSubscribe id f) in
  o_deliv (snd r) = map (fun m => inline_delivery m id) (retained_matching s f)
  /\ (forall t, topic_matches f t = true -> inline_matching (fst r) t id = true)
  /\ (forall i g, In (i, g) (st_inline s) -> In (i, g) (st_inline (fst r)))
  /\ st_clients (fst r) = st_clients s /\ st_retained (fst r) = st_retained s.
Proof.
  intro V. cbn [step]. rewrite V. cbn [fst snd o_deliv with_inline st_inline st_clients st_retained].
  split; [reflexivity|]. split; [|split; [|split; reflexivity]].
  - intros t HT. unfold inline_matching. cbn [st_inline]. apply existsb_exists.
    destruct (existsb (fun e : N * bytes => (fst e =? id) && beq_bytes (snd e) f) (st_inline s)) eqn:E.
    + apply existsb_exists in E. destruct E as [[i g] [HI E]]. cbn in E. apply andb_true_iff in E. destruct E as [E1 E2].
      apply beq_bytes_eq in E2. subst g. exists (i, f). split; [exact HI|]. cbn. rewrite E1, HT. reflexivity.
    + exists (id, f). split; [apply in_or_app; right; left; reflexivity|]. cbn. rewrite N.eqb_refl, HT. reflexivity.
  - intros i g HI. destruct (existsb _ (st_inline s)); [exact HI|apply in_or_app; left; exact HI].
Qed.

Theorem inline_unsubscribe_step orc drops s id f :
  valid_filter_spec f = true ->
  let r := step orc drops s (OInlineUnsubscribe id f) in
  o_deliv (snd r) = []
  /\ (forall i g, In (i, g) (st_inline (fst r)) <-> In (i, g) (st_inline s) /\ ~ (i = id /\ g = f))
  /\ st_clients (fst r) = st_clients s /\ st_retained (fst r) = st_retained s.
Proof.
  intro V. cbn [step]. rewrite V. cbn [fst snd o_deliv with_inline st_inline st_clients st_retained no_out].
  split; [reflexivity|]. split; [|split; reflexivity].
  intros i g. rewrite filter_In. cbn [fst snd]. rewrite negb_true_iff, andb_false_iff. split.
  - intros [HI [E|E]]; (split; [exact HI|]); intros [-> ->].
    + rewrite N.eqb_refl in E. discriminate.
    + rewrite beq_bytes_refl in E. discriminate.
  - intros [HI NE]. split; [exact HI|]. destruct (i =? id) eqn:E1; [|left; reflexivity]. right.
    destruct (beq_bytes g f) eqn:E2; [|reflexivity]. exfalso. apply NE. apply N.eqb_eq in E1. apply beq_bytes_eq in E2. tauto.
Qed.

(* unsubscribing (id, f) leaves every other identifier's deliveries untouched *)
Corollary inline_unsubscribe_others orc drops s id f t id' :
  valid_filter_spec f = true -> id' <> id ->
  inline_matching (fst (step orc drops s (OInlineUnsubscribe id f))) t id' = inline_matching s t id'.
Proof.
  intros V NE. destruct (inline_unsubscribe_step orc drops s id f V) as [_ [H _]].
  unfold inline_matching.
  apply eq_true_iff_eq. rewrite !existsb_exists. split.
  - intros [[i g] [HI E]]. exists (i, g). split; [|exact E]. apply H in HI. tauto.
  - intros [[i g] [HI E]]. exists (i, g). split; [|exact E]. apply H. split; [exact HI|]. intros [-> _].
    cbn in E. apply andb_true_iff in E. destruct E as [E _]. apply N.eqb_eq in E. congruence.
Qed.

(* ---------- the stored copy ---------- *)
(* publishToClient computes retain flag, identifiers and QoS BEFORE the message is stored for a client that
   cannot take it now; the stored copy is therefore the one a connected client would have been sent *)
Definition online (cl : client) : client :=
  mkCl true (cl_ver cl) (cl_rpi0 cl) (cl_persist cl) (cl_subs cl) (cl_pending cl).

Theorem stored_copy_same s c cl sub m dr d :
  publish_to_client s c cl sub m dr = PQueue d ->
  publish_to_client s c (online cl) sub m false = PSend (wire (online cl) d) /\ 0 < d_qos d.
Proof.
  unfold publish_to_client, online. cbn [cl_conn cl_ver negb].
  destruct (ms_nolocal sub && beq_bytes (m_origin m) c); [discriminate|].
  destruct (denied s c (m_topic m)); [discriminate|].
  destruct (negb (cl_conn cl)).
  - destruct (min3 (m_qos m) (ms_qos sub) (st_maxqos s) =? 0) eqn:E; [discriminate|].
    intro H. inversion H. subst d. cbn [d_qos]. split; [reflexivity|lia].
  - destruct dr; discriminate.
Qed.

(* a resumed session is sent exactly its stored copies, encoded for the new connection *)
Theorem resume_sends_stored orc drops s c ver persist rpi0 old :
  get_client s c = Some old ->
  o_deliv (snd (step orc drops s (OConnect c ver false persist rpi0)))
  = map (wire (mkCl true ver rpi0 (if ver <? 5 then true else persist) (cl_subs old) [])) (cl_pending old).
Proof. intro G. cbn [step]. rewrite G. cbn. reflexivity. Qed.
