(* Model of the topic index of topics.go (TopicsIndex and its particle tree), AFTER the fixes
   d67a363 49432f1 1c93a7c 4b7c369 in /repo.  A transliteration: same case splits, same order of effects.
   Pointers: a particle is identified by its path from the root (parent pointers become the path);
   Go maps are association lists (Alist.v) and every result that depends on map iteration order is
   compared as a set / multiset by the theorems.  No proofs in this file. *)
From MV Require Import Base.Val Topics.Levels Topics.Match Topics.Alist Topics.IndexSpec.
Open Scope N_scope.

(* packets.Subscription as far as the index is concerned: the filter string as given by the subscriber
   and the rest of the record as an opaque datum *)
Record sub := mkSub { sub_filter : bytes; sub_pay : N }.

(* the fields of a particle other than key / parent / particles *)
Record content := mkC {
  c_subs : list (bytes * sub);                   (* subscriptions:       client -> Subscription *)
  c_shared : list (bytes * list (bytes * sub));  (* shared:              group -> client -> Subscription *)
  c_inline : list (N * sub);                     (* inlineSubscriptions: id -> InlineSubscription *)
  c_retain : bytes                               (* retainPath, "" = none *)
}.
Definition empty_content : content := mkC [] [] [] [].

Inductive node := Node (c : content) (ch : list (level * node)).   (* ch = particles: key -> child *)
Definition cont (n : node) : content := match n with Node c _ => c end.
Definition children (n : node) : list (level * node) := match n with Node _ ch => ch end.
Definition new_particle : node := Node empty_content [].

Definition get_child (k : level) (ch : list (level * node)) : option node := al_get beq_bytes k ch.

(* ---------- SharedSubscriptions (topics.go:107-187) ---------- *)
Definition sh_get (g id : bytes) (m : list (bytes * list (bytes * sub))) : option sub :=
  match al_get beq_bytes g m with Some inner => al_get beq_bytes id inner | None => None end.
Definition sh_add (g id : bytes) (v : sub) (m : list (bytes * list (bytes * sub))) :=
  al_set beq_bytes g (al_set beq_bytes id v (match al_get beq_bytes g m with Some i => i | None => [] end)) m.
Definition sh_del (g id : bytes) (m : list (bytes * list (bytes * sub))) :=
  match al_get beq_bytes g m with
  | None => m                                   (* delete on a nil inner map and of an absent group: no-ops *)
  | Some i => let i' := al_del beq_bytes id i in
              if nilb i' then al_del beq_bytes g m else al_set beq_bytes g i' m
  end.
Fixpoint sh_len (m : list (bytes * list (bytes * sub))) : nat :=
  match m with [] => O | (_, i) :: r => (length i + sh_len r)%nat end.

(* ---------- set / seek / trim (topics.go:478-522) ---------- *)
(* seek: follow the keys; None = a particle is missing *)
Fixpoint seek (p : list level) (n : node) : option node :=
  match p with
  | [] => Some n
  | k :: p' => match get_child k (children n) with Some c => seek p' c | None => None end
  end.

(* set: create the missing particles along the keys (the caller then updates the final particle) *)
Fixpoint create (p : list level) (n : node) : node :=
  match p with
  | [] => n
  | k :: p' =>
      match get_child k (children n) with
      | Some c => Node (cont n) (al_set beq_bytes k (create p' c) (children n))
      | None => Node (cont n) (al_set beq_bytes k (create p' new_particle) (children n))
      end
  end.

(* in-place update of the fields of the particle at path p *)
Fixpoint modify (p : list level) (f : content -> content) (n : node) : node :=
  match p with
  | [] => Node (f (cont n)) (children n)
  | k :: p' =>
      match get_child k (children n) with
      | Some c => Node (cont n) (al_set beq_bytes k (modify p' f c) (children n))
      | None => n
      end
  end.

(* trim's loop condition without `n.parent != nil` *)
Definition is_empty (n : node) : bool :=
  nilb (c_retain (cont n)) &&
  Nat.eqb (length (children n) + length (c_subs (cont n)) + sh_len (c_shared (cont n)) + length (c_inline (cont n))) 0.

(* trim(n) for the particle at path p: going up from it, delete every particle that is empty, stop at
   the first that is not (a particle that keeps a child is not empty) or at the root *)
Fixpoint trim (p : list level) (n : node) : node :=
  match p with
  | [] => n
  | k :: p' =>
      match get_child k (children n) with
      | Some c => let c' := trim p' c in
                  if is_empty c' then Node (cont n) (al_del beq_bytes k (children n))
                  else Node (cont n) (al_set beq_bytes k c' (children n))
      | None => n
      end
  end.

Definition content_at (n : node) (p : list level) : content :=
  match seek p n with Some m => cont m | None => empty_content end.

(* ---------- the index ---------- *)
Record index := mkIx { ix_root : node; ix_ret : list (bytes * bytes) }.   (* root particle; Retained: topic -> payload *)
Definition ix_empty : index := mkIx new_particle [].

Definition set_subs v (c : content) := mkC v (c_shared c) (c_inline c) (c_retain c).
Definition set_shared v (c : content) := mkC (c_subs c) v (c_inline c) (c_retain c).
Definition set_inline v (c : content) := mkC (c_subs c) (c_shared c) v (c_retain c).
Definition set_retain v (c : content) := mkC (c_subs c) (c_shared c) (c_inline c) v.

Definition omem {A} (o : option A) : bool := match o with Some _ => true | None => false end.

(* Subscribe (topics.go:401) *)
Definition subscribe (x : index) (client filter : bytes) (pay : N) : index * N :=
  let '(prefix, _) := isolate filter 0 in
  if is_share_level prefix then
    let '(group, _) := isolate filter 1 in
    let p := path_of filter 2 in
    let r1 := create p (ix_root x) in
    let existed := omem (sh_get group client (c_shared (content_at r1 p))) in
    (mkIx (modify p (fun c => set_shared (sh_add group client (mkSub filter pay) (c_shared c)) c) r1) (ix_ret x),
     if existed then 0 else 1)
  else
    let p := path_of filter 0 in
    let r1 := create p (ix_root x) in
    let existed := omem (al_get beq_bytes client (c_subs (content_at r1 p))) in
    (mkIx (modify p (fun c => set_subs (al_set beq_bytes client (mkSub filter pay) (c_subs c)) c) r1) (ix_ret x),
     if existed then 0 else 1).

(* Unsubscribe (topics.go:423, after fix 4b7c369) *)
Definition unsubscribe (x : index) (filter client : bytes) : index * N :=
  let '(prefix, _) := isolate filter 0 in
  let share := is_share_level prefix in
  let p := path_of filter (if share then 2 else 0) in
  match seek p (ix_root x) with
  | None => (x, 0)
  | Some particle =>
      if share then
        let '(group, _) := isolate filter 1 in
        let existed := omem (sh_get group client (c_shared (cont particle))) in
        let r1 := modify p (fun c => set_shared (sh_del group client (c_shared c)) c) (ix_root x) in
        (mkIx (trim p r1) (ix_ret x), if existed then 1 else 0)
      else
        let existed := omem (al_get beq_bytes client (c_subs (cont particle))) in
        let r1 := modify p (fun c => set_subs (al_del beq_bytes client (c_subs c)) c) (ix_root x) in
        (mkIx (trim p r1) (ix_ret x), if existed then 1 else 0)
  end.

(* InlineSubscribe (topics.go:368): no share handling, the filter is used as it is *)
Definition inline_subscribe (x : index) (id : N) (filter : bytes) (pay : N) : index * N :=
  let p := path_of filter 0 in
  let r1 := create p (ix_root x) in
  let existed := omem (al_get N.eqb id (c_inline (content_at r1 p))) in
  (mkIx (modify p (fun c => set_inline (al_set N.eqb id (mkSub filter pay) (c_inline c)) c) r1) (ix_ret x),
   if existed then 0 else 1).

(* InlineUnsubscribe (topics.go:382, after fix 4b7c369) *)
Definition inline_unsubscribe (x : index) (id : N) (filter : bytes) : index * N :=
  let p := path_of filter 0 in
  match seek p (ix_root x) with
  | None => (x, 0)
  | Some particle =>
      let existed := omem (al_get N.eqb id (c_inline (cont particle))) in
      let r1 := modify p (fun c => set_inline (al_del N.eqb id (c_inline c)) c) (ix_root x) in
      let r2 := if nilb (al_del N.eqb id (c_inline (cont particle))) then trim p r1 else r1 in
      (mkIx r2 (ix_ret x), if existed then 1 else 0)
  end.

(* RetainMessage (topics.go:453).  The packet is (topic, payload); FixedHeader.Retain of a stored packet
   is true (the server only stores retained publishes; the harness does the same). *)
Definition retain_message (x : index) (topic payload : bytes) : index * N :=
  let p := path_of topic 0 in
  let r1 := create p (ix_root x) in
  if negb (nilb payload) then
    (mkIx (modify p (set_retain topic) r1) (al_set beq_bytes topic payload (ix_ret x)), 1)
  else
    let out := match al_get beq_bytes topic (ix_ret x) with
               | Some pl => if negb (nilb pl) then 2 else 0
               | None => 0
               end in
    (mkIx (trim p (modify p (set_retain []) r1)) (al_del beq_bytes topic (ix_ret x)), out).

(* x.Retained.Delete(topic) — server.go clearExpiredRetainedMessages; the particle keeps its retainPath *)
Definition expire_retained (x : index) (topic : bytes) : index * N :=
  (mkIx (ix_root x) (al_del beq_bytes topic (ix_ret x)), 0).

Definition t_step (x : index) (o : op) : index * N :=
  match o with
  | OSub c f pay => subscribe x c f pay
  | OUnsub c f => unsubscribe x f c
  | OInSub id f pay => inline_subscribe x id f pay
  | OInUnsub id f => inline_unsubscribe x id f
  | ORetain t pl => retain_message x t pl
  | OExpire t => expire_retained x t
  end.
Fixpoint t_run (x : index) (ops : list op) : index :=
  match ops with [] => x | o :: r => t_run (fst (t_step x o)) r end.
Definition run (ops : list op) : index := t_run ix_empty ops.

(* ---------- Subscribers / scanSubscribers / gather* (topics.go:583-690, after d67a363 49432f1) ---------- *)
Record scan_res := mkR {
  r_cl : list (bytes * bytes * N);      (* Subscriptions: (client, filter, data) gathered; Go merges per client *)
  r_sh : list (bytes * bytes * N);      (* Shared[filter][client] *)
  r_in : list (N * bytes * N)           (* InlineSubscriptions[id]; a later entry for an id replaces an earlier one *)
}.
Definition res_empty : scan_res := mkR [] [] [].
Definition res_app (a b : scan_res) : scan_res := mkR (r_cl a ++ r_cl b) (r_sh a ++ r_sh b) (r_in a ++ r_in b).

Definition first_is_wild (f : bytes) : bool := match f with c :: _ => (c =? 43) || (c =? 35) | [] => false end.

Definition gather_subs (topic : bytes) (c : content) : list (bytes * bytes * N) :=
  flat_map (fun e : bytes * sub =>
              let (client, s) := e in
              if negb (nilb (sub_filter s)) && starts_dollar topic && first_is_wild (sub_filter s) then []
              else [(client, sub_filter s, sub_pay s)]) (c_subs c).
Definition gather_shared (c : content) : list (bytes * bytes * N) :=
  flat_map (fun g : bytes * list (bytes * sub) =>
              map (fun e : bytes * sub => (fst e, sub_filter (snd e), sub_pay (snd e))) (snd g)) (c_shared c).
Definition gather_inline (c : content) : list (N * bytes * N) :=
  map (fun e : N * sub => (fst e, sub_filter (snd e), sub_pay (snd e))) (c_inline c).
Definition gather_all (topic : bytes) (c : content) : scan_res :=
  mkR (gather_subs topic c) (gather_shared c) (gather_inline c).

(* scanSubscribers(topic, d, n, subs): ks = the levels of topic from d on (key = head, hasNext = a tail
   exists), top = (d == 0) *)
Fixpoint scan_subs (topic : bytes) (top : bool) (ks : list level) (n : node) : scan_res :=
  match ks with
  | [] => res_empty
  | key :: rest =>
      let hasNext := negb (nilb rest) in
      let dollar := top && starts_dollar topic in
      let visit (partKey : level) : scan_res :=
        if dollar && is_plus partKey then res_empty else
        match get_child partKey (children n) with
        | Some particle =>
            if hasNext then scan_subs topic false rest particle
            else res_app (gather_all topic (cont particle))
                         (match get_child [35] (children particle) with
                          | Some wild => gather_all topic (cont wild)
                          | None => res_empty
                          end)
        | None => res_empty
        end in
      res_app (res_app (visit key) (visit [43]))
              (match get_child [35] (children n) with
               | Some particle => if dollar then res_empty else gather_all topic (cont particle)
               | None => res_empty
               end)
  end.

Definition subscribers (x : index) (topic : bytes) : scan_res :=
  if nilb topic then res_empty else scan_subs topic true (path_of topic 0) (ix_root x).

(* ---------- Messages / scanMessages (topics.go:525-590, after 1c93a7c) ---------- *)
Definition msg : Type := bytes * bytes.    (* the retained packet: topic, payload *)
Definition ret_lookup (ret : list (bytes * bytes)) (path : bytes) : list msg :=
  match al_get beq_bytes path ret with Some pl => [(path, pl)] | None => [] end.
Definition own_msg (ret : list (bytes * bytes)) (c : content) : list msg :=
  if nilb (c_retain c) then [] else ret_lookup ret (c_retain c).

(* the recursion below a '#': isolateParticle beyond the last level keeps returning "#", hasNext = false,
   d > 0: the particle's own message, then every child *)
Fixpoint scan_hash (ret : list (bytes * bytes)) (n : node) : list msg :=
  match n with
  | Node c ch =>
      own_msg ret c ++
      (fix go (l : list (level * node)) : list msg :=
         match l with [] => [] | (_, a) :: l' => scan_hash ret a ++ go l' end) ch
  end.

Fixpoint scan_msgs (ret : list (bytes * bytes)) (top : bool) (fs : list level) (n : node) : list msg :=
  match fs with
  | [] => []
  | key :: rest =>
      let hasNext := negb (nilb rest) in
      if is_plus key || is_hash key then
        (if is_hash key then own_msg ret (cont n) else []) ++
        flat_map (fun e : level * node =>
                    let (k, adjacent) := e in
                    if top && starts_dollar k then [] else
                    (if negb hasNext && negb (is_hash key) then own_msg ret (cont adjacent) else []) ++
                    (if hasNext then scan_msgs ret false rest adjacent
                     else if is_hash key then scan_hash ret adjacent else []))
                 (children n)
      else
        match get_child key (children n) with
        | Some particle =>
            if hasNext then scan_msgs ret false rest particle
            else ret_lookup ret (c_retain (cont particle))
        | None => []
        end
  end.

Definition messages (x : index) (filter : bytes) : list msg :=
  if nilb filter || nilb (ix_ret x) then []
  else if negb (has 35 filter) && negb (has 43 filter) then ret_lookup (ix_ret x) filter
  else scan_msgs (ix_ret x) true (path_of filter 0) (ix_root x).
