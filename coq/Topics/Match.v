(* MQTT topic matching — the SPECIFICATION (MQTT 5 section 4.7, 4.8.2), written from the standard as in
   DESIGN appendix G, not from topics.go.  No proofs in this file. *)
From MV Require Import Base.Val Topics.Levels.
Open Scope N_scope.

Definition is_hash (l : level) : bool := beq_bytes l [35].     (* "#" *)
Definition is_plus (l : level) : bool := beq_bytes l [43].     (* "+" *)

Fixpoint lv_match (f t : list level) : bool :=
  match f with
  | [] => match t with [] => true | _ => false end
  | h :: f' =>
      if is_hash h then match f' with [] => true | _ => false end     (* parent and every descendant *)
      else match t with
           | [] => false
           | x :: t' => (is_plus h || beq_bytes h x) && lv_match f' t'   (* '+' = exactly one level *)
           end
  end.

Definition starts_dollar (t : bytes) : bool := match t with c :: _ => c =? 36 | [] => false end.
Definition leading_wild (ls : list level) : bool :=
  match ls with h :: _ => is_hash h || is_plus h | [] => false end.

Definition topic_matches (f t : bytes) : bool :=
  if starts_dollar t && leading_wild (split f) then false else lv_match (split f) (split t).

(* ---------- shared subscriptions: $share/<group>/<filter> ---------- *)
(* The broker recognises the share prefix with strings.EqualFold(prefix, "$SHARE") (Unicode simple case
   folding: ASCII case, plus U+017F LATIN SMALL LETTER LONG S = C5 BF for 'S').  Which subscriptions are
   shared is an input of the matching rules, so the same predicate is used on the specification side;
   C30 is about which filters are admitted at all. *)
Fixpoint fold_match (pat : bytes) (s : bytes) : bool :=
  match pat with
  | [] => nilb s
  | p :: pr =>
      match s with
      | [] => false
      | c :: r =>
          if (c =? p) || ((65 <=? p) && (p <=? 90) && (c =? p + 32)) then fold_match pr r
          else if (p =? 83) && (c =? 197)
               then match r with c2 :: r' => (c2 =? 191) && fold_match pr r' | [] => false end
               else false
      end
  end.
Definition is_share_level (l : level) : bool := fold_match [36; 83; 72; 65; 82; 69] l.

Definition is_share (f : bytes) : bool :=
  match split f with h :: _ => is_share_level h | [] => false end.
Definition share_group (f : bytes) : bytes := nth 1 (split f) [].
Definition drop_levels (n : nat) (f : bytes) : bytes := join (skipn n (split f)).
Definition eff_filter (f : bytes) : bytes := if is_share f then drop_levels 2 f else f.   (* $share/<g>/… *)

(* ---------- validity (MQTT 4.7.1, 4.7.3, 4.8.2) ---------- *)
(* topic names: at least one character, no wildcard characters *)
Definition valid_topicb (t : bytes) : bool := negb (nilb t) && negb (has 35 t) && negb (has 43 t).
Definition valid_topic (t : bytes) : Prop := valid_topicb t = true.

Fixpoint levels_ok (ls : list level) : bool :=               (* '#' only as whole last level, '+' only whole levels *)
  match ls with
  | [] => true
  | l :: r => (if has 35 l then is_hash l && nilb r else true) && (if has 43 l then is_plus l else true)
              && levels_ok r
  end.
Definition valid_filter_spec (s : bytes) : bool :=
  negb (nilb s) && levels_ok (split s) &&
  (if is_share s then
     match split s with
     | _ :: g :: (_ :: _) as rest =>
         negb (nilb g) && negb (has 35 g) && negb (has 43 g) && negb (nilb (join (tl (tl (split s)))))
     | _ => false
     end
   else true).
Definition valid_filter (f : bytes) : Prop := valid_filter_spec f = true.

(* checked values of appendix G *)
Example match_examples :
  topic_matches (tag "a/#") (tag "a") = true /\ topic_matches (tag "+/#") (tag "a") = true /\
  topic_matches (tag "a/+") (tag "a") = false /\ topic_matches (tag "a/+") (tag "a/") = true /\
  topic_matches (tag "+") (tag "a/b") = false /\ topic_matches (tag "#") (tag "$SYS/x") = false /\
  topic_matches (tag "+/x") (tag "$foo/x") = false /\ topic_matches (tag "$SYS/#") (tag "$SYS/x") = true /\
  topic_matches (tag "a") (tag "a/b") = false /\ topic_matches (tag "/#") (tag "/") = true /\
  topic_matches (eff_filter (tag "$share/g/a/+")) (tag "a/b") = true /\
  topic_matches (eff_filter (tag "$share/g/+/b")) (tag "$x/b") = false.
Proof. vm_compute. repeat split. Qed.
