(* Facts about split / join / cut / isolate / path_of. *)
From MV Require Import Base.Val Topics.Levels.
From Coq Require Import Lia.
Open Scope N_scope.

Lemma beq_bytes_eq a b : beq_bytes a b = true <-> a = b.
Proof.
  revert b. induction a as [|x a IH]; intros [|y b]; cbn; split; intro H; try congruence; try discriminate.
  - apply andb_true_iff in H. destruct H as [H1 H2]. apply N.eqb_eq in H1. apply IH in H2. congruence.
  - inversion H; subst. rewrite N.eqb_refl. cbn. apply IH. reflexivity.
Qed.

Lemma beq_bytes_refl a : beq_bytes a a = true.
Proof. apply beq_bytes_eq. reflexivity. Qed.

Lemma beq_bytes_neq a b : beq_bytes a b = false <-> a <> b.
Proof.
  split; intro H.
  - intro E. apply beq_bytes_eq in E. congruence.
  - destruct (beq_bytes a b) eqn:E; [|reflexivity]. apply beq_bytes_eq in E. contradiction.
Qed.

Lemma beq_levels_eq a b : beq_levels a b = true <-> a = b.
Proof.
  revert b. induction a as [|x a IH]; intros [|y b]; cbn; split; intro H; try congruence; try discriminate.
  - apply andb_true_iff in H. destruct H as [H1 H2]. apply beq_bytes_eq in H1. apply IH in H2. congruence.
  - inversion H; subst. rewrite beq_bytes_refl. cbn. apply IH. reflexivity.
Qed.

(* ---------- split in terms of cut ---------- *)
Lemma split_aux_cut cur s :
  split_aux cur s = match cut s with
                    | None => [rev cur ++ s]
                    | Some (a, r) => (rev cur ++ a) :: split r
                    end.
Proof.
  revert cur. induction s as [|c s IH]; intro cur; cbn [split_aux cut].
  - rewrite app_nil_r. reflexivity.
  - destruct (c =? 47) eqn:E.
    + rewrite app_nil_r. reflexivity.
    + rewrite IH. destruct (cut s) as [[a r]|]; cbn [rev]; rewrite <- app_assoc; reflexivity.
Qed.

Lemma split_cut s : split s = match cut s with None => [s] | Some (a, r) => a :: split r end.
Proof. unfold split at 1. rewrite split_aux_cut. reflexivity. Qed.

Lemma cut_length s a r : cut s = Some (a, r) -> (length s = length a + length r + 1)%nat.
Proof.
  revert a r. induction s as [|c s IH]; intros a r H; cbn in H; [discriminate|].
  destruct (c =? 47).
  - inversion H; subst. cbn. lia.
  - destruct (cut s) as [[a' r']|]; [|discriminate]. inversion H; subst.
    specialize (IH _ _ eq_refl). cbn. lia.
Qed.

Lemma cut_none_has s : cut s = None <-> has 47 s = false.
Proof.
  induction s as [|c s IH]; cbn; [tauto|].
  destruct (c =? 47); cbn; [split; discriminate|].
  destruct (cut s) as [[a r]|].
  - split; intro H; [discriminate|]. apply IH in H. discriminate.
  - split; intro H; [|reflexivity]. apply IH. reflexivity.
Qed.

Lemma cut_some_noslash s a r : cut s = Some (a, r) -> has 47 a = false /\ s = a ++ 47 :: r.
Proof.
  revert a r. induction s as [|c s IH]; intros a r H; cbn in H; [discriminate|].
  destruct (c =? 47) eqn:E.
  - inversion H; subst. apply N.eqb_eq in E. subst. split; reflexivity.
  - destruct (cut s) as [[a' r']|]; [|discriminate]. inversion H; subst.
    destruct (IH _ _ eq_refl) as [H1 H2]. cbn. rewrite E, H1. split; [reflexivity|]. rewrite H2 at 1. reflexivity.
Qed.

Lemma cut_app a r : has 47 a = false -> cut (a ++ 47 :: r) = Some (a, r).
Proof.
  induction a as [|c a IH]; cbn; intro H; [reflexivity|].
  apply orb_false_iff in H. destruct H as [H1 H2]. rewrite H1, (IH H2). reflexivity.
Qed.

(* strong induction on the length of the string *)
Lemma bytes_len_ind (P : bytes -> Prop) :
  (forall s, (forall r, (length r < length s)%nat -> P r) -> P s) -> forall s, P s.
Proof.
  intros H s. remember (length s) as n eqn:E. revert s E.
  induction n as [n IH] using lt_wf_ind. intros s E. apply H. intros r L. eapply IH; [|reflexivity]. lia.
Qed.

Lemma split_nonempty s : split s <> [].
Proof. rewrite split_cut. destruct (cut s) as [[a r]|]; discriminate. Qed.

Lemma join_split s : join (split s) = s.
Proof.
  induction s as [s IH] using bytes_len_ind. rewrite split_cut.
  destruct (cut s) as [[a r]|] eqn:C; [|reflexivity].
  pose proof (cut_length _ _ _ C) as L. destruct (cut_some_noslash _ _ _ C) as [_ E].
  cbn [join]. pose proof (split_nonempty r) as NE. destruct (split r) as [|x y] eqn:Sr; [contradiction|].
  rewrite <- Sr, IH by lia. symmetry. exact E.
Qed.

Lemma split_inj a b : split a = split b -> a = b.
Proof. intro H. rewrite <- (join_split a), <- (join_split b), H. reflexivity. Qed.

Definition noslash (ls : list level) : Prop := Forall (fun l => has 47 l = false) ls.

Lemma split_noslash s : noslash (split s).
Proof.
  induction s as [s IH] using bytes_len_ind. rewrite split_cut.
  destruct (cut s) as [[a r]|] eqn:C.
  - pose proof (cut_length _ _ _ C) as L. destruct (cut_some_noslash _ _ _ C) as [N _].
    constructor; [exact N|]. apply IH. lia.
  - constructor; [|constructor]. apply cut_none_has. exact C.
Qed.

Lemma split_join ls : ls <> [] -> noslash ls -> split (join ls) = ls.
Proof.
  induction ls as [|l r IH]; intros NE NS; [contradiction|]. inversion NS as [|? ? Hl Hr]; subst.
  destruct r as [|l2 r2].
  - cbn [join]. rewrite split_cut. apply cut_none_has in Hl. rewrite Hl. reflexivity.
  - change (join (l :: l2 :: r2)) with (l ++ 47 :: join (l2 :: r2)).
    rewrite split_cut, (cut_app _ _ Hl). f_equal. apply IH; [discriminate|exact Hr].
Qed.

Lemma split_length_le s : (length (split s) <= S (length s))%nat.
Proof.
  induction s as [s IH] using bytes_len_ind. rewrite split_cut.
  destruct (cut s) as [[a r]|] eqn:C; [|cbn; lia].
  pose proof (cut_length _ _ _ C) as L. cbn [length]. specialize (IH r). lia.
Qed.

Lemma split_nil : split [] = [[]].
Proof. reflexivity. Qed.

Lemma split_single_nil s : split s = [[]] -> s = [].
Proof. intro H. apply split_inj. rewrite H. reflexivity. Qed.

(* first byte of a string = first byte of its first level, unless it is a '/' *)
Lemma split_head_first c s : c <> 47 -> exists l rest, split (c :: s) = (c :: l) :: rest.
Proof.
  intro NE. rewrite split_cut. cbn [cut]. apply N.eqb_neq in NE. rewrite NE.
  destruct (cut s) as [[a r]|]; eauto.
Qed.

(* ---------- isolate / path_of ---------- *)
Lemma isolate_spec f d :
  isolate f d = if (S d <? length (split f))%nat then (nth d (split f) [], true)
                else (last (split f) [], false).
Proof.
  revert f. induction d as [|d IH]; intro f; cbn [isolate]; rewrite (split_cut f).
  - destruct (cut f) as [[a r]|]; [|reflexivity].
    pose proof (split_nonempty r) as NE. destruct (split r) eqn:Sr; [contradiction|]. reflexivity.
  - destruct (cut f) as [[a r]|]; [|reflexivity]. rewrite IH.
    pose proof (split_nonempty r) as NE. destruct (split r) as [|x y] eqn:Sr; [contradiction|].
    cbn [length nth]. change (S (S d) <? S (S (length y)))%nat with (S d <? S (length y))%nat.
    destruct (S d <? S (length y))%nat; reflexivity.
Qed.

Lemma walk_spec fuel f d : (d < length (split f))%nat -> (length (split f) - d <= fuel)%nat ->
  walk fuel f d = skipn d (split f).
Proof.
  revert d. induction fuel as [|fu IH]; intros d L1 L2; [lia|].
  cbn [walk]. rewrite isolate_spec. destruct (S d <? length (split f))%nat eqn:E.
  - apply Nat.ltb_lt in E. rewrite IH by lia.
    clear - L1. revert d L1. induction (split f) as [|x l IHl]; intros d L1; cbn in L1; [lia|].
    destruct d; [reflexivity|]. cbn [nth skipn]. destruct l as [|y l']; [cbn in L1; lia|].
    apply IHl. cbn in *. lia.
  - apply Nat.ltb_ge in E. assert (D : d = (length (split f) - 1)%nat) by lia.
    clear - D L1. revert d D L1. induction (split f) as [|x l IHl]; intros d D L1; cbn in L1; [lia|].
    destruct l as [|y l'].
    + cbn in D. subst d. reflexivity.
    + destruct d; [cbn in D; lia|]. cbn [skipn]. change (last (x :: y :: l') []) with (last (y :: l') []).
      apply IHl; cbn in *; lia.
Qed.

Lemma walk_over fuel f d : (length (split f) <= d)%nat -> walk (S fuel) f d = [last (split f) []].
Proof.
  intro L. cbn [walk]. rewrite isolate_spec.
  replace (S d <? length (split f))%nat with false; [reflexivity|]. symmetry. apply Nat.ltb_ge. lia.
Qed.

Lemma path_of_spec f d :
  path_of f d = if (d <? length (split f))%nat then skipn d (split f) else [last (split f) []].
Proof.
  unfold path_of. destruct (d <? length (split f))%nat eqn:E.
  - apply Nat.ltb_lt in E. apply walk_spec; [exact E|]. pose proof (split_length_le f). lia.
  - apply Nat.ltb_ge in E. apply walk_over. exact E.
Qed.

Lemma path_of_0 f : path_of f 0 = split f.
Proof.
  rewrite path_of_spec. pose proof (split_nonempty f). destruct (split f); [contradiction|reflexivity].
Qed.
