(* The topic index under concurrency: if every exported mutator runs atomically (x.root.Lock() held from
   its first to its last statement), then for every schedule the return values and the final index are those
   of the set / map specification under a serial order consistent with every goroutine's program order. *)
From MV Require Import Base.Val Topics.Levels Topics.Match Topics.Alist Topics.IndexSpec Topics.Trie
  Topics.TrieInv Topics.TrieRefine Topics.TrieSelect Topics.TrieMsgs Topics.Lin Topics.LinProofs.
From Coq Require Import Lia Permutation.
Open Scope N_scope.

Lemma seq_run_t : forall ops x, seq_run t_step x ops = (t_run x ops, t_rets x ops).
Proof.
  induction ops as [|o ops IH]; intro x; cbn [seq_run t_run t_rets]; [reflexivity|].
  destruct (t_step x o) as [x' v] eqn:E. cbn [fst snd]. rewrite IH. reflexivity.
Qed.

Lemma run_sched_ops {St Op Rv} (step : St -> Op -> St * Rv) : forall sched st rest stf restf h,
  run_sched step sched st rest = (stf, restf, h) ->
  forall t o v, In (t, o, v) h -> In o (concat rest).
Proof.
  induction sched as [|t sc IH]; intros st rest stf restf h H; cbn [run_sched] in H.
  - inversion H; subst. intros ? ? ? [].
  - destruct (nth_error rest t) as [[|o os]|] eqn:N; try (eapply IH; exact H).
    destruct (step st o) as [st' v] eqn:E.
    destruct (run_sched step sc st' (upd_nth rest t os)) as [[stf' restf'] h'] eqn:R.
    inversion H; subst. intros t2 o2 v2 [HI|HI].
    + inversion HI; subst. apply in_concat. exists (o2 :: os). split; [eapply nth_error_In; exact N|left; reflexivity].
    + pose proof (IH _ _ _ _ _ R _ _ _ HI) as HC. apply in_concat in HC. destruct HC as (th & H1 & H2).
      apply in_concat. clear - N H1 H2. revert t N H1. induction rest as [|r rest IHr]; intros [|t] N H1; cbn in *; try discriminate.
      * inversion N; subst. destruct H1 as [E1|H1]; [subst th; exists (o :: os); split; [left; reflexivity|right; exact H2]|].
        exists th. split; [right; exact H1|exact H2].
      * destruct H1 as [E1|H1]; [subst th; exists r; split; [left; reflexivity|exact H2]|].
        destruct (IHr _ N H1) as (th' & A & B). exists th'. split; [right; exact A|exact B].
Qed.

Theorem index_linearizable : forall prog sched xf restf h, wf_ops (concat prog) ->
  run_sched t_step sched ix_empty prog = (xf, restf, h) ->
  let serial := map (fun e : nat * op * N => snd (fst e)) h in
  (forall t, proj t h ++ nth t restf [] = nth t prog []) /\
  map snd h = a_rets a_empty serial /\
  R xf (a_run a_empty serial).
Proof.
  intros prog sched xf restf h W H serial.
  destruct (sched_serial t_step _ _ _ _ _ _ H) as (S1 & S2 & _).
  fold serial in S1. rewrite seq_run_t in S1. injection S1 as E1 E2.
  assert (Ws : wf_ops serial).
  { unfold wf_ops in *. rewrite Forall_forall in *. intros o HI. unfold serial in HI. apply in_map_iff in HI.
    destruct HI as ([[t o'] v] & <- & HI). cbn [fst snd]. apply W. eapply run_sched_ops; eassumption. }
  split; [exact S2|]. split.
  - rewrite <- E2. apply rets_R; [apply R_empty|exact Ws].
  - rewrite <- E1. apply run_R; [apply R_empty|exact Ws].
Qed.
