(* WIP *)
(* The particle tree refines the abstract index: every operation of topics.go keeps the relation R and
   returns what the set / map specification returns; Subscribers selects exactly the matching
   subscriptions (C01, C31 sequential part, topics part of C40). *)
From MV Require Import Base.Val Topics.Levels Topics.LevelsProofs Topics.Match Topics.Alist Topics.AlistProofs
  Topics.IndexSpec Topics.Trie Topics.TrieInv Topics.TrieScan Topics.TrieRel.
From Coq Require Import Lia.
Open Scope N_scope.

Record R (x : index) (a : astate) : Prop := mkRrel {
  R_wf : wf_node (ix_root x);
  R_root : cont (ix_root x) = empty_content;
  R_cl : Rcl (content_at (ix_root x)) (a_cl a);
  R_sh : Rsh (content_at (ix_root x)) (a_sh a);
  R_in : Rin (content_at (ix_root x)) (a_in a);
  R_ret : ix_ret x = a_ret a;
  R_rp : Rrp (content_at (ix_root x)) (ix_ret x);
  R_nd : NoDup (keys (a_cl a)) /\ NoDup (keys (a_sh a)) /\ NoDup (keys (a_in a)) /\ NoDup (keys (a_ret a))
}.

Lemma R_empty : R ix_empty a_empty.
Proof.
  constructor; cbn.
  - apply wf_new_particle.
  - reflexivity.
  - split; intros; rewrite content_at_new in *; cbn in *; [reflexivity|discriminate].
  - split; intros; rewrite content_at_new in *; cbn in *; [reflexivity|discriminate].
  - split; intros; rewrite content_at_new in *; cbn in *; [reflexivity|discriminate].
  - reflexivity.
  - split; intros; [discriminate|]. rewrite content_at_new in *. cbn in *. contradiction.
  - repeat split; constructor.
Qed.

(* ---------- point updates ---------- *)
Definition upd (r r' : node) (p : list level) (F : content -> content) : Prop :=
  forall q, content_at r' q = if beq_levels q p then F (content_at r p) else content_at r q.

Lemma upd_other {A} (proj : content -> A) r r' p F :
  upd r r' p F -> (forall c, proj (F c) = proj c) -> forall q, proj (content_at r' q) = proj (content_at r q).
Proof.
  intros U H q. rewrite U. destruct (beq_levels q p) eqn:E; [|reflexivity].
  apply beq_levels_eq in E. subst q. apply H.
Qed.

Lemma upd_same {A} (proj : content -> A) (G : A -> A) r r' p F :
  upd r r' p F -> (forall c, proj (F c) = G (proj c)) ->
  forall q, proj (content_at r' q) = if beq_levels q p then G (proj (content_at r q)) else proj (content_at r q).
Proof.
  intros U H q. rewrite U. destruct (beq_levels q p) eqn:E; [|reflexivity].
  apply beq_levels_eq in E. subst q. apply H.
Qed.

Lemma upd_root r r' p F : upd r r' p F -> p <> [] -> cont r' = cont r.
Proof. intros U NE. specialize (U []). destruct p; [contradiction|]. exact U. Qed.

Lemma upd_set p F r : upd r (modify p F (create p r)) p F.
Proof. intro q. apply content_at_update. Qed.

Lemma upd_trim p F r : wf_node r -> (forall c, wf_content c -> wf_content (F c)) -> seek p r <> None ->
  upd r (trim p (modify p F r)) p F.
Proof.
  intros W HF S q. rewrite content_at_trim by (apply modify_wf; assumption). apply content_at_modify. exact S.
Qed.

Lemma upd_modify p F r : seek p r <> None -> upd r (modify p F r) p F.
Proof. intros S q. apply content_at_modify. exact S. Qed.

Lemma upd_none p F r : seek p r = None -> F empty_content = empty_content -> upd r r p F.
Proof.
  intros S HF q. destruct (beq_levels q p) eqn:E; [|reflexivity]. apply beq_levels_eq in E. subst q.
  unfold content_at. rewrite S. symmetry. exact HF.
Qed.

(* ---------- the levels the operations use ---------- *)
Lemma nth_last_single {A} (l : list A) d : length l = 1%nat -> last l d = nth 0 l d.
Proof. destruct l as [|x [|y l]]; cbn; intros; try lia; reflexivity. Qed.

Lemma isolate_0 f : fst (isolate f 0) = nth 0 (split f) [].
Proof.
  rewrite isolate_spec. pose proof (split_nonempty f) as NE.
  destruct (1 <? length (split f))%nat eqn:E; [reflexivity|]. apply Nat.ltb_ge in E. cbn [fst].
  apply nth_last_single. destruct (split f); [contradiction|]. cbn in *. unfold level in *. lia.
Qed.

Lemma is_share_isolate f : is_share_level (fst (isolate f 0)) = is_share f.
Proof.
  rewrite isolate_0. unfold is_share. pose proof (split_nonempty f). destruct (split f); [contradiction|reflexivity].
Qed.

Lemma isolate_1 f : (2 < length (split f))%nat -> fst (isolate f 1) = share_group f.
Proof.
  intro L. rewrite isolate_spec. replace (2 <? length (split f))%nat with true; [reflexivity|].
  symmetry. apply Nat.ltb_lt. exact L.
Qed.

Lemma path_of_2 f : (2 < length (split f))%nat -> path_of f 2 = skipn 2 (split f).
Proof.
  intro L. rewrite path_of_spec. replace (2 <? length (split f))%nat with true; [reflexivity|].
  symmetry. apply Nat.ltb_lt. exact L.
Qed.

Lemma noslash_skipn n ls : noslash ls -> noslash (skipn n ls).
Proof.
  revert ls. induction n as [|n IH]; intros ls H; [exact H|]. destruct ls; [exact H|].
  cbn [skipn]. apply IH. inversion H; assumption.
Qed.

Lemma eff_split f : is_share f = true -> (2 < length (split f))%nat -> split (eff_filter f) = skipn 2 (split f).
Proof.
  intros S L. unfold eff_filter, drop_levels. rewrite S. apply split_join.
  - intro H. apply (f_equal (@length _)) in H. rewrite skipn_length in H. cbn in H. lia.
  - apply noslash_skipn. apply split_noslash.
Qed.

Lemma eff_nonshare f : is_share f = false -> eff_filter f = f.
Proof. intro S. unfold eff_filter. rewrite S. reflexivity. Qed.

Lemma path_of_nonempty f d : path_of f d <> [].
Proof. unfold path_of. cbn [walk]. destruct (isolate f d). discriminate. Qed.

Lemma omem_map {A B} (g : A -> B) o : omem (option_map g o) = omem o.
Proof. destruct o; reflexivity. Qed.

Lemma empty_F_subs_del c : set_subs (al_del beq_bytes c (c_subs empty_content)) empty_content = empty_content.
Proof. reflexivity. Qed.
Lemma empty_F_sh_del g c : set_shared (sh_del g c (c_shared empty_content)) empty_content = empty_content.
Proof. reflexivity. Qed.
Lemma empty_F_in_del c : set_inline (al_del N.eqb c (c_inline empty_content)) empty_content = empty_content.
Proof. reflexivity. Qed.

Lemma seek_content r p m : seek p r = Some m -> cont m = content_at r p.
Proof. intro S. unfold content_at. rewrite S. reflexivity. Qed.

(* ---------- Subscribe ---------- *)
Lemma subscribe_R x a c f pay : R x a -> wf_opb (OSub c f pay) = true ->
  R (fst (subscribe x c f pay)) (fst (a_step a (OSub c f pay))) /\
  snd (subscribe x c f pay) = snd (a_step a (OSub c f pay)).
Proof.
  intros [Wf Rt Cl Sh In Re Rp (N1 & N2 & N3 & N4)] WO. unfold subscribe. cbn [a_step wf_opb] in *.
  destruct (isolate f 0) as [prefix hn0] eqn:I0.
  assert (P : is_share_level prefix = is_share f) by (rewrite <- is_share_isolate, I0; reflexivity).
  rewrite P. destruct (is_share f) eqn:S.
  - (* shared *)
    apply Nat.ltb_lt in WO.
    destruct (isolate f 1) as [group hn1] eqn:I1.
    assert (G : group = share_group f) by (rewrite <- (isolate_1 f WO), I1; reflexivity). subst group.
    rewrite (path_of_2 f WO), <- (eff_split f S WO).
    set (i := eff_filter f). set (g := share_group f). set (p := split i).
    set (F := fun c0 : content => set_shared (sh_add g c (mkSub f pay) (c_shared c0)) c0).
    pose proof (upd_set p F (ix_root x)) as U. cbn [fst snd]. split.
    + assert (NE : p <> []) by apply split_nonempty.
      constructor; cbn [ix_root ix_ret a_cl a_sh a_in a_ret].
      * apply modify_wf; [intros; apply wf_set_shared_add; assumption|apply create_wf; exact Wf].
      * rewrite (upd_root _ _ _ _ U NE). exact Rt.
      * eapply Rcl_ext; [|exact Cl]. apply (upd_other c_subs _ _ _ _ U). reflexivity.
      * eapply Rsh_set; [|apply (upd_same c_shared (sh_add g c (mkSub f pay)) _ _ _ _ U); reflexivity|exact Sh].
        unfold share_ok. subst p i. rewrite (eff_split f S WO). auto.
      * eapply Rin_ext; [|exact In]. apply (upd_other c_inline _ _ _ _ U). reflexivity.
      * exact Re.
      * eapply Rrp_ext; [|exact Rp]. apply (upd_other c_retain _ _ _ _ U). reflexivity.
      * repeat split; try assumption. apply NoDup_al_set; [exact beq_triple_eq|exact N2].
    + rewrite content_at_create. destruct Sh as [A _]. subst p g i. rewrite A, omem_map. unfold al_mem.
      destruct (al_get beq_triple (c, share_group f, eff_filter f) (a_sh a)); reflexivity.
  - (* not shared *)
    rewrite path_of_0. set (p := split f).
    set (F := fun c0 : content => set_subs (al_set beq_bytes c (mkSub f pay) (c_subs c0)) c0).
    pose proof (upd_set p F (ix_root x)) as U. cbn [fst snd]. split.
    + assert (NE : p <> []) by apply split_nonempty.
      constructor; cbn [ix_root ix_ret a_cl a_sh a_in a_ret].
      * apply modify_wf; [intros; apply wf_set_subs_set; assumption|apply create_wf; exact Wf].
      * rewrite (upd_root _ _ _ _ U NE). exact Rt.
      * eapply Rcl_set; [|exact Cl].
        apply (upd_same c_subs (al_set beq_bytes c (mkSub f pay)) _ _ _ _ U). reflexivity.
      * eapply Rsh_ext; [|exact Sh]. apply (upd_other c_shared _ _ _ _ U). reflexivity.
      * eapply Rin_ext; [|exact In]. apply (upd_other c_inline _ _ _ _ U). reflexivity.
      * exact Re.
      * eapply Rrp_ext; [|exact Rp]. apply (upd_other c_retain _ _ _ _ U). reflexivity.
      * repeat split; try assumption. apply NoDup_al_set; [exact beq_pair_eq|exact N1].
    + rewrite content_at_create. destruct Cl as [A _]. subst p. rewrite A, omem_map. unfold al_mem.
      destruct (al_get beq_pair (c, f) (a_cl a)); reflexivity.
Qed.
