(* The particle tree refines the abstract index: every operation of topics.go keeps the relation R and
   returns what the set / map specification returns; Subscribers selects exactly the matching
   subscriptions (C01, C31 sequential part, topics part of C40). *)
From MV Require Import Base.Val Topics.Levels Topics.LevelsProofs Topics.Match Topics.Alist Topics.AlistProofs
  Topics.IndexSpec Topics.Trie Topics.TrieInv Topics.TrieScan Topics.TrieRel.
From Coq Require Import Lia.
Open Scope N_scope.

Record R (x : index) (a : astate) : Prop := mkRrel {
  R_wf : wf_node (ix_root x);
  R_root : cont (ix_root x) = empty_content;
  R_cl : Rcl (content_at (ix_root x)) (a_cl a);
  R_sh : Rsh (content_at (ix_root x)) (a_sh a);
  R_in : Rin (content_at (ix_root x)) (a_in a);
  R_ret : ix_ret x = a_ret a;
  R_rp : Rrp (content_at (ix_root x)) (ix_ret x);
  R_nd : NoDup (keys (a_cl a)) /\ NoDup (keys (a_sh a)) /\ NoDup (keys (a_in a)) /\ NoDup (keys (a_ret a));
  R_pl : forall t pl, al_get beq_bytes t (ix_ret x) = Some pl -> pl <> []
}.

Lemma R_empty : R ix_empty a_empty.
Proof.
  constructor; cbn.
  - apply wf_new_particle.
  - reflexivity.
  - split; intros; rewrite content_at_new in *; cbn in *; [reflexivity|discriminate].
  - split; intros; rewrite content_at_new in *; cbn in *; [reflexivity|discriminate].
  - split; intros; rewrite content_at_new in *; cbn in *; [reflexivity|discriminate].
  - reflexivity.
  - split; intros; [discriminate|]. rewrite content_at_new in *. cbn in *. contradiction.
  - repeat split; constructor.
  - discriminate.
Qed.

(* ---------- point updates ---------- *)
Definition upd (r r' : node) (p : list level) (F : content -> content) : Prop :=
  forall q, content_at r' q = if beq_levels q p then F (content_at r p) else content_at r q.

Lemma upd_other {A} (proj : content -> A) r r' p F :
  upd r r' p F -> (forall c, proj (F c) = proj c) -> forall q, proj (content_at r' q) = proj (content_at r q).
Proof.
  intros U H q. rewrite U. destruct (beq_levels q p) eqn:E; [|reflexivity].
  apply beq_levels_eq in E. subst q. apply H.
Qed.

Lemma upd_same {A} (proj : content -> A) (G : A -> A) r r' p F :
  upd r r' p F -> (forall c, proj (F c) = G (proj c)) ->
  forall q, proj (content_at r' q) = if beq_levels q p then G (proj (content_at r q)) else proj (content_at r q).
Proof.
  intros U H q. rewrite U. destruct (beq_levels q p) eqn:E; [|reflexivity].
  apply beq_levels_eq in E. subst q. apply H.
Qed.

Lemma upd_root r r' p F : upd r r' p F -> p <> [] -> cont r' = cont r.
Proof. intros U NE. specialize (U []). destruct p; [contradiction|]. exact U. Qed.

Lemma upd_set p F r : upd r (modify p F (create p r)) p F.
Proof. intro q. apply content_at_update. Qed.

Lemma upd_trim p F r : wf_node r -> (forall c, wf_content c -> wf_content (F c)) -> seek p r <> None ->
  upd r (trim p (modify p F r)) p F.
Proof.
  intros W HF S q. rewrite content_at_trim by (apply modify_wf; assumption). apply content_at_modify. exact S.
Qed.

Lemma upd_modify p F r : seek p r <> None -> upd r (modify p F r) p F.
Proof. intros S q. apply content_at_modify. exact S. Qed.

Lemma upd_none p F r : seek p r = None -> F empty_content = empty_content -> upd r r p F.
Proof.
  intros S HF q. destruct (beq_levels q p) eqn:E; [|reflexivity]. apply beq_levels_eq in E. subst q.
  unfold content_at. rewrite S. symmetry. exact HF.
Qed.

(* ---------- the levels the operations use ---------- *)
Lemma nth_last_single {A} (l : list A) d : length l = 1%nat -> last l d = nth 0 l d.
Proof. destruct l as [|x [|y l]]; cbn; intros; try lia; reflexivity. Qed.

Lemma isolate_0 f : fst (isolate f 0) = nth 0 (split f) [].
Proof.
  rewrite isolate_spec. pose proof (split_nonempty f) as NE.
  destruct (1 <? length (split f))%nat eqn:E; [reflexivity|]. apply Nat.ltb_ge in E. cbn [fst].
  apply nth_last_single. destruct (split f); [contradiction|]. cbn in *. unfold level in *. lia.
Qed.

Lemma is_share_isolate f : is_share_level (fst (isolate f 0)) = is_share f.
Proof.
  rewrite isolate_0. unfold is_share. pose proof (split_nonempty f). destruct (split f); [contradiction|reflexivity].
Qed.

Lemma isolate_1 f : (2 < length (split f))%nat -> fst (isolate f 1) = share_group f.
Proof.
  intro L. rewrite isolate_spec. replace (2 <? length (split f))%nat with true; [reflexivity|].
  symmetry. apply Nat.ltb_lt. exact L.
Qed.

Lemma path_of_2 f : (2 < length (split f))%nat -> path_of f 2 = skipn 2 (split f).
Proof.
  intro L. rewrite path_of_spec. replace (2 <? length (split f))%nat with true; [reflexivity|].
  symmetry. apply Nat.ltb_lt. exact L.
Qed.

Lemma noslash_skipn n ls : noslash ls -> noslash (skipn n ls).
Proof.
  revert ls. induction n as [|n IH]; intros ls H; [exact H|]. destruct ls; [exact H|].
  cbn [skipn]. apply IH. inversion H; assumption.
Qed.

Lemma eff_split f : is_share f = true -> (2 < length (split f))%nat -> split (eff_filter f) = skipn 2 (split f).
Proof.
  intros S L. unfold eff_filter, drop_levels. rewrite S. apply split_join.
  - intro H. apply (f_equal (@length _)) in H. rewrite skipn_length in H. cbn in H. lia.
  - apply noslash_skipn. apply split_noslash.
Qed.

Lemma eff_nonshare f : is_share f = false -> eff_filter f = f.
Proof. intro S. unfold eff_filter. rewrite S. reflexivity. Qed.

Lemma path_of_nonempty f d : path_of f d <> [].
Proof. unfold path_of. cbn [walk]. destruct (isolate f d). discriminate. Qed.

Lemma omem_map {A B} (g : A -> B) o : omem (option_map g o) = omem o.
Proof. destruct o; reflexivity. Qed.

Lemma empty_F_subs_del c : set_subs (al_del beq_bytes c (c_subs empty_content)) empty_content = empty_content.
Proof. reflexivity. Qed.
Lemma empty_F_sh_del g c : set_shared (sh_del g c (c_shared empty_content)) empty_content = empty_content.
Proof. reflexivity. Qed.
Lemma empty_F_in_del c : set_inline (al_del N.eqb c (c_inline empty_content)) empty_content = empty_content.
Proof. reflexivity. Qed.

Lemma seek_content r p m : seek p r = Some m -> cont m = content_at r p.
Proof. intro S. unfold content_at. rewrite S. reflexivity. Qed.

(* ---------- Subscribe ---------- *)
Lemma subscribe_R x a c f pay : R x a -> wf_opb (OSub c f pay) = true ->
  R (fst (subscribe x c f pay)) (fst (a_step a (OSub c f pay))) /\
  snd (subscribe x c f pay) = snd (a_step a (OSub c f pay)).
Proof.
  intros [Wf Rt Cl Sh In Re Rp (N1 & N2 & N3 & N4) Pl] WO. unfold subscribe. cbn [a_step wf_opb] in *.
  destruct (isolate f 0) as [prefix hn0] eqn:I0.
  assert (P : is_share_level prefix = is_share f) by (rewrite <- is_share_isolate, I0; reflexivity).
  rewrite P. destruct (is_share f) eqn:S.
  - (* shared *)
    apply Nat.ltb_lt in WO.
    destruct (isolate f 1) as [group hn1] eqn:I1.
    assert (G : group = share_group f) by (rewrite <- (isolate_1 f WO), I1; reflexivity). subst group.
    rewrite (path_of_2 f WO), <- (eff_split f S WO).
    set (i := eff_filter f). set (g := share_group f). set (p := split i).
    set (F := fun c0 : content => set_shared (sh_add g c (mkSub f pay) (c_shared c0)) c0).
    pose proof (upd_set p F (ix_root x)) as U. cbn [fst snd]. split.
    + assert (NE : p <> []) by apply split_nonempty.
      constructor; cbn [ix_root ix_ret a_cl a_sh a_in a_ret].
      * apply modify_wf; [intros; apply wf_set_shared_add; assumption|apply create_wf; exact Wf].
      * rewrite (upd_root _ _ _ _ U NE). exact Rt.
      * eapply Rcl_ext; [|exact Cl]. apply (upd_other c_subs _ _ _ _ U). reflexivity.
      * eapply Rsh_set; [|apply (upd_same c_shared (sh_add g c (mkSub f pay)) _ _ _ _ U); reflexivity|exact Sh].
        unfold share_ok. subst p i. rewrite (eff_split f S WO). auto.
      * eapply Rin_ext; [|exact In]. apply (upd_other c_inline _ _ _ _ U). reflexivity.
      * exact Re.
      * eapply Rrp_ext; [|exact Rp]. apply (upd_other c_retain _ _ _ _ U). reflexivity.
      * repeat split; try assumption. apply NoDup_al_set; [exact beq_triple_eq|exact N2].
      * exact Pl.
    + rewrite content_at_create. destruct Sh as [A _]. subst p g i. rewrite A, omem_map. unfold al_mem.
      destruct (al_get beq_triple (c, share_group f, eff_filter f) (a_sh a)); reflexivity.
  - (* not shared *)
    rewrite path_of_0. set (p := split f).
    set (F := fun c0 : content => set_subs (al_set beq_bytes c (mkSub f pay) (c_subs c0)) c0).
    pose proof (upd_set p F (ix_root x)) as U. cbn [fst snd]. split.
    + assert (NE : p <> []) by apply split_nonempty.
      constructor; cbn [ix_root ix_ret a_cl a_sh a_in a_ret].
      * apply modify_wf; [intros; apply wf_set_subs_set; assumption|apply create_wf; exact Wf].
      * rewrite (upd_root _ _ _ _ U NE). exact Rt.
      * eapply Rcl_set; [|exact Cl].
        apply (upd_same c_subs (al_set beq_bytes c (mkSub f pay)) _ _ _ _ U). reflexivity.
      * eapply Rsh_ext; [|exact Sh]. apply (upd_other c_shared _ _ _ _ U). reflexivity.
      * eapply Rin_ext; [|exact In]. apply (upd_other c_inline _ _ _ _ U). reflexivity.
      * exact Re.
      * eapply Rrp_ext; [|exact Rp]. apply (upd_other c_retain _ _ _ _ U). reflexivity.
      * repeat split; try assumption. apply NoDup_al_set; [exact beq_pair_eq|exact N1].
      * exact Pl.
    + rewrite content_at_create. destruct Cl as [A _]. subst p. rewrite A, omem_map. unfold al_mem.
      destruct (al_get beq_pair (c, f) (a_cl a)); reflexivity.
Qed.

(* ---------- removal of one entry, given the point update of the tree ---------- *)
Lemma R_cl_del x a r' c f : R x a -> wf_node r' ->
  upd (ix_root x) r' (split f) (fun c0 => set_subs (al_del beq_bytes c (c_subs c0)) c0) ->
  R (mkIx r' (ix_ret x)) (mkA (al_del beq_pair (c, f) (a_cl a)) (a_sh a) (a_in a) (a_ret a)).
Proof.
  intros [Wf Rt Cl Sh In Re Rp (N1 & N2 & N3 & N4) Pl] W' U.
  constructor; cbn [ix_root ix_ret a_cl a_sh a_in a_ret].
  - exact W'.
  - rewrite (upd_root _ _ _ _ U (split_nonempty f)). exact Rt.
  - eapply Rcl_del; [|exact Cl]. apply (upd_same c_subs (al_del beq_bytes c) _ _ _ _ U). reflexivity.
  - eapply Rsh_ext; [|exact Sh]. apply (upd_other c_shared _ _ _ _ U). reflexivity.
  - eapply Rin_ext; [|exact In]. apply (upd_other c_inline _ _ _ _ U). reflexivity.
  - exact Re.
  - eapply Rrp_ext; [|exact Rp]. apply (upd_other c_retain _ _ _ _ U). reflexivity.
  - repeat split; try assumption. apply NoDup_al_del. exact N1.
  - exact Pl.
Qed.

Lemma R_sh_del x a r' c f : R x a -> wf_node r' ->
  upd (ix_root x) r' (split (eff_filter f)) (fun c0 => set_shared (sh_del (share_group f) c (c_shared c0)) c0) ->
  R (mkIx r' (ix_ret x))
    (mkA (a_cl a) (al_del beq_triple (c, share_group f, eff_filter f) (a_sh a)) (a_in a) (a_ret a)).
Proof.
  intros [Wf Rt Cl Sh In Re Rp (N1 & N2 & N3 & N4) Pl] W' U.
  constructor; cbn [ix_root ix_ret a_cl a_sh a_in a_ret].
  - exact W'.
  - rewrite (upd_root _ _ _ _ U (split_nonempty _)). exact Rt.
  - eapply Rcl_ext; [|exact Cl]. apply (upd_other c_subs _ _ _ _ U). reflexivity.
  - eapply Rsh_del; [|exact Sh]. apply (upd_same c_shared (sh_del (share_group f) c) _ _ _ _ U). reflexivity.
  - eapply Rin_ext; [|exact In]. apply (upd_other c_inline _ _ _ _ U). reflexivity.
  - exact Re.
  - eapply Rrp_ext; [|exact Rp]. apply (upd_other c_retain _ _ _ _ U). reflexivity.
  - repeat split; try assumption. apply NoDup_al_del. exact N2.
  - exact Pl.
Qed.

Lemma R_in_del x a r' id f : R x a -> wf_node r' ->
  upd (ix_root x) r' (split f) (fun c0 => set_inline (al_del N.eqb id (c_inline c0)) c0) ->
  R (mkIx r' (ix_ret x)) (mkA (a_cl a) (a_sh a) (al_del beq_npair (id, f) (a_in a)) (a_ret a)).
Proof.
  intros [Wf Rt Cl Sh In Re Rp (N1 & N2 & N3 & N4) Pl] W' U.
  constructor; cbn [ix_root ix_ret a_cl a_sh a_in a_ret].
  - exact W'.
  - rewrite (upd_root _ _ _ _ U (split_nonempty f)). exact Rt.
  - eapply Rcl_ext; [|exact Cl]. apply (upd_other c_subs _ _ _ _ U). reflexivity.
  - eapply Rsh_ext; [|exact Sh]. apply (upd_other c_shared _ _ _ _ U). reflexivity.
  - eapply Rin_del; [|exact In]. apply (upd_same c_inline (al_del N.eqb id) _ _ _ _ U). reflexivity.
  - exact Re.
  - eapply Rrp_ext; [|exact Rp]. apply (upd_other c_retain _ _ _ _ U). reflexivity.
  - repeat split; try assumption. apply NoDup_al_del. exact N3.
  - exact Pl.
Qed.

Lemma index_eta x : x = mkIx (ix_root x) (ix_ret x).
Proof. destruct x. reflexivity. Qed.

Lemma content_at_seek_none r p : seek p r = None -> content_at r p = empty_content.
Proof. intro S. unfold content_at. rewrite S. reflexivity. Qed.

(* ---------- Unsubscribe ---------- *)
Lemma unsubscribe_R x a c f : R x a -> wf_opb (OUnsub c f) = true ->
  R (fst (unsubscribe x f c)) (fst (a_step a (OUnsub c f))) /\
  snd (unsubscribe x f c) = snd (a_step a (OUnsub c f)).
Proof.
  intros HR WO. pose proof HR as [Wf Rt Cl Sh In Re Rp (N1 & N2 & N3 & N4) Pl].
  unfold unsubscribe. cbn [a_step wf_opb] in *.
  destruct (isolate f 0) as [prefix hn0] eqn:I0.
  assert (P : is_share_level prefix = is_share f) by (rewrite <- is_share_isolate, I0; reflexivity).
  rewrite P. destruct (is_share f) eqn:S.
  - apply Nat.ltb_lt in WO. rewrite (path_of_2 f WO), <- (eff_split f S WO).
    destruct (isolate f 1) as [group hn1] eqn:I1.
    assert (G : group = share_group f) by (rewrite <- (isolate_1 f WO), I1; reflexivity). subst group.
    destruct Sh as [A _]. specialize (A c (share_group f) (eff_filter f)). unfold al_mem.
    destruct (seek (split (eff_filter f)) (ix_root x)) as [m|] eqn:SK; cbn [fst snd].
    + split.
      * apply R_sh_del; [exact HR| |].
        -- apply trim_wf. apply modify_wf; [intros; apply wf_set_shared_del; assumption|exact Wf].
        -- apply upd_trim; [exact Wf|intros; apply wf_set_shared_del; assumption|congruence].
      * rewrite (seek_content _ _ _ SK), A, omem_map.
        destruct (al_get beq_triple (c, share_group f, eff_filter f) (a_sh a)); reflexivity.
    + split.
      * rewrite (index_eta x) at 1. apply R_sh_del; [exact HR|exact Wf|].
        apply upd_none; [exact SK|reflexivity].
      * rewrite (content_at_seek_none _ _ SK) in A. cbn in A.
        destruct (al_get beq_triple (c, share_group f, eff_filter f) (a_sh a)); [discriminate|reflexivity].
  - rewrite path_of_0. destruct Cl as [A _]. specialize (A c f). unfold al_mem.
    destruct (seek (split f) (ix_root x)) as [m|] eqn:SK; cbn [fst snd].
    + split.
      * apply R_cl_del; [exact HR| |].
        -- apply trim_wf. apply modify_wf; [intros; apply wf_set_subs_del; assumption|exact Wf].
        -- apply upd_trim; [exact Wf|intros; apply wf_set_subs_del; assumption|congruence].
      * rewrite (seek_content _ _ _ SK), A, omem_map.
        destruct (al_get beq_pair (c, f) (a_cl a)); reflexivity.
    + split.
      * rewrite (index_eta x) at 1. apply R_cl_del; [exact HR|exact Wf|].
        apply upd_none; [exact SK|reflexivity].
      * rewrite (content_at_seek_none _ _ SK) in A. cbn in A.
        destruct (al_get beq_pair (c, f) (a_cl a)); [discriminate|reflexivity].
Qed.

(* ---------- InlineSubscribe / InlineUnsubscribe ---------- *)
Lemma inline_subscribe_R x a id f pay : R x a ->
  R (fst (inline_subscribe x id f pay)) (fst (a_step a (OInSub id f pay))) /\
  snd (inline_subscribe x id f pay) = snd (a_step a (OInSub id f pay)).
Proof.
  intros [Wf Rt Cl Sh In Re Rp (N1 & N2 & N3 & N4) Pl]. unfold inline_subscribe. cbn [a_step].
  rewrite path_of_0. set (p := split f).
  set (F := fun c0 : content => set_inline (al_set N.eqb id (mkSub f pay) (c_inline c0)) c0).
  pose proof (upd_set p F (ix_root x)) as U. cbn [fst snd]. split.
  - assert (NE : p <> []) by apply split_nonempty.
    constructor; cbn [ix_root ix_ret a_cl a_sh a_in a_ret].
    + apply modify_wf; [intros; apply wf_set_inline_set; assumption|apply create_wf; exact Wf].
    + rewrite (upd_root _ _ _ _ U NE). exact Rt.
    + eapply Rcl_ext; [|exact Cl]. apply (upd_other c_subs _ _ _ _ U). reflexivity.
    + eapply Rsh_ext; [|exact Sh]. apply (upd_other c_shared _ _ _ _ U). reflexivity.
    + eapply Rin_set; [|exact In].
      apply (upd_same c_inline (al_set N.eqb id (mkSub f pay)) _ _ _ _ U). reflexivity.
    + exact Re.
    + eapply Rrp_ext; [|exact Rp]. apply (upd_other c_retain _ _ _ _ U). reflexivity.
    + repeat split; try assumption. apply NoDup_al_set; [exact beq_npair_eq|exact N3].
    + exact Pl.
  - rewrite content_at_create. destruct In as [A _]. subst p. rewrite A, omem_map. unfold al_mem.
    destruct (al_get beq_npair (id, f) (a_in a)); reflexivity.
Qed.

Lemma inline_unsubscribe_R x a id f : R x a ->
  R (fst (inline_unsubscribe x id f)) (fst (a_step a (OInUnsub id f))) /\
  snd (inline_unsubscribe x id f) = snd (a_step a (OInUnsub id f)).
Proof.
  intros HR. pose proof HR as [Wf Rt Cl Sh In Re Rp (N1 & N2 & N3 & N4) Pl].
  unfold inline_unsubscribe. cbn [a_step]. rewrite path_of_0.
  destruct In as [A _]. specialize (A id f). unfold al_mem.
  destruct (seek (split f) (ix_root x)) as [m|] eqn:SK; cbn [fst snd].
  - split.
    + apply R_in_del; [exact HR| |].
      * destruct (nilb (al_del N.eqb id (c_inline (cont m)))); [apply trim_wf|];
          (apply modify_wf; [intros; apply wf_set_inline_del; assumption|exact Wf]).
      * destruct (nilb (al_del N.eqb id (c_inline (cont m)))).
        -- apply upd_trim; [exact Wf|intros; apply wf_set_inline_del; assumption|congruence].
        -- apply upd_modify. congruence.
    + rewrite (seek_content _ _ _ SK), A, omem_map.
      destruct (al_get beq_npair (id, f) (a_in a)); reflexivity.
  - split.
    + rewrite (index_eta x) at 1. apply R_in_del; [exact HR|exact Wf|].
      apply upd_none; [exact SK|reflexivity].
    + rewrite (content_at_seek_none _ _ SK) in A. cbn in A.
      destruct (al_get beq_npair (id, f) (a_in a)); [discriminate|reflexivity].
Qed.

(* ---------- RetainMessage / expiry ---------- *)
Lemma valid_topic_nonempty t : valid_topicb t = true -> t <> [].
Proof. unfold valid_topicb. destruct t; [discriminate|discriminate]. Qed.

Lemma retain_R x a t pl : R x a -> wf_opb (ORetain t pl) = true ->
  R (fst (retain_message x t pl)) (fst (a_step a (ORetain t pl))) /\
  snd (retain_message x t pl) = snd (a_step a (ORetain t pl)).
Proof.
  intros [Wf Rt Cl Sh In Re Rp (N1 & N2 & N3 & N4) Pl] WO. cbn [wf_opb] in WO.
  apply valid_topic_nonempty in WO. unfold retain_message. cbn [a_step]. rewrite path_of_0.
  destruct (nilb pl) eqn:E; cbn [negb fst snd].
  - (* clear *)
    set (F := set_retain []).
    assert (W1 : wf_node (modify (split t) F (create (split t) (ix_root x)))).
    { apply modify_wf; [intros; apply wf_set_retain; assumption|apply create_wf; exact Wf]. }
    assert (U : upd (ix_root x) (trim (split t) (modify (split t) F (create (split t) (ix_root x)))) (split t) F).
    { intro q. rewrite content_at_trim by exact W1. apply content_at_update. }
    split.
    + constructor; cbn [ix_root ix_ret a_cl a_sh a_in a_ret].
      * apply trim_wf. exact W1.
      * rewrite (upd_root _ _ _ _ U (split_nonempty t)). exact Rt.
      * eapply Rcl_ext; [|exact Cl]. apply (upd_other c_subs _ _ _ _ U). reflexivity.
      * eapply Rsh_ext; [|exact Sh]. apply (upd_other c_shared _ _ _ _ U). reflexivity.
      * eapply Rin_ext; [|exact In]. apply (upd_other c_inline _ _ _ _ U). reflexivity.
      * rewrite Re. reflexivity.
      * eapply Rrp_clear; [|exact Rp]. apply (upd_same c_retain (fun _ => []) _ _ _ _ U). reflexivity.
      * repeat split; try assumption. apply NoDup_al_del. exact N4.
      * intros t2 pl2. destruct (eqb_dec beq_bytes bb_eq t2 t) as [->|NE].
        -- rewrite al_get_del_same. discriminate.
        -- rewrite al_get_del_other by (exact bb_eq || exact NE). apply Pl.
    + unfold al_mem. rewrite <- Re. destruct (al_get beq_bytes t (ix_ret x)) as [pl0|] eqn:G; [|reflexivity].
      apply Pl in G. destruct pl0; [contradiction|reflexivity].
  - (* store *)
    set (F := set_retain t).
    pose proof (upd_set (split t) F (ix_root x)) as U. split; [|reflexivity].
    constructor; cbn [ix_root ix_ret a_cl a_sh a_in a_ret].
    + apply modify_wf; [intros; apply wf_set_retain; assumption|apply create_wf; exact Wf].
    + rewrite (upd_root _ _ _ _ U (split_nonempty t)). exact Rt.
    + eapply Rcl_ext; [|exact Cl]. apply (upd_other c_subs _ _ _ _ U). reflexivity.
    + eapply Rsh_ext; [|exact Sh]. apply (upd_other c_shared _ _ _ _ U). reflexivity.
    + eapply Rin_ext; [|exact In]. apply (upd_other c_inline _ _ _ _ U). reflexivity.
    + rewrite Re. reflexivity.
    + eapply Rrp_set; [exact WO| |exact Rp]. apply (upd_same c_retain (fun _ => t) _ _ _ _ U). reflexivity.
    + repeat split; try assumption. apply NoDup_al_set; [exact bb_eq|exact N4].
    + intros t2 pl2. destruct (eqb_dec beq_bytes bb_eq t2 t) as [->|NE].
      * rewrite al_get_set_same by exact bb_eq. intro H. inversion H; subst. intros ->. discriminate.
      * rewrite al_get_set_other by (exact bb_eq || exact NE). apply Pl.
Qed.

Lemma expire_R x a t : R x a ->
  R (fst (expire_retained x t)) (fst (a_step a (OExpire t))) /\
  snd (expire_retained x t) = snd (a_step a (OExpire t)).
Proof.
  intros [Wf Rt Cl Sh In Re Rp (N1 & N2 & N3 & N4) Pl]. unfold expire_retained. cbn [a_step fst snd].
  split; [|reflexivity]. constructor; cbn [ix_root ix_ret a_cl a_sh a_in a_ret]; try assumption.
  - rewrite Re. reflexivity.
  - apply Rrp_expire. exact Rp.
  - repeat split; try assumption. apply NoDup_al_del. exact N4.
  - intros t2 pl2. destruct (eqb_dec beq_bytes bb_eq t2 t) as [->|NE].
    + rewrite al_get_del_same. discriminate.
    + rewrite al_get_del_other by (exact bb_eq || exact NE). apply Pl.
Qed.

(* ---------- every operation: the relation is kept and the return value is the specified one ---------- *)
Lemma step_R x a o : R x a -> wf_opb o = true ->
  R (fst (t_step x o)) (fst (a_step a o)) /\ snd (t_step x o) = snd (a_step a o).
Proof.
  intros HR WO. destruct o; cbn [t_step].
  - apply subscribe_R; assumption.
  - apply unsubscribe_R; assumption.
  - apply inline_subscribe_R; assumption.
  - apply inline_unsubscribe_R; assumption.
  - apply retain_R; assumption.
  - apply expire_R; assumption.
Qed.

Lemma run_R ops : forall x a, R x a -> wf_ops ops -> R (t_run x ops) (a_run a ops).
Proof.
  induction ops as [|o ops IH]; intros x a HR WO; [exact HR|].
  inversion WO as [|? ? W1 W2]; subst. cbn [t_run a_run]. apply IH; [|exact W2].
  apply step_R; assumption.
Qed.

Lemma R_run ops : wf_ops ops -> R (run ops) (abs ops).
Proof. apply run_R. apply R_empty. Qed.

(* return values of a history *)
Fixpoint t_rets (x : index) (ops : list op) : list N :=
  match ops with [] => [] | o :: r => snd (t_step x o) :: t_rets (fst (t_step x o)) r end.
Fixpoint a_rets (a : astate) (ops : list op) : list N :=
  match ops with [] => [] | o :: r => snd (a_step a o) :: a_rets (fst (a_step a o)) r end.

Lemma rets_R ops : forall x a, R x a -> wf_ops ops -> t_rets x ops = a_rets a ops.
Proof.
  induction ops as [|o ops IH]; intros x a HR WO; [reflexivity|].
  inversion WO as [|? ? W1 W2]; subst. cbn [t_rets a_rets].
  destruct (step_R x a o HR W1) as [HR' E]. rewrite E. f_equal. apply IH; assumption.
Qed.
