(* C40, concurrency dimension: inline Subscribe / Unsubscribe / Publish of the embedding API racing with client
   unsubscribes and retained clears on the same branch of the particle tree.  Operations = index operations
   (IndexSpec.op; the Server API returns nil for inline subscribe / unsubscribe, so their return value is 0) and
   inline publishes whose "return value" is which inline handlers were called.  Specification: the set / map
   of IndexSpec; model: Trie.t_step (InlineSubscribe = walk + add as ONE atomic step under the root lock) and,
   for the refutation, a split variant (walk under the lock, add afterwards).  Engine for hx topics_inlinesched.
   No proofs in this file (see InlineConcProofs.v). *)
From MV Require Import Base.Val Topics.Levels Topics.Match Topics.Alist Topics.IndexSpec Topics.Trie Topics.Lin
  Topics.TopicsEngine.
Open Scope N_scope.

Inductive cop :=
| CO (o : op)            (* an operation of the index *)
| CPub (t : bytes).      (* Server.Publish(t, ...): observed = the inline handlers called *)

(* handlers 1..3: 4^(id-1) per handler that must be called (exactly once) *)
Definition has_id (i : N) (l : list (N * bytes * N)) : bool := existsb (fun e => fst (fst e) =? i) l.
Definition pub_mask (l : list (N * bytes * N)) : N :=
  (if has_id 1 l then 1 else 0) + (if has_id 2 l then 4 else 0) + (if has_id 3 l then 16 else 0).

Definition api_ret (o : op) (r : N) : N :=
  match o with OInSub _ _ _ | OInUnsub _ _ => 0 | _ => r end.   (* Server.Subscribe / Unsubscribe return nil *)

(* specification: the plain set of subscriptions *)
Definition c_step (a : astate) (c : cop) : astate * N :=
  match c with
  | CO o => let (a', r) := a_step a o in (a', api_ret o r)
  | CPub t => (a, pub_mask (sel_in a t))
  end.

(* model: the particle tree, every operation atomic *)
Definition m_step (x : index) (c : cop) : index * N :=
  match c with
  | CO o => let (x', r) := t_step x o in (x', api_ret o r)
  | CPub t => (x, pub_mask (r_in (subscribers x t)))
  end.

Definition wf_copb (c : cop) : bool :=
  match c with CO o => wf_opb o | CPub t => valid_topicb t end.

(* ---------- the split variant (seeded change C40b): the root lock only guards the walk ---------- *)
Inductive sop :=
| SO (c : cop)
| SWalk (f : bytes)                      (* x.root.Lock(); n := x.set(filter, 0); x.root.Unlock() *)
| SAdd (id : N) (f : bytes) (pay : N).   (* n.inlineSubscriptions.Add(subscription) on the particle found by the walk *)

(* the particle n is remembered by its path; if it has been pruned meanwhile the subscription lands on a
   particle that is no longer in the tree: the tree does not change *)
Definition s_step (x : index) (s : sop) : index * N :=
  match s with
  | SO c => m_step x c
  | SWalk f => (mkIx (create (path_of f 0) (ix_root x)) (ix_ret x), 0)
  | SAdd id f pay =>
      (mkIx (modify (path_of f 0) (fun c => set_inline (al_set N.eqb id (mkSub f pay) (c_inline c)) c) (ix_root x))
            (ix_ret x), 0)
  end.

(* ---------- engine ----------
   case = VL [VN 7; VL pre; VL threads; VL post]   pre, post : list of (cop ret); threads : list of such lists
   cop  = an op of TopicsEngine.parse_op | VL [VN 6; VB topic] *)
Definition parse_cop (v : val) : option cop :=
  match v with
  | VL [VN 6; VB t] => Some (CPub t)
  | _ => match parse_op v with Some o => Some (CO o) | None => None end
  end.
Definition parse_copret (v : val) : option (cop * N) :=
  match v with
  | VL [c; VN r] => match parse_cop c with Some c' => Some (c', r) | None => None end
  | _ => None
  end.

Section Seq.
  Context {St : Type} (step : St -> cop -> St * N).
  Fixpoint seq_ok (st : St) (h : list (cop * N)) : bool * St :=
    match h with
    | [] => (true, st)
    | (c, r) :: h' => let (st', r') := step st c in
                      let (ok, st'') := seq_ok st' h' in ((r =? r') && ok, st'')
    end.
End Seq.

Definition conc_explained {St} (step : St -> cop -> St * N) (st0 : St)
                          (pre : list (cop * N)) (ths : list (list (cop * N))) (post : list (cop * N)) : bool :=
  let (ok, st1) := seq_ok step st0 pre in
  ok && lin_check step N.eqb (fun st => fst (seq_ok step st post)) st1 ths.

Definition inline_check (pre : list (cop * N)) (ths : list (list (cop * N))) (post : list (cop * N)) : val :=
  let nt := existsb (fun e => match fst e with CPub _ => negb (snd e =? 0) | _ => false end) (post ++ concat ths) in
  let tg := tag "inlinesched" in
  if conc_explained c_step a_empty pre ths post then
    if conc_explained m_step ix_empty pre ths post then verdict 0 tg nt [] else verdict 2 tg nt []
  else verdict 1 tg nt [].

(* ENGINE topics_inlinesched Topics.InlineConc.inline_engine *)
Definition inline_engine (c : val) : val :=
  match c with
  | VL [VN 7; VL pre; VL ths; VL post] =>
      match map_opt parse_copret pre,
            map_opt (fun t => match t with VL l => map_opt parse_copret l | _ => None end) ths,
            map_opt parse_copret post with
      | Some pre', Some ths', Some post' =>
          if forallb (fun e => wf_copb (fst e)) (pre' ++ concat ths' ++ post') then inline_check pre' ths' post'
          else bad_case
      | _, _, _ => bad_case
      end
  | _ => bad_case
  end.
