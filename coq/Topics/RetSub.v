(* C02 at the broker level: which retained messages a new subscription receives when some cannot be delivered
   to this subscriber.  Model of the loop of server.go publishRetainedToClient over Messages(filter) with the
   failure paths of publishToClient (read access denied: ErrNotAuthorized; QoS > 0 with a full in-flight window
   or no free packet id: ErrQuotaExceeded) — a failed delivery is skipped, the loop goes on.  Specification:
   exactly the matching retained messages the subscriber is entitled to and able to take, each once, whatever
   the scan order.  Engine for hx topics_retsub.  No proofs in this file (see RetSubProofs.v). *)
From MV Require Import Base.Val Topics.Levels Topics.Match Topics.Alist Topics.IndexSpec.
Open Scope N_scope.

Definition item : Type := (bytes * bytes) * N.       (* retained packet: (topic, payload), QoS it was published with *)
Definition it_topic (i : item) : bytes := fst (fst i).

Definition memb_bytes (t : bytes) (l : list bytes) : bool := existsb (beq_bytes t) l.

(* QoS of the copy sent to the subscriber: publishToClient lowers it to the subscription's and the server's maximum *)
Definition eff_qos (subq maxq q : N) : N := N.min (N.min q subq) maxq.

(* ---------- model: the loop, for a given scan order ---------- *)
Fixpoint deliver (denied : list bytes) (subq maxq : N) (free : nat) (scan : list item) : list item :=
  match scan with
  | [] => []
  | (m, q) :: r =>
      if memb_bytes (fst m) denied then deliver denied subq maxq free r            (* ErrNotAuthorized: continue *)
      else
        let e := eff_qos subq maxq q in
        if e =? 0 then (m, 0) :: deliver denied subq maxq free r
        else match free with
             | O => deliver denied subq maxq free r                                (* ErrQuotaExceeded: continue *)
             | S f => (m, e) :: deliver denied subq maxq f r
             end
  end.

(* ---------- specification, executable ---------- *)
Definition beq_item (a b : item) : bool :=
  beq_bytes (fst (fst a)) (fst (fst b)) && beq_bytes (snd (fst a)) (snd (fst b)) && (snd a =? snd b).
Definition entitled (denied : list bytes) (c : item) : bool := negb (memb_bytes (it_topic c) denied).
Definition sent_as (subq maxq : N) (c : item) : item := (fst c, eff_qos subq maxq (snd c)).
Definition needs_slot (subq maxq : N) (c : item) : bool := negb (eff_qos subq maxq (snd c) =? 0).

Fixpoint nodup_topics (l : list item) : bool :=
  match l with
  | [] => true
  | x :: r => negb (existsb (fun y => beq_bytes (it_topic y) (it_topic x)) r) && nodup_topics r
  end.

(* cands = the matching retained messages; obs = what the subscriber received *)
Definition retsub_okb (denied : list bytes) (subq maxq : N) (free : nat) (cands obs : list item) : bool :=
  nodup_topics obs &&                                                                  (* each at most once *)
  forallb (fun o => existsb (fun c => entitled denied c && beq_item (sent_as subq maxq c) o) cands) obs &&
                                                  (* only matching, readable messages, at the right QoS *)
  forallb (fun c => negb (entitled denied c) || needs_slot subq maxq c ||
                    existsb (beq_item (sent_as subq maxq c)) obs) cands &&
                                                  (* every readable QoS 0 one is there *)
  Nat.eqb (length (filter (fun o => negb (snd o =? 0)) obs))
          (Nat.min (length (filter (fun c => entitled denied c && needs_slot subq maxq c) cands)) free).
                                                  (* as many QoS 1/2 ones as the window has room for *)

(* ---------- engine ----------
   case = VL [VN 6; VL ops; VL denied; VL [VN window; VN maxpid; VN prefill; VN subq; VN version; VN hung];
              VB filter; VL qos-table; VL obs] *)
Definition parse_ret_op (v : val) : option op :=
  match v with VL [VN 4; VB t; VB pl] => Some (ORetain t pl) | _ => None end.
Definition parse_tq (v : val) : option (bytes * N) :=
  match v with VL [VB t; VN q] => Some (t, q) | _ => None end.
Definition parse_obs (v : val) : option (item * N) :=
  match v with VL [VB t; VB pl; VN q; VN r] => Some (((t, pl), q), r) | _ => None end.

(* a retained message with the QoS it was published with *)
Definition annot (qt : list (bytes * N)) (m : bytes * bytes) : item :=
  (m, match al_get beq_bytes (fst m) qt with Some q => q | None => 0 end).

Definition retsub_check (ops : list op) (denied : list bytes) (window maxpid prefill subq hung : N)
                        (f : bytes) (qt : list (bytes * N)) (obs : list (item * N)) : val :=
  let a := abs ops in
  let cands := map (annot qt) (spec_retained a f) in
  let cap := N.min window (if maxpid =? 0 then 65535 else maxpid) in
  let free := N.to_nat (cap - prefill) in
  let nt := negb (nilb cands) in
  (* a subscription whose filter the subscriber may not read is refused: nothing is sent *)
  let cands' := if memb_bytes f denied then [] else cands in
  let tg := if nilb denied then (if (free <? length cands)%nat then tag "window" else tag "plain")
            else (if (free <? length cands)%nat then tag "acl+window" else tag "acl") in
  if negb (hung =? 0) then verdict 1 (tag "hung") nt []
  else if negb (forallb (fun o => snd o =? 1) obs) then verdict 1 (tg ++ tag "-retainflag") nt []
  else if retsub_okb denied subq 2 free cands' (map fst obs) then verdict 0 tg nt []
  else verdict 1 tg nt [].

(* ENGINE topics_retsub Topics.RetSub.retsub_engine *)
Definition retsub_engine (c : val) : val :=
  match c with
  | VL [VN 6; VL ops; VL den; VL [VN window; VN maxpid; VN prefill; VN subq; VN version; VN hung]; VB f; VL qt; VL obs] =>
      match map_opt parse_ret_op ops, map_opt as_B den, map_opt parse_tq qt, map_opt parse_obs obs with
      | Some ops', Some den', Some qt', Some obs' =>
          if forallb wf_opb ops' && msg_filter_ok f && (prefill <=? N.min window (if maxpid =? 0 then 65535 else maxpid))
          then retsub_check ops' den' window maxpid prefill subq hung f qt' obs'
          else bad_case
      | _, _, _, _ => bad_case
      end
  | _ => bad_case
  end.
