(* The refinement relation between the particle tree (as the map [content_at]) and the abstract
   sets / map of IndexSpec.v, one clause per kind of entry, and how each clause follows a point update. *)
From MV Require Import Base.Val Topics.Levels Topics.LevelsProofs Topics.Match Topics.Alist Topics.AlistProofs
  Topics.IndexSpec Topics.Trie Topics.TrieInv.
From Coq Require Import Lia.
Open Scope N_scope.

Lemma beq_pair_eq a b : beq_pair a b = true <-> a = b.
Proof.
  destruct a as [a1 a2], b as [b1 b2]. unfold beq_pair. cbn. rewrite andb_true_iff, !beq_bytes_eq.
  split; [intros [-> ->]; reflexivity|intro H; inversion H; auto].
Qed.
Lemma beq_triple_eq a b : beq_triple a b = true <-> a = b.
Proof.
  destruct a as [a1 a2], b as [b1 b2]. unfold beq_triple. cbn. rewrite andb_true_iff, beq_pair_eq, beq_bytes_eq.
  split; [intros [-> ->]; reflexivity|intro H; inversion H; auto].
Qed.
Lemma beq_npair_eq a b : beq_npair a b = true <-> a = b.
Proof.
  destruct a as [a1 a2], b as [b1 b2]. unfold beq_npair. cbn. rewrite andb_true_iff, N.eqb_eq, beq_bytes_eq.
  split; [intros [-> ->]; reflexivity|intro H; inversion H; auto].
Qed.

Definition cfun := list level -> content.

Definition sub_of (e : bytes * N) : sub := mkSub (fst e) (snd e).

Definition Rcl (cf : cfun) (acl : list ((bytes * bytes) * N)) : Prop :=
  (forall c f, al_get beq_bytes c (c_subs (cf (split f))) = option_map (mkSub f) (al_get beq_pair (c, f) acl)) /\
  (forall p c s, al_get beq_bytes c (c_subs (cf p)) = Some s -> p = split (sub_filter s)).

Definition Rin (cf : cfun) (ain : list ((N * bytes) * N)) : Prop :=
  (forall id f, al_get N.eqb id (c_inline (cf (split f))) = option_map (mkSub f) (al_get beq_npair (id, f) ain)) /\
  (forall p id s, al_get N.eqb id (c_inline (cf p)) = Some s -> p = split (sub_filter s)).

Definition share_ok (g : bytes) (p : list level) (full : bytes) : Prop :=
  is_share full = true /\ (2 < length (split full))%nat /\ share_group full = g /\ p = skipn 2 (split full).

Definition Rsh (cf : cfun) (ash : list ((bytes * bytes * bytes) * (bytes * N))) : Prop :=
  (forall c g i, sh_get g c (c_shared (cf (split i))) = option_map sub_of (al_get beq_triple (c, g, i) ash)) /\
  (forall p g c s, sh_get g c (c_shared (cf p)) = Some s -> share_ok g p (sub_filter s)).

Definition Rrp (cf : cfun) (ret : list (bytes * bytes)) : Prop :=
  (forall t pl, al_get beq_bytes t ret = Some pl -> c_retain (cf (split t)) = t /\ t <> []) /\
  (forall p, c_retain (cf p) <> [] -> p = split (c_retain (cf p))).

(* clauses only look at their own field *)
Lemma Rcl_ext cf cf' acl : (forall q, c_subs (cf' q) = c_subs (cf q)) -> Rcl cf acl -> Rcl cf' acl.
Proof. intros E [A B]. split; intros; [rewrite E; apply A|eapply B; rewrite <- E; eassumption]. Qed.
Lemma Rin_ext cf cf' ain : (forall q, c_inline (cf' q) = c_inline (cf q)) -> Rin cf ain -> Rin cf' ain.
Proof. intros E [A B]. split; intros; [rewrite E; apply A|eapply B; rewrite <- E; eassumption]. Qed.
Lemma Rsh_ext cf cf' ash : (forall q, c_shared (cf' q) = c_shared (cf q)) -> Rsh cf ash -> Rsh cf' ash.
Proof. intros E [A B]. split; intros; [rewrite E; apply A|eapply B; rewrite <- E; eassumption]. Qed.
Lemma Rrp_ext cf cf' ret : (forall q, c_retain (cf' q) = c_retain (cf q)) -> Rrp cf ret -> Rrp cf' ret.
Proof. intros E [A B]. split; intros; [rewrite E; eapply A; eassumption|rewrite E in *; apply B; assumption]. Qed.

Lemma beq_levels_split a b : beq_levels (split a) (split b) = true <-> a = b.
Proof. rewrite beq_levels_eq. split; [apply split_inj|intros ->; reflexivity]. Qed.

Lemma beq_levels_false p q : beq_levels p q = false <-> p <> q.
Proof.
  split; intro H.
  - intro E. apply beq_levels_eq in E. congruence.
  - destruct (beq_levels p q) eqn:E; [|reflexivity]. apply beq_levels_eq in E. contradiction.
Qed.

(* ---------- client subscriptions ---------- *)
Lemma Rcl_set cf cf' acl c0 f0 pay :
  (forall q, c_subs (cf' q) = if beq_levels q (split f0) then al_set beq_bytes c0 (mkSub f0 pay) (c_subs (cf q))
                              else c_subs (cf q)) ->
  Rcl cf acl -> Rcl cf' (al_set beq_pair (c0, f0) pay acl).
Proof.
  intros U [A B]. split.
  - intros c f. rewrite U. destruct (beq_levels (split f) (split f0)) eqn:E.
    + apply beq_levels_split in E. subst f. destruct (eqb_dec beq_bytes bb_eq c c0) as [->|NC].
      * rewrite !al_get_set_same by (exact bb_eq || exact beq_pair_eq). reflexivity.
      * rewrite !al_get_set_other by (exact bb_eq || exact beq_pair_eq || congruence). apply A.
    + rewrite al_get_set_other; [apply A|exact beq_pair_eq|].
      intro H. inversion H; subst. rewrite beq_levels_refl in E. discriminate.
  - intros p c s. rewrite U. destruct (beq_levels p (split f0)) eqn:E; [|apply B].
    apply beq_levels_eq in E. subst p. destruct (eqb_dec beq_bytes bb_eq c c0) as [->|NC].
    + rewrite al_get_set_same by exact bb_eq. intro H. inversion H; subst. reflexivity.
    + rewrite al_get_set_other by (exact bb_eq || exact NC). apply B.
Qed.

Lemma Rcl_del cf cf' acl c0 f0 :
  (forall q, c_subs (cf' q) = if beq_levels q (split f0) then al_del beq_bytes c0 (c_subs (cf q)) else c_subs (cf q)) ->
  Rcl cf acl -> Rcl cf' (al_del beq_pair (c0, f0) acl).
Proof.
  intros U [A B]. split.
  - intros c f. rewrite U. destruct (beq_levels (split f) (split f0)) eqn:E.
    + apply beq_levels_split in E. subst f. destruct (eqb_dec beq_bytes bb_eq c c0) as [->|NC].
      * rewrite !al_get_del_same. reflexivity.
      * rewrite !al_get_del_other by (exact bb_eq || exact beq_pair_eq || congruence). apply A.
    + rewrite al_get_del_other; [apply A|exact beq_pair_eq|].
      intro H. inversion H; subst. rewrite beq_levels_refl in E. discriminate.
  - intros p c s. rewrite U. destruct (beq_levels p (split f0)) eqn:E; [|apply B].
    destruct (eqb_dec beq_bytes bb_eq c c0) as [->|NC].
    + rewrite al_get_del_same. discriminate.
    + rewrite al_get_del_other by (exact bb_eq || exact NC). apply B.
Qed.

(* ---------- inline subscriptions ---------- *)
Lemma Rin_set cf cf' ain c0 f0 pay :
  (forall q, c_inline (cf' q) = if beq_levels q (split f0) then al_set N.eqb c0 (mkSub f0 pay) (c_inline (cf q))
                                else c_inline (cf q)) ->
  Rin cf ain -> Rin cf' (al_set beq_npair (c0, f0) pay ain).
Proof.
  intros U [A B]. split.
  - intros c f. rewrite U. destruct (beq_levels (split f) (split f0)) eqn:E.
    + apply beq_levels_split in E. subst f. destruct (eqb_dec N.eqb Neqb_eq c c0) as [->|NC].
      * rewrite !al_get_set_same by (exact Neqb_eq || exact beq_npair_eq). reflexivity.
      * rewrite !al_get_set_other by (exact Neqb_eq || exact beq_npair_eq || congruence). apply A.
    + rewrite al_get_set_other; [apply A|exact beq_npair_eq|].
      intro H. inversion H; subst. rewrite beq_levels_refl in E. discriminate.
  - intros p c s. rewrite U. destruct (beq_levels p (split f0)) eqn:E; [|apply B].
    apply beq_levels_eq in E. subst p. destruct (eqb_dec N.eqb Neqb_eq c c0) as [->|NC].
    + rewrite al_get_set_same by exact Neqb_eq. intro H. inversion H; subst. reflexivity.
    + rewrite al_get_set_other by (exact Neqb_eq || exact NC). apply B.
Qed.

Lemma Rin_del cf cf' ain c0 f0 :
  (forall q, c_inline (cf' q) = if beq_levels q (split f0) then al_del N.eqb c0 (c_inline (cf q)) else c_inline (cf q)) ->
  Rin cf ain -> Rin cf' (al_del beq_npair (c0, f0) ain).
Proof.
  intros U [A B]. split.
  - intros c f. rewrite U. destruct (beq_levels (split f) (split f0)) eqn:E.
    + apply beq_levels_split in E. subst f. destruct (eqb_dec N.eqb Neqb_eq c c0) as [->|NC].
      * rewrite !al_get_del_same. reflexivity.
      * rewrite !al_get_del_other by (exact Neqb_eq || exact beq_npair_eq || congruence). apply A.
    + rewrite al_get_del_other; [apply A|exact beq_npair_eq|].
      intro H. inversion H; subst. rewrite beq_levels_refl in E. discriminate.
  - intros p c s. rewrite U. destruct (beq_levels p (split f0)) eqn:E; [|apply B].
    destruct (eqb_dec N.eqb Neqb_eq c c0) as [->|NC].
    + rewrite al_get_del_same. discriminate.
    + rewrite al_get_del_other by (exact Neqb_eq || exact NC). apply B.
Qed.

(* ---------- shared subscriptions ---------- *)
Lemma Rsh_set cf cf' ash c0 g0 i0 f0 pay :
  share_ok g0 (split i0) f0 ->
  (forall q, c_shared (cf' q) = if beq_levels q (split i0) then sh_add g0 c0 (mkSub f0 pay) (c_shared (cf q))
                                else c_shared (cf q)) ->
  Rsh cf ash -> Rsh cf' (al_set beq_triple (c0, g0, i0) (f0, pay) ash).
Proof.
  intros OK U [A B]. split.
  - intros c g i. rewrite U. destruct (beq_levels (split i) (split i0)) eqn:E.
    + apply beq_levels_split in E. subst i. rewrite sh_get_add.
      destruct (eqb_dec beq_bytes bb_eq g g0) as [->|NG]; [destruct (eqb_dec beq_bytes bb_eq c c0) as [->|NC]|].
      * rewrite !beq_bytes_refl. rewrite al_get_set_same by exact beq_triple_eq. reflexivity.
      * apply beq_bytes_neq in NC as NC'. rewrite NC', andb_false_r.
        rewrite al_get_set_other by (exact beq_triple_eq || congruence). apply A.
      * apply beq_bytes_neq in NG as NG'. rewrite NG'. cbn [andb].
        rewrite al_get_set_other by (exact beq_triple_eq || congruence). apply A.
    + rewrite al_get_set_other; [apply A|exact beq_triple_eq|].
      intro H. inversion H; subst. rewrite beq_levels_refl in E. discriminate.
  - intros p g c s. rewrite U. destruct (beq_levels p (split i0)) eqn:E; [|apply B].
    apply beq_levels_eq in E. subst p. rewrite sh_get_add.
    destruct (beq_bytes g g0 && beq_bytes c c0) eqn:E2; [|apply B].
    apply andb_true_iff in E2. destruct E2 as [E2 _]. apply beq_bytes_eq in E2. subst g.
    intro H. inversion H; subst. exact OK.
Qed.

Lemma Rsh_del cf cf' ash c0 g0 i0 :
  (forall q, c_shared (cf' q) = if beq_levels q (split i0) then sh_del g0 c0 (c_shared (cf q)) else c_shared (cf q)) ->
  Rsh cf ash -> Rsh cf' (al_del beq_triple (c0, g0, i0) ash).
Proof.
  intros U [A B]. split.
  - intros c g i. rewrite U. destruct (beq_levels (split i) (split i0)) eqn:E.
    + apply beq_levels_split in E. subst i. rewrite sh_get_del.
      destruct (eqb_dec beq_bytes bb_eq g g0) as [->|NG]; [destruct (eqb_dec beq_bytes bb_eq c c0) as [->|NC]|].
      * rewrite !beq_bytes_refl. rewrite al_get_del_same. reflexivity.
      * apply beq_bytes_neq in NC as NC'. rewrite NC', andb_false_r.
        rewrite al_get_del_other by (exact beq_triple_eq || congruence). apply A.
      * apply beq_bytes_neq in NG as NG'. rewrite NG'. cbn [andb].
        rewrite al_get_del_other by (exact beq_triple_eq || congruence). apply A.
    + rewrite al_get_del_other; [apply A|exact beq_triple_eq|].
      intro H. inversion H; subst. rewrite beq_levels_refl in E. discriminate.
  - intros p g c s. rewrite U. destruct (beq_levels p (split i0)) eqn:E; [|apply B].
    rewrite sh_get_del. destruct (beq_bytes g g0 && beq_bytes c c0); [discriminate|apply B].
Qed.

(* ---------- retained messages ---------- *)
Lemma Rrp_set cf cf' ret t pl : t <> [] ->
  (forall q, c_retain (cf' q) = if beq_levels q (split t) then t else c_retain (cf q)) ->
  Rrp cf ret -> Rrp cf' (al_set beq_bytes t pl ret).
Proof.
  intros NE U [A B]. split.
  - intros t2 pl2. rewrite U. destruct (beq_levels (split t2) (split t)) eqn:E.
    + apply beq_levels_split in E. subst t2. intros _. split; [reflexivity|exact NE].
    + rewrite al_get_set_other; [apply A|exact bb_eq|]. intros ->. rewrite beq_levels_refl in E. discriminate.
  - intros p. rewrite U. destruct (beq_levels p (split t)) eqn:E; [|apply B].
    apply beq_levels_eq in E. intros _. exact E.
Qed.

Lemma Rrp_clear cf cf' ret t :
  (forall q, c_retain (cf' q) = if beq_levels q (split t) then [] else c_retain (cf q)) ->
  Rrp cf ret -> Rrp cf' (al_del beq_bytes t ret).
Proof.
  intros U [A B]. split.
  - intros t2 pl2. rewrite U. destruct (beq_levels (split t2) (split t)) eqn:E.
    + apply beq_levels_split in E. subst t2. rewrite al_get_del_same. discriminate.
    + rewrite al_get_del_other; [apply A|exact bb_eq|]. intros ->. rewrite beq_levels_refl in E. discriminate.
  - intros p. rewrite U. destruct (beq_levels p (split t)) eqn:E; [|apply B]. intro H. contradiction.
Qed.

Lemma Rrp_expire cf ret t : Rrp cf ret -> Rrp cf (al_del beq_bytes t ret).
Proof.
  intros [A B]. split; [|exact B]. intros t2 pl2. destruct (eqb_dec beq_bytes bb_eq t2 t) as [->|NE].
  - rewrite al_get_del_same. discriminate.
  - rewrite al_get_del_other by (exact bb_eq || exact NE). apply A.
Qed.
