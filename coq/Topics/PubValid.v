(* C30, broker-level publish clause: "a client publish topic is accepted exactly when it contains no
   wildcard and does not start with '$SYS'" — on EVERY way a topic name reaches processPublish:
   plain, with a fresh topic alias, with an already bound alias and a non-empty name (re-bind), and
   alias-only (the name is whatever the alias resolves to).  Model of the slice of
   server.go processPublish that decides this (validation, InboundTopicAliases.Set, retain, routing,
   acknowledgement), the specification monitor written from the property text, and the engine.
   No proofs in this file. *)
From MV Require Import Base.Val Topics.Valid.
Import VLevels.
Open Scope N_scope.

(* one PUBLISH sent by a client connection *)
Record pev := { e_topic : bytes; e_alias : N; e_qos : N; e_retain : bool }.

(* what the broker was seen doing with it *)
Record pobs := {
  o_published : list bytes;   (* topic names of the OnPublished hook calls (the message was routed) *)
  o_retained : list bytes;    (* topic names of the OnRetainMessage hook calls *)
  o_spy : list bytes;         (* topic names under which a subscriber to #, $SYS/#, $sys/# received it *)
  o_ack : N;                  (* 0 none, 4 PUBACK, 5 PUBREC *)
  o_reason : N;               (* reason code of the acknowledgement (0 when the version has none) *)
  o_closed : bool             (* the broker closed the connection *)
}.

(* alias tables: latest binding first *)
Definition atab := list (N * bytes).
Fixpoint alookup (t : atab) (a : N) : option bytes :=
  match t with
  | [] => None
  | (k, v) :: r => if k =? a then Some v else alookup r a
  end.

(* ====================================================================================== *)
(* Specification *)

Inductive outcome :=
| Accept (name : bytes)     (* the message is published under this name *)
| Refuse                    (* invalid topic name: nothing may happen to it *)
| NoTopic.                  (* no name at all (alias never bound / empty name): protocol error, not C30's subject,
                               but certainly nothing is routed *)

(* The name a PUBLISH designates: its topic name; when that is empty, the name its alias was last
   bound to BY AN ACCEPTED PUBLISH.  An alias is bound only by a publish whose name is accepted. *)
Definition spec_step (tab : atab) (e : pev) : outcome * atab :=
  let t := e_topic e in
  if nilb t then
    match (if 0 <? e_alias e then alookup tab (e_alias e) else None) with
    | Some name => (Accept name, tab)
    | None => (NoTopic, tab)
    end
  else if valid_pub_topic_spec t then
    (Accept t, if 0 <? e_alias e then (e_alias e, t) :: tab else tab)
  else (Refuse, tab).

Definition all_eq (name : bytes) (l : list bytes) : bool := forallb (beq_bytes name) l.
Definition is_single (name : bytes) (l : list bytes) : bool :=
  match l with [x] => beq_bytes name x | _ => false end.

(* an accepted message is routed once under its name, retained under it iff the retain flag is set,
   acknowledged positively; a refused one is never routed, never retained, and not acknowledged as
   accepted (MQTT 5 shows the reason code) *)
Definition obs_ok (ver : N) (e : pev) (oc : outcome) (o : pobs) : bool :=
  match oc with
  | Accept name =>
      is_single name (o_published o)
      && (if e_retain e then is_single name (o_retained o) else nilb (o_retained o))
      && all_eq name (o_spy o)
      && negb (o_closed o)
      && (if 0 <? e_qos e then (o_ack o =? (if e_qos e =? 1 then 4 else 5)) && (o_reason o <? 128)
          else o_ack o =? 0)
  | Refuse =>
      nilb (o_published o) && nilb (o_retained o) && nilb (o_spy o)
      && (if (0 <? o_ack o) && (5 <=? ver) then 128 <=? o_reason o else true)
  | NoTopic =>
      nilb (o_published o) && nilb (o_retained o) && nilb (o_spy o)
  end.

(* the monitor over one connection's history; retained = names that must be in the store at the end
   (every payload in these histories is non-empty, so nothing is ever cleared) *)
Fixpoint monitor (ver : N) (tab : atab) (h : list (pev * pobs)) : bool * list bytes :=
  match h with
  | [] => (true, [])
  | (e, o) :: r =>
      let (oc, tab') := spec_step tab e in
      let (ok, ret) := monitor ver tab' r in
      (obs_ok ver e oc o && ok,
       match oc with Accept name => if e_retain e then name :: ret else ret | _ => ret end)
  end.

Definition subset (a b : list bytes) : bool := forallb (fun x => existsb (beq_bytes x) b) a.

(* the store at the end holds exactly the names retained by accepted publishes *)
Definition store_ok (expected final : list bytes) : bool := subset final expected && subset expected final.

(* ====================================================================================== *)
(* Model of server.go processPublish (the slice C30 is about) *)

(* InboundTopicAliases.Set (topics.go:50): maximum == 0 returns the topic given; an empty topic reads
   the table ("" when unknown); otherwise the alias is (re)bound *)
Definition inbound_set (smax : N) (tab : atab) (id : N) (topic : bytes) : bytes * atab :=
  if smax =? 0 then (topic, tab)
  else if nilb topic then (match alookup tab id with Some v => v | None => [] end, tab)
  else (topic, (id, topic) :: tab).

Inductive mres :=
| MRouted (name : bytes)
| MRefused                  (* ErrTopicNameInvalid: dropped, QoS 1/2 acknowledged with 0x90 *)
| MAliasInvalid.            (* a protocol error (ErrTopicAliasInvalid: alias never bound; wildcard in the
                               name; no name at all): the connection is closed *)

Definition model_step (smax : N) (tab : atab) (e : pev) : mres * atab :=
  (* packets.PublishValidate, called by processPacket before processPublish: a wildcard in the topic
     name is a protocol error (ErrProtocolViolationSurplusWildcard) that ends the connection *)
  if contains_rune (e_topic e) 43 || contains_rune (e_topic e) 35 then (MAliasInvalid, tab)
  else if negb (is_valid_filter (e_topic e) true) then (MRefused, tab)
  else if 0 <? e_alias e then
    let (name, tab') := inbound_set smax tab (e_alias e) (e_topic e) in
    if nilb name then (MAliasInvalid, tab') else (MRouted name, tab')
  else if nilb (e_topic e) then (MAliasInvalid, tab)     (* refused by PublishValidate before processPublish *)
  else (MRouted (e_topic e), tab).

(* the observation the model predicts *)
Definition model_obs (ver : N) (e : pev) (r : mres) : pobs :=
  let ackty := if e_qos e =? 0 then 0 else if e_qos e =? 1 then 4 else 5 in
  match r with
  | MRouted name =>
      Build_pobs [name] (if e_retain e then [name] else []) [name] ackty 0 false
  | MRefused =>
      Build_pobs [] [] [] ackty (if (0 <? ackty) && (5 <=? ver) then 144 else 0) false
  | MAliasInvalid => Build_pobs [] [] [] 0 0 true
  end.

Fixpoint model_run (ver smax : N) (tab : atab) (es : list pev) : list (pev * pobs) :=
  match es with
  | [] => []
  | e :: r => let (m, tab') := model_step smax tab e in (e, model_obs ver e m) :: model_run ver smax tab' r
  end.

(* projected comparison of an observation with the model's: everything except the spy list, which
   depends on the spy's subscriptions (checked by the monitor as "only under the right name") *)
Definition lists_eq (a b : list bytes) : bool :=
  (N.of_nat (length a) =? N.of_nat (length b)) && forallb (fun p => beq_bytes (fst p) (snd p)) (combine a b).
Definition obs_eq (o m : pobs) : bool :=
  lists_eq (o_published o) (o_published m) && lists_eq (o_retained o) (o_retained m)
  && (o_ack o =? o_ack m) && (o_reason o =? o_reason m) && Bool.eqb (o_closed o) (o_closed m).

Fixpoint corr (ver smax : N) (tab : atab) (h : list (pev * pobs)) : bool :=
  match h with
  | [] => true
  | (e, o) :: r => let (m, tab') := model_step smax tab e in
                   obs_eq o (model_obs ver e m) && corr ver smax tab' r
  end.

(* ====================================================================================== *)
(* Engine.  case = VL [VN ver; VN smax; VL events; VL finalRetained]
     event = VL [VB topic; VN alias; VN qos; VN retain; VL published; VL retained; VL spy;
                 VN ackType; VN ackReason; VN closed] *)
Definition p_names (v : val) : option (list bytes) :=
  match v with VL l => map_opt as_B l | _ => None end.
Definition p_event (v : val) : option (pev * pobs) :=
  match v with
  | VL [VB t; VN a; VN q; VN rt; pu; re; sp; VN at_; VN ar; VN cl] =>
      match p_names pu, p_names re, p_names sp with
      | Some pu', Some re', Some sp' =>
          Some (Build_pev t a q (negb (rt =? 0)), Build_pobs pu' re' sp' at_ ar (negb (cl =? 0)))
      | _, _, _ => None
      end
  | _ => None
  end.

Definition has_refusal (h : list (pev * pobs)) : bool :=
  existsb (fun eo => negb (nilb (e_topic (fst eo))) && negb (valid_pub_topic_spec (e_topic (fst eo)))) h.

(* ENGINE pubvalid Topics.PubValid.pubvalid_engine *)
Definition pubvalid_engine (c : val) : val :=
  match c with
  | VL [VN ver; VN smax; VL evs; fin] =>
      match map_opt p_event evs, p_names fin with
      | Some h, Some final =>
          let (ok, expected) := monitor ver [] h in
          let nt := has_refusal h in
          let tg := if (0 <? ver) && (ver <? 5) then tag "publish-v3" else tag "publish-v5" in
          if negb ok then verdict 1 tg nt []
          else if negb (store_ok expected final) then verdict 1 (tg ++ tag "-store")%list nt []
          else if negb (corr ver smax [] h) then verdict 2 tg nt []
          else verdict 0 tg nt []
      | _, _ => bad_case
      end
  | _ => bad_case
  end.
