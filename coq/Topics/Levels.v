(* Topic levels: splitting a topic name / filter on '/', joining, and the model of
   topics.go isolateParticle.  No proofs in this file (see LevelsProofs.v). *)
From MV Require Import Base.Val.
Open Scope N_scope.

Definition level := bytes.

(* ---------- specification side (DESIGN appendix G) ---------- *)
Fixpoint split_aux (cur s : bytes) : list level :=          (* "a//b" -> [a;[];b]   "" -> [[]] *)
  match s with
  | [] => [rev cur]
  | c :: r => if c =? 47 then rev cur :: split_aux [] r else split_aux (c :: cur) r
  end.
Definition split (s : bytes) : list level := split_aux [] s.

Fixpoint join (ls : list level) : bytes :=
  match ls with
  | [] => []
  | l :: r => match r with [] => l | _ => l ++ 47 :: join r end
  end.

Fixpoint has (c : N) (s : bytes) : bool :=
  match s with [] => false | x :: r => (x =? c) || has c r end.
Definition nilb {A} (l : list A) : bool := match l with [] => true | _ => false end.

Fixpoint beq_levels (a b : list level) : bool :=
  match a, b with
  | [], [] => true
  | x :: a', y :: b' => beq_bytes x y && beq_levels a' b'
  | _, _ => false
  end.

(* ---------- model side: strings.IndexRune(filter, '/') and isolateParticle ---------- *)
(* cut s = None when s has no '/', else Some (s[:end], s[end+1:]) for the first '/' *)
Fixpoint cut (s : bytes) : option (bytes * bytes) :=
  match s with
  | [] => None
  | c :: r =>
      if c =? 47 then Some ([], r)
      else match cut r with Some (a, b) => Some (c :: a, b) | None => None end
  end.

(* isolateParticle(filter, d) for d >= 0 (topics.go:679).  Each loop iteration i <= d looks for the
   next '/': i = d and found -> (filter[:end], true); found and i < d -> drop the level, continue;
   not found -> (rest of filter, false) and the loop ends (end = -1).  Asking for a level beyond the
   last one therefore returns the LAST level with hasNext = false. *)
Fixpoint isolate (f : bytes) (d : nat) : bytes * bool :=
  match cut f with
  | None => (f, false)
  | Some (a, r) => match d with O => (a, true) | S d' => isolate r d' end
  end.

(* the keys visited by the loops `for hasNext { key, hasNext = isolateParticle(topic, d); d++ ... }`
   of set / seek (and by the recursion of scanSubscribers / scanMessages).  Fuel = number of bytes + 1
   bounds the number of levels; LevelsProofs.path_of_spec shows it is never exhausted. *)
Fixpoint walk (fuel : nat) (f : bytes) (d : nat) : list level :=
  match fuel with
  | O => []
  | S fu => let '(k, hn) := isolate f d in k :: (if hn then walk fu f (S d) else [])
  end.
Definition path_of (f : bytes) (d : nat) : list level := walk (S (length f)) f d.
