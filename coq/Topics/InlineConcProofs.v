(* C40, concurrency dimension: with InlineSubscribe's walk + add as one atomic step, every schedule of inline
   subscribes / unsubscribes / publishes and index operations is a serial execution of the set specification
   (same return values, same handler calls, related final state); the split variant is refuted by a schedule. *)
From MV Require Import Base.Val Topics.Levels Topics.Match Topics.Alist Topics.IndexSpec Topics.Trie
  Topics.TrieRefine Topics.TrieSelect Topics.Lin Topics.LinProofs Topics.TopicsEngine Topics.InlineConc.
From Coq Require Import Lia.
Open Scope N_scope.

Lemma has_id_ext i l1 l2 : set_eq l1 l2 -> has_id i l1 = has_id i l2.
Proof.
  intro E. unfold has_id. destruct (existsb _ l2) eqn:H2.
  - apply existsb_exists in H2. destruct H2 as (e & HI & HE). apply existsb_exists. exists e. split; [apply E; exact HI|exact HE].
  - destruct (existsb _ l1) eqn:H1; [|reflexivity]. apply existsb_exists in H1. destruct H1 as (e & HI & HE).
    assert (X : existsb (fun e0 : N * bytes * N => fst (fst e0) =? i) l2 = true)
      by (apply existsb_exists; exists e; split; [apply E; exact HI|exact HE]).
    congruence.
Qed.

Lemma pub_mask_ext l1 l2 : set_eq l1 l2 -> pub_mask l1 = pub_mask l2.
Proof. intro E. unfold pub_mask. rewrite !(has_id_ext _ l1 l2 E). reflexivity. Qed.

Lemma m_step_R x a c : R x a -> wf_copb c = true ->
  R (fst (m_step x c)) (fst (c_step a c)) /\ snd (m_step x c) = snd (c_step a c).
Proof.
  intros HR W. destruct c as [o|t]; cbn [m_step c_step wf_copb] in *.
  - destruct (step_R x a o HR W) as [H1 H2]. destruct (t_step x o) as [x' r]. destruct (a_step a o) as [a' r'].
    cbn [fst snd] in *. split; [exact H1|]. rewrite H2. reflexivity.
  - cbn [fst snd]. split; [exact HR|]. apply pub_mask_ext. apply select_inline; assumption.
Qed.

Lemma seq_run_R : forall l x a, R x a -> Forall (fun c => wf_copb c = true) l ->
  snd (seq_run m_step x l) = snd (seq_run c_step a l) /\
  R (fst (seq_run m_step x l)) (fst (seq_run c_step a l)).
Proof.
  induction l as [|c l IH]; intros x a HR W; cbn [seq_run]; [split; [reflexivity|exact HR]|].
  inversion W as [|? ? W1 W2]; subst. destruct (m_step_R x a c HR W1) as [H1 H2].
  destruct (m_step x c) as [x' r]. destruct (c_step a c) as [a' r']. cbn [fst snd] in *.
  destruct (IH x' a' H1 W2) as [I1 I2].
  destruct (seq_run m_step x' l) as [x'' rs]. destruct (seq_run c_step a' l) as [a'' rs']. cbn [fst snd] in *.
  split; [congruence|exact I2].
Qed.

Lemma run_sched_ops' {St Op Rv} (step : St -> Op -> St * Rv) : forall sched st rest stf restf h,
  run_sched step sched st rest = (stf, restf, h) ->
  forall t o v, In (t, o, v) h -> In o (concat rest).
Proof.
  induction sched as [|t sc IH]; intros st rest stf restf h H; cbn [run_sched] in H.
  - inversion H; subst. intros ? ? ? [].
  - destruct (nth_error rest t) as [[|o os]|] eqn:N; try (eapply IH; exact H).
    destruct (step st o) as [st' v] eqn:E.
    destruct (run_sched step sc st' (upd_nth rest t os)) as [[stf' restf'] h'] eqn:R.
    inversion H; subst. intros t2 o2 v2 [HI|HI].
    + inversion HI; subst. apply in_concat. exists (o2 :: os). split; [eapply nth_error_In; exact N|left; reflexivity].
    + pose proof (IH _ _ _ _ _ R _ _ _ HI) as HC. apply in_concat in HC. destruct HC as (th & H1 & H2).
      apply in_concat. clear - N H1 H2. revert t N H1. induction rest as [|r rest IHr]; intros [|t] N H1; cbn in *; try discriminate.
      * inversion N; subst. destruct H1 as [E1|H1]; [subst th; exists (o :: os); split; [left; reflexivity|right; exact H2]|].
        exists th. split; [right; exact H1|exact H2].
      * destruct H1 as [E1|H1]; [subst th; exists r; split; [left; reflexivity|exact H2]|].
        destruct (IHr _ N H1) as (th' & A & B). exists th'. split; [right; exact A|exact B].
Qed.

(* every schedule: program order kept; every return value and every set of handlers called is what the set
   specification gives in the serial order of the history; the final tree is related to the final set *)
Theorem inline_atomic_all_schedules : forall x0 a0 prog sched xf restf h,
  R x0 a0 -> Forall (fun c => wf_copb c = true) (concat prog) ->
  run_sched m_step sched x0 prog = (xf, restf, h) ->
  let serial := map (fun e : nat * cop * N => snd (fst e)) h in
  (forall t, proj t h ++ nth t restf [] = nth t prog []) /\
  map snd h = snd (seq_run c_step a0 serial) /\
  R xf (fst (seq_run c_step a0 serial)).
Proof.
  intros x0 a0 prog sched xf restf h HR W H serial.
  destruct (sched_serial m_step _ _ _ _ _ _ H) as (S1 & S2 & _). fold serial in S1.
  assert (Ws : Forall (fun c => wf_copb c = true) serial).
  { rewrite Forall_forall in *. intros c HI. unfold serial in HI. apply in_map_iff in HI.
    destruct HI as ([[t c'] v] & <- & HI). cbn [fst snd]. apply W. eapply run_sched_ops'; eassumption. }
  destruct (seq_run_R serial x0 a0 HR Ws) as [E1 E2]. rewrite S1 in E1, E2. cbn [fst snd] in E1, E2.
  split; [exact S2|]. split; assumption.
Qed.

(* ---------- the split variant is not linearizable ---------- *)
Definition ab : bytes := tag "a/b".
Definition x_pre : index := run [OSub (tag "c1") ab 1].
Definition a_pre : astate := abs [OSub (tag "c1") ab 1].

(* goroutine 0: inline Subscribe(a/b, 1) split in walk and add; goroutine 1: the client unsubscribes a/b.
   Schedule walk, unsubscribe, add: the unsubscribe prunes the still empty particle, the subscription lands on a
   particle that is no longer in the tree, and a publish on a/b calls no handler — although Subscribe returned nil
   and nobody unsubscribed identifier 1.  The atomic model calls handler 1 under every schedule, as the
   specification does under both serial orders. *)
Lemma split_refuted :
  let prog := [[SWalk ab; SAdd 1 ab 0]; [SO (CO (OUnsub (tag "c1") ab))]] in
  (let '(xf, _, _) := run_sched s_step [0; 1; 0]%nat x_pre prog in pub_mask (r_in (subscribers xf ab))) = 0 /\
  (let '(xf, _, _) := run_sched s_step [0; 0; 1]%nat x_pre prog in pub_mask (r_in (subscribers xf ab))) = 1 /\
  (let '(xf, _, _) := run_sched m_step [0; 1]%nat x_pre [[CO (OInSub 1 ab 0)]; [CO (OUnsub (tag "c1") ab)]] in
   pub_mask (r_in (subscribers xf ab))) = 1 /\
  (let '(xf, _, _) := run_sched m_step [1; 0]%nat x_pre [[CO (OInSub 1 ab 0)]; [CO (OUnsub (tag "c1") ab)]] in
   pub_mask (r_in (subscribers xf ab))) = 1 /\
  snd (c_step (fst (seq_run c_step a_pre [CO (OInSub 1 ab 0); CO (OUnsub (tag "c1") ab)])) (CPub ab)) = 1 /\
  snd (c_step (fst (seq_run c_step a_pre [CO (OUnsub (tag "c1") ab); CO (OInSub 1 ab 0)])) (CPub ab)) = 1.
Proof. vm_compute. repeat split. Qed.

(* and the run-time checker rejects exactly that observation (publish on a/b afterwards calls nobody) *)
Lemma split_observation_rejected :
  conc_explained c_step a_empty [(CO (OSub (tag "c1") ab 1), 1)]
    [[(CO (OInSub 1 ab 0), 0)]; [(CO (OUnsub (tag "c1") ab), 1)]] [(CPub ab, 0)] = false /\
  conc_explained c_step a_empty [(CO (OSub (tag "c1") ab 1), 1)]
    [[(CO (OInSub 1 ab 0), 0)]; [(CO (OUnsub (tag "c1") ab), 1)]] [(CPub ab, 1)] = true.
Proof. vm_compute. split; reflexivity. Qed.
