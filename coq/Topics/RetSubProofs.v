(* Whatever the order in which scanMessages returns the matching retained messages, the loop of
   publishRetainedToClient (RetSub.deliver) sends exactly the messages the specification RetSub.retsub_okb asks for. *)
From MV Require Import Base.Val Topics.Levels Topics.LevelsProofs Topics.Match Topics.Alist Topics.IndexSpec Topics.RetSub.
From Coq Require Import Lia Permutation.
Open Scope N_scope.

Lemma beq_item_refl i : beq_item i i = true.
Proof. unfold beq_item. rewrite !beq_bytes_refl, N.eqb_refl. reflexivity. Qed.

Section D.
  Variables (denied : list bytes) (subq maxq : N).
  Notation dl := (deliver denied subq maxq).
  Notation ent := (entitled denied).
  Notation slot := (needs_slot subq maxq).
  Notation sent := (sent_as subq maxq).

  Lemma deliver_in : forall scan free o, In o (dl free scan) ->
    exists c, In c scan /\ ent c = true /\ sent c = o.
  Proof.
    induction scan as [|[m q] r IH]; intros free o H; cbn [deliver] in H; [destruct H|].
    destruct (memb_bytes (fst m) denied) eqn:E.
    - destruct (IH _ _ H) as (c & A & B). exists c. split; [right; exact A|exact B].
    - assert (En : ent (m, q) = true) by (unfold entitled, it_topic; cbn; rewrite E; reflexivity).
      destruct (eff_qos subq maxq q =? 0) eqn:Z.
      + destruct H as [H|H].
        * exists (m, q). split; [left; reflexivity|]. split; [exact En|]. unfold sent_as. cbn.
          apply N.eqb_eq in Z. rewrite Z. exact H.
        * destruct (IH _ _ H) as (c & A & B). exists c. split; [right; exact A|exact B].
      + destruct free as [|f].
        * destruct (IH _ _ H) as (c & A & B). exists c. split; [right; exact A|exact B].
        * destruct H as [H|H].
          -- exists (m, q). split; [left; reflexivity|]. split; [exact En|exact H].
          -- destruct (IH _ _ H) as (c & A & B). exists c. split; [right; exact A|exact B].
  Qed.

  Lemma deliver_q0 : forall scan free c, In c scan -> ent c = true -> slot c = false ->
    In (sent c) (dl free scan).
  Proof.
    induction scan as [|[m q] r IH]; intros free c HI En Sl; [destruct HI|]. cbn [deliver].
    destruct HI as [HI|HI].
    - subst c. unfold entitled, it_topic in En. cbn in En. apply negb_true_iff in En. rewrite En.
      unfold needs_slot in Sl. cbn in Sl. apply negb_false_iff in Sl. rewrite Sl. left.
      unfold sent_as. cbn. apply N.eqb_eq in Sl. rewrite Sl. reflexivity.
    - destruct (memb_bytes (fst m) denied); [apply IH; assumption|].
      destruct (eff_qos subq maxq q =? 0); [right; apply IH; assumption|].
      destruct free; [apply IH; assumption|right; apply IH; assumption].
  Qed.

  Definition posq (o : item) : bool := negb (snd o =? 0).

  Lemma deliver_count : forall scan free,
    length (filter posq (dl free scan)) = Nat.min (length (filter (fun c => ent c && slot c) scan)) free.
  Proof.
    induction scan as [|[m q] r IH]; intros free; cbn [deliver filter]; [reflexivity|].
    unfold entitled at 1, needs_slot at 1, it_topic. cbn [fst snd].
    destruct (memb_bytes (fst m) denied); cbn [negb andb]; [apply IH|].
    destruct (eff_qos subq maxq q =? 0) eqn:Z; cbn [negb].
    - cbn [filter posq snd]. cbn. apply IH.
    - destruct free as [|f]; [rewrite IH; cbn [length]; lia|].
      cbn [filter]. unfold posq at 1. cbn [snd]. rewrite Z. cbn [negb length]. rewrite IH. lia.
  Qed.

  Lemma deliver_nodup : forall scan free, NoDup (map it_topic scan) -> nodup_topics (dl free scan) = true.
  Proof.
    induction scan as [|[m q] r IH]; intros free ND; cbn [deliver]; [reflexivity|].
    inversion ND as [|? ? NI ND']; subst.
    assert (NX : forall f qq, existsb (fun y => beq_bytes (it_topic y) (it_topic (m, qq))) (dl f r) = false).
    { intros f qq. destruct (existsb _ (dl f r)) eqn:E; [|reflexivity]. exfalso.
      apply existsb_exists in E. destruct E as (y & HI & HE). apply beq_bytes_eq in HE.
      destruct (deliver_in _ _ _ HI) as (c & A & _ & B). apply NI. unfold it_topic in *. cbn [fst] in *.
      rewrite <- HE, <- B. unfold sent_as. cbn [fst]. apply in_map_iff. exists c. split; [reflexivity|exact A]. }
    destruct (memb_bytes (fst m) denied); [apply IH; exact ND'|].
    destruct (eff_qos subq maxq q =? 0).
    - cbn [nodup_topics]. rewrite NX, IH by exact ND'. reflexivity.
    - destruct free; [apply IH; exact ND'|]. cbn [nodup_topics]. rewrite NX, IH by exact ND'. reflexivity.
  Qed.
End D.

Lemma Permutation_filter_length {A} (p : A -> bool) (l1 l2 : list A) :
  Permutation l1 l2 -> length (filter p l1) = length (filter p l2).
Proof.
  induction 1 as [|x l1 l2 _ IH|x y l|l1 l2 l3 _ IH1 _ IH2]; cbn [filter].
  - reflexivity.
  - destruct (p x); cbn [length]; congruence.
  - destruct (p x), (p y); reflexivity.
  - congruence.
Qed.

Theorem deliver_meets_spec denied subq maxq free cands scan :
  Permutation scan cands -> NoDup (map it_topic cands) ->
  retsub_okb denied subq maxq free cands (deliver denied subq maxq free scan) = true.
Proof.
  intros P ND. unfold retsub_okb. rewrite !andb_true_iff. repeat split.
  - apply deliver_nodup. eapply Permutation_NoDup; [|exact ND]. apply Permutation_map. apply Permutation_sym. exact P.
  - apply forallb_forall. intros o HI. destruct (deliver_in _ _ _ _ _ _ HI) as (c & A & B & C).
    apply existsb_exists. exists c. split; [eapply Permutation_in; eassumption|].
    rewrite B, C. apply beq_item_refl.
  - apply forallb_forall. intros c HI. destruct (entitled denied c) eqn:E; [|reflexivity].
    destruct (needs_slot subq maxq c) eqn:S; [reflexivity|]. cbn [negb orb].
    apply existsb_exists. exists (sent_as subq maxq c). split; [|apply beq_item_refl].
    apply deliver_q0; [eapply Permutation_in; [apply Permutation_sym; exact P|exact HI]|exact E|exact S].
  - apply Nat.eqb_eq. pose proof (deliver_count denied subq maxq scan free) as C. unfold posq in C.
    rewrite <- (Permutation_filter_length _ _ _ P). exact C.
Qed.

(* ---------- on the index: for every history, every filter and every scan order ---------- *)
From MV Require Import Topics.Trie Topics.TrieRefine Topics.TrieMsgs Topics.AlistProofs.

Lemma nodup_filter_keys {V} (p : bytes * V -> bool) (l : list (bytes * V)) :
  NoDup (map fst l) -> NoDup (map fst (filter p l)).
Proof.
  induction l as [|x l IH]; intro ND; cbn [filter map]; [constructor|].
  inversion ND as [|? ? NI ND']; subst. destruct (p x); [|apply IH; exact ND'].
  cbn [map]. constructor; [|apply IH; exact ND'].
  intro HI. apply NI. apply in_map_iff in HI. destruct HI as (y & E & HI). apply filter_In in HI.
  rewrite <- E. apply in_map. apply HI.
Qed.

Theorem deliver_on_index ops f qt denied subq maxq free scan :
  wf_ops ops -> msg_filter_ok f = true ->
  Permutation scan (map (annot qt) (messages (run ops) f)) ->
  retsub_okb denied subq maxq free (map (annot qt) (spec_retained (abs ops) f))
             (deliver denied subq maxq free scan) = true.
Proof.
  intros W OK P. pose proof (R_run ops W) as HR. apply deliver_meets_spec.
  - eapply Permutation_trans; [exact P|]. apply Permutation_map. apply messages_perm; assumption.
  - rewrite map_map. unfold it_topic, annot. cbn [fst].
    change (NoDup (map (fun x : bytes * bytes => fst x) (spec_retained (abs ops) f))).
    unfold spec_retained. apply nodup_filter_keys. apply (R_nd _ _ HR).
Qed.
