(* Go maps as association lists: get = first binding, set = replace in place or append, del = remove
   every binding of the key.  No proofs in this file (see AlistProofs.v). *)
From MV Require Import Base.Val.

Section AL.
  Context {K V : Type} (eqb : K -> K -> bool).
  Fixpoint al_get (k : K) (l : list (K * V)) : option V :=
    match l with [] => None | (k', v) :: r => if eqb k' k then Some v else al_get k r end.
  Fixpoint al_set (k : K) (v : V) (l : list (K * V)) : list (K * V) :=
    match l with
    | [] => [(k, v)]
    | (k', v') :: r => if eqb k' k then (k, v) :: r else (k', v') :: al_set k v r
    end.
  Fixpoint al_del (k : K) (l : list (K * V)) : list (K * V) :=
    match l with [] => [] | (k', v') :: r => if eqb k' k then al_del k r else (k', v') :: al_del k r end.
  Definition al_mem (k : K) (l : list (K * V)) : bool :=
    match al_get k l with Some _ => true | None => false end.
End AL.
