(* Operations that run atomically (each under one lock), executed by several goroutines: schedules, serial
   orders consistent with program order, and the search for a serial order that explains an observation
   ([lin_check], used by the C31 harness).  Generic in the state, operation and return types.
   No proofs in this file (see LinProofs.v). *)
From MV Require Import Base.Val.

Fixpoint upd_nth {A} (l : list A) (i : nat) (x : A) : list A :=
  match l with
  | [] => []
  | y :: r => match i with O => x :: r | S i' => y :: upd_nth r i' x end
  end.

Definition all_nil {A} (ths : list (list A)) : bool :=
  forallb (fun th => match th with [] => true | _ => false end) ths.

(* all ways of taking the head of one thread: (head, remaining threads) *)
Fixpoint picks {A} (before after : list (list A)) : list (A * list (list A)) :=
  match after with
  | [] => []
  | th :: rest =>
      match th with
      | [] => picks (before ++ [th]) rest
      | e :: th' => (e, before ++ th' :: rest) :: picks (before ++ [th]) rest
      end
  end.

(* l is an interleaving of the threads that respects the order inside every thread *)
Inductive interleave {A} : list (list A) -> list A -> Prop :=
| il_nil ths : all_nil ths = true -> interleave ths []
| il_cons ths e ths' l : In (e, ths') (picks [] ths) -> interleave ths' l -> interleave ths (e :: l).

Section Lin.
  Context {St Op Rv : Type} (step : St -> Op -> St * Rv).

  (* ----- the real execution: a schedule names the goroutine that runs its next operation, atomically ----- *)
  Fixpoint run_sched (sched : list nat) (st : St) (rest : list (list Op))  : St * list (list Op) * list (nat * Op * Rv) :=
    match sched with
    | [] => (st, rest, [])
    | t :: sc =>
        match nth_error rest t with
        | Some (o :: os) =>
            let (st', v) := step st o in
            let '(stf, restf, h) := run_sched sc st' (upd_nth rest t os) in
            (stf, restf, (t, o, v) :: h)
        | _ => run_sched sc st rest          (* goroutine finished / no such goroutine: nothing happens *)
        end
    end.

  (* ----- serial execution ----- *)
  Fixpoint seq_run (st : St) (ops : list Op)  : St * list Rv :=
    match ops with
    | [] => (st, [])
    | o :: r => let (st', v) := step st o in let (st'', vs) := seq_run st' r in (st'', v :: vs)
    end.

  (* the operations of goroutine t in a history, in order *)
  Fixpoint proj (t : nat) (h : list (nat * Op * Rv)) : list Op :=
    match h with
    | [] => []
    | (t', o, _) :: r => if Nat.eqb t' t then o :: proj t r else proj t r
    end.

  (* ----- explaining an observation: per goroutine the operations with the values they returned ----- *)
  Context (reqb : Rv -> Rv -> bool) (final : St -> bool).

  (* the serial order l returns the observed values and ends in an accepted state *)
  Fixpoint explains (st : St) (l : list (Op * Rv)) : bool :=
    match l with
    | [] => final st
    | (o, r) :: l' => let (st', r') := step st o in reqb r r' && explains st' l'
    end.

  Fixpoint lin_search (fuel : nat) (st : St) (threads : list (list (Op * Rv))) : bool :=
    match fuel with
    | O => false
    | S fu =>
        if all_nil threads then final st
        else existsb (fun pk : (Op * Rv) * list (list (Op * Rv)) =>
                        let '((o, r), ths) := pk in
                        let (st', r') := step st o in
                        reqb r r' && lin_search fu st' ths) (picks [] threads)
    end.
  Definition total_len (ths : list (list (Op * Rv))) : nat := length (concat ths).
  Definition lin_check (st : St) (ths : list (list (Op * Rv))) : bool :=
    lin_search (S (total_len ths)) st ths.
End Lin.
