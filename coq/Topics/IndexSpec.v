(* The topic index as a simple set of subscriptions and a map of retained messages — the SPECIFICATION
   for C01 / C02 / C31 / C40, written from the property texts.  No proofs in this file. *)
From MV Require Import Base.Val Topics.Levels Topics.Match Topics.Alist.
Open Scope N_scope.

(* operations of the index API (topics.go) *)
Inductive op :=
| OSub (client filter : bytes) (pay : N)      (* Subscribe(client, Subscription{Filter, ...}); pay = the data stored *)
| OUnsub (client filter : bytes)              (* Unsubscribe(filter, client) *)
| OInSub (id : N) (filter : bytes) (pay : N)  (* InlineSubscribe(InlineSubscription{Identifier: id, Filter}) *)
| OInUnsub (id : N) (filter : bytes)          (* InlineUnsubscribe(id, filter) *)
| ORetain (topic payload : bytes)             (* RetainMessage(pk); empty payload clears *)
| OExpire (topic : bytes).                    (* x.Retained.Delete(topic), as done by the server when a retained message expires *)

(* return values: Subscribe/InlineSubscribe 1 = new, 0 = existed; Unsubscribe/InlineUnsubscribe 1 = existed;
   RetainMessage 1 = stored, 2 = removed (-1 in Go), 0 = nothing to remove; OExpire 0 *)

Definition beq_pair (a b : bytes * bytes) : bool := beq_bytes (fst a) (fst b) && beq_bytes (snd a) (snd b).
Definition beq_triple (a b : bytes * bytes * bytes) : bool :=
  beq_pair (fst a) (fst b) && beq_bytes (snd a) (snd b).
Definition beq_npair (a b : N * bytes) : bool := (fst a =? fst b) && beq_bytes (snd a) (snd b).

Record astate := mkA {
  a_cl : list ((bytes * bytes) * N);                      (* (client, filter) -> data *)
  a_sh : list ((bytes * bytes * bytes) * (bytes * N));    (* (client, group, filter after $share/group/) -> (filter as given, data) *)
  a_in : list ((N * bytes) * N);                          (* (id, filter) -> data *)
  a_ret : list (bytes * bytes)                            (* topic -> payload *)
}.
Definition a_empty : astate := mkA [] [] [] [].

Definition a_step (a : astate) (o : op) : astate * N :=
  match o with
  | OSub c f pay =>
      if is_share f then
        let k := (c, share_group f, eff_filter f) in
        (mkA (a_cl a) (al_set beq_triple k (f, pay) (a_sh a)) (a_in a) (a_ret a),
         if al_mem beq_triple k (a_sh a) then 0 else 1)
      else
        (mkA (al_set beq_pair (c, f) pay (a_cl a)) (a_sh a) (a_in a) (a_ret a),
         if al_mem beq_pair (c, f) (a_cl a) then 0 else 1)
  | OUnsub c f =>
      if is_share f then
        let k := (c, share_group f, eff_filter f) in
        (mkA (a_cl a) (al_del beq_triple k (a_sh a)) (a_in a) (a_ret a),
         if al_mem beq_triple k (a_sh a) then 1 else 0)
      else
        (mkA (al_del beq_pair (c, f) (a_cl a)) (a_sh a) (a_in a) (a_ret a),
         if al_mem beq_pair (c, f) (a_cl a) then 1 else 0)
  | OInSub id f pay =>
      (mkA (a_cl a) (a_sh a) (al_set beq_npair (id, f) pay (a_in a)) (a_ret a),
       if al_mem beq_npair (id, f) (a_in a) then 0 else 1)
  | OInUnsub id f =>
      (mkA (a_cl a) (a_sh a) (al_del beq_npair (id, f) (a_in a)) (a_ret a),
       if al_mem beq_npair (id, f) (a_in a) then 1 else 0)
  | ORetain t pl =>
      if nilb pl then
        (mkA (a_cl a) (a_sh a) (a_in a) (al_del beq_bytes t (a_ret a)),
         if al_mem beq_bytes t (a_ret a) then 2 else 0)
      else (mkA (a_cl a) (a_sh a) (a_in a) (al_set beq_bytes t pl (a_ret a)), 1)
  | OExpire t => (mkA (a_cl a) (a_sh a) (a_in a) (al_del beq_bytes t (a_ret a)), 0)
  end.

Fixpoint a_run (a : astate) (ops : list op) : astate :=
  match ops with [] => a | o :: r => a_run (fst (a_step a o)) r end.
Definition abs (ops : list op) : astate := a_run a_empty ops.

(* selection for a published topic: every subscription whose filter matches (C01) *)
Definition sel_cl (a : astate) (t : bytes) : list (bytes * bytes * N) :=
  flat_map (fun e => let '((c, f), pay) := e in if topic_matches f t then [(c, f, pay)] else []) (a_cl a).
Definition sel_sh (a : astate) (t : bytes) : list (bytes * bytes * N) :=
  flat_map (fun e => let '((c, g, inner), (full, pay)) := e in
                     if topic_matches inner t then [(c, full, pay)] else []) (a_sh a).
Definition sel_in (a : astate) (t : bytes) : list (N * bytes * N) :=
  flat_map (fun e => let '((id, f), pay) := e in if topic_matches f t then [(id, f, pay)] else []) (a_in a).

(* retained messages for a subscription filter (C02) *)
Definition spec_retained (a : astate) (f : bytes) : list (bytes * bytes) :=
  filter (fun e => topic_matches f (fst e)) (a_ret a).

(* filters for which C02 speaks: non-empty, wildcards only as whole levels, '#' only last ([MQTT-4.7.1-2],
   [MQTT-4.7.1-3], [MQTT-4.7.3-1]) *)
Definition msg_filter_ok (f : bytes) : bool := negb (nilb f) && levels_ok (split f).

(* which operations the theorems are about: shared filters have a filter part after $share/<group>/
   ([MQTT-4.8.2-1], enforced by IsValidFilter before the index is called); retained topics are topic names *)
Definition wf_opb (o : op) : bool :=
  match o with
  | OSub _ f _ | OUnsub _ f => if is_share f then (2 <? length (split f))%nat else true
  | ORetain t _ => valid_topicb t
  | _ => true
  end.
Definition wf_ops (ops : list op) : Prop := Forall (fun o => wf_opb o = true) ops.
