(* Topics-level facts for C40 (inline client API): inline subscriptions are selected exactly when their filter
   matches, including a trailing '#' on the parent level, and removing one inline subscription leaves the others. *)
From MV Require Import Base.Val Topics.Levels Topics.LevelsProofs Topics.Match Topics.Alist Topics.AlistProofs
  Topics.IndexSpec Topics.Trie Topics.TrieInv Topics.TrieScan Topics.TrieRel Topics.TrieRefine Topics.TrieSelect.
From Coq Require Import Lia.
Open Scope N_scope.

Lemma split_snoc_hash (t : bytes) : split (t ++ [47; 35]) = split t ++ [[35]].
Proof.
  induction t as [t IH] using bytes_len_ind. rewrite (split_cut t).
  destruct (cut t) as [[a r]|] eqn:C.
  - pose proof (cut_length _ _ _ C) as L. destruct (cut_some_noslash _ _ _ C) as [NS E]. subst t.
    rewrite <- app_assoc. cbn [app]. rewrite split_cut, (cut_app a (r ++ [47; 35]) NS). cbn [app]. f_equal.
    apply IH. rewrite app_length in *. cbn in *. lia.
  - apply cut_none_has in C. rewrite split_cut, (cut_app t [35] C). reflexivity.
Qed.

Lemma lv_match_snoc_hash ls : Forall plain ls -> lv_match (ls ++ [[35]]) ls = true.
Proof.
  induction 1 as [|l ls [Hp Hh] _ IH]; [reflexivity|]. cbn [app lv_match]. rewrite Hh, beq_bytes_refl, orb_true_r. exact IH.
Qed.

(* a trailing '#' matches the parent level: "t/#" matches t, for every topic name t *)
Lemma matches_parent_hash t : valid_topic t -> topic_matches (t ++ [47; 35]) t = true.
Proof.
  intro V. pose proof (valid_topic_plain t V) as PL. unfold topic_matches. rewrite split_snoc_hash.
  assert (LW : leading_wild (split t ++ [[35]]) = false).
  { pose proof (split_nonempty t). destruct (split t) as [|h r]; [contradiction|].
    inversion PL as [|? ? [Hp Hh] _]; subst. cbn. rewrite Hh, Hp. reflexivity. }
  rewrite LW, andb_false_r. apply lv_match_snoc_hash. exact PL.
Qed.

(* an inline subscription is handed to the publisher exactly when its filter matches the topic *)
Lemma inline_selected_iff ops t id f pay : wf_ops ops -> valid_topic t ->
  (In (id, f, pay) (r_in (subscribers (run ops) t)) <->
   al_get beq_npair (id, f) (a_in (abs ops)) = Some pay /\ topic_matches f t = true).
Proof.
  intros W V. pose proof (R_run ops W) as HR. rewrite (select_inline _ _ HR t V (id, f, pay)).
  pose proof (R_nd _ _ HR) as (_ & _ & N3 & _). unfold sel_in. rewrite in_flat_map. split.
  - intros ([[id' f'] pay'] & HI & HE). destruct (topic_matches f' t) eqn:M; [|destruct HE].
    destruct HE as [HE|[]]. inversion HE; subst. split; [|exact M].
    apply In_al_get; [exact beq_npair_eq|exact N3|exact HI].
  - intros [G M]. exists ((id, f), pay). split; [apply (al_get_In beq_npair beq_npair_eq); exact G|].
    rewrite M. left. reflexivity.
Qed.

(* ... in particular inline "t/#" receives publishes on t (defect C01-4 / C40-1 before fix d67a363) *)
Lemma inline_parent_hash ops t id pay : wf_ops ops -> valid_topic t ->
  al_get beq_npair (id, t ++ [47; 35]) (a_in (abs ops)) = Some pay ->
  In (id, t ++ [47; 35], pay) (r_in (subscribers (run ops) t)).
Proof. intros W V G. apply inline_selected_iff; [exact W|exact V|]. split; [exact G|apply matches_parent_hash; exact V]. Qed.

(* InlineSubscribe makes the entry present with the new datum, InlineUnsubscribe removes that entry only *)
Lemma inline_sub_adds a id f pay id2 f2 :
  al_get beq_npair (id2, f2) (a_in (fst (a_step a (OInSub id f pay)))) =
  if beq_npair (id2, f2) (id, f) then Some pay else al_get beq_npair (id2, f2) (a_in a).
Proof.
  cbn [a_step fst a_in]. destruct (beq_npair (id2, f2) (id, f)) eqn:E.
  - apply beq_npair_eq in E. inversion E; subst. apply al_get_set_same. exact beq_npair_eq.
  - apply al_get_set_other; [exact beq_npair_eq|]. intro H. rewrite H in E.
    assert (beq_npair (id, f) (id, f) = true) by (apply beq_npair_eq; reflexivity). congruence.
Qed.

Lemma inline_unsub_one a id f id2 f2 :
  al_get beq_npair (id2, f2) (a_in (fst (a_step a (OInUnsub id f)))) =
  if beq_npair (id2, f2) (id, f) then None else al_get beq_npair (id2, f2) (a_in a).
Proof.
  cbn [a_step fst a_in]. destruct (beq_npair (id2, f2) (id, f)) eqn:E.
  - apply beq_npair_eq in E. inversion E; subst. apply al_get_del_same.
  - apply al_get_del_other; [exact beq_npair_eq|]. intro H. rewrite H in E.
    assert (beq_npair (id, f) (id, f) = true) by (apply beq_npair_eq; reflexivity). congruence.
Qed.

(* the model's InlineSubscribe / InlineUnsubscribe are these abstract steps (with their return values):
   TrieRefine.inline_subscribe_R, TrieRefine.inline_unsubscribe_R, TrieRefine.step_R *)
