(* Proofs for the broker-level publish clause of C30 (Topics/PubValid.v): for every history of
   PUBLISH packets on a connection, by whatever route the topic name arrives, the model of
   processPublish never routes, retains or binds an alias to a name the specification refuses, and
   its observations satisfy the specification monitor. *)
From MV Require Import Base.Val Topics.Valid Topics.ValidProofs Topics.PubValid.
From Coq Require Import Lia ZifyBool ZifyN.
Import VLevels.
Open Scope N_scope.

Arguments N.eqb : simpl never.
Arguments N.ltb : simpl never.
Arguments N.leb : simpl never.

Definition good_name (n : bytes) : Prop := valid_pub_topic_spec n = true /\ n <> [].
Definition tab_good (tab : atab) : Prop := Forall (fun kv => good_name (snd kv)) tab.

Lemma alookup_good tab a v : tab_good tab -> alookup tab a = Some v -> good_name v.
Proof.
  induction tab as [|[k w] r IH]; intros G H; [discriminate|].
  inversion G as [|? ? Gw Gr]. subst. cbn [alookup] in H.
  destruct (k =? a); [inversion H; subst; exact Gw | exact (IH Gr H)].
Qed.

Lemma nilb_false_ne {A} (l : list A) : nilb l = false -> l <> [].
Proof. destruct l; [discriminate | intros _ E; discriminate]. Qed.

(* one step: the table stays good and a routed name is good *)
Lemma model_step_good smax tab e m tab' :
  tab_good tab -> model_step smax tab e = (m, tab') ->
  tab_good tab' /\ (forall name, m = MRouted name -> good_name name).
Proof.
  intros G H. unfold model_step in H. rewrite topic_model_is_spec in H.
  destruct (contains_rune (e_topic e) 43 || contains_rune (e_topic e) 35).
  { inversion H. subst. split; [exact G | intros name E; discriminate]. }
  destruct (valid_pub_topic_spec (e_topic e)) eqn:V; cbn [negb] in H.
  2:{ inversion H. subst. split; [exact G | intros name E; discriminate]. }
  destruct (0 <? e_alias e).
  - unfold inbound_set in H. destruct (smax =? 0).
    + destruct (nilb (e_topic e)) eqn:NB; inversion H; subst; (split; [exact G|]); intros name E; [discriminate|].
      inversion E. subst. split; [exact V | apply nilb_false_ne; exact NB].
    + destruct (nilb (e_topic e)) eqn:NB.
      * destruct (alookup tab (e_alias e)) as [v|] eqn:L.
        -- pose proof (alookup_good _ _ _ G L) as Gv.
           destruct (nilb v) eqn:NV; inversion H; subst; (split; [exact G|]); intros name E; [discriminate|].
           inversion E. subst. exact Gv.
        -- cbn [nilb] in H. inversion H. subst. split; [exact G | intros name E; discriminate].
      * rewrite NB in H. inversion H. subst.
        assert (GN : good_name (e_topic e)) by (split; [exact V | apply nilb_false_ne; exact NB]).
        split; [constructor; [exact GN | exact G]|]. intros name E. inversion E. subst. exact GN.
  - destruct (nilb (e_topic e)) eqn:NB; inversion H; subst; (split; [exact G|]); intros name E; [discriminate|].
    inversion E. subst. split; [exact V | apply nilb_false_ne; exact NB].
Qed.

Definition obs_names_good (o : pobs) : Prop :=
  forall n, In n (o_published o) \/ In n (o_retained o) \/ In n (o_spy o) -> good_name n.

Lemma model_obs_good ver e m : (forall name, m = MRouted name -> good_name name) -> obs_names_good (model_obs ver e m).
Proof.
  intros H n Hin. destruct m as [name| |]; cbn [model_obs o_published o_retained o_spy] in Hin.
  - assert (E : n = name).
    { destruct Hin as [[E|[]]|[Hr|[E|[]]]]; try (symmetry; exact E).
      destruct (e_retain e); [destruct Hr as [E|[]]; symmetry; exact E | destruct Hr]. }
    subst n. apply H. reflexivity.
  - destruct Hin as [[]|[[]|[]]].
  - destruct Hin as [[]|[[]|[]]].
Qed.

(* an invalid name is never routed, never retained, never delivered, never bound to an alias —
   whatever the history, the maximum and the version *)
Theorem model_never_invalid : forall ver smax es tab,
  tab_good tab -> Forall (fun eo => obs_names_good (snd eo)) (model_run ver smax tab es).
Proof.
  intros ver smax es. induction es as [|e r IH]; intros tab G; [constructor|].
  cbn [model_run]. destruct (model_step smax tab e) as [m tab'] eqn:S.
  destruct (model_step_good smax tab e m tab' G S) as [G' Hm].
  constructor; [cbn [snd]; apply model_obs_good; exact Hm | apply IH; exact G'].
Qed.

(* ---------- the model satisfies the monitor ---------- *)

Lemma is_single_refl n : is_single n [n] = true.
Proof. cbn [is_single]. apply beq_bytes_refl. Qed.

Lemma model_step_spec smax tab e : smax <> 0 -> Forall (fun kv => snd kv <> []) tab ->
  let (m, tab') := model_step smax tab e in
  let (oc, stab') := spec_step tab e in
  tab' = stab' /\ Forall (fun kv => snd kv <> []) tab' /\
  forall ver, obs_ok ver e oc (model_obs ver e m) = true.
Proof.
  intros Hs NE. unfold model_step, spec_step. rewrite topic_model_is_spec.
  assert (ACK : (if 0 <? e_qos e
            then ((if e_qos e =? 0 then 0 else if e_qos e =? 1 then 4 else 5) =? (if e_qos e =? 1 then 4 else 5)) && (0 <? 128)
            else (if e_qos e =? 0 then 0 else if e_qos e =? 1 then 4 else 5) =? 0) = true).
  { destruct (0 <? e_qos e) eqn:Q.
    - replace (e_qos e =? 0) with false by lia. rewrite N.eqb_refl. reflexivity.
    - replace (e_qos e =? 0) with true by lia. reflexivity. }
  assert (ROUTED : forall ver name, obs_ok ver e (Accept name) (model_obs ver e (MRouted name)) = true).
  { intros ver name. cbn [obs_ok model_obs o_published o_retained o_spy o_closed o_ack o_reason].
    rewrite is_single_refl. cbn [all_eq forallb]. rewrite beq_bytes_refl.
    destruct (e_retain e); cbn [nilb andb negb]; rewrite ?is_single_refl; cbn [andb]; apply ACK. }
  destruct (contains_rune (e_topic e) 43 || contains_rune (e_topic e) 35) eqn:W.
  { (* a wildcard: the specification refuses the name, the connection is closed, nothing is routed *)
    rewrite !contains_has in W.
    assert (V : valid_pub_topic_spec (e_topic e) = false).
    { unfold valid_pub_topic_spec. destruct (has 35 (e_topic e)); [reflexivity|].
      destruct (has 43 (e_topic e)); [reflexivity | discriminate]. }
    assert (NB : nilb (e_topic e) = false).
    { destruct (e_topic e); [discriminate | reflexivity]. }
    rewrite NB, V. split; [reflexivity|]. split; [exact NE|]. intro ver. reflexivity. }
  destruct (nilb (e_topic e)) eqn:NB.
  - destruct (e_topic e) as [|c t] eqn:ET; [|discriminate].
    change (valid_pub_topic_spec []) with true. cbn [negb].
    destruct (0 <? e_alias e).
    + unfold inbound_set. replace (smax =? 0) with false by lia. cbn [nilb].
      destruct (alookup tab (e_alias e)) as [v|] eqn:L.
      * assert (NV : nilb v = false).
        { clear -NE L. induction tab as [|[k w] r IH]; [discriminate|]. inversion NE as [|? ? Hw Hr]. subst.
          cbn [alookup] in L. destruct (k =? e_alias e); [inversion L; subst; destruct v; [contradiction | reflexivity] | exact (IH Hr L)]. }
        rewrite NV. split; [reflexivity|]. split; [exact NE|]. intro ver. apply ROUTED.
      * cbn [nilb]. split; [reflexivity|]. split; [exact NE|]. intro ver. reflexivity.
    + split; [reflexivity|]. split; [exact NE|]. intro ver. reflexivity.
  - destruct (valid_pub_topic_spec (e_topic e)) eqn:V; cbn [negb].
    + destruct (0 <? e_alias e).
      * unfold inbound_set. replace (smax =? 0) with false by lia. rewrite NB, NB.
        split; [reflexivity|]. split; [constructor; [apply nilb_false_ne; exact NB | exact NE]|].
        intro ver. apply ROUTED.
      * split; [reflexivity|]. split; [exact NE|]. intro ver. apply ROUTED.
    + split; [reflexivity|]. split; [exact NE|]. intro ver.
      cbn [obs_ok model_obs o_published o_retained o_spy o_ack o_reason nilb andb].
      destruct ((0 <? (if e_qos e =? 0 then 0 else if e_qos e =? 1 then 4 else 5)) && (5 <=? ver)); reflexivity.
Qed.

Theorem model_satisfies_monitor : forall ver smax es tab,
  smax <> 0 -> Forall (fun kv => snd kv <> []) tab ->
  fst (monitor ver tab (model_run ver smax tab es)) = true /\ corr ver smax tab (model_run ver smax tab es) = true.
Proof.
  intros ver smax es. induction es as [|e r IH]; intros tab Hs NE; [split; reflexivity|].
  pose proof (model_step_spec smax tab e Hs NE) as S.
  cbn [model_run monitor corr]. destruct (model_step smax tab e) as [m tab'] eqn:MS.
  cbn [monitor corr]. rewrite MS. destruct (spec_step tab e) as [oc stab'].
  destruct S as [E [NE' OK]]. subst stab'.
  destruct (IH tab' Hs NE') as [IH1 IH2].
  destruct (monitor ver tab' (model_run ver smax tab' r)) as [ok ret]. cbn [fst] in *.
  split.
  - rewrite OK, IH1. reflexivity.
  - rewrite IH2, andb_true_r. unfold obs_eq, lists_eq.
    rewrite !N.eqb_refl, Bool.eqb_reflx. cbn [andb]. rewrite !andb_true_r.
    assert (R : forall l : list bytes, forallb (fun p => beq_bytes (fst p) (snd p)) (combine l l) = true).
    { induction l as [|x l IHl]; [reflexivity|]. cbn [combine forallb fst snd]. rewrite beq_bytes_refl. exact IHl. }
    rewrite !R. reflexivity.
Qed.
