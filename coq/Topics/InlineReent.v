(* C40: an inline Subscribe whose handler, while it is being handed the retained backlog, causes another publish
   through the embedding API — re-entrantly from inside the callback, or from a second goroutine while the
   callback is parked.  Model of server.go Server.Subscribe: the subscription is inserted into the index FIRST,
   then the retained messages are handed over; a publish made during the hand-over therefore finds the
   subscription and is delivered live.  Specification (C40, serial order): every matching retained message of
   the backlog exactly once; a retained publish made during the hand-over either precedes the subscribe (then it is
   part of the retained pass) or follows it (then it arrives live) — exactly one delivery, never none; a
   non-retained one at most once; a non-matching one never; a publish after Subscribe returned exactly once, last.
   Engine for hx topics_inlinereent.  No proofs in this file. *)
From MV Require Import Base.Val Topics.Levels Topics.Match Topics.Alist Topics.IndexSpec Topics.TopicsEngine.
Open Scope N_scope.

Definition count_msg (m : bytes * bytes) (l : list (bytes * bytes)) : nat := countb beq_bb m l.

(* model: the handler's log for a given order of the backlog; the action happens inside the first callback *)
Definition reent_model (f : bytes) (backlog : list (bytes * bytes)) (p : bytes * bytes) (probe : bytes * bytes)
  : list (bytes * bytes) :=
  match backlog with
  | [] => []
  | m :: r => m :: (if topic_matches f (fst p) then [p] else []) ++ r
  end ++ (if topic_matches f (fst probe) then [probe] else []).

(* specification on the observed log *)
Definition reent_okb (f : bytes) (backlog : list (bytes * bytes)) (retain : bool) (p probe : bytes * bytes)
                     (log : list (bytes * bytes)) : bool :=
  forallb (fun m => Nat.eqb (count_msg m log) 1) backlog &&                      (* the retained pass: each once *)
  forallb (fun m => memb beq_bb m backlog || beq_bb m p || beq_bb m probe) log &&  (* nothing else *)
  (if topic_matches f (fst p)
   then (if retain then Nat.eqb (count_msg p log) 1 else Nat.leb (count_msg p log) 1)
   else Nat.eqb (count_msg p log) 0) &&
  (if topic_matches f (fst probe)
   then Nat.eqb (count_msg probe log) 1 && match rev log with l :: _ => beq_bb l probe | [] => false end
   else Nat.eqb (count_msg probe log) 0).

(* case = VL [VN 9; VL ops; VB filter; VL [VN variant; VB ptopic; VB ppayload; VN retain]; VL [VB probetopic; VB probepayload];
              VL log; VN hung]   ops = retained publishes before the subscribe *)
Definition parse_ret (v : val) : option op :=
  match v with VL [VN 4; VB t; VB pl] => Some (ORetain t pl) | _ => None end.

Definition reent_check (ops : list op) (f : bytes) (variant : N) (p : bytes * bytes) (retain : bool)
                       (probe : bytes * bytes) (log : list (bytes * bytes)) (hung : N) : val :=
  let backlog := spec_retained (abs ops) f in
  let tg := (if variant =? 0 then tag "reentrant" else tag "concurrent") ++ (if retain then tag "-retain" else tag "-live") in
  let nt := negb (nilb backlog) && topic_matches f (fst p) in
  if negb (hung =? 0) then verdict 1 (tg ++ tag "-hung") nt []
  else if negb (reent_okb f backlog retain p probe log) then verdict 1 tg nt []
  else if mseqb beq_bb log (reent_model f backlog p probe) then verdict 0 tg nt []
  else verdict 2 tg nt [].

(* ENGINE topics_inlinereent Topics.InlineReent.reent_engine *)
Definition reent_engine (c : val) : val :=
  match c with
  | VL [VN 9; VL ops; VB f; VL [VN variant; VB pt; VB pp; VN retain]; VL [VB qt; VB qp]; VL log; VN hung] =>
      match map_opt parse_ret ops, map_opt parse_bb log with
      | Some ops', Some log' =>
          if forallb wf_opb ops' && msg_filter_ok f && valid_topicb pt && valid_topicb qt
          then reent_check ops' f variant (pt, pp) (negb (retain =? 0)) (qt, qp) log' hung
          else bad_case
      | _, _ => bad_case
      end
  | _ => bad_case
  end.

(* the observation produced by running the retained pass before the subscription exists (seeded change C40c) is
   rejected; the model's log is accepted *)
Example reent_examples :
  let f := tag "a/#" in
  let backlog := [(tag "a/b", tag "r1"); (tag "a/c", tag "r2")] in
  let p := (tag "a/d", tag "v") in let probe := (tag "a/b", tag "q") in
  reent_okb f backlog true p probe (reent_model f backlog p probe) = true /\
  reent_okb f backlog true p probe [(tag "a/b", tag "r1"); (tag "a/c", tag "r2"); probe] = false /\
  reent_okb f backlog false p probe [(tag "a/b", tag "r1"); (tag "a/c", tag "r2"); probe] = true /\
  reent_okb f backlog true p probe [(tag "a/b", tag "r1"); p; p; (tag "a/c", tag "r2"); probe] = false.
Proof. vm_compute. repeat split. Qed.
