(* Subscribers(topic) on a tree related to an abstract state selects exactly the subscriptions whose
   filter matches the topic (C01; inline part = topics-level part of C40). *)
From MV Require Import Base.Val Topics.Levels Topics.LevelsProofs Topics.Match Topics.Alist Topics.AlistProofs
  Topics.IndexSpec Topics.Trie Topics.TrieInv Topics.TrieScan Topics.TrieRel Topics.TrieRefine.
From Coq Require Import Lia.
Open Scope N_scope.

Definition set_eq {A} (l1 l2 : list A) : Prop := forall x, In x l1 <-> In x l2.

(* ---------- levels of a valid topic name contain no wildcard ---------- *)
Lemma has_app c a b : has c (a ++ b) = has c a || has c b.
Proof. induction a as [|x a IH]; cbn; [reflexivity|]. rewrite IH, orb_assoc. reflexivity. Qed.

Lemma has_split c s : c <> 47 -> has c s = false -> Forall (fun l => has c l = false) (split s).
Proof.
  intros NC. induction s as [s IH] using bytes_len_ind. intro H. rewrite split_cut.
  destruct (cut s) as [[a r]|] eqn:C.
  - pose proof (cut_length _ _ _ C) as L. destruct (cut_some_noslash _ _ _ C) as [_ E]. subst s.
    rewrite has_app in H. cbn [has] in H. apply orb_false_iff in H. destruct H as [H1 H2].
    apply orb_false_iff in H2. destruct H2 as [_ H2]. constructor; [exact H1|]. apply IH; [lia|exact H2].
  - constructor; [exact H|constructor].
Qed.

Lemma valid_topic_plain t : valid_topic t -> Forall plain (split t).
Proof.
  unfold valid_topic, valid_topicb. intro V. apply andb_true_iff in V. destruct V as [V V43].
  apply andb_true_iff in V. destruct V as [_ V35]. apply negb_true_iff in V43, V35.
  pose proof (has_split 35 t ltac:(discriminate) V35) as F35.
  pose proof (has_split 43 t ltac:(discriminate) V43) as F43.
  rewrite Forall_forall in *. intros l HI. split.
  - destruct (is_plus l) eqn:E; [|reflexivity]. apply is_plus_eq in E. subst l. specialize (F43 _ HI). discriminate.
  - destruct (is_hash l) eqn:E; [|reflexivity]. apply is_hash_eq in E. subst l. specialize (F35 _ HI). discriminate.
Qed.

(* a filter whose first character is a wildcard never matches a $-topic *)
Lemma dollar_wild_nomatch f t : starts_dollar t = true -> first_is_wild f = true -> topic_matches f t = false.
Proof.
  intros D W. unfold topic_matches. rewrite D. cbn [andb].
  destruct (leading_wild (split f)) eqn:LW; [reflexivity|].
  destruct f as [|c f']; [discriminate|]. cbn in W.
  destruct t as [|d t']; [discriminate|]. cbn in D. apply N.eqb_eq in D. subst d.
  assert (NC : c <> 47) by (intro; subst; discriminate).
  destruct (split_head_first c f' NC) as (l & rest & E). rewrite E in *.
  destruct (split_head_first 36 t' ltac:(discriminate)) as (l2 & rest2 & E2). rewrite E2.
  cbn [leading_wild] in LW. apply orb_false_iff in LW. destruct LW as [LH LP].
  cbn [lv_match]. rewrite LH, LP. cbn [orb beq_bytes].
  replace (c =? 36) with false; [reflexivity|].
  apply orb_true_iff in W. destruct W as [W|W]; apply N.eqb_eq in W; subst; reflexivity.
Qed.

(* topic_matches through the candidate paths *)
Lemma matches_cands f t : valid_topic t ->
  (topic_matches f t = true <-> In (split f) (cands (true && starts_dollar t) (split t))).
Proof.
  intro V. rewrite cands_match by (apply valid_topic_plain; exact V) || apply split_nonempty.
  unfold topic_matches. cbn [andb]. destruct (starts_dollar t); cbn [andb].
  - destruct (leading_wild (split f)); split; intro H; try discriminate; try tauto.
    destruct H as [_ H]. specialize (H eq_refl). discriminate.
  - split; [intro H; split; [exact H|discriminate]|tauto].
Qed.

Section Select.
  Variables (x : index) (a : astate).
  Hypothesis HR : R x a.
  Variable t : bytes.
  Hypothesis V : valid_topic t.

  Lemma subscribers_gp :
    subscribers x t = gp t (ix_root x) (cands (true && starts_dollar t) (split t)).
  Proof.
    unfold subscribers. assert (N : nilb t = false).
    { unfold valid_topic, valid_topicb in V. destruct t; [discriminate|reflexivity]. }
    rewrite N, path_of_0. apply scan_subs_gp. apply valid_topic_plain. exact V.
  Qed.

  Lemma select_clients : set_eq (r_cl (subscribers x t)) (sel_cl a t).
  Proof.
    destruct HR as [Wf Rt [A B] Sh In Re Rp (N1 & N2 & N3 & N4) Pl].
    intros [[c f] pay]. rewrite subscribers_gp, In_gp_cl. unfold sel_cl. rewrite in_flat_map. split.
    - intros (q & Hq & HI). unfold gather_subs in HI. apply in_flat_map in HI.
      destruct HI as ([c' s] & HI & HE).
      destruct (negb (nilb (sub_filter s)) && starts_dollar t && first_is_wild (sub_filter s)); [destruct HE|].
      destruct HE as [HE|[]]. inversion HE; subst. destruct s as [f pay]. cbn [sub_filter sub_pay] in *.
      pose proof (wf_content_at _ q Wf) as (ND & _ & _).
      apply (In_al_get beq_bytes bb_eq _ _ _ ND) in HI.
      pose proof (B _ _ _ HI) as Eq. cbn in Eq. subst q. rewrite A in HI.
      destruct (al_get beq_pair (c, f) (a_cl a)) as [pay'|] eqn:G; [|discriminate].
      cbn in HI. inversion HI; subst. exists ((c, f), pay). split.
      + apply (al_get_In beq_pair beq_pair_eq). exact G.
      + apply (matches_cands f t V) in Hq. rewrite Hq. left. reflexivity.
    - intros ([[c' f'] pay'] & HI & HE). destruct (topic_matches f' t) eqn:M; [|destruct HE].
      destruct HE as [HE|[]]. inversion HE; subst.
      apply (In_al_get beq_pair beq_pair_eq _ _ _ N1) in HI.
      exists (split f). split; [apply matches_cands; assumption|].
      unfold gather_subs. apply in_flat_map. exists (c, mkSub f pay). split.
      + apply (al_get_In beq_bytes bb_eq). rewrite A, HI. reflexivity.
      + cbn [sub_filter sub_pay].
        destruct (negb (nilb f) && starts_dollar t && first_is_wild f) eqn:E; [|left; reflexivity].
        apply andb_true_iff in E. destruct E as [E E2]. apply andb_true_iff in E. destruct E as [_ E1].
        rewrite (dollar_wild_nomatch f t E1 E2) in M. discriminate.
  Qed.

  Lemma select_inline : set_eq (r_in (subscribers x t)) (sel_in a t).
  Proof.
    destruct HR as [Wf Rt Cl Sh [A B] Re Rp (N1 & N2 & N3 & N4) Pl].
    intros [[id f] pay]. rewrite subscribers_gp, In_gp_in. unfold sel_in. rewrite in_flat_map. split.
    - intros (q & Hq & HI). unfold gather_inline in HI. apply in_map_iff in HI.
      destruct HI as ([id' s] & HE & HI). cbn [fst snd] in HE. inversion HE; subst.
      destruct s as [f pay]. cbn [sub_filter sub_pay] in *.
      pose proof (wf_content_at _ q Wf) as (_ & ND & _).
      apply (In_al_get N.eqb Neqb_eq _ _ _ ND) in HI.
      pose proof (B _ _ _ HI) as Eq. cbn in Eq. subst q. rewrite A in HI.
      destruct (al_get beq_npair (id, f) (a_in a)) as [pay'|] eqn:G; [|discriminate].
      cbn in HI. inversion HI; subst. exists ((id, f), pay). split.
      + apply (al_get_In beq_npair beq_npair_eq). exact G.
      + apply (matches_cands f t V) in Hq. rewrite Hq. left. reflexivity.
    - intros ([[id' f'] pay'] & HI & HE). destruct (topic_matches f' t) eqn:M; [|destruct HE].
      destruct HE as [HE|[]]. inversion HE; subst.
      apply (In_al_get beq_npair beq_npair_eq _ _ _ N3) in HI.
      exists (split f). split; [apply matches_cands; assumption|].
      unfold gather_inline. apply in_map_iff. exists (id, mkSub f pay). split; [reflexivity|].
      apply (al_get_In N.eqb Neqb_eq). rewrite A, HI. reflexivity.
  Qed.

  Lemma select_shared : set_eq (r_sh (subscribers x t)) (sel_sh a t).
  Proof.
    destruct HR as [Wf Rt Cl [A B] In Re Rp (N1 & N2 & N3 & N4) Pl].
    intros [[c full] pay]. rewrite subscribers_gp, In_gp_sh. unfold sel_sh. rewrite in_flat_map. split.
    - intros (q & Hq & HI). unfold gather_shared in HI. apply in_flat_map in HI.
      destruct HI as ([g inner] & HG & HI). cbn [snd] in HI. apply in_map_iff in HI.
      destruct HI as ([c' s] & HE & HI). cbn [fst snd] in HE. inversion HE; subst.
      destruct s as [full pay]. cbn [sub_filter sub_pay] in *.
      pose proof (wf_content_at _ q Wf) as (_ & _ & WS).
      assert (SG : sh_get g c (c_shared (content_at (ix_root x) q)) = Some (mkSub full pay)).
      { apply sh_get_In; [exact WS|]. exists inner. split; assumption. }
      destruct (B _ _ _ _ SG) as (S1 & S2 & S3 & S4). cbn [sub_filter] in *.
      rewrite <- (eff_split full S1 S2) in S4. subst q. rewrite A in SG.
      destruct (al_get beq_triple (c, g, eff_filter full) (a_sh a)) as [[full' pay']|] eqn:G; [|discriminate].
      cbn in SG. inversion SG; subst full' pay'. exists ((c, g, eff_filter full), (full, pay)). split.
      + apply (al_get_In beq_triple beq_triple_eq). exact G.
      + apply (matches_cands (eff_filter full) t V) in Hq. rewrite Hq. left. reflexivity.
    - intros ([[[c' g] i] [full' pay']] & HI & HE). destruct (topic_matches i t) eqn:M; [|destruct HE].
      destruct HE as [HE|[]]. inversion HE; subst.
      apply (In_al_get beq_triple beq_triple_eq _ _ _ N2) in HI.
      exists (split i). split; [apply matches_cands; assumption|].
      assert (SG : sh_get g c (c_shared (content_at (ix_root x) (split i))) = Some (mkSub full pay)).
      { rewrite A, HI. reflexivity. }
      pose proof (wf_content_at _ (split i) Wf) as (_ & _ & WS).
      apply (sh_get_In _ _ _ _ WS) in SG. destruct SG as (inner & H1 & H2).
      unfold gather_shared. apply in_flat_map. exists (g, inner). split; [exact H1|].
      cbn [snd]. apply in_map_iff. exists (c, mkSub full pay). split; [reflexivity|exact H2].
  Qed.
End Select.

(* the shared entries of the abstract state are well-formed share filters, keyed by their parts *)
Lemma abs_shared_key x a c g i full pay : R x a -> In ((c, g, i), (full, pay)) (a_sh a) ->
  is_share full = true /\ share_group full = g /\ eff_filter full = i.
Proof.
  intros [Wf Rt Cl [A B] In Re Rp (N1 & N2 & N3 & N4) Pl] HI.
  apply (In_al_get beq_triple beq_triple_eq _ _ _ N2) in HI.
  assert (SG : sh_get g c (c_shared (content_at (ix_root x) (split i))) = Some (mkSub full pay)).
  { rewrite A, HI. reflexivity. }
  destruct (B _ _ _ _ SG) as (S1 & S2 & S3 & S4). cbn [sub_filter] in *.
  rewrite <- (eff_split full S1 S2) in S4. apply split_inj in S4. auto.
Qed.
