(* Engines comparing observations of the real TopicsIndex with the model (Trie.v) and the specification
   (IndexSpec.v / Match.v).  No proofs in this file.

   case  = VL [VN kind; history; VL subq; VL msgq]
   kind 1..3: history = VL [ VL [op; VN ret] ... ]            (one goroutine)
   kind 4   : history = VL [ VL [ VL [op; VN ret] ... ] ... ]  (one list per goroutine, run concurrently)
   op    = VL [VN 0; VB client; VB filter; VN data] | VL [VN 1; VB client; VB filter]
         | VL [VN 2; VN id; VB filter; VN data]     | VL [VN 3; VN id; VB filter]
         | VL [VN 4; VB topic; VB payload]          | VL [VN 5; VB topic]
   subq  = VL [VB topic; VL [VL [VB client; VB filter; VN data]...]; VL [same, shared]; VL [VL [VN id; VB filter; VN data]...]]
   msgq  = VL [VB filter; VL [VL [VB topic; VB payload]...]]
   (queries are made after the whole history) *)
From MV Require Import Base.Val Topics.Levels Topics.Match Topics.Alist Topics.IndexSpec Topics.Trie Topics.Lin.
Open Scope N_scope.

Definition parse_op (v : val) : option op :=
  match v with
  | VL [VN 0; VB c; VB f; VN p] => Some (OSub c f p)
  | VL [VN 1; VB c; VB f] => Some (OUnsub c f)
  | VL [VN 2; VN id; VB f; VN p] => Some (OInSub id f p)
  | VL [VN 3; VN id; VB f] => Some (OInUnsub id f)
  | VL [VN 4; VB t; VB pl] => Some (ORetain t pl)
  | VL [VN 5; VB t] => Some (OExpire t)
  | _ => None
  end.
Definition parse_opret (v : val) : option (op * N) :=
  match v with
  | VL [o; VN r] => match parse_op o with Some o' => Some (o', r) | None => None end
  | _ => None
  end.
Definition parse_bbn (v : val) : option (bytes * bytes * N) :=
  match v with VL [VB a; VB b; VN n] => Some (a, b, n) | _ => None end.
Definition parse_nbn (v : val) : option (N * bytes * N) :=
  match v with VL [VN a; VB b; VN n] => Some (a, b, n) | _ => None end.
Definition parse_bb (v : val) : option (bytes * bytes) :=
  match v with VL [VB a; VB b] => Some (a, b) | _ => None end.

Record subq := mkSQ { sq_topic : bytes; sq_cl : list (bytes * bytes * N); sq_sh : list (bytes * bytes * N);
                      sq_in : list (N * bytes * N) }.
Definition parse_subq (v : val) : option subq :=
  match v with
  | VL [VB t; VL cl; VL sh; VL il] =>
      match map_opt parse_bbn cl, map_opt parse_bbn sh, map_opt parse_nbn il with
      | Some a, Some b, Some c => Some (mkSQ t a b c)
      | _, _, _ => None
      end
  | _ => None
  end.
Definition parse_msgq (v : val) : option (bytes * list (bytes * bytes)) :=
  match v with
  | VL [VB f; VL ms] => match map_opt parse_bb ms with Some m => Some (f, m) | None => None end
  | _ => None
  end.

(* ---------- finite set / multiset comparison ---------- *)
Section Cmp.
  Context {A : Type} (eqb : A -> A -> bool).
  Definition memb (x : A) (l : list A) : bool := existsb (eqb x) l.
  Definition subsetb (a b : list A) : bool := forallb (fun x => memb x b) a.
  Definition seteqb (a b : list A) : bool := subsetb a b && subsetb b a.
  Fixpoint countb (x : A) (l : list A) : nat :=
    match l with [] => O | y :: r => ((if eqb x y then 1 else 0) + countb x r)%nat end.
  Definition mseqb (a b : list A) : bool :=
    Nat.eqb (length a) (length b) && forallb (fun x => Nat.eqb (countb x a) (countb x b)) a.
End Cmp.

Definition beq_bbn (a b : bytes * bytes * N) : bool :=
  beq_bytes (fst (fst a)) (fst (fst b)) && beq_bytes (snd (fst a)) (snd (fst b)) && (snd a =? snd b).
Definition beq_nbn (a b : N * bytes * N) : bool :=
  (fst (fst a) =? fst (fst b)) && beq_bytes (snd (fst a)) (snd (fst b)) && (snd a =? snd b).
Definition beq_bb (a b : bytes * bytes) : bool := beq_bytes (fst a) (fst b) && beq_bytes (snd a) (snd b).

(* InlineSubscriptions is a map keyed by id: of several gathered entries for one id the last survives *)
Fixpoint last_wins (l : list (N * bytes * N)) : list (N * bytes * N) :=
  match l with
  | [] => []
  | e :: r => if existsb (fun e' => fst (fst e') =? fst (fst e)) r then last_wins r else e :: last_wins r
  end.
Definition ids (l : list (N * bytes * N)) : list N := map (fun e => fst (fst e)) l.

(* ---------- checking the final queries against an abstract state and a model state ---------- *)
(* result: 0 ok, 1 spec violated, 2 model differs; second component: something was selected *)
Definition wf_opsb (ops : list op) : bool := forallb wf_opb ops.

Definition check_subq_spec (a : astate) (q : subq) : bool :=
  seteqb beq_bbn (sq_cl q) (sel_cl a (sq_topic q)) &&
  seteqb beq_bbn (sq_sh q) (sel_sh a (sq_topic q)) &&
  seteqb N.eqb (ids (sq_in q)) (ids (sel_in a (sq_topic q))) &&
  subsetb beq_nbn (sq_in q) (sel_in a (sq_topic q)).
Definition check_subq_model (x : index) (q : subq) : bool :=
  let r := subscribers x (sq_topic q) in
  seteqb beq_bbn (sq_cl q) (r_cl r) && seteqb beq_bbn (sq_sh q) (r_sh r) &&
  seteqb beq_nbn (sq_in q) (last_wins (r_in r)).
Definition check_msgq_spec (a : astate) (q : bytes * list (bytes * bytes)) : bool :=
  mseqb beq_bb (snd q) (spec_retained a (fst q)).
Definition check_msgq_model (x : index) (q : bytes * list (bytes * bytes)) : bool :=
  mseqb beq_bb (snd q) (messages x (fst q)).

Definition queries_spec (a : astate) (sq : list subq) (mq : list (bytes * list (bytes * bytes))) : bool :=
  forallb (fun q => negb (valid_topicb (sq_topic q)) || check_subq_spec a q) sq &&
  forallb (fun q => negb (msg_filter_ok (fst q)) || check_msgq_spec a q) mq.
Definition queries_model (x : index) (sq : list subq) (mq : list (bytes * list (bytes * bytes))) : bool :=
  forallb (check_subq_model x) sq && forallb (check_msgq_model x) mq.
Definition queries_nontrivial (sq : list subq) (mq : list (bytes * list (bytes * bytes))) : bool :=
  existsb (fun q => negb (nilb (sq_cl q)) || negb (nilb (sq_sh q)) || negb (nilb (sq_in q))) sq ||
  existsb (fun q => negb (nilb (snd q))) mq.

(* ---------- sequential histories ---------- *)
Fixpoint rets_spec (a : astate) (h : list (op * N)) : bool * astate :=
  match h with
  | [] => (true, a)
  | (o, r) :: h' => let (a', r') := a_step a o in
                    let (ok, a'') := rets_spec a' h' in ((r =? r') && ok, a'')
  end.
Fixpoint rets_model (x : index) (h : list (op * N)) : bool * index :=
  match h with
  | [] => (true, x)
  | (o, r) :: h' => let (x', r') := t_step x o in
                    let (ok, x'') := rets_model x' h' in ((r =? r') && ok, x'')
  end.

Definition seq_check (tg : bytes) (h : list (op * N)) (sq : list subq) (mq : list (bytes * list (bytes * bytes))) : val :=
  let nt := queries_nontrivial sq mq in
  let (mok, x) := rets_model ix_empty h in
  let model_ok := mok && queries_model x sq mq in
  if wf_opsb (map fst h) then
    let (sok, a) := rets_spec a_empty h in
    if negb sok then verdict 1 (tg ++ tag "-ret") nt []
    else if negb (queries_spec a sq mq) then verdict 1 tg nt []
    else if model_ok then verdict 0 tg nt [] else verdict 2 tg nt []
  else (* outside the domain of the property: correspondence only *)
    if model_ok then verdict 0 (tg ++ tag "-nonwf") nt [] else verdict 2 (tg ++ tag "-nonwf") nt [].

(* ---------- concurrent histories: search for a serialisation (C31) ---------- *)
(* Lin.lin_check step reqb final st threads: is there an interleaving of the per-goroutine lists, respecting
   their order, in which every operation returns what was observed and [final] accepts the end state? *)
Definition conc_check (ths : list (list (op * N))) (sq : list subq) (mq : list (bytes * list (bytes * bytes))) : val :=
  let nt := (1 <? length ths)%nat in
  let tg := tag "lin" in
  let model_ok := lin_check t_step N.eqb (fun x => queries_model x sq mq) ix_empty ths in
  if wf_opsb (map fst (concat ths)) then
    if negb (lin_check a_step N.eqb (fun a => queries_spec a sq mq) a_empty ths) then verdict 1 tg nt []
    else if model_ok then verdict 0 tg nt [] else verdict 2 tg nt []
  else if model_ok then verdict 0 (tg ++ tag "-nonwf") nt [] else verdict 2 (tg ++ tag "-nonwf") nt [].

(* ---------- the atomicity assumption of C31_lin, read off the source (kind 5) ----------
   h  = VL [ VL [VB method; VN first statement is x.root.Lock(); VN second is defer x.root.Unlock(); VN other Unlock calls] ... ]
   sq = VL [ VB "function: what" ... ]   writes to the particle tree outside the root-locked mutators / set / trim *)
Definition mutators : list bytes :=
  [tag "InlineSubscribe"; tag "InlineUnsubscribe"; tag "Subscribe"; tag "Unsubscribe"; tag "RetainMessage"].
Definition parse_lockrow (v : val) : option (bytes * (N * N * N)) :=
  match v with VL [VB name; VN a; VN b; VN c] => Some (name, (a, b, c)) | _ => None end.
Definition rootlock_check (h sq : list val) : val :=
  match map_opt parse_lockrow h with
  | None => bad_case
  | Some rows =>
      let ok_row name := match al_get beq_bytes name rows with
                         | Some (a, b, c) => (a =? 1) && (b =? 1) && (c =? 0)
                         | None => false
                         end in
      if forallb ok_row mutators && nilb sq then verdict 0 (tag "rootlock") true []
      else verdict 1 (tag "rootlock") true []
  end.

(* ENGINE topics Topics.TopicsEngine.topics_engine *)
Definition topics_engine (c : val) : val :=
  match c with
  | VL [VN 5; VL h; VL sq; VL _] => rootlock_check h sq
  | VL [VN kind; VL h; VL sq; VL mq] =>
      match map_opt parse_subq sq, map_opt parse_msgq mq with
      | Some sq', Some mq' =>
          if kind =? 4 then
            match map_opt (fun t => match t with VL l => map_opt parse_opret l | _ => None end) h with
            | Some ths => conc_check ths sq' mq'
            | None => bad_case
            end
          else
            match map_opt parse_opret h with
            | Some h' => seq_check (match kind with 1 => tag "sub" | 2 => tag "ret" | _ => tag "seq" end) h' sq' mq'
            | None => bad_case
            end
      | _, _ => bad_case
      end
  | _ => bad_case
  end.
