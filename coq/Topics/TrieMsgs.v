(* scanMessages returns exactly the retained messages whose topic the filter matches, each once (C02). *)
From MV Require Import Base.Val Topics.Levels Topics.LevelsProofs Topics.Match Topics.Alist Topics.AlistProofs
  Topics.IndexSpec Topics.Trie Topics.TrieInv Topics.TrieScan Topics.TrieRel Topics.TrieRefine Topics.TrieSelect.
From Coq Require Import Lia Permutation.
Open Scope N_scope.

(* ---------- induction on the height of a particle tree ---------- *)
Fixpoint height (n : node) : nat :=
  match n with
  | Node _ ch => S ((fix go (l : list (level * node)) : nat :=
                       match l with [] => O | (_, a) :: l' => Nat.max (height a) (go l') end) ch)
  end.

Lemma height_child c ch k a : In (k, a) ch -> (height a < height (Node c ch))%nat.
Proof.
  cbn [height]. induction ch as [|[k0 a0] ch IH]; intros HI; [destruct HI|].
  destruct HI as [HI|HI].
  - inversion HI; subst. lia.
  - specialize (IH HI). lia.
Qed.

Lemma node_height_ind (P : node -> Prop) :
  (forall c ch, (forall k a, In (k, a) ch -> P a) -> P (Node c ch)) -> forall n, P n.
Proof.
  intros H n. remember (height n) as h eqn:E. revert n E.
  induction h as [h IH] using lt_wf_ind. intros [c ch] E. apply H. intros k a HI.
  eapply IH; [|reflexivity]. subst h. eapply height_child. exact HI.
Qed.

Lemma scan_hash_eq ret c ch :
  scan_hash ret (Node c ch) = own_msg ret c ++ flat_map (fun e : level * node => scan_hash ret (snd e)) ch.
Proof.
  cbn [scan_hash]. f_equal. induction ch as [|[k a] ch IH]; [reflexivity|]. cbn [flat_map snd]. rewrite <- IH. reflexivity.
Qed.

(* ---------- what a returned message is ---------- *)
Definition hit (ret : list (bytes * bytes)) (c : content) (e : msg) : Prop :=
  c_retain c = fst e /\ fst e <> [] /\ al_get beq_bytes (fst e) ret = Some (snd e).

Lemma own_msg_In ret c e : In e (own_msg ret c) <-> hit ret c e.
Proof.
  unfold own_msg, hit, ret_lookup. destruct e as [t pl]. cbn [fst snd].
  destruct (c_retain c) as [|b r] eqn:E; cbn [nilb].
  - split; [intros []|]. intros (H1 & H2 & _). congruence.
  - destruct (al_get beq_bytes (b :: r) ret) as [pl'|] eqn:G; cbn.
    + split.
      * intros [H|[]]. inversion H; subst. repeat split; [discriminate|exact G].
      * intros (H1 & H2 & H3). subst t. rewrite G in H3. inversion H3. left. reflexivity.
    + split; [intros []|]. intros (H1 & H2 & H3). subst t. congruence.
Qed.

Lemma ret_lookup_In ret c e : al_get beq_bytes [] ret = None ->
  (In e (ret_lookup ret (c_retain c)) <-> hit ret c e).
Proof.
  intro N0. rewrite <- own_msg_In. unfold own_msg. destruct (c_retain c) eqn:E; cbn [nilb]; [|reflexivity].
  unfold ret_lookup. rewrite N0. reflexivity.
Qed.

Lemma child_In n k a : wf_node n -> (In (k, a) (children n) <-> get_child k (children n) = Some a).
Proof.
  intro W. apply wf_node_inv in W. destruct W as (_ & ND & _). split.
  - apply In_al_get; [exact bb_eq|exact ND].
  - apply al_get_In. exact bb_eq.
Qed.

Lemma wf_child_In n k a : wf_node n -> In (k, a) (children n) -> wf_node a.
Proof. intros W HI. apply wf_node_inv in W. destruct W as (_ & _ & W). eapply W. exact HI. Qed.

Lemma scan_hash_In ret e : forall n, wf_node n ->
  (In e (scan_hash ret n) <-> exists q, hit ret (content_at n q) e).
Proof.
  induction n as [c ch IH] using node_height_ind. intro W. rewrite scan_hash_eq, in_app_iff, own_msg_In, in_flat_map.
  split.
  - intros [H|([k a] & HI & H)].
    + exists []. exact H.
    + cbn [snd] in H. apply (IH k a HI) in H; [|eapply (wf_child_In (Node c ch)); eassumption].
      destruct H as (q & H). exists (k :: q). rewrite content_at_cons.
      apply (child_In (Node c ch) k a W) in HI. cbn [children] in *. rewrite HI. exact H.
  - intros ([|k q] & H).
    + left. exact H.
    + right. rewrite content_at_cons in H. cbn [children] in H.
      destruct (get_child k ch) as [a|] eqn:G.
      * apply (child_In (Node c ch) k a W) in G. exists (k, a). split; [exact G|]. cbn [snd].
        apply (IH k a G); [eapply (wf_child_In (Node c ch)); eassumption|]. exists q. exact H.
      * destruct H as (H1 & H2 & _). cbn in H1. congruence.
Qed.

(* ---------- which paths scanMessages reaches ---------- *)
Definition first_not_dollar (q : list level) : Prop :=
  match q with k :: _ => starts_dollar k = false | [] => True end.
Definition mm (top : bool) (fs q : list level) : Prop :=
  lv_match fs q = true /\ (top = true -> leading_wild fs = true -> first_not_dollar q).

Fixpoint hash_last (fs : list level) : Prop :=
  match fs with [] => True | h :: r => (is_hash h = true -> r = []) /\ hash_last r end.

Lemma levels_ok_hash_last fs : levels_ok fs = true -> hash_last fs.
Proof.
  induction fs as [|h r IH]; cbn [levels_ok hash_last]; [tauto|]. intro H.
  apply andb_true_iff in H. destruct H as [H H3]. apply andb_true_iff in H. destruct H as [H1 _].
  split; [|apply IH; exact H3]. intro E. apply is_hash_eq in E. subst h. cbn in H1.
  destruct r; [reflexivity|discriminate].
Qed.

Lemma empty_no_hit ret e : ~ hit ret empty_content e.
Proof. intros (H1 & H2 & _). cbn in H1. congruence. Qed.

Lemma children_flat_In (G : level * node -> list msg) (P : level -> node -> Prop) n e : wf_node n ->
  (forall k a, In (k, a) (children n) -> (In e (G (k, a)) <-> P k a)) ->
  (In e (flat_map G (children n)) <-> exists k a, get_child k (children n) = Some a /\ P k a).
Proof.
  intros W H. rewrite in_flat_map. split.
  - intros ([k a] & HI & HG). exists k, a. split; [apply child_In; assumption|]. apply H; assumption.
  - intros (k & a & HG & HP). apply child_In in HG; [|exact W]. exists (k, a). split; [exact HG|]. apply H; assumption.
Qed.

Lemma hit_cons ret n k q e : hit ret (content_at n (k :: q)) e <->
  exists a, get_child k (children n) = Some a /\ hit ret (content_at a q) e.
Proof.
  rewrite content_at_cons. destruct (get_child k (children n)) as [a|].
  - split; [intro H; exists a; auto|]. intros (a' & E & H). inversion E; subst. exact H.
  - split; [intro H; exfalso; eapply empty_no_hit; exact H|]. intros (a' & E & _). discriminate.
Qed.

Lemma lv_match_nil_l q : lv_match [] q = true <-> q = [].
Proof. destruct q; cbn; split; congruence. Qed.

Lemma scan_msgs_In ret e : al_get beq_bytes [] ret = None ->
  forall fs top n, fs <> [] -> wf_node n -> hash_last fs ->
  (In e (scan_msgs ret top fs n) <-> exists q, mm top fs q /\ hit ret (content_at n q) e).
Proof.
  intro N0. induction fs as [|key rest IH]; intros top n NE W HL; [contradiction|]. clear NE.
  destruct HL as [HL1 HL2]. cbn [scan_msgs].
  assert (IH' : forall a, wf_node a -> rest <> [] ->
            (In e (scan_msgs ret false rest a) <-> exists q, lv_match rest q = true /\ hit ret (content_at a q) e)).
  { intros a Wa NR. rewrite (IH false a NR Wa HL2). unfold mm. split; intros (q & H1 & H2); exists q; [tauto|].
    split; [split; [exact H1|discriminate]|exact H2]. }
  destruct (is_plus key || is_hash key) eqn:WK.
  - destruct (is_hash key) eqn:HK.
    + (* '#': the particle itself and everything below it *)
      specialize (HL1 eq_refl). subst rest. cbn [nilb negb andb].
      rewrite in_app_iff, own_msg_In.
      rewrite (children_flat_In _ (fun k a => (top && starts_dollar k = false) /\ exists q, hit ret (content_at a q) e) n e W).
      * split.
        -- intros [H|(k & a & G & D & q & H)].
           ++ exists []. split; [|exact H]. split; [cbn; rewrite HK; reflexivity|]. intros _ _. exact I.
           ++ exists (k :: q). split.
              ** split; [cbn; rewrite HK; reflexivity|]. intros -> _. cbn. exact D.
              ** apply hit_cons. exists a. auto.
        -- intros ([|k q] & [M D] & H); [left; exact H|right].
           apply hit_cons in H. destruct H as (a & G & H). exists k, a. split; [exact G|]. split; [|exists q; exact H].
           destruct top; [|reflexivity]. cbn [andb]. apply D; [reflexivity|]. cbn. rewrite HK. reflexivity.
      * intros k a HI. destruct (top && starts_dollar k); [split; [intros []|intros [D _]; discriminate]|].
        cbn [app]. rewrite scan_hash_In by (eapply wf_child_In; eassumption). intuition.
    + (* '+' *)
      rewrite orb_false_r in WK. cbn [app andb].
      rewrite (children_flat_In _ (fun k a => (top && starts_dollar k = false) /\
                 exists q, lv_match rest q = true /\ hit ret (content_at a q) e) n e W).
      * split.
        -- intros (k & a & G & D & q & M & H). exists (k :: q). split.
           ++ split; [cbn [lv_match]; rewrite HK, WK; exact M|]. intros -> _. cbn. exact D.
           ++ apply hit_cons. exists a. auto.
        -- intros ([|k q] & [M D] & H); [cbn [lv_match] in M; rewrite HK in M; discriminate|].
           cbn [lv_match] in M. rewrite HK, WK in M. cbn [orb andb] in M.
           apply hit_cons in H. destruct H as (a & G & H). exists k, a. split; [exact G|]. split; [|exists q; auto].
           destruct top; [|reflexivity]. cbn [andb]. apply D; [reflexivity|]. cbn. rewrite HK, WK. reflexivity.
      * intros k a HI. assert (Wa : wf_node a) by (eapply wf_child_In; eassumption).
        destruct (top && starts_dollar k); [split; [intros []|intros [D _]; discriminate]|].
        destruct rest as [|r1 r2].
        -- cbn [nilb negb andb]. rewrite app_nil_r, own_msg_In. split.
           ++ intro H. split; [reflexivity|]. exists []. split; [reflexivity|exact H].
           ++ intros (_ & q & M & H). apply lv_match_nil_l in M. subst q. exact H.
        -- cbn [nilb negb andb app]. rewrite IH' by (assumption || discriminate). intuition.
  - (* a literal level *)
    apply orb_false_iff in WK. destruct WK as [PK HK].
    assert (MM : forall q, mm top (key :: rest) q <-> exists q', q = key :: q' /\ lv_match rest q' = true).
    { intro q. unfold mm. split.
      - intros [M _]. destruct q as [|k q']; cbn [lv_match] in M; rewrite HK in M; [discriminate|].
        rewrite PK in M. cbn [orb] in M. apply andb_true_iff in M. destruct M as [M1 M2].
        apply beq_bytes_eq in M1. subst k. exists q'. auto.
      - intros (q' & -> & M). split; [cbn [lv_match]; rewrite HK, PK, beq_bytes_refl; exact M|].
        intros _ L. cbn in L. rewrite HK, PK in L. discriminate. }
    destruct (get_child key (children n)) as [p|] eqn:G.
    + assert (Wp : wf_node p) by (eapply wf_child; eassumption).
      destruct rest as [|r1 r2].
      * cbn [nilb negb]. rewrite (ret_lookup_In ret (cont p) e N0). split.
        -- intro H. exists [key]. split; [apply MM; exists []; auto|]. apply hit_cons. exists p. auto.
        -- intros (q & M & H). apply MM in M. destruct M as (q' & -> & M). apply lv_match_nil_l in M. subst q'.
           apply hit_cons in H. destruct H as (a & G' & H). rewrite G in G'. inversion G'; subst. exact H.
      * cbn [nilb negb]. rewrite IH' by (assumption || discriminate). split.
        -- intros (q' & M & H). exists (key :: q'). split; [apply MM; exists q'; auto|]. apply hit_cons. exists p. auto.
        -- intros (q & M & H). apply MM in M. destruct M as (q' & -> & M).
           apply hit_cons in H. destruct H as (a & G' & H). rewrite G in G'. inversion G'; subst. exists q'. auto.
    + split; [intros []|]. intros (q & M & H). apply MM in M. destruct M as (q' & -> & M).
      apply hit_cons in H. destruct H as (a & G' & _). congruence.
Qed.

(* ---------- each message at most once ---------- *)
Definition rel (pre : list level) (n : node) : Prop :=
  forall q, c_retain (content_at n q) <> [] -> pre ++ q = split (c_retain (content_at n q)).

Lemma rel_child pre n k a : rel pre n -> get_child k (children n) = Some a -> rel (pre ++ [k]) a.
Proof.
  intros HR G q NE. specialize (HR (k :: q)). rewrite content_at_cons, G in HR.
  rewrite <- app_assoc. cbn [app]. apply HR. exact NE.
Qed.

Lemma hit_path ret pre n q e : rel pre n -> hit ret (content_at n q) e -> split (fst e) = pre ++ q.
Proof. intros HR (H1 & H2 & _). symmetry. rewrite <- H1. apply HR. rewrite H1. exact H2. Qed.

Lemma NoDup_app_intro {A} (a b : list A) :
  NoDup a -> NoDup b -> (forall x, In x a -> In x b -> False) -> NoDup (a ++ b).
Proof.
  intros Na Nb D. induction a as [|x a IH]; [exact Nb|]. cbn [app]. inversion Na as [|? ? NI Na']; subst.
  constructor.
  - rewrite in_app_iff. intros [H|H]; [contradiction|]. eapply D; [left; reflexivity|exact H].
  - apply IH; [exact Na'|]. intros y Hy. apply D. right. exact Hy.
Qed.

Lemma NoDup_flat_map_tag {B} (tg : B -> level) (G : level * node -> list B) (l : list (level * node)) :
  NoDup (keys l) -> (forall k a, In (k, a) l -> NoDup (G (k, a))) ->
  (forall k a e, In (k, a) l -> In e (G (k, a)) -> tg e = k) -> NoDup (flat_map G l).
Proof.
  induction l as [|[k a] l IH]; intros ND HN HT; [constructor|]. cbn [flat_map].
  inversion ND as [|? ? NI ND']; subst. apply NoDup_app_intro.
  - apply HN. left. reflexivity.
  - apply IH; [exact ND'| |]; intros; [apply HN|eapply HT]; try (right; eassumption); eassumption.
  - intros e H1 H2. apply in_flat_map in H2. destruct H2 as ([k' a'] & HI & H2).
    assert (tg e = k) by (eapply HT; [left; reflexivity|exact H1]).
    assert (tg e = k') by (eapply HT; [right; exact HI|exact H2]).
    apply NI. apply (in_map fst) in HI. cbn [fst] in HI. unfold keys. congruence.
Qed.

Lemma ret_lookup_NoDup ret p : NoDup (ret_lookup ret p).
Proof. unfold ret_lookup. destruct (al_get beq_bytes p ret); repeat constructor. intros []. Qed.

Lemma own_NoDup ret c : NoDup (own_msg ret c).
Proof. unfold own_msg. destruct (nilb (c_retain c)); [constructor|apply ret_lookup_NoDup]. Qed.

Definition tg_at (pre : list level) (e : msg) : level := nth (length pre) (split (fst e)) [].

Lemma tg_child ret pre n k a q e : rel pre n -> get_child k (children n) = Some a ->
  hit ret (content_at a q) e -> tg_at pre e = k.
Proof.
  intros HR G H. unfold tg_at. rewrite (hit_path ret (pre ++ [k]) a q e (rel_child _ _ _ _ HR G) H).
  rewrite <- app_assoc. cbn [app]. apply nth_middle.
Qed.

Lemma own_vs_child ret pre n k a q e : rel pre n -> get_child k (children n) = Some a ->
  hit ret (cont n) e -> hit ret (content_at a q) e -> False.
Proof.
  intros HR G H1 H2. pose proof (hit_path ret pre n [] e HR H1) as E1.
  pose proof (hit_path ret (pre ++ [k]) a q e (rel_child _ _ _ _ HR G) H2) as E2.
  rewrite E1 in E2. apply (f_equal (@length _)) in E2. rewrite !app_length in E2. cbn in E2. lia.
Qed.

Lemma scan_hash_NoDup ret : forall n pre, wf_node n -> rel pre n -> NoDup (scan_hash ret n).
Proof.
  induction n as [c ch IH] using node_height_ind. intros pre W HR. rewrite scan_hash_eq.
  pose proof (wf_node_inv _ W) as (_ & ND & _). cbn [children] in ND.
  apply NoDup_app_intro.
  - apply own_NoDup.
  - apply (NoDup_flat_map_tag (tg_at pre)); [exact ND| |].
    + intros k a HI. cbn [snd]. apply (IH k a HI (pre ++ [k])); [eapply (wf_child_In (Node c ch)); eassumption|].
      eapply rel_child; [exact HR|]. apply (child_In (Node c ch)); assumption.
    + intros k a e HI H. cbn [snd] in H. apply scan_hash_In in H; [|eapply (wf_child_In (Node c ch)); eassumption].
      destruct H as (q & H). eapply tg_child; [exact HR| |exact H]. apply (child_In (Node c ch)); assumption.
  - intros e H1 H2. apply own_msg_In in H1. apply in_flat_map in H2. destruct H2 as ([k a] & HI & H2).
    cbn [snd] in H2. apply scan_hash_In in H2; [|eapply (wf_child_In (Node c ch)); eassumption].
    destruct H2 as (q & H2). eapply (own_vs_child ret pre (Node c ch)); [exact HR| |exact H1|exact H2].
    apply (child_In (Node c ch)); eassumption.
Qed.

Lemma scan_msgs_NoDup ret : al_get beq_bytes [] ret = None ->
  forall fs top n pre, fs <> [] -> wf_node n -> hash_last fs -> rel pre n -> NoDup (scan_msgs ret top fs n).
Proof.
  intro N0. induction fs as [|key rest IH]; intros top n pre NE W HL HR; [contradiction|]. clear NE.
  pose proof HL as [HL1 HL2]. cbn [scan_msgs].
  pose proof (wf_node_inv _ W) as (_ & ND & _).
  destruct (is_plus key || is_hash key) eqn:WK.
  - (* every element of a child's piece is a hit below that child *)
    set (G := fun e : level * node =>
                let (k, adjacent) := e in
                if top && starts_dollar k then [] else
                (if negb (negb (nilb rest)) && negb (is_hash key) then own_msg ret (cont adjacent) else []) ++
                (if negb (nilb rest) then scan_msgs ret false rest adjacent
                 else if is_hash key then scan_hash ret adjacent else [])).
    assert (PH : forall k a e, In (k, a) (children n) -> In e (G (k, a)) -> exists q, hit ret (content_at a q) e).
    { intros k a e HI H. assert (Wa : wf_node a) by (eapply wf_child_In; eassumption).
      unfold G in H. destruct (top && starts_dollar k); [destruct H|]. apply in_app_iff in H. destruct H as [H|H].
      - destruct (negb (negb (nilb rest)) && negb (is_hash key)); [|destruct H].
        apply own_msg_In in H. exists []. exact H.
      - destruct rest as [|r1 r2]; cbn [nilb negb] in H.
        + destruct (is_hash key); [|destruct H]. apply scan_hash_In in H; assumption.
        + apply (scan_msgs_In ret e N0) in H; [|discriminate|exact Wa|exact HL2].
          destruct H as (q & _ & H). exists q. exact H. }
    apply NoDup_app_intro.
    + destruct (is_hash key); [apply own_NoDup|constructor].
    + apply (NoDup_flat_map_tag (tg_at pre)); [exact ND| |].
      * intros k a HI. assert (Wa : wf_node a) by (eapply wf_child_In; eassumption).
        assert (Ra : rel (pre ++ [k]) a) by (eapply rel_child; [exact HR|apply child_In; assumption]).
        unfold G. destruct (top && starts_dollar k); [constructor|].
        destruct rest as [|r1 r2]; cbn [nilb negb andb].
        -- destruct (is_hash key); cbn [negb app].
           ++ eapply scan_hash_NoDup; eassumption.
           ++ rewrite app_nil_r. apply own_NoDup.
        -- cbn [app]. apply (IH false a (pre ++ [k])); [discriminate|exact Wa|exact HL2|exact Ra].
      * intros k a e HI H. destruct (PH k a e HI H) as (q & Hq).
        eapply tg_child; [exact HR|apply child_In; eassumption|exact Hq].
    + intros e H1 H2. destruct (is_hash key); [|destruct H1]. apply own_msg_In in H1.
      apply in_flat_map in H2. destruct H2 as ([k a] & HI & H2). destruct (PH k a e HI H2) as (q & Hq).
      eapply (own_vs_child ret pre n); [exact HR|apply child_In; eassumption|exact H1|exact Hq].
  - destruct (get_child key (children n)) as [p|] eqn:Gp; [|constructor].
    destruct rest as [|r1 r2]; cbn [nilb negb].
    + apply ret_lookup_NoDup.
    + apply (IH false p (pre ++ [key])); [discriminate|eapply wf_child; eassumption|exact HL2|].
      eapply rel_child; eassumption.
Qed.

(* ---------- the result of Messages(filter) ---------- *)
Lemma starts_dollar_head t : first_not_dollar (split t) <-> starts_dollar t = false.
Proof.
  destruct t as [|c r]; [cbn; tauto|]. destruct (N.eq_dec c 47) as [->|NC].
  - rewrite split_cut. cbn. tauto.
  - destruct (split_head_first c r NC) as (l & rest & E). rewrite E. cbn. tauto.
Qed.

Lemma mm_topic_matches f t : mm true (split f) (split t) <-> topic_matches f t = true.
Proof.
  unfold mm, topic_matches. rewrite starts_dollar_head.
  destruct (starts_dollar t); destruct (leading_wild (split f)); cbn [andb]; split; intro H;
    try tauto; try discriminate; try (split; [exact H|intros; congruence]).
  destruct H as [_ H]. specialize (H eq_refl eq_refl). discriminate.
Qed.

Lemma plain_lv_match fl : Forall plain fl -> forall tl, lv_match fl tl = true <-> fl = tl.
Proof.
  induction 1 as [|h fl [Hp Hh] _ IH]; intro tl.
  - destruct tl; cbn; split; congruence.
  - cbn [lv_match]. rewrite Hh, Hp. destruct tl as [|x tl]; [split; discriminate|]. cbn [orb].
    rewrite andb_true_iff, beq_bytes_eq, IH. split; [intros [-> ->]; reflexivity|intro E; inversion E; auto].
Qed.

Lemma no_wild_plain f : has 35 f = false -> has 43 f = false -> Forall plain (split f).
Proof.
  intros V35 V43.
  pose proof (has_split 35 f ltac:(discriminate) V35) as F35.
  pose proof (has_split 43 f ltac:(discriminate) V43) as F43.
  rewrite Forall_forall in *. intros l HI. split.
  - destruct (is_plus l) eqn:E; [|reflexivity]. apply is_plus_eq in E. subst l. specialize (F43 _ HI). discriminate.
  - destruct (is_hash l) eqn:E; [|reflexivity]. apply is_hash_eq in E. subst l. specialize (F35 _ HI). discriminate.
Qed.

Lemma no_wild_matches f t : has 35 f = false -> has 43 f = false -> (topic_matches f t = true <-> f = t).
Proof.
  intros V35 V43. pose proof (no_wild_plain f V35 V43) as PL. unfold topic_matches.
  assert (LW : leading_wild (split f) = false).
  { destruct (split f) as [|h r]; [reflexivity|]. inversion PL as [|? ? [Hp Hh] _]; subst. cbn. rewrite Hh, Hp. reflexivity. }
  rewrite LW, andb_false_r. rewrite (plain_lv_match _ PL). split; [apply split_inj|intros ->; reflexivity].
Qed.

Theorem messages_perm x a f : R x a -> msg_filter_ok f = true ->
  Permutation (messages x f) (spec_retained a f).
Proof.
  intros [Wf Rt Cl Sh In Re [Rp1 Rp2] (N1 & N2 & N3 & N4) Pl] OK.
  unfold msg_filter_ok in OK. apply andb_true_iff in OK. destruct OK as [NEf LO]. apply negb_true_iff in NEf.
  unfold messages, spec_retained. rewrite NEf. cbn [orb]. rewrite <- Re.
  destruct (nilb (ix_ret x)) eqn:E0.
  - apply nilb_nil in E0. rewrite E0. constructor.
  - assert (NDr : NoDup (ix_ret x)) by (rewrite Re; eapply NoDup_map_inv; exact N4).
    assert (NDs : NoDup (filter (fun e : bytes * bytes => topic_matches f (fst e)) (ix_ret x))) by (apply NoDup_filter; exact NDr).
    assert (GI : forall t pl, List.In (t, pl) (ix_ret x) <-> al_get beq_bytes t (ix_ret x) = Some pl).
    { intros t pl. split; [apply In_al_get; [exact bb_eq|rewrite Re; exact N4]|apply al_get_In; exact bb_eq]. }
    destruct (negb (has 35 f) && negb (has 43 f)) eqn:NW.
    + apply andb_true_iff in NW. destruct NW as [V35 V43]. apply negb_true_iff in V35, V43.
      apply NoDup_Permutation; [apply ret_lookup_NoDup|exact NDs|]. intros [t pl].
      rewrite filter_In. cbn [fst]. rewrite (no_wild_matches f t V35 V43), GI. unfold ret_lookup. split.
      * destruct (al_get beq_bytes f (ix_ret x)) as [pl'|] eqn:G; [|intros []].
        intros [H|[]]. inversion H; subst. auto.
      * intros [H ->]. rewrite H. left. reflexivity.
    + assert (N0 : al_get beq_bytes [] (ix_ret x) = None).
      { destruct (al_get beq_bytes [] (ix_ret x)) as [pl|] eqn:G; [|reflexivity].
        destruct (Rp1 _ _ G) as [_ H]. contradiction. }
      assert (HL : hash_last (split f)) by (apply levels_ok_hash_last; exact LO).
      assert (RL : rel [] (ix_root x)) by (intros q NE; cbn [app]; apply Rp2; exact NE).
      rewrite path_of_0. apply NoDup_Permutation.
      * eapply scan_msgs_NoDup; [exact N0|apply split_nonempty|exact Wf|exact HL|exact RL].
      * exact NDs.
      * intros [t pl]. rewrite (scan_msgs_In _ _ N0 _ _ _ (split_nonempty f) Wf HL), filter_In. cbn [fst].
        rewrite GI. split.
        -- intros (q & M & (H1 & H2 & H3)). cbn [fst snd] in *. split; [exact H3|].
           assert (q = split t) by (rewrite <- H1; apply Rp2; rewrite H1; exact H2). subst q.
           apply mm_topic_matches. exact M.
        -- intros [H M]. exists (split t). split; [apply mm_topic_matches; exact M|].
           destruct (Rp1 _ _ H) as [H1 H2]. repeat split; assumption.
Qed.
