(* scanSubscribers visits exactly the particles whose path matches the topic: characterisation of
   [scan_subs] through [content_at] and the list of candidate paths, and the candidate paths are exactly
   the level lists that match under the MQTT rules. *)
From MV Require Import Base.Val Topics.Levels Topics.LevelsProofs Topics.Match Topics.Alist Topics.AlistProofs
  Topics.IndexSpec Topics.Trie Topics.TrieInv.
From Coq Require Import Lia.
Open Scope N_scope.

Definition plain (k : level) : Prop := is_plus k = false /\ is_hash k = false.

(* the paths of the particles gathered for the topic levels ts, in the order of the scan *)
Fixpoint cands (dollar : bool) (ts : list level) : list (list level) :=
  match ts with
  | [] => []
  | k :: rest =>
      match rest with
      | [] => [[k]; [k; [35]]] ++ (if dollar then [] else [[[43]]; [[43]; [35]]]) ++ (if dollar then [] else [[[35]]])
      | _ => map (cons k) (cands false rest) ++ (if dollar then [] else map (cons [43]) (cands false rest))
             ++ (if dollar then [] else [[[35]]])
      end
  end.

Fixpoint gp (topic : bytes) (n : node) (qs : list (list level)) : scan_res :=
  match qs with
  | [] => res_empty
  | q :: r => res_app (gather_all topic (content_at n q)) (gp topic n r)
  end.

Lemma res_app_empty_l x : res_app res_empty x = x.
Proof. destruct x. reflexivity. Qed.
Lemma res_app_empty_r x : res_app x res_empty = x.
Proof. destruct x. unfold res_app. cbn. rewrite !app_nil_r. reflexivity. Qed.
Lemma res_app_assoc x y z : res_app (res_app x y) z = res_app x (res_app y z).
Proof. unfold res_app. cbn. rewrite !app_assoc. reflexivity. Qed.

Lemma gp_app topic n a b : gp topic n (a ++ b) = res_app (gp topic n a) (gp topic n b).
Proof.
  induction a as [|q a IH]; cbn [gp app]; [rewrite res_app_empty_l; reflexivity|].
  rewrite IH, res_app_assoc. reflexivity.
Qed.

Lemma gather_all_empty topic : gather_all topic empty_content = res_empty.
Proof. reflexivity. Qed.

Lemma gp_cons_path topic n k qs :
  gp topic n (map (cons k) qs) =
  match get_child k (children n) with Some c => gp topic c qs | None => res_empty end.
Proof.
  induction qs as [|q qs IH]; cbn [gp map].
  - destruct (get_child k (children n)); reflexivity.
  - rewrite IH, content_at_cons. destruct (get_child k (children n)); reflexivity.
Qed.

Lemma gp_single topic n q : gp topic n [q] = gather_all topic (content_at n q).
Proof. cbn [gp]. apply res_app_empty_r. Qed.

Lemma scan_subs_gp topic : forall ks top n, Forall plain ks ->
  scan_subs topic top ks n = gp topic n (cands (top && starts_dollar topic) ks).
Proof.
  induction ks as [|key rest IH]; intros top n PL; [reflexivity|].
  inversion PL as [|? ? [Pk _] PR]; subst.
  cbn [scan_subs cands]. set (d := top && starts_dollar topic).
  assert (P43 : is_plus [43] = true) by reflexivity.
  destruct rest as [|k2 r2].
  - cbn [nilb negb]. rewrite Pk, andb_false_r, P43, andb_true_r.
    rewrite !gp_app. destruct d; cbn [gp app]; rewrite ?res_app_empty_r; rewrite ?content_at_cons;
      destruct (get_child key (children n)) as [p1|]; destruct (get_child [43] (children n)) as [p2|];
      destruct (get_child [35] (children n)) as [p3|]; cbv beta iota; rewrite ?content_at_cons, ?content_at_nil;
      try destruct (get_child [35] (children p1)); try destruct (get_child [35] (children p2));
      unfold res_app, res_empty, gather_all; cbn; rewrite ?app_nil_r, <- ?app_assoc; reflexivity.
  - cbn [nilb negb]. rewrite Pk, andb_false_r, P43, andb_true_r.
    rewrite !gp_app, !gp_cons_path.
    assert (IHf : forall m, scan_subs topic false (k2 :: r2) m = gp topic m (cands false (k2 :: r2))).
    { intro m. rewrite (IH false m PR). reflexivity. }
    destruct d; cbn [gp map]; rewrite ?gp_cons_path, ?content_at_cons;
      destruct (get_child key (children n)) as [p1|]; destruct (get_child [43] (children n)) as [p2|];
      destruct (get_child [35] (children n)) as [p3|]; cbv beta iota; rewrite ?IHf, ?content_at_nil;
      unfold res_app, res_empty, gather_all; cbn [r_cl r_sh r_in app]; rewrite ?app_nil_r, <- ?app_assoc; reflexivity.
Qed.

(* ---------- the candidate paths are the matching level lists ---------- *)
Lemma is_hash_eq h : is_hash h = true <-> h = [35].
Proof. apply beq_bytes_eq. Qed.
Lemma is_plus_eq h : is_plus h = true <-> h = [43].
Proof. apply beq_bytes_eq. Qed.

Lemma lv_match_nil_r q : lv_match q [] = true <-> q = [] \/ q = [[35]].
Proof.
  destruct q as [|h q']; cbn [lv_match]; [intuition|].
  destruct (is_hash h) eqn:H.
  - apply is_hash_eq in H. subst. destruct q'; split; intro X; try discriminate; auto.
    destruct X as [X|X]; discriminate.
  - split; [discriminate|]. intros [X|X]; [discriminate|]. inversion X; subst. discriminate.
Qed.

Lemma cands_match : forall ts q d, Forall plain ts -> ts <> [] ->
  (In q (cands d ts) <-> lv_match q ts = true /\ (d = true -> leading_wild q = false)).
Proof.
  induction ts as [|k rest IH]; intros q d PL NE; [contradiction|].
  inversion PL as [|? ? [Pk Hk] PR]; subst.
  destruct rest as [|k2 r2].
  - (* last level *) cbn [cands]. split.
    + intro HI. assert (L1 : lv_match [k] [k] = true) by (cbn; rewrite Hk, beq_bytes_refl, orb_true_r; reflexivity).
      assert (L2 : lv_match [k; [35]] [k] = true) by (cbn; rewrite Hk, beq_bytes_refl, orb_true_r; reflexivity).
      assert (W : leading_wild [k] = false /\ leading_wild [k; [35]] = false) by (cbn; rewrite Hk, Pk; auto).
      destruct d; cbn in HI.
      * destruct HI as [<-|[<-|[]]]; tauto.
      * destruct HI as [<-|[<-|[<-|[<-|[<-|[]]]]]]; try tauto; (split; [reflexivity|discriminate]).
    + intros [M D]. destruct q as [|h q']; [discriminate|]. cbn [lv_match] in M.
      destruct (is_hash h) eqn:H.
      * apply is_hash_eq in H. subst h. destruct q'; [|discriminate].
        destruct d; [specialize (D eq_refl); discriminate|]. cbn. tauto.
      * apply andb_true_iff in M. destruct M as [M1 M2]. apply lv_match_nil_r in M2.
        destruct (is_plus h) eqn:P.
        -- apply is_plus_eq in P. subst h. destruct d; [specialize (D eq_refl); discriminate|].
           destruct M2 as [->| ->]; cbn; tauto.
        -- cbn [orb] in M1. apply beq_bytes_eq in M1. subst h. destruct M2 as [->| ->]; destruct d; cbn; tauto.
  - (* inner level *)
    assert (IH' : forall q', In q' (cands false (k2 :: r2)) <-> lv_match q' (k2 :: r2) = true).
    { intro q'. rewrite (IH q' false PR) by discriminate. intuition discriminate. }
    change (cands d (k :: k2 :: r2)) with
      (map (cons k) (cands false (k2 :: r2)) ++ (if d then [] else map (cons [43]) (cands false (k2 :: r2)))
       ++ (if d then [] else [[[35]]])).
    rewrite !in_app_iff. split.
    + intros [HI|[HI|HI]].
      * apply in_map_iff in HI. destruct HI as (q' & <- & HI). apply IH' in HI. split.
        -- cbn [lv_match]. rewrite Hk, beq_bytes_refl, orb_true_r. exact HI.
        -- intros _. cbn. rewrite Hk, Pk. reflexivity.
      * destruct d; [destruct HI|]. apply in_map_iff in HI. destruct HI as (q' & <- & HI). apply IH' in HI.
        split; [|discriminate]. cbn [lv_match]. exact HI.
      * destruct d; [destruct HI|]. destruct HI as [<-|[]]. split; [reflexivity|discriminate].
    + intros [M D]. destruct q as [|h q']; [discriminate|]. cbn [lv_match] in M.
      destruct (is_hash h) eqn:H.
      * apply is_hash_eq in H. subst h. destruct q'; [|discriminate].
        destruct d; [specialize (D eq_refl); discriminate|]. right. right. left. reflexivity.
      * apply andb_true_iff in M. destruct M as [M1 M2]. apply IH' in M2.
        destruct (is_plus h) eqn:P.
        -- apply is_plus_eq in P. subst h. destruct d; [specialize (D eq_refl); discriminate|].
           right. left. apply in_map. exact M2.
        -- cbn [orb] in M1. apply beq_bytes_eq in M1. subst h. left. apply in_map. exact M2.
Qed.

(* membership in the gathered results *)
Lemma In_gp_cl topic n qs e : In e (r_cl (gp topic n qs)) <-> exists q, In q qs /\ In e (gather_subs topic (content_at n q)).
Proof.
  induction qs as [|q qs IH]; cbn [gp].
  - cbn. split; [tauto|]. intros (q & [] & _).
  - cbn [res_app r_cl gather_all]. rewrite in_app_iff, IH. split.
    + intros [H|(q' & H1 & H2)]; [exists q; cbn; tauto|exists q'; cbn; tauto].
    + intros (q' & [<-|H1] & H2); [tauto|right; exists q'; tauto].
Qed.
Lemma In_gp_sh topic n qs e : In e (r_sh (gp topic n qs)) <-> exists q, In q qs /\ In e (gather_shared (content_at n q)).
Proof.
  induction qs as [|q qs IH]; cbn [gp].
  - cbn. split; [tauto|]. intros (q & [] & _).
  - cbn [res_app r_sh gather_all]. rewrite in_app_iff, IH. split.
    + intros [H|(q' & H1 & H2)]; [exists q; cbn; tauto|exists q'; cbn; tauto].
    + intros (q' & [<-|H1] & H2); [tauto|right; exists q'; tauto].
Qed.
Lemma In_gp_in topic n qs e : In e (r_in (gp topic n qs)) <-> exists q, In q qs /\ In e (gather_inline (content_at n q)).
Proof.
  induction qs as [|q qs IH]; cbn [gp].
  - cbn. split; [tauto|]. intros (q & [] & _).
  - cbn [res_app r_in gather_all]. rewrite in_app_iff, IH. split.
    + intros [H|(q' & H1 & H2)]; [exists q; cbn; tauto|exists q'; cbn; tauto].
    + intros (q' & [<-|H1] & H2); [tauto|right; exists q'; tauto].
Qed.
