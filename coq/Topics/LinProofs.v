(* Atomic operations are linearizable — the schedule is the serial order — and [lin_check] decides exactly
   whether some serial order consistent with the per-goroutine orders explains an observation. *)
From MV Require Import Base.Val Topics.Lin.
From Coq Require Import Lia.

(* ---------- upd_nth ---------- *)
Lemma upd_nth_length {A} (l : list A) i x : length (upd_nth l i x) = length l.
Proof. revert i. induction l as [|y l IH]; intros [|i]; cbn; auto. Qed.

Lemma nth_error_upd_same {A} (l : list A) i x : (i < length l)%nat -> nth_error (upd_nth l i x) i = Some x.
Proof. revert i. induction l as [|y l IH]; intros [|i] L; cbn in *; try lia; [reflexivity|]. apply IH. lia. Qed.

Lemma nth_error_upd_other {A} (l : list A) i j x : i <> j -> nth_error (upd_nth l i x) j = nth_error l j.
Proof.
  revert i j. induction l as [|y l IH]; intros [|i] [|j] NE; cbn; try reflexivity; try congruence.
  apply IH. congruence.
Qed.

Lemma upd_nth_twice {A} (l : list A) i x y : upd_nth (upd_nth l i x) i y = upd_nth l i y.
Proof. revert i. induction l as [|z l IH]; intros [|i]; cbn; try reflexivity. rewrite IH. reflexivity. Qed.

Lemma upd_nth_same {A} (l : list A) i d : (i < length l)%nat -> upd_nth l i (nth i l d) = l.
Proof. revert i. induction l as [|z l IH]; intros [|i] L; cbn in *; try lia; [reflexivity|]. rewrite IH by lia. reflexivity. Qed.

Lemma nth_upd_same {A} (l : list A) i x d : (i < length l)%nat -> nth i (upd_nth l i x) d = x.
Proof. revert i. induction l as [|y l IH]; intros [|i] L; cbn in *; try lia; [reflexivity|]. apply IH. lia. Qed.

Lemma nth_upd_other {A} (l : list A) i j x d : i <> j -> nth j (upd_nth l i x) d = nth j l d.
Proof.
  revert i j. induction l as [|y l IH]; intros [|i] [|j] NE; cbn; try reflexivity; try congruence.
  apply IH. congruence.
Qed.

Lemma nth_error_nth {A} (l : list A) i x d : nth_error l i = Some x -> nth i l d = x.
Proof. revert i. induction l as [|y l IH]; intros [|i]; cbn; try discriminate; [congruence|apply IH]. Qed.

Lemma nth_error_lt {A} (l : list A) i x : nth_error l i = Some x -> (i < length l)%nat.
Proof. intro H. apply nth_error_Some. congruence. Qed.

(* ---------- picks: removing the head of one thread ---------- *)
Lemma picks_spec {A} (after : list (list A)) : forall before e ths',
  In (e, ths') (picks before after) <->
  exists t th', nth_error after t = Some (e :: th') /\ ths' = before ++ upd_nth after t th'.
Proof.
  induction after as [|th rest IH]; intros before e ths'; cbn [picks].
  - split; [intros []|]. intros ([|t] & th' & H & _); discriminate.
  - destruct th as [|e0 th0].
    + rewrite IH. split.
      * intros (t & th' & H1 & H2). exists (S t), th'. split; [exact H1|]. rewrite H2, <- app_assoc. reflexivity.
      * intros ([|t] & th' & H1 & H2); [discriminate|]. exists t, th'. split; [exact H1|].
        rewrite H2, <- app_assoc. reflexivity.
    + cbn [In]. rewrite IH. split.
      * intros [H|(t & th' & H1 & H2)].
        -- inversion H; subst. exists O, th0. split; reflexivity.
        -- exists (S t), th'. split; [exact H1|]. rewrite H2, <- app_assoc. reflexivity.
      * intros ([|t] & th' & H1 & H2).
        -- cbn in H1. inversion H1; subst. left. reflexivity.
        -- right. exists t, th'. split; [exact H1|]. rewrite H2, <- app_assoc. reflexivity.
Qed.

Lemma picks_total {A} (after : list (list A)) : forall before e ths',
  In (e, ths') (picks before after) -> S (length (concat ths')) = length (concat (before ++ after)).
Proof.
  induction after as [|th rest IH]; intros before e ths' H; cbn [picks] in H; [destruct H|].
  destruct th as [|e0 th0].
  - apply IH in H. rewrite H, <- app_assoc. reflexivity.
  - destruct H as [H|H].
    + inversion H; subst. rewrite !concat_app. cbn [concat]. rewrite !app_length. cbn [length]. lia.
    + apply IH in H. rewrite H, <- app_assoc. reflexivity.
Qed.

Lemma picks_not_all_nil {A} (after : list (list A)) : forall before x, In x (picks before after) -> all_nil after = false.
Proof.
  induction after as [|th rest IH]; intros before x H; cbn [picks] in H; [destruct H|].
  destruct th as [|e0 th0]; [|reflexivity]. cbn. eapply IH. exact H.
Qed.

Lemma interleave_length {A} (ths : list (list A)) l : interleave ths l -> length l = length (concat ths).
Proof.
  induction 1 as [ths H|ths e ths' l H _ IH].
  - induction ths as [|th ths IH]; [reflexivity|]. cbn in H. destruct th; [|discriminate]. cbn. apply IH. exact H.
  - apply picks_total in H. cbn [app length] in *. lia.
Qed.

Section LinP.
  Context {St Op Rv : Type} (step : St -> Op -> St * Rv).

  (* ---------- every schedule of atomic operations is a serial execution, in program order ---------- *)
  Theorem sched_serial : forall sched st rest stf restf h,
    run_sched step sched st rest = (stf, restf, h) ->
    seq_run step st (map (fun e => snd (fst e)) h) = (stf, map snd h) /\
    (forall t, proj t h ++ nth t restf [] = nth t rest []) /\
    length restf = length rest.
  Proof.
    induction sched as [|t sc IH]; intros st rest stf restf h H; cbn [run_sched] in H.
    - inversion H; subst. cbn. split; [reflexivity|]. split; [reflexivity|reflexivity].
    - destruct (nth_error rest t) as [[|o os]|] eqn:N; try (apply IH; exact H).
      destruct (step st o) as [st' v] eqn:E.
      destruct (run_sched step sc st' (upd_nth rest t os)) as [[stf' restf'] h'] eqn:R.
      inversion H; subst. destruct (IH _ _ _ _ _ R) as (I1 & I2 & I3). split; [|split].
      + cbn [map fst snd seq_run]. rewrite E, I1. reflexivity.
      + intro t2. cbn [proj]. destruct (Nat.eqb t t2) eqn:Et.
        * apply Nat.eqb_eq in Et. subst t2. cbn [app]. rewrite I2.
          rewrite nth_upd_same by (eapply nth_error_lt; exact N). symmetry. eapply nth_error_nth. exact N.
        * apply Nat.eqb_neq in Et. rewrite I2. apply nth_upd_other. exact Et.
      + rewrite I3. apply upd_nth_length.
  Qed.

  Context (reqb : Rv -> Rv -> bool) (final : St -> bool).

  (* ---------- lin_check is sound and complete for "some consistent serial order explains it" ---------- *)
  Lemma lin_search_sound : forall fuel st ths, lin_search step reqb final fuel st ths = true ->
    exists l, interleave ths l /\ explains step reqb final st l = true.
  Proof.
    induction fuel as [|fu IH]; intros st ths H; cbn [lin_search] in H; [discriminate|].
    destruct (all_nil ths) eqn:AN.
    - exists []. split; [constructor; exact AN|exact H].
    - apply existsb_exists in H. destruct H as ([[o r] ths'] & HI & H).
      destruct (step st o) as [st' r'] eqn:E. apply andb_true_iff in H. destruct H as [H1 H2].
      destruct (IH _ _ H2) as (l & L1 & L2). exists ((o, r) :: l). split.
      + econstructor; eassumption.
      + cbn [explains]. rewrite E, H1, L2. reflexivity.
  Qed.

  Lemma lin_search_complete : forall ths l, interleave ths l -> forall st fuel,
    explains step reqb final st l = true -> (length l < fuel)%nat -> lin_search step reqb final fuel st ths = true.
  Proof.
    induction 1 as [ths H|ths [o r] ths' l H _ IH]; intros st fuel EX LT.
    - destruct fuel; [lia|]. cbn [lin_search]. rewrite H. exact EX.
    - destruct fuel; [cbn in LT; lia|]. cbn [lin_search]. rewrite (picks_not_all_nil _ _ _ H).
      apply existsb_exists. exists ((o, r), ths'). split; [exact H|].
      cbn [explains] in EX. destruct (step st o) as [st' r'] eqn:E. apply andb_true_iff in EX.
      destruct EX as [E1 E2]. rewrite E1. cbn [andb]. apply IH; [exact E2|cbn in LT; lia].
  Qed.

  Theorem lin_check_spec st ths :
    lin_check step reqb final st ths = true <->
    exists l, interleave ths l /\ explains step reqb final st l = true.
  Proof.
    unfold lin_check. split; [apply lin_search_sound|].
    intros (l & L1 & L2). eapply lin_search_complete; [exact L1|exact L2|].
    rewrite (interleave_length _ _ L1). unfold total_len. lia.
  Qed.

  (* ---------- the observation of a real (atomic) execution is accepted ---------- *)
  (* what goroutine t saw: its operations with the values they returned *)
  Fixpoint obs_of (n : nat) (h : list (nat * Op * Rv)) : list (list (Op * Rv)) :=
    match h with
    | [] => repeat [] n
    | (t, o, v) :: r => let ob := obs_of n r in upd_nth ob t ((o, v) :: nth t ob [])
    end.

  Lemma obs_of_length n h : length (obs_of n h) = n.
  Proof.
    induction h as [|[[t o] v] h IH]; cbn [obs_of]; [apply repeat_length|]. rewrite upd_nth_length. exact IH.
  Qed.

  Lemma all_nil_repeat {A} n : all_nil (repeat (@nil A) n) = true.
  Proof. induction n; cbn; auto. Qed.

  Lemma nth_repeat_nil {A} n t : nth t (repeat (@nil A) n) [] = [].
  Proof. revert t. induction n; intros [|t]; cbn; auto. Qed.

  Lemma obs_of_proj n h t : (forall t' o v, In (t', o, v) h -> (t' < n)%nat) ->
    map fst (nth t (obs_of n h) []) = proj t h.
  Proof.
    induction h as [|[[t0 o] v] h IH]; intro B; cbn [obs_of proj].
    - rewrite nth_repeat_nil. reflexivity.
    - assert (B' : forall t' o v, In (t', o, v) h -> (t' < n)%nat) by (intros; eapply B; right; eassumption).
      assert (L : (t0 < length (obs_of n h))%nat) by (rewrite obs_of_length; eapply B; left; reflexivity).
      destruct (Nat.eqb t0 t) eqn:E.
      + apply Nat.eqb_eq in E. subst t0. rewrite nth_upd_same by exact L. cbn [map fst]. rewrite IH by exact B'. reflexivity.
      + apply Nat.eqb_neq in E. rewrite nth_upd_other by exact E. apply IH. exact B'.
  Qed.

  Lemma obs_interleave n h : (forall t o v, In (t, o, v) h -> (t < n)%nat) ->
    interleave (obs_of n h) (map (fun e => (snd (fst e), snd e)) h).
  Proof.
    induction h as [|[[t o] v] h IH]; intro B; cbn [obs_of map fst snd].
    - constructor. apply all_nil_repeat.
    - assert (B' : forall t' o v, In (t', o, v) h -> (t' < n)%nat) by (intros; eapply B; right; eassumption).
      assert (L : (t < length (obs_of n h))%nat) by (rewrite obs_of_length; eapply B; left; reflexivity).
      econstructor; [|apply IH; exact B'].
      apply picks_spec. exists t, (nth t (obs_of n h) []). split.
      + apply nth_error_upd_same. exact L.
      + cbn [app]. rewrite upd_nth_twice. symmetry. apply upd_nth_same. exact L.
  Qed.

  Lemma run_sched_bound : forall sched st rest stf restf h, run_sched step sched st rest = (stf, restf, h) ->
    forall t o v, In (t, o, v) h -> (t < length rest)%nat.
  Proof.
    induction sched as [|t sc IH]; intros st rest stf restf h H; cbn [run_sched] in H.
    - inversion H; subst. intros ? ? ? [].
    - destruct (nth_error rest t) as [[|o os]|] eqn:N; try (eapply IH; exact H).
      destruct (step st o) as [st' v] eqn:E.
      destruct (run_sched step sc st' (upd_nth rest t os)) as [[stf' restf'] h'] eqn:R.
      inversion H; subst. intros t2 o2 v2 [HI|HI].
      + inversion HI; subst. eapply nth_error_lt. exact N.
      + pose proof (IH _ _ _ _ _ R _ _ _ HI) as L. rewrite upd_nth_length in L. exact L.
  Qed.

  Lemma explains_seq_run (reqb_refl : forall r, reqb r r = true) : forall h st stf,
    seq_run step st (map (fun e : nat * Op * Rv => snd (fst e)) h) = (stf, map snd h) ->
    explains step reqb final st (map (fun e => (snd (fst e), snd e)) h) = final stf.
  Proof.
    induction h as [|[[t o] v] h IH]; intros st stf H; cbn [map fst snd seq_run explains] in *.
    - inversion H; subst. reflexivity.
    - destruct (step st o) as [st' v'] eqn:E.
      destruct (seq_run step st' (map (fun e : nat * Op * Rv => snd (fst e)) h)) as [st'' vs] eqn:Sq.
      inversion H; subst. rewrite reqb_refl. cbn [andb]. apply IH. exact Sq.
  Qed.

  (* whatever the schedule, what the goroutines observed is accepted by lin_check, provided the final
     state is accepted; and the observation lists are the programs with their return values *)
  Theorem atomic_is_linearizable (reqb_refl : forall r, reqb r r = true) :
    forall sched st prog stf restf h,
    run_sched step sched st prog = (stf, restf, h) -> final stf = true ->
    let obs := obs_of (length prog) h in
    lin_check step reqb final st obs = true /\
    (forall t, map fst (nth t obs []) ++ nth t restf [] = nth t prog []).
  Proof.
    intros sched st prog stf restf h H F obs.
    pose proof (run_sched_bound _ _ _ _ _ _ H) as B.
    destruct (sched_serial _ _ _ _ _ _ H) as (S1 & S2 & _). split.
    - apply lin_check_spec. exists (map (fun e => (snd (fst e), snd e)) h). split.
      + apply obs_interleave. exact B.
      + rewrite (explains_seq_run reqb_refl _ _ _ S1). exact F.
    - intro t. unfold obs. rewrite obs_of_proj by exact B. apply S2.
  Qed.
End LinP.
