(* Model of topics.go: isolateParticle, IsSharedFilter, IsValidFilter (filter and publish-topic
   validation, after the fix: commits 8881d57, a480c3d, 09b3d0d), and the specification of valid
   filters / publish topic names by levels (MQTT 4.7.1, 4.7.3, 4.8.2; DESIGN.md appendix G).
   No proofs in this file. *)
From MV Require Import Base.Val.
Open Scope N_scope.

Definition nilb {A} (l : list A) : bool := match l with [] => true | _ => false end.

(* ====================================================================================== *)
(* Levels.  (coq/Topics/Levels.v of the topics worker did not exist when this was written; the
   definitions live in their own module so that both can be imported side by side.) *)
Module VLevels.
  Definition level := bytes.

  (* "a//b" -> [a;[];b]    "" -> [[]]    "a/" -> [a;[]] : byte-level split on '/' (47) *)
  Fixpoint split (s : bytes) : list level :=
    match s with
    | [] => [[]]
    | c :: r =>
        if c =? 47 then [] :: split r
        else match split r with
             | l :: ls => (c :: l) :: ls
             | [] => [[c]]                      (* unreachable: split never returns [] *)
             end
    end.

  (* the accumulator formulation of appendix G; SplitAcc_eq in ValidProofs.v shows it is [split] *)
  Fixpoint split_aux (cur s : bytes) : list level :=
    match s with
    | [] => [rev cur]
    | c :: r => if c =? 47 then rev cur :: split_aux [] r else split_aux (c :: cur) r
    end.
  Definition split_acc (s : bytes) : list level := split_aux [] s.

  (* inverse of split *)
  Fixpoint join (ls : list level) : bytes :=
    match ls with
    | [] => []
    | [l] => l
    | l :: r => l ++ 47 :: join r
    end.

  Definition has (c : N) (l : bytes) : bool := existsb (N.eqb c) l.
  Definition is_hash (l : level) : bool := beq_bytes l [35].
  Definition is_plus (l : level) : bool := beq_bytes l [43].
End VLevels.
Import VLevels.

(* ====================================================================================== *)
(* Specification, written from the property text / the standard. *)

(* '#' only as the whole last level, '+' only as whole levels *)
Fixpoint levels_ok (ls : list level) : bool :=
  match ls with
  | [] => true
  | l :: r => (if has 35 l then is_hash l && nilb r else true)
              && (if has 43 l then is_plus l else true)
              && levels_ok r
  end.

(* Which filters are '$share' filters.  MQTT writes the prefix "$share"; this broker's constant is
   "$SHARE" and it recognises the prefix ignoring case (every such filter is indexed as a shared
   subscription by TopicsIndex.Subscribe), so "a '$share' filter" is read as: the first level is
   "$share" up to (Unicode simple) case folding.  For the letters of "$share" the only non-ASCII
   member of a folding class is U+017F LATIN SMALL LETTER LONG S (UTF-8 C5 BF), which folds to 's'.
   The literal reading is [valid_filter_spec_lit]; the two differ only on [share_case_variant]. *)
Definition lower (b : N) : N := if (65 <=? b) && (b <=? 90) then b + 32 else b.
Fixpoint fold_lower (l : bytes) : bytes :=
  match l with
  | [] => []
  | b :: r =>
      match r with
      | b2 :: r2 => if (b =? 197) && (b2 =? 191) then 115 :: fold_lower r2 else lower b :: fold_lower r
      | [] => [lower b]
      end
  end.
Definition share_word (l : level) : bool := beq_bytes (fold_lower l) (bytes_of_string "$share").
Definition first_level (s : bytes) : level := match split s with l :: _ => l | [] => [] end.
Definition is_share (s : bytes) : bool := share_word (first_level s).
Definition is_share_lit (s : bytes) : bool := beq_bytes (first_level s) (bytes_of_string "$share").
Definition share_case_variant (s : bytes) : bool := is_share s && negb (is_share_lit s).

(* A subscription filter is accepted exactly when it is non-empty, '#' occupies only the whole last
   level, '+' occupies only whole levels, and a '$share' filter has a non-empty share name without
   wildcards followed by a non-empty filter. *)
Definition valid_filter_spec_gen (shared : bool) (s : bytes) : bool :=
  negb (nilb s) && levels_ok (split s) &&
  (if shared then
     match split s with
     | _ :: g :: (_ :: _) as rest =>
         negb (nilb g) && negb (has 35 g) && negb (has 43 g) && negb (nilb (join rest))
     | _ => false
     end
   else true).
Definition valid_filter_spec (s : bytes) : bool := valid_filter_spec_gen (is_share s) s.
Definition valid_filter_spec_lit (s : bytes) : bool := valid_filter_spec_gen (is_share_lit s) s.

Fixpoint prefixb (p s : bytes) : bool :=
  match p, s with
  | [], _ => true
  | x :: p', y :: s' => (x =? y) && prefixb p' s'
  | _ :: _, [] => false
  end.

(* A client publish topic is accepted exactly when it contains no wildcard and does not start
   with '$SYS'. *)
Definition valid_pub_topic_spec (s : bytes) : bool :=
  negb (has 35 s) && negb (has 43 s) && negb (prefixb (bytes_of_string "$SYS") s).

(* ====================================================================================== *)
(* Model of the Go code (topics.go). *)

(* strings.IndexRune(s, c) for an ASCII c = strings.IndexByte; None = -1 *)
Fixpoint index_byte (c : N) (s : bytes) : option nat :=
  match s with
  | [] => None
  | b :: r => if b =? c then Some O
              else match index_byte c r with Some i => Some (S i) | None => None end
  end.
Definition contains_rune (s : bytes) (c : N) : bool :=
  match index_byte c s with Some _ => true | None => false end.

(* filter[:end], filter[end+1:] at the first '/' ; None = no '/' (end == -1) *)
Fixpoint cut (s : bytes) : bytes * option bytes :=
  match s with
  | [] => ([], None)
  | c :: r => if c =? 47 then ([], Some r)
              else let (p, n) := cut r in (c :: p, n)
  end.

(* isolateParticle(filter, d) (topics.go:679): the loop advances [filter] past d separators; in
   round i = d it returns the part before the next '/', hasNext = whether there is one; when the
   separators run out earlier it returns what is left, hasNext = false. *)
Fixpoint isolate_particle (d : nat) (s : bytes) : bytes * bool :=
  match cut s with
  | (p, Some rest) => match d with O => (p, true) | S d' => isolate_particle d' rest end
  | (p, None) => (p, false)
  end.

(* strings.EqualFold(x, "$SHARE") on the bytes of x.  EqualFold compares rune by rune under simple
   case folding; against the ASCII constant "$SHARE" a rune of x matches 'S' iff it is 'S', 's' or
   U+017F (the fold orbit of S; only the shortest UTF-8 form C5 BF decodes to U+017F, any invalid
   sequence decodes to U+FFFD which matches nothing); H, A, R, E match only their two ASCII cases;
   '$' matches only itself; the lengths (in runes) must agree. *)
Definition eat_ci (u : N) (x : bytes) : option bytes :=
  match x with
  | b :: r => if (b =? u) || (b =? u + 32) then Some r else None
  | [] => None
  end.
Definition eat_exact (u : N) (x : bytes) : option bytes :=
  match x with
  | b :: r => if b =? u then Some r else None
  | [] => None
  end.
Definition eat_s (x : bytes) : option bytes :=
  match x with
  | b :: r =>
      if (b =? 83) || (b =? 115) then Some r
      else if b =? 197 then
        match r with
        | b2 :: r2 => if b2 =? 191 then Some r2 else None
        | [] => None
        end
      else None
  | [] => None
  end.
Definition obind {A B} (o : option A) (f : A -> option B) : option B :=
  match o with Some a => f a | None => None end.
Definition equal_fold_share (x : bytes) : bool :=
  match obind (obind (obind (obind (obind (eat_exact 36 x) eat_s) (eat_ci 72)) (eat_ci 65)) (eat_ci 82))
              (eat_ci 69) with
  | Some [] => true
  | _ => false
  end.

(* IsSharedFilter (topics.go:701) *)
Definition is_shared_filter (s : bytes) : bool :=
  equal_fold_share (fst (isolate_particle 0 s)).

(* the byte before position i is not '/' (i > 0 && filter[i-1] != '/'); None = i == 0 *)
Definition bad_prev (prev : option N) : bool :=
  match prev with Some p => negb (p =? 47) | None => false end.
(* the byte after position i is not '/' (i < len-1 && filter[i+1] != '/') *)
Definition bad_next (r : bytes) : bool :=
  match r with n :: _ => negb (n =? 47) | [] => false end.

(* wildhash := IndexRune(filter,'#'); ok unless
   wildhash >= 0 && (wildhash != len-1 || (wildhash > 0 && filter[wildhash-1] != '/')) *)
Fixpoint hash_check (prev : option N) (s : bytes) : bool :=
  match s with
  | [] => true
  | c :: r => if c =? 35 then nilb r && negb (bad_prev prev) else hash_check (Some c) r
  end.

(* for i := 0; i < len(filter); i++ { if filter[i]=='+' && (bad_prev || bad_next) { return false } } *)
Fixpoint plus_loop (prev : option N) (s : bytes) : bool :=
  match s with
  | [] => true
  | c :: r => if (c =? 43) && (bad_prev prev || bad_next r) then false else plus_loop (Some c) r
  end.

(* IsValidFilter (topics.go:707) *)
Definition is_valid_filter (s : bytes) (for_publish : bool) : bool :=
  if negb for_publish && nilb s then false
  else if for_publish then
    if prefixb (bytes_of_string "$SYS") s then false            (* strings.HasPrefix(filter, SysPrefix) *)
    else negb (contains_rune s 43) && negb (contains_rune s 35)
  else if negb (hash_check None s) then false
  else if negb (plus_loop None s) then false
  else
    let (prefix, has_next) := isolate_particle 0 s in
    if negb has_next && equal_fold_share prefix then false
    else if has_next && equal_fold_share prefix then
      let (group, has_next2) := isolate_particle 1 s in
      if negb has_next2 || nilb group
         || (N.of_nat (length s) =? N.of_nat (length prefix) + N.of_nat (length group) + 2)
      then false
      else if contains_rune group 43 || contains_rune group 35 then false
      else true
    else true.

(* ====================================================================================== *)
(* Engine.  case = VL [VN kind; VB s; VN result]
     kind 0: IsValidFilter(s, false)   kind 1: IsValidFilter(s, true)   kind 2: IsSharedFilter(s) *)
Fixpoint wf_bytesb (bs : bytes) : bool :=
  match bs with [] => true | b :: r => (b <? 256) && wf_bytesb r end.

Definition valid_nontrivial (s : bytes) : bool :=
  has 35 s || has 43 s || match s with 36 :: _ => true | _ => false end.

Definition valid_check (kind : N) (s : bytes) (res : bool) : val :=
  let '(spec, model, tg) :=
    match kind with
    | 0 => (valid_filter_spec s, is_valid_filter s false, tag "filter")
    | 1 => (valid_pub_topic_spec s, is_valid_filter s true, tag "topic")
    | _ => (is_share s, is_shared_filter s, tag "shared")
    end in
  let tg := (tg ++ (if spec then tag "-yes" else tag "-no"))%list in
  let info := [vbool spec; vbool model] in
  if negb (Bool.eqb res spec) then verdict 1 tg (valid_nontrivial s) info
  else if negb (Bool.eqb res model) then verdict 2 tg (valid_nontrivial s) info
  else verdict 0 tg (valid_nontrivial s) [].

(* ENGINE valid Topics.Valid.valid_engine *)
Definition valid_engine (c : val) : val :=
  match c with
  | VL [VN kind; VB s; VN res] =>
      if wf_bytesb s && (kind <=? 2) && (res <=? 1) then valid_check kind s (negb (res =? 0)) else bad_case
  | _ => bad_case
  end.
