(* C05, concurrency dimension: retained publishes (TopicsIndex.RetainMessage) racing with client unsubscribes,
   retained clears and subscribes on the same branch of the particle tree, followed by Messages(filter) queries
   with exact and wildcard filters.  Specification: the map topic -> latest retained publish of IndexSpec
   (a_step / spec_retained) under some serial order.  Model: Trie.t_step (RetainMessage = set + store as ONE atomic
   step under the root lock) and, for the refutation, a split variant (set under the lock, store afterwards).
   Engine for hx topics_retainsched.  No proofs in this file (see RetainConcProofs.v). *)
From MV Require Import Base.Val Topics.Levels Topics.Match Topics.Alist Topics.IndexSpec Topics.Trie Topics.Lin
  Topics.TopicsEngine.
Open Scope N_scope.

Inductive rop :=
| RO (o : op)                                       (* an operation of the index *)
| RMsgs (f : bytes) (obs : list (bytes * bytes)).   (* Messages(f) returned obs; "returns" 1 iff the state explains obs *)

Definition r_spec_step (a : astate) (r : rop) : astate * N :=
  match r with
  | RO o => a_step a o
  | RMsgs f obs => (a, if mseqb beq_bb obs (spec_retained a f) then 1 else 0)
  end.

Definition r_model_step (x : index) (r : rop) : index * N :=
  match r with
  | RO o => t_step x o
  | RMsgs f obs => (x, if mseqb beq_bb obs (messages x f) then 1 else 0)
  end.

Definition wf_ropb (r : rop) : bool :=
  match r with RO o => wf_opb o | RMsgs f _ => msg_filter_ok f end.

(* ---------- the split variant (seeded changes C05c / C31b): the root lock only guards set(...) ---------- *)
Inductive rsop :=
| RS (r : rop)
| RWalk (t : bytes)                 (* x.root.Lock(); n := x.set(topic, 0); x.root.Unlock() *)
| RStore (t pl : bytes).            (* n.retainPath = topic; x.Retained.Add(topic, pk) on the particle found by the walk *)

(* the particle is remembered by its path; if it has been pruned meanwhile, retainPath is written to a particle that
   is no longer in the tree (the tree does not change) while the Retained map still gets the packet *)
Definition rs_step (x : index) (s : rsop) : index * N :=
  match s with
  | RS r => r_model_step x r
  | RWalk t => (mkIx (create (path_of t 0) (ix_root x)) (ix_ret x), 0)
  | RStore t pl => (mkIx (modify (path_of t 0) (set_retain t) (ix_root x)) (al_set beq_bytes t pl (ix_ret x)), 1)
  end.

(* ---------- engine ----------
   case = VL [VN 8; VL pre; VL threads; VL post]; element = VL [rop; VN ret]
   rop  = an op of TopicsEngine.parse_op | VL [VN 7; VB filter; VL [VL [VB topic; VB payload] ...]] *)
Definition parse_rop (v : val) : option rop :=
  match v with
  | VL [VN 7; VB f; VL ms] => match map_opt parse_bb ms with Some m => Some (RMsgs f m) | None => None end
  | _ => match parse_op v with Some o => Some (RO o) | None => None end
  end.
Definition parse_ropret (v : val) : option (rop * N) :=
  match v with
  | VL [c; VN r] => match parse_rop c with Some c' => Some (c', r) | None => None end
  | _ => None
  end.

Section Seq.
  Context {St Op : Type} (step : St -> Op -> St * N).
  Fixpoint seq_okg (st : St) (h : list (Op * N)) : bool * St :=
    match h with
    | [] => (true, st)
    | (c, r) :: h' => let (st', r') := step st c in
                      let (ok, st'') := seq_okg st' h' in ((r =? r') && ok, st'')
    end.
  Definition conc_explainedg (st0 : St) (pre : list (Op * N)) (ths : list (list (Op * N))) (post : list (Op * N)) : bool :=
    let (ok, st1) := seq_okg st0 pre in
    ok && lin_check step N.eqb (fun st => fst (seq_okg st post)) st1 ths.
End Seq.

Definition retain_check (pre : list (rop * N)) (ths : list (list (rop * N))) (post : list (rop * N)) : val :=
  let nt := existsb (fun e => match fst e with RMsgs _ (_ :: _) => true | _ => false end) (post ++ concat ths) in
  let tg := tag "retainsched" in
  if conc_explainedg r_spec_step a_empty pre ths post then
    if conc_explainedg r_model_step ix_empty pre ths post then verdict 0 tg nt [] else verdict 2 tg nt []
  else verdict 1 tg nt [].

(* ENGINE topics_retainsched Topics.RetainConc.retain_engine *)
Definition retain_engine (c : val) : val :=
  match c with
  | VL [VN 8; VL pre; VL ths; VL post] =>
      match map_opt parse_ropret pre,
            map_opt (fun t => match t with VL l => map_opt parse_ropret l | _ => None end) ths,
            map_opt parse_ropret post with
      | Some pre', Some ths', Some post' =>
          if forallb (fun e => wf_ropb (fst e)) (pre' ++ concat ths' ++ post') then retain_check pre' ths' post'
          else bad_case
      | _, _, _ => bad_case
      end
  | _ => bad_case
  end.
