(* Proofs for C30: the byte-level model of IsValidFilter / IsSharedFilter (Topics/Valid.v) equals
   the level-wise specification for every byte string. *)
From MV Require Import Base.Val Topics.Valid.
From Coq Require Import Lia ZifyBool ZifyN ZifyNat.
Import VLevels.
Open Scope N_scope.

Arguments N.add : simpl never.
Arguments N.eqb : simpl never.
Arguments N.leb : simpl never.

(* ---------- generic facts ---------- *)

Lemma beq_bytes_refl a : beq_bytes a a = true.
Proof. induction a as [|x a IH]; cbn [beq_bytes]; [reflexivity|]. rewrite N.eqb_refl, IH. reflexivity. Qed.

Lemma beq_bytes_eq a b : beq_bytes a b = true -> a = b.
Proof.
  revert b. induction a as [|x a IH]; intros [|y b] H; cbn [beq_bytes] in H; try discriminate; [reflexivity|].
  apply andb_true_iff in H. destruct H as [E H]. apply N.eqb_eq in E. subst y. f_equal. apply IH. exact H.
Qed.

Lemma has_In c l : has c l = true <-> In c l.
Proof.
  unfold has. rewrite existsb_exists. split.
  - intros [x [Hin E]]. apply N.eqb_eq in E. subst x. exact Hin.
  - intro Hin. exists c. split; [exact Hin | apply N.eqb_refl].
Qed.

Lemma has_cons c b l : has c (b :: l) = (c =? b) || has c l.
Proof. reflexivity. Qed.

Lemma contains_has s c : contains_rune s c = has c s.
Proof.
  unfold contains_rune. induction s as [|b r IH]; [reflexivity|].
  cbn [index_byte]. rewrite has_cons, (N.eqb_sym c b).
  destruct (b =? c); [reflexivity|]. cbn [orb]. rewrite <- IH.
  destruct (index_byte c r); reflexivity.
Qed.

(* ---------- split / join / cut ---------- *)

Lemma split_cons_ex s : exists l ls, split s = l :: ls.
Proof.
  induction s as [|c r [l [ls IH]]]; [exists [], []; reflexivity|].
  cbn [split]. destruct (c =? 47); [exists [], (split r); reflexivity|].
  rewrite IH. exists (c :: l), ls. reflexivity.
Qed.

Lemma split_not_nil s : split s <> [].
Proof. destruct (split_cons_ex s) as [l [ls E]]. rewrite E. discriminate. Qed.

Lemma split_slash r : split (47 :: r) = [] :: split r.
Proof. reflexivity. Qed.

Lemma split_other c r l ls : (c =? 47) = false -> split r = l :: ls -> split (c :: r) = (c :: l) :: ls.
Proof. intros Hc E. cbn [split]. rewrite Hc, E. reflexivity. Qed.

(* the accumulator formulation of DESIGN.md appendix G is the same function *)
Lemma split_aux_eq s : forall cur,
  split_aux cur s = match split s with l :: ls => (rev cur ++ l) :: ls | [] => [] end.
Proof.
  induction s as [|c r IH]; intro cur.
  - cbn [split_aux split]. rewrite app_nil_r. reflexivity.
  - cbn [split_aux split]. destruct (c =? 47).
    + rewrite IH. cbn [rev app]. rewrite app_nil_r.
      destruct (split_cons_ex r) as [l [ls E]]. rewrite E. reflexivity.
    + rewrite IH. destruct (split_cons_ex r) as [l [ls E]]. rewrite E.
      cbn [rev]. rewrite <- app_assoc. reflexivity.
Qed.

Lemma split_acc_eq s : split_acc s = split s.
Proof.
  unfold split_acc. rewrite split_aux_eq. destruct (split_cons_ex s) as [l [ls E]]. rewrite E. reflexivity.
Qed.

Lemma join_split s : join (split s) = s.
Proof.
  induction s as [|c r IH]; [reflexivity|].
  destruct (split_cons_ex r) as [l [ls E]].
  cbn [split]. destruct (c =? 47) eqn:Hc.
  - apply N.eqb_eq in Hc. subst c. rewrite E in *. cbn [join app]. cbn [join] in IH. rewrite IH. reflexivity.
  - rewrite E in *. destruct ls as [|l2 ls'].
    + cbn [join] in *. rewrite IH. reflexivity.
    + cbn [join] in *. cbn [app]. rewrite IH. reflexivity.
Qed.

Lemma cut_split s :
  split s = fst (cut s) :: match snd (cut s) with Some r => split r | None => [] end.
Proof.
  induction s as [|c r IH]; [reflexivity|].
  cbn [split cut]. destruct (c =? 47); [reflexivity|].
  rewrite IH. destruct (cut r) as [p n]. reflexivity.
Qed.

Lemma cut_some s p r : cut s = (p, Some r) -> s = (p ++ 47 :: r)%list.
Proof.
  revert p. induction s as [|c s' IH]; intros p H; cbn [cut] in H; [discriminate|].
  destruct (c =? 47) eqn:Hc.
  - apply N.eqb_eq in Hc. inversion H. subst. reflexivity.
  - destruct (cut s') as [p' n'] eqn:E. inversion H. subst. cbn [app]. f_equal. apply IH. reflexivity.
Qed.

(* first level empty  <->  the string is empty or starts with '/' *)
Lemma first_nil_bad_next r :
  match split r with l :: _ => nilb l | [] => false end = negb (bad_next r).
Proof.
  destruct r as [|n r']; [reflexivity|].
  cbn [split bad_next]. destruct (n =? 47); [reflexivity|].
  destruct (split_cons_ex r') as [l [ls E]]. rewrite E. reflexivity.
Qed.

Lemma single_nil_level r :
  match split r with l :: ls => nilb l && nilb ls | [] => false end = nilb r.
Proof.
  destruct r as [|n r']; [reflexivity|].
  cbn [split nilb]. destruct (n =? 47).
  - cbn [nilb andb]. destruct (split_cons_ex r') as [l [ls E]]. rewrite E. reflexivity.
  - destruct (split_cons_ex r') as [l [ls E]]. rewrite E. reflexivity.
Qed.

(* ---------- '#' and '+' : the byte loops compute the level conditions ---------- *)

Fixpoint hash_ok (ls : list level) : bool :=
  match ls with
  | [] => true
  | l :: r => (if has 35 l then is_hash l && nilb r else true) && hash_ok r
  end.
Fixpoint plus_ok (ls : list level) : bool :=
  match ls with
  | [] => true
  | l :: r => (if has 43 l then is_plus l else true) && plus_ok r
  end.

Lemma levels_ok_split ls : levels_ok ls = hash_ok ls && plus_ok ls.
Proof.
  induction ls as [|l r IH]; [reflexivity|].
  cbn [levels_ok hash_ok plus_ok]. rewrite IH.
  destruct (if has 35 l then is_hash l && nilb r else true);
  destruct (if has 43 l then is_plus l else true);
  destruct (hash_ok r); destruct (plus_ok r); reflexivity.
Qed.

Lemma is_hash_cons c l : is_hash (c :: l) = (c =? 35) && nilb l.
Proof. unfold is_hash. cbn [beq_bytes]. destruct l; reflexivity. Qed.
Lemma is_plus_cons c l : is_plus (c :: l) = (c =? 43) && nilb l.
Proof. unfold is_plus. cbn [beq_bytes]. destruct l; reflexivity. Qed.

Lemma hash_check_levels s : forall prev,
  hash_check prev s =
  match split s with
  | l :: ls => if bad_prev prev then negb (has 35 l) && hash_ok ls else hash_ok (l :: ls)
  | [] => true
  end.
Proof.
  induction s as [|c r IH]; intro prev.
  - cbn. destruct (bad_prev prev); reflexivity.
  - destruct (split_cons_ex r) as [l [ls E]].
    cbn [hash_check]. destruct (c =? 35) eqn:H35.
    + apply N.eqb_eq in H35. subst c.
      rewrite (split_other 35 r l ls eq_refl E).
      cbn [hash_ok]. rewrite has_cons, N.eqb_refl. cbn [orb negb andb].
      destruct (bad_prev prev); [apply andb_false_r|].
      cbn [negb]. rewrite andb_true_r, is_hash_cons, N.eqb_refl. cbn [andb].
      pose proof (single_nil_level r) as S. rewrite E in S. rewrite <- S.
      destruct (nilb l); [|reflexivity]. destruct ls; reflexivity.
    + destruct (c =? 47) eqn:H47.
      * apply N.eqb_eq in H47. subst c. rewrite split_slash, IH, E.
        cbn [bad_prev]. rewrite N.eqb_refl. cbn [negb hash_ok has existsb andb].
        destruct (bad_prev prev); reflexivity.
      * rewrite (split_other c r l ls H47 E), IH, E.
        cbn [bad_prev]. rewrite H47. cbn [negb hash_ok].
        rewrite has_cons, (N.eqb_sym 35 c), H35. cbn [orb].
        rewrite is_hash_cons, H35. cbn [andb].
        destruct (bad_prev prev); [reflexivity|].
        destruct (has 35 l); reflexivity.
Qed.

Lemma plus_loop_levels s : forall prev,
  plus_loop prev s =
  match split s with
  | l :: ls => if bad_prev prev then negb (has 43 l) && plus_ok ls else plus_ok (l :: ls)
  | [] => true
  end.
Proof.
  induction s as [|c r IH]; intro prev.
  - cbn. destruct (bad_prev prev); reflexivity.
  - destruct (split_cons_ex r) as [l [ls E]].
    cbn [plus_loop]. destruct (c =? 43) eqn:H43.
    + apply N.eqb_eq in H43. subst c.
      rewrite (split_other 43 r l ls eq_refl E).
      cbn [plus_ok andb]. rewrite has_cons, N.eqb_refl. cbn [orb negb andb].
      destruct (bad_prev prev); [reflexivity|]. cbn [orb].
      rewrite is_plus_cons, N.eqb_refl. cbn [andb].
      pose proof (first_nil_bad_next r) as F. rewrite E in F.
      destruct (bad_next r).
      * cbn [negb] in F. rewrite F. reflexivity.
      * cbn [negb] in F. rewrite F. rewrite IH, E. cbn [bad_prev].
        replace (43 =? 47) with false by reflexivity. cbn [negb].
        destruct l; [reflexivity|discriminate].
    + cbn [andb]. destruct (c =? 47) eqn:H47.
      * apply N.eqb_eq in H47. subst c. rewrite split_slash, IH, E.
        cbn [bad_prev]. rewrite N.eqb_refl. cbn [negb plus_ok has existsb andb].
        destruct (bad_prev prev); reflexivity.
      * rewrite (split_other c r l ls H47 E), IH, E.
        cbn [bad_prev]. rewrite H47. cbn [negb plus_ok].
        rewrite has_cons, (N.eqb_sym 43 c), H43. cbn [orb].
        rewrite is_plus_cons, H43. cbn [andb].
        destruct (bad_prev prev); [reflexivity|].
        destruct (has 43 l); reflexivity.
Qed.

Lemma levels_ok_model s : levels_ok (split s) = hash_check None s && plus_loop None s.
Proof.
  rewrite levels_ok_split, hash_check_levels, plus_loop_levels.
  destruct (split_cons_ex s) as [l [ls E]]. rewrite E. reflexivity.
Qed.

(* ---------- strings.EqualFold(x, "$SHARE") = "first level is $share up to case folding" ---------- *)

Lemma fold_lower_2 b b2 r2 :
  fold_lower (b :: b2 :: r2) =
  if (b =? 197) && (b2 =? 191) then 115 :: fold_lower r2 else lower b :: fold_lower (b2 :: r2).
Proof. reflexivity. Qed.

Lemma fold_lower_1 b : fold_lower [b] = [lower b].
Proof. reflexivity. Qed.

Lemma beq_cons x a y b : beq_bytes (x :: a) (y :: b) = (x =? y) && beq_bytes a b.
Proof. reflexivity. Qed.

Lemma step_exact u w x : u < 65 ->
  beq_bytes (fold_lower x) (u :: w) =
  match eat_exact u x with Some r => beq_bytes (fold_lower r) w | None => false end.
Proof.
  intro Hu. destruct x as [|b [|b2 r2]]; [reflexivity| |].
  - rewrite fold_lower_1, beq_cons. unfold eat_exact, lower.
    destruct ((65 <=? b) && (b <=? 90)) eqn:C; destruct (b =? u) eqn:B;
      try reflexivity; replace (b + 32 =? u) with false by lia; try reflexivity; lia.
  - rewrite fold_lower_2. unfold eat_exact.
    destruct ((b =? 197) && (b2 =? 191)) eqn:C.
    + rewrite beq_cons. replace (115 =? u) with false by lia. replace (b =? u) with false by lia. reflexivity.
    + rewrite beq_cons. unfold lower.
      destruct ((65 <=? b) && (b <=? 90)) eqn:D; destruct (b =? u) eqn:B;
        try reflexivity; replace (b + 32 =? u) with false by lia; try reflexivity; lia.
Qed.

Lemma step_ci u w x : 65 <= u <= 90 -> u <> 83 ->
  beq_bytes (fold_lower x) (u + 32 :: w) =
  match eat_ci u x with Some r => beq_bytes (fold_lower r) w | None => false end.
Proof.
  intros Hu Hs. destruct x as [|b [|b2 r2]]; [reflexivity| |].
  - rewrite fold_lower_1, beq_cons. unfold eat_ci, lower.
    replace (if (65 <=? b) && (b <=? 90) then b + 32 else b) with
        (if (b =? u) || (b =? u + 32) then u + 32 else if (65 <=? b) && (b <=? 90) then b + 32 else b)
      by (destruct ((b =? u) || (b =? u + 32)) eqn:B; destruct ((65 <=? b) && (b <=? 90)) eqn:C; lia).
    destruct ((b =? u) || (b =? u + 32)) eqn:B.
    + rewrite N.eqb_refl. reflexivity.
    + replace ((if (65 <=? b) && (b <=? 90) then b + 32 else b) =? u + 32) with false
        by (destruct ((65 <=? b) && (b <=? 90)) eqn:C; lia).
      reflexivity.
  - rewrite fold_lower_2. unfold eat_ci.
    destruct ((b =? 197) && (b2 =? 191)) eqn:C.
    + rewrite beq_cons. replace (115 =? u + 32) with false by lia.
      replace ((b =? u) || (b =? u + 32)) with false by lia. reflexivity.
    + rewrite beq_cons. unfold lower.
      destruct ((b =? u) || (b =? u + 32)) eqn:B.
      * replace ((if (65 <=? b) && (b <=? 90) then b + 32 else b) =? u + 32) with true
          by (destruct ((65 <=? b) && (b <=? 90)) eqn:D; lia).
        reflexivity.
      * replace ((if (65 <=? b) && (b <=? 90) then b + 32 else b) =? u + 32) with false
          by (destruct ((65 <=? b) && (b <=? 90)) eqn:D; lia).
        reflexivity.
Qed.

Lemma step_s w x :
  beq_bytes (fold_lower x) (115 :: w) =
  match eat_s x with Some r => beq_bytes (fold_lower r) w | None => false end.
Proof.
  destruct x as [|b [|b2 r2]]; [reflexivity| |].
  - rewrite fold_lower_1, beq_cons. unfold eat_s, lower.
    destruct ((b =? 83) || (b =? 115)) eqn:B.
    + replace ((if (65 <=? b) && (b <=? 90) then b + 32 else b) =? 115) with true
        by (destruct ((65 <=? b) && (b <=? 90)) eqn:D; lia).
      reflexivity.
    + replace ((if (65 <=? b) && (b <=? 90) then b + 32 else b) =? 115) with false
        by (destruct ((65 <=? b) && (b <=? 90)) eqn:D; lia).
      destruct (b =? 197); reflexivity.
  - rewrite fold_lower_2. unfold eat_s.
    destruct ((b =? 197) && (b2 =? 191)) eqn:C.
    + rewrite beq_cons. replace ((b =? 83) || (b =? 115)) with false by lia.
      replace (b =? 197) with true by lia. replace (b2 =? 191) with true by lia. reflexivity.
    + rewrite beq_cons. unfold lower.
      destruct ((b =? 83) || (b =? 115)) eqn:B.
      * replace ((if (65 <=? b) && (b <=? 90) then b + 32 else b) =? 115) with true
          by (destruct ((65 <=? b) && (b <=? 90)) eqn:D; lia).
        reflexivity.
      * replace ((if (65 <=? b) && (b <=? 90) then b + 32 else b) =? 115) with false
          by (destruct ((65 <=? b) && (b <=? 90)) eqn:D; lia).
        cbn [andb]. destruct (b =? 197) eqn:E; [|reflexivity].
        replace (b2 =? 191) with false by lia. reflexivity.
Qed.

Lemma step_end x : beq_bytes (fold_lower x) [] = match x with [] => true | _ => false end.
Proof.
  destruct x as [|b [|b2 r2]]; [reflexivity|reflexivity|].
  rewrite fold_lower_2. destruct ((b =? 197) && (b2 =? 191)); reflexivity.
Qed.

Lemma equal_fold_share_spec x : equal_fold_share x = share_word x.
Proof.
  unfold share_word, equal_fold_share.
  change (bytes_of_string "$share") with [36; 83 + 32; 72 + 32; 65 + 32; 82 + 32; 69 + 32].
  change (83 + 32) with 115.
  rewrite (step_exact 36) by lia. destruct (eat_exact 36 x) as [r1|]; [|reflexivity]. cbn [obind].
  rewrite step_s. destruct (eat_s r1) as [r2|]; [|reflexivity]. cbn [obind].
  rewrite (step_ci 72) by lia. destruct (eat_ci 72 r2) as [r3|]; [|reflexivity]. cbn [obind].
  rewrite (step_ci 65) by lia. destruct (eat_ci 65 r3) as [r4|]; [|reflexivity]. cbn [obind].
  rewrite (step_ci 82) by lia. destruct (eat_ci 82 r4) as [r5|]; [|reflexivity]. cbn [obind].
  rewrite (step_ci 69) by lia. destruct (eat_ci 69 r5) as [r6|]; [|reflexivity].
  rewrite step_end. destruct r6; reflexivity.
Qed.

(* ---------- the theorems ---------- *)

Lemma isolate0 s : isolate_particle 0 s = (first_level s, match snd (cut s) with Some _ => true | None => false end).
Proof.
  unfold first_level. rewrite cut_split. cbn [isolate_particle].
  destruct (cut s) as [p [rest|]]; reflexivity.
Qed.

Theorem shared_model_is_spec : forall s, is_shared_filter s = is_share s.
Proof.
  intro s. unfold is_shared_filter, is_share. rewrite isolate0. cbn [fst]. apply equal_fold_share_spec.
Qed.

Theorem topic_model_is_spec : forall s, is_valid_filter s true = valid_pub_topic_spec s.
Proof.
  intro s. unfold is_valid_filter, valid_pub_topic_spec. cbn [negb andb].
  rewrite !contains_has.
  destruct (prefixb (bytes_of_string "$SYS") s); destruct (has 35 s); destruct (has 43 s); reflexivity.
Qed.

Theorem filter_model_is_spec : forall s, is_valid_filter s false = valid_filter_spec s.
Proof.
  intro s. unfold is_valid_filter, valid_filter_spec, valid_filter_spec_gen. cbn [negb andb].
  destruct s as [|c0 s0]; [reflexivity|]. set (s := c0 :: s0). cbn [nilb negb andb].
  rewrite levels_ok_model.
  destruct (hash_check None s); [|reflexivity]. destruct (plus_loop None s); [|reflexivity].
  cbn [negb andb]. rewrite isolate0. unfold is_share. rewrite equal_fold_share_spec.
  destruct (share_word (first_level s)) eqn:SW.
  2:{ rewrite !andb_false_r. reflexivity. }
  rewrite !andb_true_r. rewrite cut_split.
  assert (I1 : isolate_particle 1 s =
               match snd (cut s) with Some rest => isolate_particle 0 rest | None => (fst (cut s), false) end).
  { cbn [isolate_particle]. destruct (cut s) as [p [rest|]]; reflexivity. }
  destruct (cut s) as [p [rest|]] eqn:CS; cbn [snd fst negb] in *.
  2:{ reflexivity. }
  rewrite I1. cbn [isolate_particle]. rewrite (cut_split rest).
  destruct (cut rest) as [g [r2|]] eqn:CR; cbn [snd fst negb orb].
  2:{ reflexivity. }
  destruct (split_cons_ex r2) as [l3 [ls3 E3]]. rewrite E3, <- E3, join_split.
  rewrite !contains_has.
  assert (L : (N.of_nat (length s) =? N.of_nat (length p) + N.of_nat (length g) + 2) = nilb r2).
  { apply cut_some in CS. apply cut_some in CR. rewrite CS, CR. rewrite !app_length. cbn [length].
    rewrite app_length. cbn [length]. destruct r2; cbn [length nilb]; lia. }
  assert (FL : first_level s = p) by (unfold first_level; rewrite cut_split, CS; reflexivity).
  assert (Hn : nilb s = false) by reflexivity.
  rewrite FL, L, Hn. cbn [negb andb].
  destruct (nilb g); destruct (nilb r2); destruct (has 43 g); destruct (has 35 g); reflexivity.
Qed.

(* the literal reading of "$share" (lower case only) agrees outside the other case variants *)
Lemma share_lit_is_share s : is_share_lit s = true -> is_share s = true.
Proof.
  unfold is_share_lit, is_share. intro H. apply beq_bytes_eq in H. rewrite H. reflexivity.
Qed.

Theorem filter_model_is_literal_spec : forall s,
  share_case_variant s = false -> is_valid_filter s false = valid_filter_spec_lit s.
Proof.
  intros s H. rewrite filter_model_is_spec. unfold valid_filter_spec, valid_filter_spec_lit.
  unfold share_case_variant in H.
  destruct (is_share_lit s) eqn:L.
  - rewrite (share_lit_is_share s L). reflexivity.
  - rewrite andb_true_r in H. rewrite H. reflexivity.
Qed.

(* ---------- what levels_ok says, as a proposition ---------- *)

Lemma is_hash_eq l : is_hash l = true <-> l = [35].
Proof. unfold is_hash. split; [apply beq_bytes_eq | intros ->; reflexivity]. Qed.
Lemma is_plus_eq l : is_plus l = true <-> l = [43].
Proof. unfold is_plus. split; [apply beq_bytes_eq | intros ->; reflexivity]. Qed.
Lemma nilb_eq {A} (l : list A) : nilb l = true <-> l = [].
Proof. destruct l; split; intro H; try reflexivity; discriminate. Qed.

(* every level containing '#' is exactly "#" and is the last one; every level containing '+' is
   exactly "+" *)
Definition levels_ok_prop (ls : list level) : Prop :=
  forall pre l post, ls = (pre ++ l :: post)%list ->
    (In 35 l -> l = [35] /\ post = []) /\ (In 43 l -> l = [43]).

Theorem levels_ok_iff ls : levels_ok ls = true <-> levels_ok_prop ls.
Proof.
  unfold levels_ok_prop. induction ls as [|l0 r IH].
  - split; [|reflexivity]. intros _ pre l post E. destruct pre; discriminate.
  - cbn [levels_ok]. rewrite !andb_true_iff. split.
    + intros [[Hh Hp] Hr] pre l post E. destruct pre as [|x pre'].
      * cbn [app] in E. inversion E. subst l0 r. split.
        -- intro Hin. apply has_In in Hin. rewrite Hin in Hh. apply andb_true_iff in Hh.
           destruct Hh as [H1 H2]. split; [apply is_hash_eq; exact H1 | apply nilb_eq; exact H2].
        -- intro Hin. apply has_In in Hin. rewrite Hin in Hp. apply is_plus_eq. exact Hp.
      * cbn [app] in E. inversion E. subst x r. apply (proj1 IH Hr pre' l post eq_refl).
    + intro H. split; [split|].
      * destruct (has 35 l0) eqn:Hh; [|reflexivity]. apply has_In in Hh.
        destruct (H [] l0 r eq_refl) as [H1 _]. destruct (H1 Hh) as [-> ->]. reflexivity.
      * destruct (has 43 l0) eqn:Hp; [|reflexivity]. apply has_In in Hp.
        destruct (H [] l0 r eq_refl) as [_ H2]. rewrite (H2 Hp). reflexivity.
      * apply IH. intros pre l post E. apply (H (l0 :: pre) l post). rewrite E. reflexivity.
Qed.
