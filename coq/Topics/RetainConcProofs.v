(* C05, concurrency dimension: with RetainMessage's set + store as one atomic step, every schedule of retained
   publishes / clears, subscribes, unsubscribes and Messages queries is a serial execution of the map specification;
   the split variant is refuted by a schedule. *)
From MV Require Import Base.Val Topics.Levels Topics.Match Topics.Alist Topics.IndexSpec Topics.Trie
  Topics.TrieRefine Topics.TrieMsgs Topics.Lin Topics.LinProofs Topics.TopicsEngine Topics.InlineConcProofs Topics.RetainConc.
From Coq Require Import Lia Permutation.
Open Scope N_scope.

Lemma countb_perm {A} (eqb : A -> A -> bool) x (l1 l2 : list A) : Permutation l1 l2 -> countb eqb x l1 = countb eqb x l2.
Proof.
  induction 1 as [|y l1 l2 _ IH|y z l|l1 l2 l3 _ IH1 _ IH2]; cbn [countb]; try reflexivity; try lia.
Qed.

Lemma forallb_ext' {A} (f g : A -> bool) l : (forall x, f x = g x) -> forallb f l = forallb g l.
Proof. intro E. induction l as [|y l IH]; cbn; [reflexivity|]. rewrite E, IH. reflexivity. Qed.

Lemma mseqb_perm {A} (eqb : A -> A -> bool) obs (l1 l2 : list A) :
  Permutation l1 l2 -> mseqb eqb obs l1 = mseqb eqb obs l2.
Proof.
  intro P. unfold mseqb. rewrite (Permutation_length P). f_equal.
  apply forallb_ext'. intro x. rewrite (countb_perm eqb x _ _ P). reflexivity.
Qed.

Lemma r_step_R x a r : R x a -> wf_ropb r = true ->
  R (fst (r_model_step x r)) (fst (r_spec_step a r)) /\ snd (r_model_step x r) = snd (r_spec_step a r).
Proof.
  intros HR W. destruct r as [o|f obs]; cbn [r_model_step r_spec_step wf_ropb] in *.
  - apply step_R; assumption.
  - cbn [fst snd]. split; [exact HR|]. rewrite (mseqb_perm beq_bb obs _ _ (messages_perm x a f HR W)). reflexivity.
Qed.

Lemma r_seq_run_R : forall l x a, R x a -> Forall (fun c => wf_ropb c = true) l ->
  snd (seq_run r_model_step x l) = snd (seq_run r_spec_step a l) /\
  R (fst (seq_run r_model_step x l)) (fst (seq_run r_spec_step a l)).
Proof.
  induction l as [|c l IH]; intros x a HR W; cbn [seq_run]; [split; [reflexivity|exact HR]|].
  inversion W as [|? ? W1 W2]; subst. destruct (r_step_R x a c HR W1) as [H1 H2].
  destruct (r_model_step x c) as [x' r]. destruct (r_spec_step a c) as [a' r']. cbn [fst snd] in *.
  destruct (IH x' a' H1 W2) as [I1 I2].
  destruct (seq_run r_model_step x' l) as [x'' rs]. destruct (seq_run r_spec_step a' l) as [a'' rs']. cbn [fst snd] in *.
  split; [congruence|exact I2].
Qed.

(* every schedule: program order kept; every return value and every Messages result is explained by the map
   specification in the serial order of the history; the final tree is related to the final map *)
Theorem retain_atomic_all_schedules : forall x0 a0 prog sched xf restf h,
  R x0 a0 -> Forall (fun c => wf_ropb c = true) (concat prog) ->
  run_sched r_model_step sched x0 prog = (xf, restf, h) ->
  let serial := map (fun e : nat * rop * N => snd (fst e)) h in
  (forall t, proj t h ++ nth t restf [] = nth t prog []) /\
  map snd h = snd (seq_run r_spec_step a0 serial) /\
  R xf (fst (seq_run r_spec_step a0 serial)).
Proof.
  intros x0 a0 prog sched xf restf h HR W H serial.
  destruct (sched_serial r_model_step _ _ _ _ _ _ H) as (S1 & S2 & _). fold serial in S1.
  assert (Ws : Forall (fun c => wf_ropb c = true) serial).
  { rewrite Forall_forall in *. intros c HI. unfold serial in HI. apply in_map_iff in HI.
    destruct HI as ([[t c'] v] & <- & HI). cbn [fst snd]. apply W. eapply run_sched_ops'; eassumption. }
  destruct (r_seq_run_R serial x0 a0 HR Ws) as [E1 E2]. rewrite S1 in E1, E2. cbn [fst snd] in E1, E2.
  split; [exact S2|]. split; assumption.
Qed.

(* ---------- the split variant is not linearizable ---------- *)
(* goroutine 0: retained publish of m on a/b split in set and store; goroutine 1: the client unsubscribes a/b.
   Schedule set, unsubscribe, store: the unsubscribe prunes the still unmarked particle; the exact filter a/b
   still returns the message (Retained map), the wildcard filter a/# never does.  No serial order of the
   specification separates the two filters; the atomic model returns it for both under either schedule. *)
Lemma retain_split_refuted :
  let prog := [[RWalk ab; RStore ab (tag "m")]; [RS (RO (OUnsub (tag "c1") ab))]] in
  (let '(xf, _, _) := run_sched rs_step [0; 1; 0]%nat x_pre prog in
   (messages xf ab, messages xf (tag "a/#"))) = ([(ab, tag "m")], []) /\
  (let '(xf, _, _) := run_sched rs_step [0; 0; 1]%nat x_pre prog in
   (messages xf ab, messages xf (tag "a/#"))) = ([(ab, tag "m")], [(ab, tag "m")]) /\
  (let '(xf, _, _) := run_sched r_model_step [0; 1]%nat x_pre [[RO (ORetain ab (tag "m"))]; [RO (OUnsub (tag "c1") ab)]] in
   (messages xf ab, messages xf (tag "a/#"))) = ([(ab, tag "m")], [(ab, tag "m")]) /\
  (let '(xf, _, _) := run_sched r_model_step [1; 0]%nat x_pre [[RO (ORetain ab (tag "m"))]; [RO (OUnsub (tag "c1") ab)]] in
   (messages xf ab, messages xf (tag "a/#"))) = ([(ab, tag "m")], [(ab, tag "m")]).
Proof. vm_compute. repeat split. Qed.

Lemma retain_split_observation_rejected :
  conc_explainedg r_spec_step a_empty [(RO (OSub (tag "c1") ab 1), 1)]
    [[(RO (ORetain ab (tag "m")), 1)]; [(RO (OUnsub (tag "c1") ab), 1)]]
    [(RMsgs ab [(ab, tag "m")], 1); (RMsgs (tag "a/#") [], 1)] = false /\
  conc_explainedg r_spec_step a_empty [(RO (OSub (tag "c1") ab 1), 1)]
    [[(RO (ORetain ab (tag "m")), 1)]; [(RO (OUnsub (tag "c1") ab), 1)]]
    [(RMsgs ab [(ab, tag "m")], 1); (RMsgs (tag "a/#") [(ab, tag "m")], 1)] = true.
Proof. vm_compute. split; reflexivity. Qed.
