(* The particle tree as a map from paths to contents: well-formedness and the effect of
   create (set) / modify / trim on [content_at]. *)
From MV Require Import Base.Val Topics.Levels Topics.LevelsProofs Topics.Match Topics.Alist Topics.AlistProofs
  Topics.IndexSpec Topics.Trie.
From Coq Require Import Lia.
Open Scope N_scope.

Definition bb_eq := beq_bytes_eq.

Lemma Neqb_eq (a b : N) : (a =? b) = true <-> a = b.
Proof. apply N.eqb_eq. Qed.

(* ---------- well-formedness ---------- *)
Definition wf_shared (m : list (bytes * list (bytes * sub))) : Prop :=
  NoDup (keys m) /\ Forall (fun g => snd g <> [] /\ NoDup (keys (snd g))) m.

Definition wf_content (c : content) : Prop :=
  NoDup (keys (c_subs c)) /\ NoDup (keys (c_inline c)) /\ wf_shared (c_shared c).

Inductive wf_node : node -> Prop :=
| wf_Node c ch : wf_content c -> NoDup (keys ch) -> (forall k m, In (k, m) ch -> wf_node m) -> wf_node (Node c ch).

Lemma wf_empty_content : wf_content empty_content.
Proof. repeat split; cbn; constructor. Qed.

Lemma wf_new_particle : wf_node new_particle.
Proof. constructor; [apply wf_empty_content|constructor|intros k m []]. Qed.

Lemma wf_node_inv n : wf_node n ->
  wf_content (cont n) /\ NoDup (keys (children n)) /\ (forall k m, In (k, m) (children n) -> wf_node m).
Proof. intro H. destruct H. cbn. auto. Qed.

Lemma wf_child n k m : wf_node n -> get_child k (children n) = Some m -> wf_node m.
Proof.
  intros W G. apply wf_node_inv in W. destruct W as (_ & _ & W). apply (W k).
  apply (al_get_In beq_bytes bb_eq). exact G.
Qed.

(* ---------- content_at ---------- *)
Lemma content_at_nil n : content_at n [] = cont n.
Proof. reflexivity. Qed.

Lemma content_at_cons n k q :
  content_at n (k :: q) = match get_child k (children n) with Some c => content_at c q | None => empty_content end.
Proof. unfold content_at. cbn [seek]. destruct (get_child k (children n)); reflexivity. Qed.

Lemma content_at_new q : content_at new_particle q = empty_content.
Proof. destruct q; reflexivity. Qed.

Lemma content_at_create p : forall n q, content_at (create p n) q = content_at n q.
Proof.
  induction p as [|k p IH]; intros n q; [reflexivity|].
  cbn [create]. destruct q as [|k2 q].
  - destruct (get_child k (children n)); reflexivity.
  - rewrite (content_at_cons n). destruct (get_child k (children n)) as [c|] eqn:G;
      rewrite content_at_cons; cbn [children]; unfold get_child in *;
      (destruct (eqb_dec beq_bytes bb_eq k2 k) as [->|NE];
       [rewrite al_get_set_same by exact bb_eq; rewrite IH, ?G, ?content_at_new; reflexivity
       |rewrite al_get_set_other by (exact bb_eq || exact NE); reflexivity]).
Qed.

Lemma seek_create p : forall n, seek p (create p n) <> None.
Proof.
  induction p as [|k p IH]; intro n; cbn [create seek]; [discriminate|].
  destruct (get_child k (children n)) as [c|]; cbn [children]; unfold get_child;
    rewrite al_get_set_same by exact bb_eq; apply IH.
Qed.

Lemma beq_levels_refl p : beq_levels p p = true.
Proof. apply beq_levels_eq. reflexivity. Qed.

Lemma content_at_modify p f : forall n q, seek p n <> None ->
  content_at (modify p f n) q = if beq_levels q p then f (content_at n p) else content_at n q.
Proof.
  induction p as [|k p IH]; intros n q S.
  - cbn [modify]. destruct q; reflexivity.
  - cbn [modify]. cbn [seek] in S. destruct (get_child k (children n)) as [c|] eqn:G; [|contradiction].
    destruct q as [|k2 q]; [reflexivity|].
    rewrite !content_at_cons. cbn [children beq_levels]. unfold get_child in *.
    destruct (eqb_dec beq_bytes bb_eq k2 k) as [->|NE].
    + rewrite al_get_set_same by exact bb_eq. rewrite beq_bytes_refl, G. cbn [andb]. apply IH. exact S.
    + rewrite al_get_set_other by (exact bb_eq || exact NE).
      apply beq_bytes_neq in NE. rewrite NE. reflexivity.
Qed.

(* set followed by an update of the final particle: a point update of the map *)
Lemma content_at_update p f n q :
  content_at (modify p f (create p n)) q = if beq_levels q p then f (content_at n p) else content_at n q.
Proof. rewrite content_at_modify by apply seek_create. rewrite !content_at_create. reflexivity. Qed.

(* ---------- wf is preserved ---------- *)
Lemma wf_set_child c ch k m : wf_node (Node c ch) -> wf_node m -> wf_node (Node c (al_set beq_bytes k m ch)).
Proof.
  intros W Wm. apply wf_node_inv in W. cbn in W. destruct W as (Wc & ND & Wch). constructor; [exact Wc| |].
  - apply NoDup_al_set; [exact bb_eq|exact ND].
  - intros k2 m2 HI. apply In_al_set_inv in HI. destruct HI as [HI|HI]; [inversion HI; subst; exact Wm|].
    eapply Wch. exact HI.
Qed.

Lemma wf_del_child c ch k : wf_node (Node c ch) -> wf_node (Node c (al_del beq_bytes k ch)).
Proof.
  intro W. apply wf_node_inv in W. cbn in W. destruct W as (Wc & ND & Wch). constructor; [exact Wc| |].
  - apply NoDup_al_del. exact ND.
  - intros k2 m2 HI. apply In_al_del_inv in HI. eapply Wch. exact HI.
Qed.

Lemma node_eta n : n = Node (cont n) (children n).
Proof. destruct n. reflexivity. Qed.

Lemma create_wf p : forall n, wf_node n -> wf_node (create p n).
Proof.
  induction p as [|k p IH]; intros n W; [exact W|]. cbn [create].
  destruct (get_child k (children n)) as [c|] eqn:G.
  - apply wf_set_child; [rewrite <- node_eta; exact W|]. apply IH. eapply wf_child; eassumption.
  - apply wf_set_child; [rewrite <- node_eta; exact W|]. apply IH. apply wf_new_particle.
Qed.

Lemma modify_wf p f : (forall c, wf_content c -> wf_content (f c)) -> forall n, wf_node n -> wf_node (modify p f n).
Proof.
  intro Hf. induction p as [|k p IH]; intros n W.
  - cbn [modify]. apply wf_node_inv in W. destruct W as (Wc & ND & Wch). constructor; auto.
  - cbn [modify]. destruct (get_child k (children n)) as [c|] eqn:G; [|exact W].
    apply wf_set_child; [rewrite <- node_eta; exact W|]. apply IH. eapply wf_child; eassumption.
Qed.

Lemma trim_wf p : forall n, wf_node n -> wf_node (trim p n).
Proof.
  induction p as [|k p IH]; intros n W; [exact W|]. cbn [trim].
  destruct (get_child k (children n)) as [c|] eqn:G; [|exact W].
  destruct (is_empty (trim p c)).
  - apply wf_del_child. rewrite <- node_eta. exact W.
  - apply wf_set_child; [rewrite <- node_eta; exact W|]. apply IH. eapply wf_child; eassumption.
Qed.

(* ---------- trim only removes particles that hold nothing ---------- *)
Lemma sh_len_0 m : wf_shared m -> sh_len m = O -> m = [].
Proof.
  intros [_ F] L. destruct m as [|[g i] m]; [reflexivity|]. exfalso.
  inversion F as [|? ? [NE _] _]; subst. cbn in NE, L. destruct i; [contradiction|cbn in L; lia].
Qed.

Lemma is_empty_content n : wf_content (cont n) -> is_empty n = true -> forall q, content_at n q = empty_content.
Proof.
  intros (_ & _ & Ws) E q. unfold is_empty in E. apply andb_true_iff in E. destruct E as [E1 E2].
  apply Nat.eqb_eq in E2.
  destruct n as [[su sh il rp] ch]. cbn in *.
  assert (ch = []) by (destruct ch; [reflexivity|cbn in E2; lia]).
  assert (su = []) by (destruct su; [reflexivity|cbn in E2; lia]).
  assert (il = []) by (destruct il; [reflexivity|cbn in E2; lia]).
  assert (sh = []) by (apply sh_len_0; [exact Ws|lia]).
  assert (rp = []) by (destruct rp; [reflexivity|discriminate]).
  subst. destruct q; reflexivity.
Qed.

Lemma content_at_trim p : forall n q, wf_node n -> content_at (trim p n) q = content_at n q.
Proof.
  induction p as [|k p IH]; intros n q W; [reflexivity|]. cbn [trim].
  destruct (get_child k (children n)) as [c|] eqn:G; [|reflexivity].
  assert (Wc : wf_node c) by (eapply wf_child; eassumption).
  destruct (is_empty (trim p c)) eqn:E.
  - destruct q as [|k2 q]; [reflexivity|]. rewrite !content_at_cons. cbn [children]. unfold get_child in *.
    destruct (eqb_dec beq_bytes bb_eq k2 k) as [->|NE].
    + rewrite al_get_del_same by exact bb_eq. rewrite G. rewrite <- (IH c q Wc).
      symmetry. apply is_empty_content; [|exact E].
      apply wf_node_inv. apply trim_wf. exact Wc.
    + rewrite al_get_del_other by (exact bb_eq || exact NE). reflexivity.
  - destruct q as [|k2 q]; [reflexivity|]. rewrite !content_at_cons. cbn [children]. unfold get_child in *.
    destruct (eqb_dec beq_bytes bb_eq k2 k) as [->|NE].
    + rewrite al_get_set_same by exact bb_eq. rewrite G. apply IH. exact Wc.
    + rewrite al_get_set_other by (exact bb_eq || exact NE). reflexivity.
Qed.

(* the root particle itself is never touched by set / trim, and modify at a non-empty path *)
Lemma cont_create p n : cont (create p n) = cont n.
Proof. destruct p; [reflexivity|]. cbn [create]. destruct (get_child l (children n)); reflexivity. Qed.
Lemma cont_trim p n : cont (trim p n) = cont n.
Proof.
  destruct p; [reflexivity|]. cbn [trim]. destruct (get_child l (children n)); [|reflexivity].
  destruct (is_empty (trim p n0)); reflexivity.
Qed.

(* seek in terms of content_at: a particle that exists has wf content *)
Lemma wf_seek p : forall n m, wf_node n -> seek p n = Some m -> wf_node m.
Proof.
  induction p as [|k p IH]; intros n m W S; cbn [seek] in S.
  - inversion S; subst. exact W.
  - destruct (get_child k (children n)) as [c|] eqn:G; [|discriminate]. eapply IH; [|exact S]. eapply wf_child; eassumption.
Qed.

Lemma wf_content_at n p : wf_node n -> wf_content (content_at n p).
Proof.
  intro W. unfold content_at. destruct (seek p n) as [m|] eqn:S; [|apply wf_empty_content].
  apply wf_node_inv. eapply wf_seek; eassumption.
Qed.

(* ---------- SharedSubscriptions as a map (group, client) -> subscription ---------- *)
Lemma sh_get_add g c g0 c0 v m :
  sh_get g c (sh_add g0 c0 v m) = if beq_bytes g g0 && beq_bytes c c0 then Some v else sh_get g c m.
Proof.
  unfold sh_get, sh_add. destruct (eqb_dec beq_bytes bb_eq g g0) as [->|NE].
  - rewrite al_get_set_same by exact bb_eq. rewrite beq_bytes_refl. cbn [andb].
    destruct (eqb_dec beq_bytes bb_eq c c0) as [->|NC].
    + rewrite al_get_set_same by exact bb_eq. rewrite beq_bytes_refl. reflexivity.
    + rewrite al_get_set_other by (exact bb_eq || exact NC). apply beq_bytes_neq in NC. rewrite NC.
      destruct (al_get beq_bytes g0 m); reflexivity.
  - rewrite al_get_set_other by (exact bb_eq || exact NE). apply beq_bytes_neq in NE. rewrite NE. reflexivity.
Qed.

Lemma nilb_nil {A} (l : list A) : nilb l = true <-> l = [].
Proof. destruct l; cbn; split; congruence. Qed.

Lemma sh_get_del g c g0 c0 m :
  sh_get g c (sh_del g0 c0 m) = if beq_bytes g g0 && beq_bytes c c0 then None else sh_get g c m.
Proof.
  unfold sh_get, sh_del. destruct (al_get beq_bytes g0 m) as [i|] eqn:G0.
  - destruct (nilb (al_del beq_bytes c0 i)) eqn:E.
    + apply nilb_nil in E. destruct (eqb_dec beq_bytes bb_eq g g0) as [->|NE].
      * rewrite al_get_del_same by exact bb_eq. rewrite beq_bytes_refl, G0. cbn [andb].
        destruct (eqb_dec beq_bytes bb_eq c c0) as [->|NC].
        -- rewrite beq_bytes_refl. reflexivity.
        -- apply beq_bytes_neq in NC as NC'. rewrite NC'.
           rewrite <- (al_get_del_other beq_bytes bb_eq c0 c i NC), E. reflexivity.
      * rewrite al_get_del_other by (exact bb_eq || exact NE). apply beq_bytes_neq in NE. rewrite NE. reflexivity.
    + destruct (eqb_dec beq_bytes bb_eq g g0) as [->|NE].
      * rewrite al_get_set_same by exact bb_eq. rewrite beq_bytes_refl, G0. cbn [andb].
        destruct (eqb_dec beq_bytes bb_eq c c0) as [->|NC].
        -- rewrite beq_bytes_refl. apply al_get_del_same.
        -- apply beq_bytes_neq in NC as NC'. rewrite NC'. apply al_get_del_other; [exact bb_eq|exact NC].
      * rewrite al_get_set_other by (exact bb_eq || exact NE). apply beq_bytes_neq in NE. rewrite NE. reflexivity.
  - destruct (eqb_dec beq_bytes bb_eq g g0) as [->|NE].
    + rewrite G0. destruct (beq_bytes g0 g0 && beq_bytes c c0); reflexivity.
    + apply beq_bytes_neq in NE. rewrite NE. reflexivity.
Qed.

Lemma Forall_al_set {V} (P : bytes * V -> Prop) k v (l : list (bytes * V)) :
  Forall P l -> P (k, v) -> Forall P (al_set beq_bytes k v l).
Proof.
  intros F Pk. apply Forall_forall. intros e HI. apply In_al_set_inv in HI. destruct HI as [->|HI]; [exact Pk|].
  rewrite Forall_forall in F. apply F. exact HI.
Qed.

Lemma Forall_al_del {V} (P : bytes * V -> Prop) k (l : list (bytes * V)) :
  Forall P l -> Forall P (al_del beq_bytes k l).
Proof.
  intros F. apply Forall_forall. intros e HI. apply In_al_del_inv in HI. rewrite Forall_forall in F. apply F. exact HI.
Qed.

Lemma wf_shared_inner g i m : wf_shared m -> al_get beq_bytes g m = Some i -> i <> [] /\ NoDup (keys i).
Proof.
  intros [_ F] G. apply (al_get_In beq_bytes bb_eq) in G. rewrite Forall_forall in F. apply (F (g, i)). exact G.
Qed.

Lemma wf_sh_add g c v m : wf_shared m -> wf_shared (sh_add g c v m).
Proof.
  intros W. pose proof W as [ND F]. unfold sh_add. split.
  - apply NoDup_al_set; [exact bb_eq|exact ND].
  - apply Forall_al_set; [exact F|]. cbn [snd]. split; [apply al_set_nonempty|].
    apply NoDup_al_set; [exact bb_eq|]. destruct (al_get beq_bytes g m) as [i|] eqn:G; [|constructor].
    eapply wf_shared_inner; eassumption.
Qed.

Lemma wf_sh_del g c m : wf_shared m -> wf_shared (sh_del g c m).
Proof.
  intros W. pose proof W as [ND F]. unfold sh_del. destruct (al_get beq_bytes g m) as [i|] eqn:G; [|exact W].
  destruct (nilb (al_del beq_bytes c i)) eqn:E.
  - split; [apply NoDup_al_del; exact ND|apply Forall_al_del; exact F].
  - split; [apply NoDup_al_set; [exact bb_eq|exact ND]|]. apply Forall_al_set; [exact F|]. cbn [snd]. split.
    + intro H. rewrite H in E. discriminate.
    + apply NoDup_al_del. eapply wf_shared_inner; eassumption.
Qed.

Lemma sh_get_In g c s m : wf_shared m ->
  (sh_get g c m = Some s <-> exists i, In (g, i) m /\ In (c, s) i).
Proof.
  intros W. unfold sh_get. split.
  - destruct (al_get beq_bytes g m) as [i|] eqn:G; [|discriminate]. intro H. exists i. split.
    + apply (al_get_In beq_bytes bb_eq). exact G.
    + apply (al_get_In beq_bytes bb_eq). exact H.
  - intros (i & H1 & H2). destruct W as [ND F].
    rewrite (In_al_get beq_bytes bb_eq g i m ND H1).
    apply In_al_get; [exact bb_eq| |exact H2]. rewrite Forall_forall in F. apply (F (g, i) H1).
Qed.

(* the four kinds of field update preserve wf_content *)
Lemma wf_set_subs_set c k v : wf_content c -> wf_content (set_subs (al_set beq_bytes k v (c_subs c)) c).
Proof. intros (A & B & C). repeat split; cbn; try assumption; try apply C. apply NoDup_al_set; [exact bb_eq|exact A]. Qed.
Lemma wf_set_subs_del c k : wf_content c -> wf_content (set_subs (al_del beq_bytes k (c_subs c)) c).
Proof. intros (A & B & C). repeat split; cbn; try assumption; try apply C. apply NoDup_al_del. exact A. Qed.
Lemma wf_set_inline_set c k v : wf_content c -> wf_content (set_inline (al_set N.eqb k v (c_inline c)) c).
Proof. intros (A & B & C). repeat split; cbn; try assumption; try apply C. apply NoDup_al_set; [exact Neqb_eq|exact B]. Qed.
Lemma wf_set_inline_del c k : wf_content c -> wf_content (set_inline (al_del N.eqb k (c_inline c)) c).
Proof. intros (A & B & C). repeat split; cbn; try assumption; try apply C. apply NoDup_al_del. exact B. Qed.
Lemma wf_set_shared_add c g k v : wf_content c -> wf_content (set_shared (sh_add g k v (c_shared c)) c).
Proof. intros (A & B & C). split; [exact A|split; [exact B|]]. cbn. apply wf_sh_add. exact C. Qed.
Lemma wf_set_shared_del c g k : wf_content c -> wf_content (set_shared (sh_del g k (c_shared c)) c).
Proof. intros (A & B & C). split; [exact A|split; [exact B|]]. cbn. apply wf_sh_del. exact C. Qed.
Lemma wf_set_retain c v : wf_content c -> wf_content (set_retain v c).
Proof. intros (A & B & C). split; [exact A|split; [exact B|exact C]]. Qed.
