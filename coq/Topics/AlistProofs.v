(* Association lists behave like finite maps. *)
From MV Require Import Base.Val Topics.Alist.
From Coq Require Import Lia.

Section ALP.
  Context {K V : Type} (eqb : K -> K -> bool).
  Hypothesis eqb_eq : forall a b, eqb a b = true <-> a = b.

  Lemma eqb_refl' (a : K) : eqb a a = true.
  Proof. apply eqb_eq. reflexivity. Qed.
  Lemma eqb_neq (a b : K) : a <> b -> eqb a b = false.
  Proof. intro H. destruct (eqb a b) eqn:E; [|reflexivity]. apply eqb_eq in E. contradiction. Qed.
  Lemma eqb_dec (a b : K) : {a = b} + {a <> b}.
  Proof.
    destruct (eqb a b) eqn:E; [left; apply eqb_eq; exact E|right]. intro H. apply eqb_eq in H. congruence.
  Qed.

  Definition keys (l : list (K * V)) : list K := map fst l.

  Lemma al_get_set_same k v (l : list (K * V)) : al_get eqb k (al_set eqb k v l) = Some v.
  Proof.
    induction l as [|[k' v'] l IH]; cbn.
    - rewrite eqb_refl'. reflexivity.
    - destruct (eqb k' k) eqn:E; cbn; [rewrite eqb_refl'; reflexivity|]. rewrite E. exact IH.
  Qed.

  Lemma al_get_set_other k k2 v (l : list (K * V)) : k2 <> k -> al_get eqb k2 (al_set eqb k v l) = al_get eqb k2 l.
  Proof.
    intro NE. induction l as [|[k' v'] l IH]; cbn.
    - rewrite (eqb_neq k k2) by congruence. reflexivity.
    - destruct (eqb k' k) eqn:E; cbn.
      + apply eqb_eq in E. subst k'. rewrite (eqb_neq k k2) by congruence. reflexivity.
      + destruct (eqb k' k2); [reflexivity|exact IH].
  Qed.

  Lemma al_get_del_same k (l : list (K * V)) : al_get eqb k (al_del eqb k l) = None.
  Proof.
    induction l as [|[k' v'] l IH]; cbn; [reflexivity|].
    destruct (eqb k' k) eqn:E; cbn; [exact IH|]. rewrite E. exact IH.
  Qed.

  Lemma al_get_del_other k k2 (l : list (K * V)) : k2 <> k -> al_get eqb k2 (al_del eqb k l) = al_get eqb k2 l.
  Proof.
    intro NE. induction l as [|[k' v'] l IH]; cbn; [reflexivity|].
    destruct (eqb k' k) eqn:E; cbn.
    - apply eqb_eq in E. subst k'. rewrite (eqb_neq k k2) by congruence. exact IH.
    - destruct (eqb k' k2); [reflexivity|exact IH].
  Qed.

  Lemma al_get_In k v (l : list (K * V)) : al_get eqb k l = Some v -> In (k, v) l.
  Proof.
    induction l as [|[k' v'] l IH]; cbn; [discriminate|].
    destruct (eqb k' k) eqn:E.
    - intro H. inversion H; subst. apply eqb_eq in E. subst. left. reflexivity.
    - intro H. right. apply IH. exact H.
  Qed.

  Lemma al_get_None_notin k (l : list (K * V)) : al_get eqb k l = None <-> ~ In k (keys l).
  Proof.
    induction l as [|[k' v'] l IH]; cbn; [tauto|].
    destruct (eqb k' k) eqn:E.
    - apply eqb_eq in E. subst. split; [discriminate|]. intro H. exfalso. apply H. left. reflexivity.
    - rewrite IH. split; intro H; [|tauto]. intros [H1|H1]; [|tauto]. subst. rewrite eqb_refl' in E. discriminate.
  Qed.

  Lemma In_al_get k v (l : list (K * V)) : NoDup (keys l) -> In (k, v) l -> al_get eqb k l = Some v.
  Proof.
    induction l as [|[k' v'] l IH]; cbn; intros ND HI; [contradiction|].
    inversion ND as [|? ? NI ND']; subst. destruct HI as [HI|HI].
    - inversion HI; subst. rewrite eqb_refl'. reflexivity.
    - destruct (eqb k' k) eqn:E.
      + apply eqb_eq in E. subst. exfalso. apply NI. apply (in_map fst) in HI. exact HI.
      + apply IH; assumption.
  Qed.

  Lemma keys_al_set_in k v (l : list (K * V)) x : In x (keys (al_set eqb k v l)) <-> x = k \/ In x (keys l).
  Proof.
    induction l as [|[k' v'] l IH]; cbn.
    - intuition.
    - destruct (eqb k' k) eqn:E; cbn.
      + apply eqb_eq in E. subst. intuition.
      + rewrite IH. intuition.
  Qed.

  Lemma NoDup_al_set k v (l : list (K * V)) : NoDup (keys l) -> NoDup (keys (al_set eqb k v l)).
  Proof.
    induction l as [|[k' v'] l IH]; cbn; intro ND.
    - constructor; [intros []|constructor].
    - inversion ND as [|? ? NI ND']; subst. destruct (eqb k' k) eqn:E; cbn.
      + apply eqb_eq in E. subst. constructor; assumption.
      + constructor; [|apply IH; exact ND']. intro HI. apply keys_al_set_in in HI. destruct HI as [HI|HI]; [|tauto].
        subst. rewrite eqb_refl' in E. discriminate.
  Qed.

  Lemma keys_al_del_in k (l : list (K * V)) x : In x (keys (al_del eqb k l)) -> In x (keys l).
  Proof.
    induction l as [|[k' v'] l IH]; cbn; [tauto|].
    destruct (eqb k' k); cbn; intuition.
  Qed.

  Lemma NoDup_al_del k (l : list (K * V)) : NoDup (keys l) -> NoDup (keys (al_del eqb k l)).
  Proof.
    induction l as [|[k' v'] l IH]; cbn; intro ND; [constructor|].
    inversion ND as [|? ? NI ND']; subst. destruct (eqb k' k); cbn; [apply IH; exact ND'|].
    constructor; [|apply IH; exact ND']. intro HI. apply NI. eapply keys_al_del_in. exact HI.
  Qed.

  Lemma al_del_absent k (l : list (K * V)) : al_get eqb k l = None -> al_del eqb k l = l.
  Proof.
    induction l as [|[k' v'] l IH]; cbn; [reflexivity|].
    destruct (eqb k' k); [discriminate|]. intro H. rewrite IH by exact H. reflexivity.
  Qed.

  Lemma In_al_set_inv k v (l : list (K * V)) e : In e (al_set eqb k v l) -> e = (k, v) \/ In e l.
  Proof.
    induction l as [|[k' v'] l IH]; cbn.
    - intuition.
    - destruct (eqb k' k); cbn; intuition.
  Qed.

  Lemma In_al_del_inv k (l : list (K * V)) e : In e (al_del eqb k l) -> In e l.
  Proof.
    induction l as [|[k' v'] l IH]; cbn; [tauto|].
    destruct (eqb k' k); cbn; intuition.
  Qed.

  Lemma In_al_set_old k v (l : list (K * V)) k2 v2 : k2 <> k -> In (k2, v2) l -> In (k2, v2) (al_set eqb k v l).
  Proof.
    intro NE. induction l as [|[k' v'] l IH]; cbn; [tauto|].
    destruct (eqb k' k) eqn:E; cbn.
    - apply eqb_eq in E. subst. intros [H|H]; [inversion H; subst; contradiction|right; exact H].
    - intuition.
  Qed.

  Lemma al_set_nonempty k v (l : list (K * V)) : al_set eqb k v l <> [].
  Proof. destruct l as [|[k' v'] l]; cbn; [discriminate|]. destruct (eqb k' k); discriminate. Qed.

  Lemma al_mem_get k (l : list (K * V)) : al_mem eqb k l = match al_get eqb k l with Some _ => true | None => false end.
  Proof. reflexivity. Qed.
End ALP.
