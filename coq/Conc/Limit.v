(* C35 — the connected-client limit.  Interleaving model of the limit check and the counter
   update in server.go attachClient, specification, engine.  No proofs in this file.

   The code (after fix C35-1; the pre-fix version is kept in Findings/FixedC35.v):

     attachClient(cl):                                     model step   delimited by verifPoint
       ClientsWg.Add(1); read CONNECT; ParseConnect
       if Load(ClientsConnected) >= MaximumClients {       Check        attach.start .. attach.beforeIncr
           SendConnack(v<5 ? ErrServerUnavailable : ErrServerBusy); return }
       validateConnect; OnConnect; OnConnectAuthenticate
       if !reserveClientSlot() { same refusal; return }    Reserve      attach.beforeIncr .. parked in Read
       defer Add(ClientsConnected, -1)
       inheritClientSession (disconnects an existing client with the same id); Clients.Add
       SendConnack(success); ... cl.Read(...)              (serving)
       teardown; deferred Add(-1)                           Decr         client closes / attach.readReturned .. return

     reserveClientSlot: for { n := Load; if n >= max {return false}; if CAS(n, n+1) {return true} }
   is one atomic step: it takes effect at the successful CAS or at the Load that sees the limit.

   Threads are the connection handlers of n concurrent attempts.  Each has a protocol version and
   a client identifier; establishing a connection kicks an established connection with the same
   identifier (takeover): that connection is closed at once but stays counted until its own
   handler runs its teardown (Decr). *)
From MV Require Import Base.Val Base.Sched.
Open Scope Z_scope.

Inductive status : Type :=
| Idle                    (* no CONNACK yet *)
| Established             (* success CONNACK sent, connection open *)
| Kicked                  (* was established; closed by a takeover; handler not yet torn down *)
| Refused (code : N)      (* failure CONNACK with this reason code, connection closed *)
| Gone.                   (* was established; handler returned *)

Record tspec : Type := mkSpec { ts_ver : N; ts_id : N }.

Record lstate : Type := mkL {
  l_max : Z;                    (* Capabilities.MaximumClients *)
  l_counter : Z;                (* Info.ClientsConnected *)
  l_specs : list tspec;
  l_stats : list status }.

Inductive instr : Type := Check | Incr | Reserve | Decr.

(* CONNACK reason for a refusal at the limit: ErrServerBusy 0x89 for MQTT 5; ErrServerUnavailable,
   translated by SendConnack through V5CodesToV3 to 0x03, for MQTT 3.x *)
Definition refusal_code (ver : N) : N := if (ver <? 5)%N then 3%N else 137%N.

Definition is_est (s : status) : bool := match s with Established => true | _ => false end.

(* inheritClientSession: DisconnectClient(existing, ErrSessionTakenOver) *)
Fixpoint kick (id : N) (specs : list tspec) (stats : list status) : list status :=
  match specs, stats with
  | sp :: specs', st :: stats' =>
      (if (ts_id sp =? id)%N && is_est st then Kicked else st) :: kick id specs' stats'
  | _, _ => stats
  end.

Definition set_stat (t : tid) (x : status) (s : lstate) : lstate :=
  mkL (l_max s) (l_counter s) (l_specs s) (set_nth t x (l_stats s)).

Definition refuse (t : tid) (sp : tspec) (s : lstate) : lstate :=
  set_stat t (Refused (refusal_code (ts_ver sp))) s.

Definition establish (t : tid) (sp : tspec) (s : lstate) : lstate :=
  mkL (l_max s) (l_counter s + 1) (l_specs s)
      (set_nth t Established (kick (ts_id sp) (l_specs s) (l_stats s))).

Definition leave (t : tid) (s : lstate) : lstate :=
  mkL (l_max s) (l_counter s - 1) (l_specs s) (set_nth t Gone (l_stats s)).

Definition at_limit (s : lstate) : bool := l_max s <=? l_counter s.

Definition exec (t : tid) (i : instr) (s : lstate) : outcome lstate :=
  match nth_error (l_specs s) t with
  | None => Blocked
  | Some sp =>
      match i with
      | Check => if at_limit s then Halt (refuse t sp s) else Continue s
      | Incr => Continue (establish t sp s)                           (* pre-fix code only *)
      | Reserve => if at_limit s then Halt (refuse t sp s) else Continue (establish t sp s)
      | Decr => Continue (leave t s)
      end
  end.

Definition prog_fixed : list instr := [Check; Reserve; Decr].
Definition prog_prefix : list instr := [Check; Incr; Decr].

Definition init (prog : list instr) (max : Z) (specs : list tspec) : cfg lstate instr :=
  mkCfg (mkL max 0 specs (repeat Idle (length specs))) (repeat prog (length specs)).

(* the current code *)
Definition limit_threads (max : Z) (specs : list tspec) : cfg lstate instr := init prog_fixed max specs.

Definition count_est (l : list status) : Z := Z.of_nat (length (filter is_est l)).

(* number of simultaneously established connections *)
Definition connected (c : cfg lstate instr) : Z := count_est (l_stats (shared c)).

Definition stat (t : tid) (c : cfg lstate instr) : option status := nth_error (l_stats (shared c)) t.

(* ---------- specification, evaluated on what the real broker did ----------
   observation of one forced schedule: after every schedule entry the number of harness
   connections that hold a success CONNACK and have not been closed by the broker; at the end the
   CONNACK reason code each attempt received (255 = none). *)
Definition obs_bound_ok (max : Z) (ests : list Z) : bool := forallb (fun e => e <=? max) ests.

Definition obs_code_ok (sp : tspec) (code : N) : bool :=
  (code =? 255)%N || (code =? 0)%N || (code =? refusal_code (ts_ver sp))%N.

Fixpoint zip_forallb {A B} (f : A -> B -> bool) (a : list A) (b : list B) : bool :=
  match a, b with
  | x :: a', y :: b' => f x y && zip_forallb f a' b'
  | [], [] => true
  | _, _ => false
  end.

(* ---------- engine ----------
   case = (max (spec...) (entry...) (final...))
     spec  = (ver id)
     entry = (tid took counter est)   took: the thread was able to take its next step
                                      counter: Info.ClientsConnected after the entry
                                      est: established connections seen by the clients after the entry
     final = code                     CONNACK reason received by attempt i, 255 = none *)
Definition as_spec (v : val) : option tspec :=
  match v with VL [VN ver; VN id] => Some (mkSpec ver id) | _ => None end.

Record entry : Type := mkEntry { e_tid : nat; e_took : bool; e_counter : Z; e_est : Z }.

Definition as_entry (v : val) : option entry :=
  match v with
  | VL [VN t; VN took; VN cnt; VN est] =>
      Some (mkEntry (N.to_nat t) (negb (took =? 0)%N) (Z.of_N cnt) (Z.of_N est))
  | _ => None
  end.

Definition expected_code (s : status) : N :=
  match s with Idle => 255%N | Refused k => k | _ => 0%N end.

(* replay of the observed schedule in the model; true = every entry agrees *)
Fixpoint replay (es : list entry) (c : cfg lstate instr) : bool * cfg lstate instr :=
  match es with
  | [] => (true, c)
  | e :: r =>
      let (c', took) := step_thread exec (e_tid e) c in
      let ok := Bool.eqb took (e_took e) && (l_counter (shared c') =? e_counter e) && (connected c' =? e_est e) in
      let (ok', c'') := replay r c' in (ok && ok', c'')
  end.

Definition limit_tag (max : Z) : bytes :=
  if max =? 1 then tag "limit1" else if max =? 2 then tag "limit2" else if max =? 3 then tag "limit3" else tag "limitN".

(* ENGINE limit Conc.Limit.limit_engine *)
Definition limit_engine (v : val) : val :=
  match v with
  | VL [VN max; VL specs; VL entries; VL finals] =>
      match map_opt as_spec specs, map_opt as_entry entries, map_opt as_N finals with
      | Some sps, Some es, Some fs =>
          let mx := Z.of_N max in
          let tg := limit_tag mx in
          let (agree, c) := replay es (limit_threads mx sps) in
          let model_codes := map expected_code (l_stats (shared c)) in
          let spec_ok := obs_bound_ok mx (map e_est es) && zip_forallb obs_code_ok sps fs in
          let nontriv := existsb (fun e => mx <=? e_est e) es || existsb (fun k => negb ((k =? 0) || (k =? 255))%N) fs in
          if negb spec_ok then verdict 1 tg nontriv []
          else if agree && zip_forallb N.eqb model_codes fs then verdict 0 tg nontriv []
          else verdict 2 tg nontriv []
      | _, _, _ => bad_case
      end
  | _ => bad_case
  end.
