(* C14 / C16 (schedules) — a connection B is accepted with the client id of a connection A whose
   handler is about to run, or is running, its teardown.  Interleaving model of server.go
   attachClient (tail) / sendLWT against inheritClientSession / Clients.Add / willDelayed.Delete at
   the granularity of the Go critical sections, delimited on the real code by the verifPoints
   attach.readReturned, attach.insideExpireBlock, inherit.afterDisconnectOld, attach.afterClientsAdd,
   attach.afterConnack.  No proofs in this file.

     A's handler, after cl.Read returned with an error       thread 0
       s.sendLWT(A)                                          ASendLWT   delayed will: willDelayed.Add(id); else publish
       A.Stop(err)                                           AStop
       if expire && !A.IsTakenOver() {                       ACheck     reads the flag; leaves when false
           A.ClearInflights(); s.UnsubscribeClient(A)        AClear
           s.Clients.Delete(A.ID) }                          ADelete    deletes whatever is registered under the id
     B's attachClient                                        thread 1
       existing, ok := s.Clients.Get(id)                     BGet
       s.DisconnectClient(existing, ErrSessionTakenOver)     BDisconnectOld  closes A's connection: A's Read returns
       existing.State.isTakenOver.Store(true)                BStoreTko
       s.Clients.Add(B)                                      BClientsAdd
       s.SendConnack(B, ...)                                 BConnack
       s.loop.willDelayed.Delete(id)                         BWillCancel

   A's read loop returns either because B closed A's connection or because A's network
   connection dropped on its own at the same time (parameter p_selfended). *)
From MV Require Import Base.Val Base.Sched.
Open Scope N_scope.

Record params := {
  p_expire : bool;     (* A's session ends with its connection: (v5 && expiry 0) || (v3 && clean) *)
  p_will : bool;       (* A registered a will *)
  p_delay : bool;      (* ... with a will delay > 0 *)
  p_clean : bool;      (* B connects with Clean Start 1 *)
  p_selfended : bool }.

Record tstate := {
  prm : params;
  a_readret : bool;      (* A's read loop has returned *)
  a_tko : bool;          (* A.State.isTakenOver *)
  reg : N;               (* Clients[id]: 0 none, 1 A, 2 B *)
  found : bool;          (* BGet found A *)
  b_added : bool;        (* BClientsAdd has run *)
  cancel_done : bool;    (* BWillCancel has run *)
  will_pending : bool;   (* willDelayed[id] holds A's will *)
  will_published : nat;  (* A's will published immediately *)
  deleted_new : bool;    (* ghost: ADelete removed B's registration *)
  late_add : bool }.     (* ghost: ASendLWT registered the delayed will after BWillCancel *)

Inductive instr := ASendLWT | AStop | ACheck | AClear | ADelete
                 | BGet | BDisconnectOld | BStoreTko | BClientsAdd | BConnack | BWillCancel.

Definition upd (s : tstate) (readret tko : bool) (r : N) (fnd added cancel pending : bool) (pub : nat) (dn la : bool) : tstate :=
  {| prm := prm s; a_readret := readret; a_tko := tko; reg := r; found := fnd; b_added := added; cancel_done := cancel;
     will_pending := pending; will_published := pub; deleted_new := dn; late_add := la |}.

Definition exec (t : tid) (i : instr) (s : tstate) : outcome tstate :=
  let U := upd s in
  match i with
  | ASendLWT =>
      if negb (a_readret s) then Blocked
      else if negb (p_will (prm s)) then Continue s
      else if p_delay (prm s) then
        Continue (U (a_readret s) (a_tko s) (reg s) (found s) (b_added s) (cancel_done s) true (will_published s)
                    (deleted_new s) (late_add s || cancel_done s))
      else
        Continue (U (a_readret s) (a_tko s) (reg s) (found s) (b_added s) (cancel_done s) (will_pending s)
                    (S (will_published s)) (deleted_new s) (late_add s))
  | AStop => Continue s
  | ACheck => if p_expire (prm s) && negb (a_tko s) then Continue s else Halt s
  | AClear => Continue s
  | ADelete =>
      Continue (U (a_readret s) (a_tko s) 0 (found s) (b_added s) (cancel_done s) (will_pending s) (will_published s)
                  (deleted_new s || (reg s =? 2)) (late_add s))
  | BGet =>
      Continue (U (a_readret s) (a_tko s) (reg s) (reg s =? 1) (b_added s) (cancel_done s) (will_pending s)
                  (will_published s) (deleted_new s) (late_add s))
  | BDisconnectOld =>
      Continue (U (a_readret s || found s) (a_tko s) (reg s) (found s) (b_added s) (cancel_done s) (will_pending s)
                  (will_published s) (deleted_new s) (late_add s))
  | BStoreTko =>
      Continue (U (a_readret s) (a_tko s || found s) (reg s) (found s) (b_added s) (cancel_done s) (will_pending s)
                  (will_published s) (deleted_new s) (late_add s))
  | BClientsAdd =>
      Continue (U (a_readret s) (a_tko s) 2 (found s) true (cancel_done s) (will_pending s) (will_published s)
                  (deleted_new s) (late_add s))
  | BConnack => Continue s
  | BWillCancel =>
      Continue (U (a_readret s) (a_tko s) (reg s) (found s) (b_added s) true false (will_published s)
                  (deleted_new s) (late_add s))
  end.

Definition init_state (p : params) : tstate :=
  {| prm := p; a_readret := p_selfended p; a_tko := false; reg := 1; found := false; b_added := false; cancel_done := false;
     will_pending := false; will_published := 0; deleted_new := false; late_add := false |}.

Definition takeover_threads (p : params) : cfg tstate instr :=
  mkCfg (init_state p) [[ASendLWT; AStop; ACheck; AClear; ADelete];
                        [BGet; BDisconnectOld; BStoreTko; BClientsAdd; BConnack; BWillCancel]].

Definition run_takeover (p : params) (sched : list tid) : cfg tstate instr := run exec sched (takeover_threads p).

(* ---------- specification ---------- *)
(* C14 / C15: once B is registered it stays registered (a connected session is never discarded) *)
Definition new_registered (c : cfg tstate instr) : bool := negb (b_added (shared c)) || (reg (shared c) =? 2).

Definition thread_done (t : tid) (c : cfg tstate instr) : bool :=
  match nth_error (threads c) t with Some [] => true | Some _ => false | None => true end.
Definition all_done (c : cfg tstate instr) : bool := thread_done 0%nat c && thread_done 1%nat c.

(* C16: a delayed will of A is not left pending once B (resuming, Clean Start 0) is established;
   a will without delay is published at most once, and exactly once when A's handler is through *)
Definition will_cancelled (c : cfg tstate instr) : bool :=
  negb (all_done c) || p_clean (prm (shared c)) || negb (will_pending (shared c)).
Definition will_once (c : cfg tstate instr) : bool :=
  Nat.leb (will_published (shared c)) 1 &&
  (negb (thread_done 0%nat c) || negb (p_will (prm (shared c))) || p_delay (prm (shared c)) ||
   Nat.eqb (will_published (shared c)) 1).

(* ---------- known findings, as predicates on the schedule ---------- *)
(* C14-1: A's handler evaluates !IsTakenOver() before B stores the flag and deletes the
   registration after B's Clients.Add: the new, connected client is removed from Clients *)
Definition KF_C14_stale_takenover_check (p : params) (sched : list tid) : bool :=
  deleted_new (shared (run_takeover p sched)).

(* C16-1: A's handler registers its delayed will after B's willDelayed.Delete *)
Definition KF_C16_late_will_registration (p : params) (sched : list tid) : bool :=
  late_add (shared (run_takeover p sched)).

(* ---------- engine ----------
   case = ((expire will delay clean selfended) (tid...) (reg pending published))  what the real broker
   showed at the end of the forced schedule: who is registered under the id (0 none, 1 A, 2 B),
   whether willDelayed holds an entry for it, how often A's will was published *)
Definition as_params (v : val) : option params :=
  match v with
  | VL [a; b; c; d; e] =>
      match as_bool a, as_bool b, as_bool c, as_bool d, as_bool e with
      | Some a', Some b', Some c', Some d', Some e' =>
          Some {| p_expire := a'; p_will := b'; p_delay := c'; p_clean := d'; p_selfended := e' |}
      | _, _, _, _, _ => None
      end
  | _ => None
  end.

(* ENGINE takeover_sched Conc.Takeover.takeover_engine *)
Definition takeover_engine (v : val) : val :=
  match v with
  | VL [pv; VL sched; VL [VN r; pend; VN pub]] =>
      match as_params pv, map_opt as_N sched, as_bool pend with
      | Some p, Some sc, Some pend' =>
          let sc' := map N.to_nat sc in
          let c := run_takeover p sc' in
          let done := all_done c in
          let reg_ok := negb (b_added (shared c)) || (r =? 2) in
          let cancel_ok := negb done || p_clean p || negb pend' in
          if negb reg_ok then
            if KF_C14_stale_takenover_check p sc' then verdict 3 (tag "registered") true [VB (tag "KF_C14_stale_takenover_check")]
            else verdict 1 (tag "registered") true []
          else if negb cancel_ok then
            if KF_C16_late_will_registration p sc' then verdict 3 (tag "cancel") true [VB (tag "KF_C16_late_will_registration")]
            else verdict 1 (tag "cancel") true []
          else if (r =? reg (shared c)) && Bool.eqb pend' (will_pending (shared c)) && (pub =? N.of_nat (will_published (shared c)))
          then verdict 0 (tag "takeover") true []
          else verdict 2 (tag "takeover") true [VN (reg (shared c)); vbool (will_pending (shared c)); VN (N.of_nat (will_published (shared c)))]
      | _, _, _ => bad_case
      end
  | _ => bad_case
  end.
