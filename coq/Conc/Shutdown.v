(* C36 — shutdown.  Interleaving model of Server.Close racing with connections being established
   through a listener, specification, known-finding predicates, engine.  No proofs in this file.

   The code (server.go, listeners/listeners.go, listeners/tcp.go):

     TCP.Serve (accept loop):                                       model step
       for { if end == 1 { return }                                 AChk
             conn, err := listen.Accept(); if err != nil { return } AAccept   (blocks while nothing is pending)
             if end == 0 { go establish(id, conn) }                 ASpawn
             else { conn.Close() } }                                          (fix C36-2; before: dropped unclosed)

     attachClient (handler of connection i, spawned by ASpawn):
       [attach.start] ClientsWg.Add(1)                                      HStart
       readConnectionPacket: blocks until the client has sent its CONNECT
           (returns an error if the connection is closed first: return);
           limit; auth; counter                                              HRead
       [attach.afterInherit] Clients.Add(cl)                                 HClientsAdd
       [attach.afterClientsAdd] if done is closed { SendConnack(0x8B / 0x03); return }     (fix C36-1b)
           SendConnack(success) (fails if the connection was closed
           meanwhile: return, deferred cl.Stop / ClientsWg.Done)             HConnack
       cl.Read(...) until the connection is closed by either side
       [attach.readReturned] teardown; return: cl.Stop, ClientsWg.Done       HTeardown

     Server.Close (closer):
       close(done); CloseAll -> TCP.Close: CAS(end, 0, 1)                    KSetEnd
       [close.beforeSnapshot] clients := Clients.GetByListener(id)           KSnapshot
       [close.afterSnapshot] for cl in clients: DisconnectClient(cl, 0x8B)   KDisconnect
       listen.Close()                                                        KCloseListener
       ClientsWg.Wait()                                                      KEnterWait (passes at once if the counter is 0,
                                                                              otherwise when a Done brings it to 0)
       [close.afterCloseAll] hooks.OnStopped ...; return                     KReturn

   The pre-fix code (no check of `done` after Clients.Add; a connection accepted after end = 1 left
   open) is the instance [exec_gen PreFix], kept for Findings/FixedC36.v.

   Clients are the environment: Dial i (connect), Send i (the CONNECT packet is complete on the
   wire) and Leave i (close the socket, at any time after Dial).  All control state lives in the shared state (phases), every instruction is guarded by
   the phase it starts from, so what can still happen is visible in the state. *)
From MV Require Import Base.Val Base.Sched.
Open Scope Z_scope.

Inductive phase : Type :=
| PNone        (* not dialed *)
| PPending     (* connected at the OS level, waiting in the listener's accept queue *)
| PRefused     (* dialed after the listener was closed: connection refused *)
| PReset       (* was pending when the listener was closed: reset by the OS *)
| PCur         (* returned by Accept, the accept loop has not yet looked at `end` *)
| PDropped     (* accepted after end = 1: not handled; closed at once (pre-fix: left open) *)
| PSpawned     (* handler goroutine created, before ClientsWg.Add *)
| PWait        (* after ClientsWg.Add, waiting in readConnectionPacket for the client's CONNECT *)
| PAdded       (* CONNECT read, not yet in Clients *)
| PInClients   (* in Clients, CONNACK not yet sent *)
| PServing     (* CONNACK sent, handler in its read loop *)
| PDone.       (* handler returned *)

Record conn : Type := mkConn {
  c_ver : N;
  c_phase : phase;
  c_closed : bool;     (* closed by the broker (or reset / refused by the OS) *)
  c_left : bool;       (* the client closed its end *)
  c_connack : bool;    (* success CONNACK written *)
  c_disc : bool;       (* DISCONNECT 0x8B written *)
  c_insnap : bool;     (* in the closer's snapshot of Clients *)
  c_sent : bool;       (* the client has sent its CONNECT packet completely *)
  (* oracle, fixed per connection: the outcome of writing the shutdown DISCONNECT to it *)
  c_wfail : bool;      (* the write fails (packet larger than the client's Maximum Packet Size, I/O error) *)
  c_wexc : bool }.     (* ... for a reason outside the broker's control (I/O error): no DISCONNECT is owed *)

(* what is given about a connection: protocol version and the write oracle *)
Record cspec : Type := mkCS { cs_ver : N; cs_wfail : bool; cs_wexc : bool }.

(* the current code, the pre-fix code (Findings/FixedC36.v), and a variant used as a refutation
   witness: DisconnectClient returning early, without cl.Stop, when the write fails *)
Inductive variant : Type := Current | PreFix | EarlyReturn.
Definition is_fixed (v : variant) : bool := match v with PreFix => false | _ => true end.

Inductive kphase : Type := KIdle | KEnd | KSnap | KDisc | KLClosed | KWaiting | KReturned.
Inductive aphase : Type := AAtChk | AAtAccept | AAtSpawn (i : nat) | AHalted.

Record sstate : Type := mkS {
  s_conns : list conn;
  s_k : kphase;              (* closer *)
  s_a : aphase;              (* accept loop *)
  s_pending : list nat;      (* accept queue, FIFO *)
  s_wg : Z;                  (* ClientsWg counter *)
  s_passed : bool;           (* ClientsWg.Wait has returned *)
  (* ghost flag recording the window of the known finding *)
  g_unstarted : bool }.      (* when ClientsWg.Wait returned, a spawned handler had not yet run ClientsWg.Add *)

Inductive instr : Type :=
| Dial (i : nat) | Send (i : nat) | Leave (i : nat)
| AChk | AAccept | ASpawn
| HStart (i : nat) | HRead (i : nat) | HClientsAdd (i : nat) | HConnack (i : nat) | HTeardown (i : nat)
| KSetEnd | KSnapshot | KDisconnect | KCloseListener | KEnterWait | KReturn.

Definition k_end (k : kphase) : bool := match k with KIdle => false | _ => true end.
Definition k_lclosed (k : kphase) : bool :=
  match k with KLClosed | KWaiting | KReturned => true | _ => false end.
Definition k_snapped (k : kphase) : bool :=
  match k with KIdle | KEnd => false | _ => true end.
Definition k_disconnected (k : kphase) : bool :=
  match k with KIdle | KEnd | KSnap => false | _ => true end.

Definition phase_eqb (p q : phase) : bool :=
  match p, q with
  | PNone, PNone | PPending, PPending | PRefused, PRefused | PReset, PReset | PCur, PCur
  | PDropped, PDropped | PSpawned, PSpawned | PWait, PWait | PAdded, PAdded | PInClients, PInClients
  | PServing, PServing | PDone, PDone => true
  | _, _ => false
  end.

Definition set_phase (p : phase) (c : conn) : conn :=
  mkConn (c_ver c) p (c_closed c) (c_left c) (c_connack c) (c_disc c) (c_insnap c) (c_sent c) (c_wfail c) (c_wexc c).
Definition set_closed (c : conn) : conn :=
  mkConn (c_ver c) (c_phase c) true (c_left c) (c_connack c) (c_disc c) (c_insnap c) (c_sent c) (c_wfail c) (c_wexc c).
Definition set_left (c : conn) : conn :=
  mkConn (c_ver c) (c_phase c) (c_closed c) true (c_connack c) (c_disc c) (c_insnap c) (c_sent c) (c_wfail c) (c_wexc c).
Definition set_sent (c : conn) : conn :=
  mkConn (c_ver c) (c_phase c) (c_closed c) (c_left c) (c_connack c) (c_disc c) (c_insnap c) true (c_wfail c) (c_wexc c).
Definition set_connack (c : conn) : conn :=
  mkConn (c_ver c) (c_phase c) (c_closed c) (c_left c) true (c_disc c) (c_insnap c) (c_sent c) (c_wfail c) (c_wexc c).

(* handler holds a ClientsWg unit *)
Definition counted (c : conn) : bool :=
  match c_phase c with PWait | PAdded | PInClients | PServing => true | _ => false end.
(* handler goroutine exists and has not returned *)
Definition live (c : conn) : bool :=
  match c_phase c with PSpawned | PWait | PAdded | PInClients | PServing => true | _ => false end.
Definition in_clients (c : conn) : bool :=
  match c_phase c with PInClients | PServing => true | _ => false end.

Fixpoint upd (i : nat) (f : conn -> conn) (l : list conn) : list conn :=
  match l, i with
  | [], _ => []
  | c :: r, O => f c :: r
  | c :: r, S j => c :: upd j f r
  end.

Definition with_conns (l : list conn) (s : sstate) : sstate :=
  mkS l (s_k s) (s_a s) (s_pending s) (s_wg s) (s_passed s) (g_unstarted s).
Definition with_k (k : kphase) (s : sstate) : sstate :=
  mkS (s_conns s) k (s_a s) (s_pending s) (s_wg s) (s_passed s) (g_unstarted s).
Definition with_a (a : aphase) (s : sstate) : sstate :=
  mkS (s_conns s) (s_k s) a (s_pending s) (s_wg s) (s_passed s) (g_unstarted s).
Definition with_pending (p : list nat) (s : sstate) : sstate :=
  mkS (s_conns s) (s_k s) (s_a s) p (s_wg s) (s_passed s) (g_unstarted s).

(* ClientsWg.Done: the waiter is released by the Done that brings the counter to zero *)
Definition is_spawned (c : conn) : bool := phase_eqb (c_phase c) PSpawned.

(* Wait returns now (if it has not already): record whether a spawned handler has not yet started *)
Definition pass_wait (now : bool) (s : sstate) (w : Z) : sstate :=
  mkS (s_conns s) (s_k s) (s_a s) (s_pending s) w
      (s_passed s || now)
      (g_unstarted s || (now && negb (s_passed s) && existsb is_spawned (s_conns s))).

Definition wg_done (s : sstate) : sstate :=
  let w := s_wg s - 1 in
  pass_wait ((w =? 0) && match s_k s with KWaiting => true | _ => false end) s w.

Definition wg_add (s : sstate) : sstate :=
  mkS (s_conns s) (s_k s) (s_a s) (s_pending s) (s_wg s + 1) (s_passed s) (g_unstarted s).

(* DisconnectClient(cl, ErrServerShuttingDown): try to write the DISCONNECT (the oracle says whether
   the write succeeds), then ALWAYS cl.Stop, which closes the connection; on an already stopped
   client nothing is written.  (EarlyReturn: no cl.Stop when the write fails.) *)
Definition disconnect_client (v : variant) (c : conn) : conn :=
  if c_closed c then c
  else if c_wfail c then
    match v with
    | EarlyReturn => c
    | _ => mkConn (c_ver c) (c_phase c) true (c_left c) (c_connack c) (c_disc c) (c_insnap c) (c_sent c) (c_wfail c) (c_wexc c)
    end
  else mkConn (c_ver c) (c_phase c) true (c_left c) (c_connack c) true (c_insnap c) (c_sent c) (c_wfail c) (c_wexc c).
Definition disconnect (v : variant) (c : conn) : conn := if c_insnap c then disconnect_client v c else c.

Definition take_snapshot (c : conn) : conn :=
  mkConn (c_ver c) (c_phase c) (c_closed c) (c_left c) (c_connack c) (c_disc c) (in_clients c) (c_sent c) (c_wfail c) (c_wexc c).

Definition reset_pending (c : conn) : conn :=
  match c_phase c with PPending => set_closed (set_phase PReset c) | _ => c end.

Definition guard (i : nat) (p : phase) (s : sstate) (k : conn -> outcome sstate) : outcome sstate :=
  match nth_error (s_conns s) i with
  | Some c => if phase_eqb (c_phase c) p then k c else Blocked
  | None => Blocked
  end.

Definition exec_gen (v : variant) (_ : tid) (ins : instr) (s : sstate) : outcome sstate :=
  let fixed := is_fixed v in
  match ins with
  | Dial i =>
      guard i PNone s (fun _ =>
        if k_lclosed (s_k s)
        then Continue (with_conns (upd i (fun c => set_closed (set_phase PRefused c)) (s_conns s)) s)
        else Continue (with_pending (s_pending s ++ [i]) (with_conns (upd i (set_phase PPending) (s_conns s)) s)))
  | Send i =>
      match nth_error (s_conns s) i with
      | Some c =>
          if phase_eqb (c_phase c) PNone || phase_eqb (c_phase c) PRefused || c_sent c || c_left c then Blocked
          else Continue (with_conns (upd i set_sent (s_conns s)) s)
      | None => Blocked
      end
  | Leave i =>
      match nth_error (s_conns s) i with
      | Some c =>
          if phase_eqb (c_phase c) PNone || c_left c then Blocked
          else Continue (with_conns (upd i set_left (s_conns s)) s)
      | None => Blocked
      end
  | AChk =>
      match s_a s with
      | AAtChk => if k_end (s_k s) then Halt (with_a AHalted s) else Continue (with_a AAtAccept s)
      | _ => Blocked
      end
  | AAccept =>
      match s_a s with
      | AAtAccept =>
          if k_lclosed (s_k s) then Halt (with_a AHalted s)
          else match s_pending s with
               | [] => Blocked
               | i :: r =>
                   Continue (with_a (AAtSpawn i) (with_pending r (with_conns (upd i (set_phase PCur) (s_conns s)) s)))
               end
      | _ => Blocked
      end
  | ASpawn =>
      match s_a s with
      | AAtSpawn i =>
          if k_end (s_k s)
          then Continue (with_a AAtChk (with_conns
                 (upd i (fun c => if fixed then set_closed (set_phase PDropped c) else set_phase PDropped c) (s_conns s)) s))
          else Continue (with_a AAtChk (with_conns (upd i (set_phase PSpawned) (s_conns s)) s))
      | _ => Blocked
      end
  | HStart i =>
      guard i PSpawned s (fun _ => Continue (wg_add (with_conns (upd i (set_phase PWait) (s_conns s)) s)))
  | HRead i =>
      guard i PWait s (fun c =>
        if c_sent c then Continue (with_conns (upd i (set_phase PAdded) (s_conns s)) s)
        else if c_closed c || c_left c       (* the read fails: return, deferred cl.Stop / ClientsWg.Done *)
        then Halt (wg_done (with_conns (upd i (fun c => set_closed (set_phase PDone c)) (s_conns s)) s))
        else Blocked)
  | HClientsAdd i =>
      guard i PAdded s (fun _ => Continue (with_conns (upd i (set_phase PInClients) (s_conns s)) s))
  | HConnack i =>
      guard i PInClients s (fun c =>
        if (fixed && k_end (s_k s)) || c_closed c     (* close(done) is the first statement of Close *)
        then Halt (wg_done (with_conns (upd i (fun c => set_closed (set_phase PDone c)) (s_conns s)) s))
        else Continue (with_conns (upd i (fun c => set_connack (set_phase PServing c)) (s_conns s)) s))
  | HTeardown i =>
      guard i PServing s (fun c =>
        if c_closed c || c_left c
        then Continue (wg_done (with_conns (upd i (fun c => set_closed (set_phase PDone c)) (s_conns s)) s))
        else Blocked)
  | KSetEnd =>
      match s_k s with KIdle => Continue (with_k KEnd s) | _ => Blocked end
  | KSnapshot =>
      match s_k s with
      | KEnd =>
          Continue (with_k KSnap (with_conns (map take_snapshot (s_conns s)) s))
      | _ => Blocked
      end
  | KDisconnect =>
      match s_k s with KSnap => Continue (with_k KDisc (with_conns (map (disconnect v) (s_conns s)) s)) | _ => Blocked end
  | KCloseListener =>
      match s_k s with
      | KDisc => Continue (with_k KLClosed (with_pending [] (with_conns (map reset_pending (s_conns s)) s)))
      | _ => Blocked
      end
  | KEnterWait =>
      match s_k s with
      | KLClosed =>
          Continue (pass_wait (s_wg s =? 0) (with_k KWaiting s) (s_wg s))
      | _ => Blocked
      end
  | KReturn =>
      match s_k s with
      | KWaiting => if s_passed s then Continue (with_k KReturned s) else Blocked
      | _ => Blocked
      end
  end.

(* the current code *)
Definition exec : tid -> instr -> sstate -> outcome sstate := exec_gen Current.

(* ---------- threads ----------
   tid 0 = closer, 1 = accept loop, 2+i = client i, 2+n+i = handler of connection i,
   2+2n+i = client i going away (Leave is possible at any time after Dial) *)
Definition closer_prog : list instr := [KSetEnd; KSnapshot; KDisconnect; KCloseListener; KEnterWait; KReturn].
Fixpoint accept_prog (n : nat) : list instr :=
  match n with O => [] | S m => AChk :: AAccept :: ASpawn :: accept_prog m end.
Definition client_prog (i : nat) : list instr := [Dial i; Send i].
Definition leaver_prog (i : nat) : list instr := [Leave i].
Definition handler_prog (i : nat) : list instr := [HStart i; HRead i; HClientsAdd i; HConnack i; HTeardown i].

Definition conn0 (sp : cspec) : conn :=
  mkConn (cs_ver sp) PNone false false false false false false (cs_wfail sp) (cs_wexc sp).

Definition init_state (vers : list cspec) : sstate :=
  mkS (map conn0 vers) KIdle AAtChk [] 0 false false.

Definition shutdown_threads (vers : list cspec) : cfg sstate instr :=
  let n := length vers in
  mkCfg (init_state vers)
        (closer_prog :: accept_prog (S n) :: map client_prog (seq 0 n) ++ map handler_prog (seq 0 n) ++ map leaver_prog (seq 0 n)).

(* ---------- specification (from the property text) ---------- *)

Definition returned (s : sstate) : bool := match s_k s with KReturned => true | _ => false end.
Definition close_called (s : sstate) : bool := k_end (s_k s).

(* "Close returns only after every connection handler has finished" *)
Definition no_live_handler (s : sstate) : bool := forallb (fun c => negb (live c)) (s_conns s).

(* nothing in the broker can move any more: the accept loop has returned or waits for a connection,
   the closer has returned or is blocked in Wait, every handler has returned or waits in its read
   loop on a connection that neither side has closed *)
Definition handler_quiet (c : conn) : bool :=
  match c_phase c with
  | PSpawned | PAdded | PInClients => false
  | PWait => negb (c_sent c || c_closed c || c_left c)
  | PServing => negb (c_closed c || c_left c)
  | _ => true
  end.
Definition quiescent (s : sstate) : bool :=
  match s_a s with
  | AHalted => true
  | AAtAccept => match s_pending s with [] => negb (k_lclosed (s_k s)) | _ => false end
  | _ => false
  end &&
  match s_k s with KIdle | KReturned => true | KWaiting => negb (s_passed s) | _ => false end &&
  forallb handler_quiet (s_conns s).

(* a connection that reached the broker is closed (or the client went away by itself), and an
   MQTT 5 client that had been told it was connected was sent DISCONNECT 0x8B — unless writing to
   it failed for a reason outside the broker's control *)
Definition owed_disconnect (c : conn) : bool :=
  (c_ver c =? 5)%N && c_connack c && negb (c_left c) && negb (c_wfail c && c_wexc c).
Definition conn_closed_ok (c : conn) : bool :=
  match c_phase c with
  | PNone => true
  | _ => (c_closed c || c_left c) && (if owed_disconnect c then c_disc c else true)
  end.

(* "every connected client is disconnected and its connection closed, every listener stops accepting,
   and Close returns": evaluated when nothing can move any more *)
Definition shutdown_complete (s : sstate) : bool :=
  returned s && k_lclosed (s_k s) && forallb conn_closed_ok (s_conns s) && no_live_handler s.

(* ---------- known findings: narrow, executable, on the schedule ---------- *)
Definition final (vers : list cspec) (sched : list tid) : sstate := shared (run exec sched (shutdown_threads vers)).

(* C36-1a: when ClientsWg.Wait returned, a handler had been spawned by the accept loop but had not
   yet run ClientsWg.Add(1) (it is called inside the handler): Close does not wait for it *)
Definition KF_C36_unstarted_handler (vers : list cspec) (sched : list tid) : bool := g_unstarted (final vers sched).

(* C36-3: a connection that was accepted (its handler has run ClientsWg.Add) but whose client has
   not sent its CONNECT is not in Clients: Close does not close it and blocks in ClientsWg.Wait
   until that client sends its CONNECT (it is then refused) or goes away *)
Definition silent (c : conn) : bool :=
  phase_eqb (c_phase c) PWait && negb (c_sent c || c_closed c || c_left c).
Definition KF_C36_silent_connection (vers : list cspec) (sched : list tid) : bool :=
  existsb silent (s_conns (final vers sched)).

(* C36-4: the shutdown DISCONNECT with its reason string (27 bytes) exceeds the Maximum Packet Size
   of an MQTT 5 client: WritePacket refuses it and the client is closed without any DISCONNECT
   (the reason string ought to be left out instead, MQTT 5 section 3.14.2.2.3) *)
Definition undelivered (c : conn) : bool :=
  owed_disconnect c && c_closed c && negb (c_disc c) && c_wfail c.
Definition KF_C36_disconnect_too_large (vers : list cspec) (sched : list tid) : bool :=
  existsb undelivered (s_conns (final vers sched)).

(* ---------- engine ----------
   case = ((ver...) (action...) final)
     ver    = (version wfail wexc)       wfail: writing the shutdown DISCONNECT to this connection fails;
                                          wexc: ... because of an I/O error (not the packet size)
     action = ((tid...) kobs (hobs...))   the schedule entries of one harness action, then what the
                                          harness saw: closer state and the state of every handler
       kobs: 0 not started, 1 at close.beforeSnapshot, 2 at close.afterSnapshot, 3 blocked in Wait,
             4 Wait passed (at close.afterCloseAll), 5 returned
       hobs: 0 no handler, 1 at attach.start, 2 at attach.afterInherit, 3 at attach.afterClientsAdd,
             4 in the read loop, 5 at attach.readReturned, 6 returned, 7 waiting for the CONNECT packet
     final = (dial connack disc closed left) per connection, as seen by the client:
       dial 0 not dialed / 1 connected / 2 refused; connack 0/1 (success CONNACK read);
       disc 0/1 (DISCONNECT read; 0x8B for MQTT 5); closed 0/1 (EOF or reset read); left 0/1 *)
Definition model_kobs (s : sstate) : N :=
  match s_k s with
  | KIdle => 0 | KEnd => 1 | KSnap => 2 | KDisc | KLClosed => 2
  | KWaiting => if s_passed s then 4 else 3
  | KReturned => 5
  end%N.

Definition model_hobs (c : conn) : N :=
  match c_phase c with
  | PSpawned => 1 | PWait => 7 | PAdded => 2 | PInClients => 3
  | PServing => if c_closed c || c_left c then 5 else 4
  | PDone => 6
  | _ => 0
  end%N.

Record action : Type := mkAction { a_tids : list nat; a_kobs : N; a_hobs : list N }.

Definition as_action (v : val) : option action :=
  match v with
  | VL [VL tids; VN k; VL hs] =>
      match map_opt as_N tids, map_opt as_N hs with
      | Some ts, Some hs' => Some (mkAction (map N.to_nat ts) k hs')
      | _, _ => None
      end
  | _ => None
  end.

Record cobs : Type := mkCobs { o_dial : N; o_connack : bool; o_disc : bool; o_closed : bool; o_left : bool }.

Definition as_cobs (v : val) : option cobs :=
  match v with
  | VL [VN d; a; b; c; e] =>
      match as_bool a, as_bool b, as_bool c, as_bool e with
      | Some a', Some b', Some c', Some e' => Some (mkCobs d a' b' c' e')
      | _, _, _, _ => None
      end
  | _ => None
  end.

Fixpoint list_eqb (a b : list N) : bool :=
  match a, b with
  | [], [] => true
  | x :: a', y :: b' => (x =? y)%N && list_eqb a' b'
  | _, _ => false
  end.

Fixpoint replay (acts : list action) (c : cfg sstate instr) : bool * cfg sstate instr :=
  match acts with
  | [] => (true, c)
  | a :: r =>
      let c' := run exec (a_tids a) c in
      let ok := (model_kobs (shared c') =? a_kobs a)%N && list_eqb (map model_hobs (s_conns (shared c'))) (a_hobs a) in
      let (ok', c'') := replay r c' in (ok && ok', c'')
  end.

(* the model's view of what the client of connection c sees *)
Definition final_agrees (c : conn) (o : cobs) : bool :=
  match c_phase c with
  | PNone => (o_dial o =? 0)%N
  | PRefused => (o_dial o =? 2)%N
  | _ =>
      (o_dial o =? 1)%N && Bool.eqb (c_left c) (o_left o) &&
      (c_left c ||    (* a client that went away observes nothing *)
       (Bool.eqb (c_connack c) (o_connack o) && Bool.eqb (c_disc c) (o_disc o) && Bool.eqb (c_closed c) (o_closed o)))
  end.

Fixpoint zip_forallb {A B} (f : A -> B -> bool) (a : list A) (b : list B) : bool :=
  match a, b with
  | x :: a', y :: b' => f x y && zip_forallb f a' b'
  | [], [] => true
  | _, _ => false
  end.

(* the specification on the observation *)
Definition obs_quiescent (k : N) (hs : list N) : bool :=
  ((k =? 0) || (k =? 3) || (k =? 5))%N && forallb (fun h => (h =? 0) || (h =? 4) || (h =? 6) || (h =? 7))%N hs.

(* exc_tl: the missing DISCONNECT of a client whose Maximum Packet Size is too small is excused *)
Definition obs_conn_ok (exc_tl : bool) (sp : cspec) (h : N) (o : cobs) : bool :=
  match o_dial o with
  | 1%N => (o_closed o || o_left o) &&
           (if (cs_ver sp =? 5)%N && o_connack o && negb (o_left o) && negb (cs_wfail sp && (cs_wexc sp || exc_tl))
            then o_disc o else true) &&
           ((h =? 0) || (h =? 6))%N
  | _ => true
  end.

(* "returns only after every handler has finished": whenever Close was seen returned *)
Definition obs_waits_ok (acts : list action) : bool :=
  forallb (fun a => negb (a_kobs a =? 5)%N || forallb (fun h => (h =? 0) || (h =? 6))%N (a_hobs a)) acts.

Fixpoint zip3_forallb {A B C} (f : A -> B -> C -> bool) (a : list A) (b : list B) (c : list C) : bool :=
  match a, b, c with
  | x :: a', y :: b', z :: c' => f x y z && zip3_forallb f a' b' c'
  | [], [], [] => true
  | _, _, _ => false
  end.

(* exc_si: connections whose handler still waits for a CONNECT are excused, and so is Close being
   blocked on them (C36-3) *)
Definition obs_complete (exc_si exc_tl : bool) (vers : list cspec) (acts : list action) (fin : list cobs) : bool :=
  match rev acts with
  | [] => true
  | last :: _ =>
      if obs_quiescent (a_kobs last) (a_hobs last) && negb (a_kobs last =? 0)%N
      then ((a_kobs last =? 5)%N || (exc_si && (a_kobs last =? 3)%N && existsb (fun h => (h =? 7)%N) (a_hobs last))) &&
           zip3_forallb (fun sp h o => (exc_si && (h =? 7)%N) || obs_conn_ok exc_tl sp h o) vers (a_hobs last) fin
      else true
  end.

Definition obs_complete_ok := obs_complete false false.

Definition obs_spec_ok (vers : list cspec) (acts : list action) (fin : list cobs) : bool :=
  obs_waits_ok acts && obs_complete_ok vers acts fin.

Definition as_cspec (v : val) : option cspec :=
  match v with
  | VL [VN ver; a; b] =>
      match as_bool a, as_bool b with Some a', Some b' => Some (mkCS ver a' b') | _, _ => None end
  | _ => None
  end.

(* ENGINE shutdown Conc.Shutdown.shutdown_engine *)
Definition shutdown_engine (v : val) : val :=
  match v with
  | VL [VL vers; VL acts; VL fin] =>
      match map_opt as_cspec vers, map_opt as_action acts, map_opt as_cobs fin with
      | Some vs, Some acts', Some fin' =>
          let (agree, c) := replay acts' (shutdown_threads vs) in
          let s := shared c in
          let agree' := agree && zip_forallb final_agrees (s_conns s) fin' in
          let nontriv := close_called s && existsb (fun c => negb (phase_eqb (c_phase c) PNone)) (s_conns s) in
          let tg := if close_called s then (if returned s then tag "returned" else tag "blocked") else tag "no-close" in
          if negb (obs_spec_ok vs acts' fin') then
            let w_ok := obs_waits_ok acts' in
            let c_ok := obs_complete_ok vs acts' fin' in
            let w_explained := w_ok || g_unstarted s in
            let kf_tl := existsb undelivered (s_conns s) in
            let c_explained := obs_complete (existsb silent (s_conns s)) kf_tl vs acts' fin' in
            if w_explained && c_explained then
              if negb w_ok then verdict 3 tg nontriv [VB (tag "KF_C36_unstarted_handler"); vbool agree']
              else if negb (obs_complete false kf_tl vs acts' fin')
              then verdict 3 tg nontriv [VB (tag "KF_C36_silent_connection"); vbool agree']
              else verdict 3 tg nontriv [VB (tag "KF_C36_disconnect_too_large"); vbool agree']
            else verdict 1 tg nontriv [vbool agree']
          else if agree' then verdict 0 tg nontriv []
          else verdict 2 tg nontriv []
      | _, _, _ => bad_case
      end
  | _ => bad_case
  end.
