(* Proofs about the buffer pool model (C41): an invariant of every reachable state, for every
   schedule (list of actions of any threads, any sync.Pool oracle). *)
From MV Require Import Base.Val Conc.Pool.
From Coq Require Import Lia ZifyBool ZifyN ZifyNat.
Open Scope N_scope.

(* ---------- heap ---------- *)
Lemma lookup_upd h b v b' : lookup (upd h b v) b' = if b =? b' then Some v else lookup h b'.
Proof.
  induction h as [|[x w] r IH]; cbn [upd lookup].
  - reflexivity.
  - destruct (x =? b) eqn:E; cbn [lookup].
    + apply N.eqb_eq in E. subst x. destruct (b =? b'); reflexivity.
    + rewrite IH. destruct (b =? b') eqn:E2; [|reflexivity].
      apply N.eqb_eq in E2. subst b'. rewrite E. reflexivity.
Qed.

Lemma lookup_upd_same h b v : lookup (upd h b v) b = Some v.
Proof. rewrite lookup_upd, N.eqb_refl. reflexivity. Qed.

Lemma lookup_upd_other h b v b' : b <> b' -> lookup (upd h b v) b' = lookup h b'.
Proof. intro H. rewrite lookup_upd. apply N.eqb_neq in H. rewrite H. reflexivity. Qed.

(* ---------- lists ---------- *)
Lemma remove_nth_In {A} (i : nat) (l : list A) x : In x (remove_nth i l) -> In x l.
Proof.
  revert i. induction l as [|y r IH]; intros i H; [destruct i; exact H|].
  destruct i as [|j]; cbn [remove_nth] in H.
  - right. exact H.
  - destruct H as [H | H]; [left; exact H | right; exact (IH j H)].
Qed.

Lemma remove_nth_NoDup {A} (i : nat) (l : list A) : NoDup l -> NoDup (remove_nth i l).
Proof.
  revert i. induction l as [|y r IH]; intros i H; [destruct i; exact H|].
  inversion H as [|? ? Hn Hr]; subst. destruct i as [|j]; cbn [remove_nth]; [exact Hr|].
  constructor; [|exact (IH j Hr)]. intro Hin. apply Hn. exact (remove_nth_In j r y Hin).
Qed.

Lemma remove_nth_not_In {A} (i : nat) (l : list A) b :
  NoDup l -> nth_error l i = Some b -> ~ In b (remove_nth i l).
Proof.
  revert i. induction l as [|y r IH]; intros i H E; [destruct i; discriminate|].
  inversion H as [|? ? Hn Hr]; subst. destruct i as [|j]; cbn [remove_nth nth_error] in *.
  - inversion E; subst. exact Hn.
  - intros [Hy | Hin].
    + subst y. apply Hn. exact (nth_error_In r j E).
    + exact (IH j Hr E Hin).
Qed.

Lemma NoDup_map_inj {A B} (f : A -> B) (l : list A) x y :
  NoDup (map f l) -> In x l -> In y l -> f x = f y -> x = y.
Proof.
  induction l as [|z r IH]; intros H Hx Hy E; [destruct Hx|].
  cbn [map] in H. inversion H as [|? ? Hn Hr]; subst.
  destruct Hx as [Hx | Hx], Hy as [Hy | Hy].
  - congruence.
  - subst z. exfalso. apply Hn. rewrite E. apply in_map. exact Hy.
  - subst z. exfalso. apply Hn. rewrite <- E. apply in_map. exact Hx.
  - exact (IH Hr Hx Hy E).
Qed.

(* ---------- holds ---------- *)
Lemma holds_In t b p l : holds t b p l = true ->
  exists h, In h l /\ h_tid h = t /\ h_bid h = b /\ h_phase h = p.
Proof.
  unfold holds. intro H. apply existsb_exists in H. destruct H as (h & Hin & Hh).
  apply andb_prop in Hh. destruct Hh as [Hh Hp]. apply andb_prop in Hh. destruct Hh as [Ht Hb].
  exists h. split; [exact Hin|]. split; [apply N.eqb_eq; exact Ht|]. split; [apply N.eqb_eq; exact Hb|].
  destruct (h_phase h), p; try discriminate; reflexivity.
Qed.

Lemma drop_hold_ids b l : map h_bid (drop_hold b l) = filter (fun x => negb (x =? b)) (map h_bid l).
Proof.
  induction l as [|h r IH]; [reflexivity|]. cbn [drop_hold filter map].
  destruct (negb (h_bid h =? b)); cbn [map]; fold (drop_hold b r); rewrite IH; reflexivity.
Qed.

Lemma drop_hold_In b l h : In h (drop_hold b l) -> In h l /\ h_bid h <> b.
Proof.
  unfold drop_hold. intro H. apply filter_In in H. destruct H as [H1 H2]. split; [exact H1|].
  intro E. rewrite E, N.eqb_refl in H2. discriminate.
Qed.

Lemma drop_hold_ids_In b l x : In x (map h_bid (drop_hold b l)) -> In x (map h_bid l) /\ x <> b.
Proof.
  rewrite drop_hold_ids. intro H. apply filter_In in H. destruct H as [H1 H2]. split; [exact H1|].
  intro E. rewrite E, N.eqb_refl in H2. discriminate.
Qed.

Lemma drop_hold_NoDup b l : NoDup (map h_bid l) -> NoDup (map h_bid (drop_hold b l)).
Proof. intro H. rewrite drop_hold_ids. apply NoDup_filter. exact H. Qed.

Lemma set_phase_ids b p l : map h_bid (set_phase b p l) = map h_bid l.
Proof.
  induction l as [|h r IH]; [reflexivity|]. cbn [set_phase map]. fold (set_phase b p r). rewrite IH.
  destruct (h_bid h =? b); reflexivity.
Qed.

Lemma set_phase_In b p l h' : In h' (set_phase b p l) ->
  exists h, In h l /\ h_bid h' = h_bid h /\ ((h_bid h <> b /\ h' = h) \/ (h_bid h = b /\ h_phase h' = p)).
Proof.
  unfold set_phase. intro H. apply in_map_iff in H. destruct H as (h & E & Hin). exists h.
  split; [exact Hin|]. destruct (h_bid h =? b) eqn:Eb.
  - apply N.eqb_eq in Eb. subst h'. cbn. split; [reflexivity|]. right. split; [exact Eb|reflexivity].
  - apply N.eqb_neq in Eb. subst h'. split; [reflexivity|]. left. split; [exact Eb|reflexivity].
Qed.

(* ---------- the invariant ---------- *)
Definition clean (max : N) (h : heap_t) (b : N) : Prop :=
  exists v, lookup h b = Some v /\ blen v = 0 /\ cap_ok max v = true.

Record inv (max : N) (s : state) : Prop := mkInv {
  inv_pool_nodup : NoDup (pool s);
  inv_held_nodup : NoDup (held_ids s);
  inv_disjoint : forall b, In b (pool s) -> ~ In b (held_ids s);
  inv_alloc : forall b, In b (held_ids s) -> exists v, lookup (heap s) b = Some v;
  inv_pool_clean : forall b, In b (pool s) -> clean max (heap s) b;
  inv_input_clean : forall h, In h (held s) -> h_phase h = InPut -> clean max (heap s) (h_bid h)
}.

Lemma inv_init max : inv max init.
Proof.
  constructor; cbn; try constructor; intros; contradiction.
Qed.

Lemma clean_upd_other max h b v x : b <> x -> clean max h x -> clean max (upd h b v) x.
Proof.
  intros Hne (w & L & C). exists w. rewrite lookup_upd_other by exact Hne. split; [exact L|exact C].
Qed.

Lemma held_id_In (s : state) h : In h (held s) -> In (h_bid h) (held_ids s).
Proof. intro H. unfold held_ids. apply in_map. exact H. Qed.

Lemma step_inv max s a s' o : inv max s -> step max s a = Some (s', o) -> inv max s'.
Proof.
  intros I H. destruct I as [Ipn Ihn Idj Ial Ipc Iic].
  destruct a as [t [i | b] | t b n newcap | t b | t b | i]; cbn [step] in H.
  - (* Get from the pool *)
    destruct (nth_error (pool s) i) as [b|] eqn:En; [|discriminate].
    destruct (lookup (heap s) b) as [v|] eqn:El; [|discriminate].
    inversion H; subst s' o; clear H.
    pose proof (nth_error_In _ _ En) as Hbp.
    constructor; cbn [pool held heap held_ids map h_bid].
    + apply remove_nth_NoDup. exact Ipn.
    + constructor; [exact (Idj b Hbp)|exact Ihn].
    + intros x Hx [Hxb | Hxh].
      * subst x. exact (remove_nth_not_In i (pool s) b Ipn En Hx).
      * exact (Idj x (remove_nth_In _ _ _ Hx) Hxh).
    + intros x [Hx | Hx]; [subst x; exists v; exact El | exact (Ial x Hx)].
    + intros x Hx. exact (Ipc x (remove_nth_In _ _ _ Hx)).
    + intros h [Hh | Hh] Hp; [subst h; discriminate | exact (Iic h Hh Hp)].
  - (* Get, New *)
    destruct (lookup (heap s) b) as [v|] eqn:El; [discriminate|].
    inversion H; subst s' o; clear H.
    assert (Hnp : ~ In b (pool s)).
    { intro Hin. destruct (Ipc b Hin) as (v & L & _). congruence. }
    assert (Hnh : ~ In b (held_ids s)).
    { intro Hin. destruct (Ial b Hin) as (v & L). congruence. }
    constructor; cbn [pool held heap held_ids map h_bid].
    + exact Ipn.
    + constructor; [exact Hnh|exact Ihn].
    + intros x Hx [Hxb | Hxh]; [subst x; exact (Hnp Hx) | exact (Idj x Hx Hxh)].
    + intros x [Hx | Hx].
      * subst x. exists (mkBuf 0 0). apply lookup_upd_same.
      * destruct (Ial x Hx) as (w & L). exists w. rewrite lookup_upd_other; [exact L|].
        intro E. subst x. exact (Hnh Hx).
    + intros x Hx. apply clean_upd_other; [|exact (Ipc x Hx)]. intro E. subst x. exact (Hnp Hx).
    + intros h [Hh | Hh] Hp; [subst h; discriminate|].
      apply clean_upd_other; [|exact (Iic h Hh Hp)]. intro E. apply Hnh. rewrite E. exact (held_id_In s h Hh).
  - (* Write *)
    destruct (holds t b Using (held s)) eqn:Eh; [|discriminate].
    destruct (holds_In _ _ _ _ Eh) as (h0 & Hin0 & _ & Hb0 & Hp0).
    destruct (lookup (heap s) b) as [v|] eqn:El; [|discriminate].
    assert (Hbh : In b (held_ids s)) by (rewrite <- Hb0; exact (held_id_In s h0 Hin0)).
    assert (G : forall v', inv max (mkState (upd (heap s) b v') (pool s) (held s))).
    { intro v'. constructor; cbn [pool held heap held_ids].
      - exact Ipn.
      - exact Ihn.
      - exact Idj.
      - intros x Hx. destruct (N.eq_dec b x) as [E | E].
        + subst x. exists v'. apply lookup_upd_same.
        + destruct (Ial x Hx) as (w & L). exists w. rewrite lookup_upd_other by exact E. exact L.
      - intros x Hx. apply clean_upd_other; [|exact (Ipc x Hx)]. intro E. subst x. exact (Idj b Hx Hbh).
      - intros h Hh Hp. apply clean_upd_other; [|exact (Iic h Hh Hp)]. intro E.
        assert (h = h0) by (apply (NoDup_map_inj h_bid (held s)); [exact Ihn|exact Hh|exact Hin0|congruence]).
        subst h. rewrite Hp0 in Hp. discriminate. }
    destruct (blen v + n <=? bcap v); [inversion H; subst s' o; apply G|].
    destruct (blen v + n <=? newcap); [inversion H; subst s' o; apply G|discriminate].
  - (* Put, first half *)
    destruct (holds t b Using (held s)) eqn:Eh; [|discriminate].
    destruct (holds_In _ _ _ _ Eh) as (h0 & Hin0 & _ & Hb0 & Hp0).
    destruct (lookup (heap s) b) as [v|] eqn:El; [|discriminate].
    assert (Hbh : In b (held_ids s)) by (rewrite <- Hb0; exact (held_id_In s h0 Hin0)).
    destruct ((0 <? max) && (max <? bcap v)) eqn:Ec; inversion H; subst s' o; clear H.
    + (* too large: dropped *)
      constructor; cbn [pool held heap held_ids].
      * exact Ipn.
      * apply drop_hold_NoDup. exact Ihn.
      * intros x Hx Hxh. exact (Idj x Hx (proj1 (drop_hold_ids_In _ _ _ Hxh))).
      * intros x Hx. exact (Ial x (proj1 (drop_hold_ids_In _ _ _ Hx))).
      * exact Ipc.
      * intros h Hh Hp. exact (Iic h (proj1 (drop_hold_In _ _ _ Hh)) Hp).
    + (* reset *)
      constructor; unfold held_ids; cbn [pool held heap]; rewrite ?set_phase_ids; fold (held_ids s).
      * exact Ipn.
      * exact Ihn.
      * exact Idj.
      * intros x Hx. destruct (N.eq_dec b x) as [E | E].
        -- subst x. eexists. apply lookup_upd_same.
        -- destruct (Ial x Hx) as (w & L). exists w. rewrite lookup_upd_other by exact E. exact L.
      * intros x Hx. apply clean_upd_other; [|exact (Ipc x Hx)]. intro E. subst x. exact (Idj b Hx Hbh).
      * intros h' Hh' Hp'. destruct (set_phase_In _ _ _ _ Hh') as (h & Hh & Eid & [[Hne Eq] | [Heq _]]).
        -- subst h'. apply clean_upd_other; [congruence|]. exact (Iic h Hh Hp').
        -- rewrite Eid, Heq. exists (mkBuf (bcap v) 0). split; [apply lookup_upd_same|]. split; [reflexivity|].
           unfold cap_ok, capped. cbn [bcap]. lia.
  - (* Put, second half *)
    destruct (holds t b InPut (held s)) eqn:Eh; [|discriminate].
    destruct (holds_In _ _ _ _ Eh) as (h0 & Hin0 & _ & Hb0 & Hp0).
    inversion H; subst s' o; clear H.
    assert (Hbh : In b (held_ids s)) by (rewrite <- Hb0; exact (held_id_In s h0 Hin0)).
    constructor; cbn [pool held heap held_ids].
    + constructor; [|exact Ipn]. intro Hin. exact (Idj b Hin Hbh).
    + apply drop_hold_NoDup. exact Ihn.
    + intros x [Hx | Hx] Hxh.
      * subst x. exact (proj2 (drop_hold_ids_In _ _ _ Hxh) eq_refl).
      * exact (Idj x Hx (proj1 (drop_hold_ids_In _ _ _ Hxh))).
    + intros x Hx. exact (Ial x (proj1 (drop_hold_ids_In _ _ _ Hx))).
    + intros x [Hx | Hx]; [|exact (Ipc x Hx)]. subst x. rewrite <- Hb0. exact (Iic h0 Hin0 Hp0).
    + intros h Hh Hp. exact (Iic h (proj1 (drop_hold_In _ _ _ Hh)) Hp).
  - (* sync.Pool forgets an item *)
    destruct (nth_error (pool s) i) as [b|] eqn:En; [|discriminate].
    inversion H; subst s' o; clear H.
    constructor; cbn [pool held heap held_ids].
    + apply remove_nth_NoDup. exact Ipn.
    + exact Ihn.
    + intros x Hx. exact (Idj x (remove_nth_In _ _ _ Hx)).
    + exact Ial.
    + intros x Hx. exact (Ipc x (remove_nth_In _ _ _ Hx)).
    + exact Iic.
Qed.

Lemma run_inv max acts : forall s s', inv max s -> run max s acts = Some s' -> inv max s'.
Proof.
  induction acts as [|a r IH]; intros s s' I H; cbn [run] in H.
  - inversion H; subst. exact I.
  - destruct (step max s a) as [[s1 o]|] eqn:E; [|discriminate].
    exact (IH s1 s' (step_inv max s a s1 o I E) H).
Qed.

Lemma reachable_inv max s : reachable max s -> inv max s.
Proof. intros (acts & H). exact (run_inv max acts init s (inv_init max) H). Qed.

(* ---------- the three statements ---------- *)

(* what Get hands out, in any reachable state, under any oracle *)
Lemma get_facts max s t c s' b v : reachable max s ->
  step max s (AGet t c) = Some (s', OGot b v) ->
  blen v = 0 /\ cap_ok max v = true /\ ~ In b (held_ids s) /\
  lookup (heap s') b = Some v /\ In (mkHold t b Using) (held s').
Proof.
  intros R H. pose proof (reachable_inv max s R) as I. destruct I as [Ipn Ihn Idj Ial Ipc Iic].
  destruct c as [i | nb]; cbn [step] in H.
  - destruct (nth_error (pool s) i) as [b0|] eqn:En; [|discriminate].
    destruct (lookup (heap s) b0) as [v0|] eqn:El; [|discriminate].
    inversion H; subst s' b0 v0; clear H. pose proof (nth_error_In _ _ En) as Hbp.
    destruct (Ipc b Hbp) as (w & L & Z & C). rewrite El in L. inversion L; subst w.
    split; [exact Z|]. split; [exact C|]. split; [exact (Idj b Hbp)|].
    cbn [heap held]. split; [exact El|left; reflexivity].
  - destruct (lookup (heap s) nb) as [v0|] eqn:El; [discriminate|].
    inversion H; subst s' nb v; clear H.
    split; [reflexivity|]. split; [unfold cap_ok; cbn [bcap]; lia|].
    split. { intro Hin. destruct (Ial b Hin) as (w & L). congruence. }
    cbn [heap held]. split; [apply lookup_upd_same|left; reflexivity].
Qed.

(* sync.Pool.Get on a pooled index is always enabled: the model never gets stuck on an
   impossible branch *)
Lemma get_enabled max s t i b : reachable max s -> nth_error (pool s) i = Some b ->
  exists s' v, step max s (AGet t (CPool i)) = Some (s', OGot b v).
Proof.
  intros R En. pose proof (reachable_inv max s R) as I.
  destruct (inv_pool_clean max s I b (nth_error_In _ _ En)) as (v & L & _).
  cbn [step]. rewrite En, L. eexists. exists v. reflexivity.
Qed.

Lemma exclusive max s : reachable max s ->
  NoDup (held_ids s) /\ (forall b, In b (held_ids s) -> ~ In b (pool s)) /\
  (forall h1 h2, In h1 (held s) -> In h2 (held s) -> h_bid h1 = h_bid h2 -> h1 = h2).
Proof.
  intro R. pose proof (reachable_inv max s R) as I. destruct I as [Ipn Ihn Idj Ial Ipc Iic].
  split; [exact Ihn|]. split.
  - intros b Hh Hp. exact (Idj b Hp Hh).
  - intros h1 h2 H1 H2 E. exact (NoDup_map_inj h_bid (held s) h1 h2 Ihn H1 H2 E).
Qed.

Lemma pool_within_cap max s : reachable max s -> 0 < max ->
  forall b, In b (pool s) -> exists v, lookup (heap s) b = Some v /\ bcap v <= max /\ blen v = 0.
Proof.
  intros R Hm b Hb. pose proof (reachable_inv max s R) as I.
  destruct (inv_pool_clean max s I b Hb) as (v & L & Z & C). exists v. split; [exact L|].
  unfold cap_ok, capped in C. split; [lia|exact Z].
Qed.

(* an over-sized buffer is never kept *)
Lemma oversized_dropped max s t b v s' o : 0 < max ->
  lookup (heap s) b = Some v -> max < bcap v ->
  step max s (APutReset t b) = Some (s', o) ->
  o = ODropped b /\ pool s' = pool s /\ ~ In b (held_ids s').
Proof.
  intros Hm L Hc H. cbn [step] in H. destruct (holds t b Using (held s)); [|discriminate].
  rewrite L in H. replace ((0 <? max) && (max <? bcap v)) with true in H by lia.
  inversion H; subst s' o. split; [reflexivity|]. split; [reflexivity|].
  cbn [held_ids held]. intro Hin. exact (proj2 (drop_hold_ids_In _ _ _ Hin) eq_refl).
Qed.

(* ---------- statements over explicit schedules ---------- *)
Lemma sched_empty_on_get max acts s t c s' b v :
  run max init acts = Some s -> step max s (AGet t c) = Some (s', OGot b v) -> blen v = 0.
Proof. intros R H. exact (proj1 (get_facts max s t c s' b v (ex_intro _ acts R) H)). Qed.

Lemma sched_exclusive max acts s :
  run max init acts = Some s ->
  NoDup (held_ids s) /\
  (forall b, In b (held_ids s) -> ~ In b (pool s)) /\
  (forall h1 h2, In h1 (held s) -> In h2 (held s) -> h_bid h1 = h_bid h2 -> h1 = h2) /\
  (forall t c s' b v, step max s (AGet t c) = Some (s', OGot b v) -> ~ In b (held_ids s)).
Proof.
  intro R. pose proof (exclusive max s (ex_intro _ acts R)) as (E1 & E2 & E3).
  split; [exact E1|]. split; [exact E2|]. split; [exact E3|].
  intros t c s' b v H. exact (proj1 (proj2 (proj2 (get_facts max s t c s' b v (ex_intro _ acts R) H)))).
Qed.

Lemma sched_cap max acts s : 0 < max ->
  run max init acts = Some s ->
  (forall b, In b (pool s) -> exists v, lookup (heap s) b = Some v /\ bcap v <= max) /\
  (forall t c s' b v, step max s (AGet t c) = Some (s', OGot b v) -> bcap v <= max) /\
  (forall t b v s' o, lookup (heap s) b = Some v -> max < bcap v ->
     step max s (APutReset t b) = Some (s', o) -> pool s' = pool s /\ ~ In b (held_ids s')).
Proof.
  intros Hm R. split; [|split].
  - intros b Hb. destruct (pool_within_cap max s (ex_intro _ acts R) Hm b Hb) as (v & L & C & _).
    exists v. split; [exact L|exact C].
  - intros t c s' b v H.
    pose proof (proj1 (proj2 (get_facts max s t c s' b v (ex_intro _ acts R) H))) as C.
    unfold cap_ok, capped in C. lia.
  - intros t b v s' o L Hc H. exact (proj2 (oversized_dropped max s t b v s' o Hm L Hc H)).
Qed.

(* a concrete schedule used for non-vacuity: thread 1 gets a new buffer 7, writes 100 bytes (cap
   128), thread 2 gets a new buffer 8, thread 1 puts 7 back in two steps, thread 2 obtains 7 *)
Definition demo_sched : list action :=
  [AGet 1 (CNew 7); AWrite 1 7 100 128; AGet 2 (CNew 8); APutReset 1 7; AWrite 2 8 5 64;
   APutPool 1 7; AGet 2 (CPool 0)].

(* ---------- the order of effects inside Put ---------- *)
Lemma after_reset_shape l : after_reset l = true ->
  exists mid, l = mid ++ [2] /\ only [1; 3] mid = true.
Proof.
  induction l as [|x r IH]; intro H; [discriminate|]. cbn [after_reset] in H.
  destruct (x =? 2) eqn:E2.
  - apply N.eqb_eq in E2. subst x. destruct r; [|discriminate]. exists []. split; reflexivity.
  - destruct ((x =? 1) || (x =? 3)) eqn:E13; [|discriminate].
    destruct (IH H) as (mid & -> & Hm). exists (x :: mid). split; [reflexivity|].
    cbn [only existsb]. rewrite Hm, andb_true_r.
    apply orb_prop in E13. destruct E13 as [E | E]; rewrite E; cbn; [reflexivity|apply orb_true_r].
Qed.

(* an accepted body is: the owner's own business, a Reset, nothing but Resets / capacity guards,
   the release, and then nothing — the order the model's APutReset ; APutPool stands for *)
Lemma put_shape_ok_sound l : put_shape_ok l = true ->
  exists pre mid, l = pre ++ 1 :: mid ++ [2] /\ only [1; 3; 5] pre = true /\ only [1; 3] mid = true.
Proof.
  induction l as [|x r IH]; intro H; [discriminate|]. cbn [put_shape_ok] in H.
  destruct (x =? 1) eqn:E1.
  - apply N.eqb_eq in E1. subst x. apply orb_prop in H. destruct H as [H | H].
    + destruct (after_reset_shape r H) as (mid & -> & Hm). exists [], mid. repeat split; assumption.
    + destruct (IH H) as (pre & mid & -> & Hp & Hm). exists (1 :: pre), mid.
      split; [reflexivity|]. split; [cbn [only existsb]; rewrite Hp; reflexivity|exact Hm].
  - destruct ((x =? 3) || (x =? 5)) eqn:E35; [|discriminate].
    destruct (IH H) as (pre & mid & -> & Hp & Hm). exists (x :: pre), mid.
    split; [reflexivity|]. split; [|exact Hm]. cbn [only existsb]. rewrite Hp, andb_true_r.
    apply orb_prop in E35. destruct E35 as [E | E]; rewrite E; cbn; rewrite ?orb_true_r; reflexivity.
Qed.

(* release before reset: a concrete schedule on which Get hands out a buffer with 5 bytes in it,
   two threads own buffer 7 at once, and the second owner's 3 bytes are wiped by the first
   owner's late Reset *)
Lemma swapped_order_refuted :
  exists s4 s5 sf,
    run2 0 init (firstn 4 swapped_sched) = Some (s4, [OGot 7 (mkBuf 0 0); ONone; ONone; OGot 7 (mkBuf 64 5)]) /\
    map h_tid (held s4) = [2; 1] /\ held_ids s4 = [7; 7] /\
    run2 0 init (firstn 5 swapped_sched) = Some (s5, [OGot 7 (mkBuf 0 0); ONone; ONone; OGot 7 (mkBuf 64 5); ONone]) /\
    lookup (heap s5) 7 = Some (mkBuf 64 8) /\
    option_map fst (run2 0 init swapped_sched) = Some sf /\
    lookup (heap sf) 7 = Some (mkBuf 64 0) /\ holds 2 7 Using (held sf) = true.
Proof. do 3 eexists. repeat (split; [vm_compute; reflexivity|]). vm_compute. reflexivity. Qed.

(* the engine's classification is consistent: an accepted body is never also reported *)
Lemma shape_ok_examples :
  put_shape_ok [1; 2] = true /\ put_shape_ok [2; 1] = false /\ touches_after_release [2; 1] = true /\
  put_shape_ok [2] = false /\ release_without_reset [2] = true /\
  put_shape_ok [5; 1; 3; 2] = true /\ put_shape_ok [1; 5; 2] = false /\ put_shape_ok [1; 2; 5] = false /\
  capped_put_shape_ok [3; 4] = true /\ capped_put_shape_ok [4] = false.
Proof. vm_compute. repeat split. Qed.
