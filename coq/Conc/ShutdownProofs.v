(* C36 — proofs about Conc/Shutdown.v, part 2 (part 1: Conc/ShutdownConn.v): the invariant of the
   shared state, its preservation by every instruction, and the theorems. *)
From Coq Require Import Lia.
From MV Require Import Base.Val Base.Sched Base.SchedProofs Conc.Shutdown Conc.ShutdownConn.
Open Scope Z_scope.

(* ---------- list facts ---------- *)

Definition b2z (b : bool) : Z := if b then 1 else 0.
Fixpoint cnt (l : list conn) : Z := match l with [] => 0 | c :: r => b2z (counted c) + cnt r end.

Lemma cnt_nonneg l : 0 <= cnt l.
Proof. induction l as [|c r IH]; cbn [cnt]; try lia. destruct (counted c); unfold b2z; lia. Qed.

Lemma cnt_zero l : cnt l = 0 -> Forall (fun c => counted c = false) l.
Proof.
  induction l as [|c r IH]; cbn [cnt]; intro H; constructor.
  - pose proof (cnt_nonneg r). destruct (counted c); unfold b2z in H; auto; lia.
  - apply IH. pose proof (cnt_nonneg r). destruct (counted c); unfold b2z in H; lia.
Qed.

Lemma cnt_pos l : 0 < cnt l -> exists c, In c l /\ counted c = true.
Proof.
  induction l as [|c r IH]; cbn [cnt]; intro H; try lia.
  destruct (counted c) eqn:E; [exists c; split; [left|]; auto|].
  unfold b2z in H. destruct IH as (c' & Hin & Hc); try lia. exists c'; split; [right|]; auto.
Qed.

Lemma cnt_upd i f l c0 :
  nth_error l i = Some c0 -> cnt (upd i f l) = cnt l - b2z (counted c0) + b2z (counted (f c0)).
Proof.
  revert i; induction l as [|c r IH]; intros [|i] H; cbn [cnt upd nth_error] in *; try discriminate.
  - inversion H; subst. lia.
  - rewrite (IH _ H). lia.
Qed.

Lemma cnt_map f l : (forall c, counted (f c) = counted c) -> cnt (map f l) = cnt l.
Proof. intro H. induction l as [|c r IH]; cbn [cnt map]; auto. now rewrite H, IH. Qed.

Lemma nth_upd_eq i f l : nth_error (upd i f l) i = option_map f (nth_error l i).
Proof. revert i; induction l as [|c r IH]; intros [|i]; cbn; auto. Qed.

Lemma nth_upd_neq i j f l : i <> j -> nth_error (upd i f l) j = nth_error l j.
Proof. revert i j; induction l as [|c r IH]; intros [|i] [|j] H; cbn; auto; congruence. Qed.

Lemma Forall_upd (P Q : conn -> Prop) i f l c0 :
  nth_error l i = Some c0 -> Forall P l -> (forall c, P c -> Q c) -> (P c0 -> Q (f c0)) -> Forall Q (upd i f l).
Proof.
  revert i; induction l as [|c r IH]; intros i H HF Hmono Hf.
  - destruct i; discriminate.
  - inversion HF as [|? ? Hc Hr]; subst. destruct i as [|i]; cbn in *.
    + inversion H; subst. constructor; [auto | eapply Forall_impl; eauto].
    + constructor; [auto | eapply IH; eauto].
Qed.

Lemma Forall_map_conn (P Q : conn -> Prop) f l :
  Forall P l -> (forall c, P c -> Q (f c)) -> Forall Q (map f l).
Proof. induction 1; cbn; constructor; auto. Qed.

Lemma existsb_false_forall (p : conn -> bool) l : existsb p l = false -> Forall (fun c => p c = false) l.
Proof.
  induction l as [|c r IH]; cbn; intro H; constructor; apply orb_false_iff in H; tauto.
Qed.

Lemma phase_eqb_eq p q : phase_eqb p q = true <-> p = q.
Proof. destruct p, q; cbn; split; intro H; try reflexivity; try discriminate. Qed.

(* ---------- the invariant ---------- *)

Definition pu_of (s : sstate) : bool := s_passed s && negb (g_unstarted s).

Definition at_phase (l : list conn) (j : nat) (p : phase) : Prop :=
  exists c, nth_error l j = Some c /\ c_phase c = p.

Record Inv (s : sstate) : Prop := mkInv {
  i_wg : s_wg s = cnt (s_conns s);
  i_wait : s_k s = KWaiting -> s_passed s = false -> 0 < s_wg s;
  i_passed : s_passed s = true -> s_k s = KWaiting \/ s_k s = KReturned;
  i_ret : s_k s = KReturned -> s_passed s = true;
  i_lclosed : k_lclosed (s_k s) = true -> s_pending s = [];
  i_pending : forall i c, nth_error (s_conns s) i = Some c -> c_phase c = PPending -> In i (s_pending s);
  i_cur : forall i c, nth_error (s_conns s) i = Some c -> c_phase c = PCur -> s_a s = AAtSpawn i;
  i_pend2 : forall i, In i (s_pending s) -> at_phase (s_conns s) i PPending;
  i_nodup : NoDup (s_pending s);
  i_cur2 : forall i, s_a s = AAtSpawn i -> at_phase (s_conns s) i PCur;
  i_conns : Forall (fun c => conn_ok (k_snapped (s_k s)) (k_disconnected (s_k s)) (pu_of s) c = true) (s_conns s) }.

Lemma init_inv vers : Inv (init_state vers).
Proof.
  constructor; cbn; try congruence; try discriminate.
  - induction vers; cbn; auto.
  - intros i c H E. apply nth_error_In in H. apply in_map_iff in H. destruct H as (v & <- & _). discriminate.
  - intros i c H E. apply nth_error_In in H. apply in_map_iff in H. destruct H as (v & <- & _). discriminate.
  - intros i [].
  - constructor.
  - apply Forall_forall. intros c H. apply in_map_iff in H. destruct H as (v & <- & _). reflexivity.
Qed.

(* the guard of a handler / client instruction *)
Lemma guard_inv i p s k r :
  guard i p s k = r -> r <> Blocked ->
  exists c, nth_error (s_conns s) i = Some c /\ c_phase c = p /\ k c = r.
Proof.
  unfold guard. destruct (nth_error (s_conns s) i) as [c|]; [|congruence].
  destruct (phase_eqb (c_phase c) p) eqn:E; [|congruence].
  apply phase_eqb_eq in E. eauto.
Qed.

Ltac inv_outcome H :=
  match type of H with
  | _ = Continue _ \/ _ = Halt _ => destruct H as [H|H]
  end.

(* updating connection i (not to PPending / PCur) keeps the two index invariants *)
Lemma pending_upd s i f c0 (P : list nat) :
  nth_error (s_conns s) i = Some c0 ->
  (forall j c, nth_error (s_conns s) j = Some c -> c_phase c = PPending -> In j P) ->
  (c_phase (f c0) = PPending -> In i P) ->
  forall j c, nth_error (upd i f (s_conns s)) j = Some c -> c_phase c = PPending -> In j P.
Proof.
  intros H0 Hall Hf j c Hj Hp. destruct (Nat.eq_dec i j) as [<-|Hne].
  - rewrite nth_upd_eq, H0 in Hj. cbn in Hj. inversion Hj; subst. auto.
  - rewrite nth_upd_neq in Hj by auto. eauto.
Qed.

Lemma cur_upd s i f c0 (a : aphase) :
  nth_error (s_conns s) i = Some c0 ->
  (forall j c, nth_error (s_conns s) j = Some c -> c_phase c = PCur -> a = AAtSpawn j) ->
  (c_phase (f c0) = PCur -> a = AAtSpawn i) ->
  forall j c, nth_error (upd i f (s_conns s)) j = Some c -> c_phase c = PCur -> a = AAtSpawn j.
Proof.
  intros H0 Hall Hf j c Hj Hp. destruct (Nat.eq_dec i j) as [<-|Hne].
  - rewrite nth_upd_eq, H0 in Hj. cbn in Hj. inversion Hj; subst. auto.
  - rewrite nth_upd_neq in Hj by auto. eauto.
Qed.

Lemma pending_map s f (P : list nat) :
  (forall c, c_phase (f c) = PPending -> c_phase c = PPending) ->
  (forall j c, nth_error (s_conns s) j = Some c -> c_phase c = PPending -> In j P) ->
  forall j c, nth_error (map f (s_conns s)) j = Some c -> c_phase c = PPending -> In j P.
Proof.
  intros Hf Hall j c Hj Hp. rewrite nth_error_map in Hj.
  destruct (nth_error (s_conns s) j) as [c1|] eqn:E; cbn in Hj; [|discriminate].
  inversion Hj; subst. eauto.
Qed.

Lemma cur_map s f (a : aphase) :
  (forall c, c_phase (f c) = PCur -> c_phase c = PCur) ->
  (forall j c, nth_error (s_conns s) j = Some c -> c_phase c = PCur -> a = AAtSpawn j) ->
  forall j c, nth_error (map f (s_conns s)) j = Some c -> c_phase c = PCur -> a = AAtSpawn j.
Proof.
  intros Hf Hall j c Hj Hp. rewrite nth_error_map in Hj.
  destruct (nth_error (s_conns s) j) as [c1|] eqn:E; cbn in Hj; [|discriminate].
  inversion Hj; subst. eauto.
Qed.

(* ---------- preservation, instruction by instruction ---------- *)

Lemma live_split c : live c = is_spawned c || counted c.
Proof. destruct c as [? [] ? ? ? ? ?]; reflexivity. Qed.

Lemma Forall_weaken sn dc pu l :
  Forall (fun c => conn_ok sn dc pu c = true) l -> Forall (fun c => conn_ok sn dc false c = true) l.
Proof.
  intro H. eapply Forall_impl; [|exact H]. intros c Hc. destruct pu; auto using ok_weaken.
Qed.

(* Wait returns (or has returned): the connection invariants with the new flags *)
Lemma pass_conns sn dc conns passed unst now :
  Forall (fun c => conn_ok sn dc false c = true) conns ->
  (now = true -> cnt conns = 0) ->
  passed && negb unst = false ->
  Forall (fun c => conn_ok sn dc ((passed || now) && negb (unst || (now && negb passed && existsb is_spawned conns))) c = true) conns.
Proof.
  intros HF Hnow Hold.
  destruct ((passed || now) && negb (unst || (now && negb passed && existsb is_spawned conns))) eqn:E; auto.
  apply andb_prop in E. destruct E as [E1 E2]. apply negb_true_iff, orb_false_iff in E2. destruct E2 as [E2 E3].
  subst unst. rewrite andb_true_r in Hold. subst passed. cbn in E1, E3. subst now. cbn in E3.
  pose proof (cnt_zero _ (Hnow eq_refl)) as Hc. pose proof (existsb_false_forall _ _ E3) as Hs.
  rewrite Forall_forall in *. intros c Hin. apply ok_strengthen; auto.
  rewrite live_split, (Hs c Hin), (Hc c Hin). reflexivity.
Qed.

Lemma at_phase_upd l i f c0 j p :
  nth_error l i = Some c0 -> c_phase c0 <> p -> at_phase l j p -> at_phase (upd i f l) j p.
Proof.
  intros H0 Hne (c & Hj & Hp). destruct (Nat.eq_dec i j) as [<-|Hij].
  - rewrite H0 in Hj. inversion Hj; subst. contradiction.
  - exists c. rewrite nth_upd_neq by auto. auto.
Qed.

Lemma at_phase_map l f j p :
  (forall c, c_phase c = p -> c_phase (f c) = p) -> at_phase l j p -> at_phase (map f l) j p.
Proof.
  intros Hf (c & Hj & Hp). exists (f c). rewrite nth_error_map, Hj. cbn. auto.
Qed.

Lemma upd_none i f l : nth_error l i = None -> upd i f l = l.
Proof.
  revert i; induction l as [|c r IH]; intros [|i] H; cbn in *; auto; try discriminate. now rewrite IH.
Qed.

Lemma NoDup_snoc (l : list nat) i : NoDup l -> ~ In i l -> NoDup (l ++ [i]).
Proof.
  induction 1 as [|x r Hx Hr IH]; cbn; intro Hi.
  - constructor; [intros []|constructor].
  - constructor.
    + intro X. apply in_app_or in X. destruct X as [X|[<-|[]]]; tauto.
    + apply IH. tauto.
Qed.

Lemma guard_inv2 i p s k s' :
  guard i p s k = Continue s' \/ guard i p s k = Halt s' ->
  exists c, nth_error (s_conns s) i = Some c /\ c_phase c = p /\ (k c = Continue s' \/ k c = Halt s').
Proof.
  unfold guard. destruct (nth_error (s_conns s) i) as [c|]; [|intros [H|H]; discriminate].
  destruct (phase_eqb (c_phase c) p) eqn:E; [|intros [H|H]; discriminate].
  apply phase_eqb_eq in E. eauto.
Qed.

Ltac inv_res H := destruct H as [H|H]; inversion H; subst; clear H.
Ltac simp_pu := unfold pu_of in *; cbn [s_passed g_unstarted s_conns s_k s_a s_pending s_wg with_conns with_pending with_a with_k wg_add] in *.

(* ---------- preservation, instruction by instruction ---------- *)

Lemma pres_dial s (HI : Inv s) t i s' : exec t (Dial i) s = Continue s' \/ exec t (Dial i) s = Halt s' -> Inv s'.
Proof.
  intro H. cbn in H. apply guard_inv2 in H. destruct H as (c0 & Hn & Hp & H).
  destruct HI as [Hwg Hwait Hpassed Hret Hlc Hpend Hcur Hpend2 Hnd Hcur2 Hconns].
  assert (Hnp : c_phase c0 <> PPending) by congruence. assert (Hnc : c_phase c0 <> PCur) by congruence.
  destruct (k_lclosed (s_k s)) eqn:L; inv_res H; constructor; simp_pu; auto.
  - rewrite (cnt_upd _ _ _ _ Hn). unfold counted. cbn. rewrite Hp. cbn. lia.
  - eapply pending_upd; eauto. cbn. discriminate.
  - eapply cur_upd; eauto. cbn. discriminate.
  - intros j Hj. eapply at_phase_upd; eauto.
  - intros j Hj. eapply at_phase_upd; eauto.
  - eapply Forall_upd; eauto. cbn. intro. apply ok_refused; auto.
  - rewrite (cnt_upd _ _ _ _ Hn). unfold counted. cbn. rewrite Hp. cbn. lia.
  - intro X. rewrite L in X. discriminate.
  - intros j c Hj Hc. apply in_or_app.
    destruct (Nat.eq_dec i j) as [<-|Hne]; [right; left; auto|].
    rewrite nth_upd_neq in Hj by auto. left. eauto.
  - eapply cur_upd; eauto. cbn. discriminate.
  - intros j Hj. apply in_app_or in Hj. destruct Hj as [Hj|[<-|[]]].
    + eapply at_phase_upd; eauto.
    + exists (set_phase PPending c0). rewrite nth_upd_eq, Hn. cbn. auto.
  - apply NoDup_snoc; auto.
    intro Hj. destruct (Hpend2 _ Hj) as (c & Hc & Hcp). congruence.
  - intros j Hj. eapply at_phase_upd; eauto.
  - eapply Forall_upd; eauto. cbn. intro. apply ok_pending; auto.
Qed.

Lemma pres_leave s (HI : Inv s) t i s' : exec t (Leave i) s = Continue s' \/ exec t (Leave i) s = Halt s' -> Inv s'.
Proof.
  intro H. cbn in H. destruct (nth_error (s_conns s) i) as [c0|] eqn:Hn; [|destruct H; discriminate].
  destruct (phase_eqb (c_phase c0) PNone || c_left c0); [destruct H; discriminate|].
  destruct HI as [Hwg Hwait Hpassed Hret Hlc Hpend Hcur Hpend2 Hnd Hcur2 Hconns].
  inv_res H. constructor; simp_pu; auto.
  - rewrite (cnt_upd _ _ _ _ Hn). unfold counted. cbn. lia.
  - eapply pending_upd; eauto.
  - eapply cur_upd; eauto.
  - intros j Hj. destruct (Hpend2 _ Hj) as (c & Hc & Hcp). destruct (Nat.eq_dec i j) as [<-|Hne].
    + exists (set_left c0). rewrite nth_upd_eq, Hn. cbn. split; auto. congruence.
    + exists c. rewrite nth_upd_neq by auto. auto.
  - intros j Hj. destruct (Hcur2 _ Hj) as (c & Hc & Hcp). destruct (Nat.eq_dec i j) as [<-|Hne].
    + exists (set_left c0). rewrite nth_upd_eq, Hn. cbn. split; auto. congruence.
    + exists c. rewrite nth_upd_neq by auto. auto.
  - eapply Forall_upd; eauto. cbn. intro. apply ok_left; auto.
Qed.

Lemma pres_send s (HI : Inv s) t i s' : exec t (Send i) s = Continue s' \/ exec t (Send i) s = Halt s' -> Inv s'.
Proof.
  intro H. cbn in H. destruct (nth_error (s_conns s) i) as [c0|] eqn:Hn; [|destruct H; discriminate].
  destruct (phase_eqb (c_phase c0) PNone || phase_eqb (c_phase c0) PRefused || c_sent c0 || c_left c0);
    [destruct H; discriminate|].
  destruct HI as [Hwg Hwait Hpassed Hret Hlc Hpend Hcur Hpend2 Hnd Hcur2 Hconns].
  inv_res H. constructor; simp_pu; auto.
  - rewrite (cnt_upd _ _ _ _ Hn). unfold counted. cbn. lia.
  - eapply pending_upd; eauto.
  - eapply cur_upd; eauto.
  - intros j Hj. destruct (Hpend2 _ Hj) as (c & Hc & Hcp). destruct (Nat.eq_dec i j) as [<-|Hne].
    + exists (set_sent c0). rewrite nth_upd_eq, Hn. cbn. split; auto. congruence.
    + exists c. rewrite nth_upd_neq by auto. auto.
  - intros j Hj. destruct (Hcur2 _ Hj) as (c & Hc & Hcp). destruct (Nat.eq_dec i j) as [<-|Hne].
    + exists (set_sent c0). rewrite nth_upd_eq, Hn. cbn. split; auto. congruence.
    + exists c. rewrite nth_upd_neq by auto. auto.
  - eapply Forall_upd; eauto.
Qed.

Lemma pres_achk s (HI : Inv s) t s' : exec t AChk s = Continue s' \/ exec t AChk s = Halt s' -> Inv s'.
Proof.
  intro H. cbn in H. destruct (s_a s) eqn:A; try (destruct H; discriminate).
  destruct HI as [Hwg Hwait Hpassed Hret Hlc Hpend Hcur Hpend2 Hnd Hcur2 Hconns].
  destruct (k_end (s_k s)); inv_res H; constructor; simp_pu; auto;
    try (intros j c Hj Hc; specialize (Hcur _ _ Hj Hc); congruence); intros j Hj; discriminate.
Qed.

Lemma pres_aaccept s (HI : Inv s) t s' : exec t AAccept s = Continue s' \/ exec t AAccept s = Halt s' -> Inv s'.
Proof.
  intro H. cbn in H. destruct (s_a s) eqn:A; try (destruct H; discriminate).
  destruct HI as [Hwg Hwait Hpassed Hret Hlc Hpend Hcur Hpend2 Hnd Hcur2 Hconns].
  destruct (k_lclosed (s_k s)) eqn:L.
  { inv_res H; constructor; simp_pu; auto;
      try (intros j c Hj Hc; specialize (Hcur _ _ Hj Hc); congruence); intros j Hj; discriminate. }
  destruct (s_pending s) as [|i r] eqn:P; [destruct H; discriminate|].
  inv_res H.
  destruct (Hpend2 i (or_introl eq_refl)) as (c0 & Hn & Hp).
  inversion Hnd as [|? ? Hnotin Hnd']; subst.
  constructor; simp_pu; auto.
  - rewrite (cnt_upd _ _ _ _ Hn). unfold counted. cbn. rewrite Hp. cbn. lia.
  - intro X. rewrite L in X. discriminate.
  - intros j c Hj Hc. destruct (Nat.eq_dec i j) as [<-|Hne].
    + rewrite nth_upd_eq, Hn in Hj. cbn in Hj. inversion Hj; subst. discriminate.
    + rewrite nth_upd_neq in Hj by auto. destruct (Hpend _ _ Hj Hc) as [X|X]; [contradiction|auto].
  - intros j c Hj Hc. destruct (Nat.eq_dec i j) as [<-|Hne]; auto.
    rewrite nth_upd_neq in Hj by auto. specialize (Hcur _ _ Hj Hc). congruence.
  - intros j Hj. destruct (Hpend2 j (or_intror Hj)) as (c & Hc & Hcp).
    exists c. rewrite nth_upd_neq; auto. intros <-. contradiction.
  - intros j Hj. inversion Hj; subst j. exists (set_phase PCur c0). rewrite nth_upd_eq, Hn. cbn. auto.
  - eapply Forall_upd; eauto. cbn. intro. apply ok_cur; auto.
Qed.

Lemma pres_aspawn s (HI : Inv s) t s' : exec t ASpawn s = Continue s' \/ exec t ASpawn s = Halt s' -> Inv s'.
Proof.
  intro H. cbn in H. destruct (s_a s) as [| |i|] eqn:A; try (destruct H; discriminate).
  destruct HI as [Hwg Hwait Hpassed Hret Hlc Hpend Hcur Hpend2 Hnd Hcur2 Hconns].
  destruct (Hcur2 i A) as (c0 & Hn & Hp).
  assert (Hnp : c_phase c0 <> PPending) by congruence.
  assert (Hnocur : forall f j c, nth_error (upd i f (s_conns s)) j = Some c -> c_phase (f c0) <> PCur -> c_phase c = PCur -> False).
  { intros f j c Hj Hf Hc. destruct (Nat.eq_dec i j) as [<-|Hne].
    - rewrite nth_upd_eq, Hn in Hj. cbn in Hj. inversion Hj; subst. contradiction.
    - rewrite nth_upd_neq in Hj by auto. specialize (Hcur _ _ Hj Hc). congruence. }
  destruct (k_end (s_k s)) eqn:E; inv_res H; constructor; simp_pu; auto.
  - rewrite (cnt_upd _ _ _ _ Hn). unfold counted. cbn. rewrite Hp. cbn. lia.
  - eapply pending_upd; eauto. cbn. discriminate.
  - intros j c Hj Hc. exfalso. eapply Hnocur; eauto. cbn. discriminate.
  - intros j Hj. eapply at_phase_upd; eauto.
  - intros j Hj. discriminate.
  - eapply Forall_upd; eauto. cbn. intro. apply ok_dropped; auto.
  - rewrite (cnt_upd _ _ _ _ Hn). unfold counted. cbn. rewrite Hp. cbn. lia.
  - eapply pending_upd; eauto. cbn. discriminate.
  - intros j c Hj Hc. exfalso. eapply Hnocur; eauto. cbn. discriminate.
  - intros j Hj. eapply at_phase_upd; eauto.
  - intros j Hj. discriminate.
  - assert (Hpf : s_passed s = false).
    { destruct (s_passed s) eqn:Ps; auto. destruct (Hpassed eq_refl) as [X|X]; rewrite X in E; discriminate. }
    rewrite Hpf in *. cbn in *. eapply Forall_upd; eauto. cbn. intro. apply ok_spawned; auto.
Qed.

(* ClientsWg.Wait returning (or not) on a state whose other components are consistent *)
Lemma inv_pass s1 now w :
  w = cnt (s_conns s1) ->
  (now = true -> w = 0 /\ s_k s1 = KWaiting) ->
  (s_k s1 = KWaiting -> now = false -> s_passed s1 = false -> 0 < w) ->
  (s_passed s1 = true -> s_k s1 = KWaiting \/ s_k s1 = KReturned) ->
  (s_k s1 = KReturned -> s_passed s1 = true) ->
  (k_lclosed (s_k s1) = true -> s_pending s1 = []) ->
  (forall i c, nth_error (s_conns s1) i = Some c -> c_phase c = PPending -> In i (s_pending s1)) ->
  (forall i c, nth_error (s_conns s1) i = Some c -> c_phase c = PCur -> s_a s1 = AAtSpawn i) ->
  (forall i, In i (s_pending s1) -> at_phase (s_conns s1) i PPending) ->
  NoDup (s_pending s1) ->
  (forall i, s_a s1 = AAtSpawn i -> at_phase (s_conns s1) i PCur) ->
  Forall (fun c => conn_ok (k_snapped (s_k s1)) (k_disconnected (s_k s1)) false c = true) (s_conns s1) ->
  pu_of s1 = false ->
  Inv (pass_wait now s1 w).
Proof.
  intros Hw Hnow Hwait Hpassed Hret Hlc Hpend Hcur Hpend2 Hnd Hcur2 Hconns Hpu.
  constructor; unfold pass_wait; cbn; auto.
  - intros Hk Hp. apply orb_false_iff in Hp. destruct Hp. auto.
  - intro Hp. apply orb_prop in Hp. destruct Hp as [Hp|Hp]; auto. left. apply Hnow; auto.
  - intro Hk. rewrite (Hret Hk). reflexivity.
  - unfold pu_of. cbn. apply pass_conns; auto.
    intro Hn. destruct (Hnow Hn) as [H0 _]. congruence.
Qed.

Lemma pu_false_of_live s c0 i :
  Inv s -> nth_error (s_conns s) i = Some c0 -> live c0 = true -> pu_of s = false.
Proof.
  intros HI Hn Hl. destruct (pu_of s) eqn:E; auto.
  pose proof (i_conns s HI) as HF. rewrite Forall_forall in HF.
  specialize (HF c0 (nth_error_In _ _ Hn)). rewrite E in HF. apply ok_pu_live in HF. congruence.
Qed.

Lemma cnt_nonneg' s : Inv s -> 0 <= s_wg s.
Proof. intro HI. rewrite (i_wg s HI). apply cnt_nonneg. Qed.

(* a handler returns: connection i (counted) becomes PDone and closed, ClientsWg.Done *)
Lemma pres_handler_done s (HI : Inv s) i c0 :
  nth_error (s_conns s) i = Some c0 -> counted c0 = true ->
  conn_ok (k_snapped (s_k s)) (k_disconnected (s_k s)) false (set_closed (set_phase PDone c0)) = true ->
  Inv (wg_done (with_conns (upd i (fun c => set_closed (set_phase PDone c)) (s_conns s)) s)).
Proof.
  intros Hn Hc Hok.
  assert (Hlive : live c0 = true) by (rewrite live_split, Hc; apply orb_true_r).
  pose proof (pu_false_of_live s c0 i HI Hn Hlive) as Hpu.
  pose proof (cnt_nonneg' s HI) as Hge.
  destruct HI as [Hwg Hwait Hpassed Hret Hlc Hpend Hcur Hpend2 Hnd Hcur2 Hconns].
  assert (Hnp : c_phase c0 <> PPending) by (intro X; unfold counted in Hc; rewrite X in Hc; discriminate).
  assert (Hnc : c_phase c0 <> PCur) by (intro X; unfold counted in Hc; rewrite X in Hc; discriminate).
  assert (Hcnt : s_wg s - 1 = cnt (upd i (fun c => set_closed (set_phase PDone c)) (s_conns s))).
  { rewrite (cnt_upd _ _ _ _ Hn), Hc. unfold counted. cbn. lia. }
  unfold wg_done. apply inv_pass; simp_pu; auto.
  - intro X. apply andb_prop in X. destruct X as [X1 X2]. split; [lia|]. destruct (s_k s); auto; discriminate.
  - intros Hk Hnow Hp. rewrite Hk in Hnow. rewrite andb_true_r in Hnow.
    pose proof (cnt_nonneg (upd i (fun c => set_closed (set_phase PDone c)) (s_conns s))). lia.
  - eapply pending_upd; eauto. cbn. discriminate.
  - eapply cur_upd; eauto. cbn. discriminate.
  - intros j Hj. eapply at_phase_upd; eauto.
  - intros j Hj. eapply at_phase_upd; eauto.
  - eapply Forall_upd; eauto.
    intros c X. destruct (s_passed s && negb (g_unstarted s)); auto using ok_weaken.
Qed.

Lemma pres_hstart s (HI : Inv s) t i s' : exec t (HStart i) s = Continue s' \/ exec t (HStart i) s = Halt s' -> Inv s'.
Proof.
  intro H. cbn in H. apply guard_inv2 in H. destruct H as (c0 & Hn & Hp & H).
  pose proof (cnt_nonneg' s HI) as Hge.
  destruct HI as [Hwg Hwait Hpassed Hret Hlc Hpend Hcur Hpend2 Hnd Hcur2 Hconns].
  assert (Hnp : c_phase c0 <> PPending) by congruence. assert (Hnc : c_phase c0 <> PCur) by congruence.
  inv_res H; constructor; simp_pu; auto.
  - rewrite (cnt_upd _ _ _ _ Hn). unfold counted. cbn. rewrite Hp. cbn. lia.
  - intros. lia.
  - eapply pending_upd; eauto. cbn. discriminate.
  - eapply cur_upd; eauto. cbn. discriminate.
  - intros j Hj. eapply at_phase_upd; eauto.
  - intros j Hj. eapply at_phase_upd; eauto.
  - eapply Forall_upd; eauto. cbn. intro. apply ok_wait; auto.
Qed.

Lemma pres_hread s (HI : Inv s) t i s' :
  exec t (HRead i) s = Continue s' \/ exec t (HRead i) s = Halt s' -> Inv s'.
Proof.
  intro H. cbn in H. apply guard_inv2 in H. destruct H as (c0 & Hn & Hp & H).
  destruct (c_sent c0) eqn:Se.
  - destruct HI as [Hwg Hwait Hpassed Hret Hlc Hpend Hcur Hpend2 Hnd Hcur2 Hconns].
    assert (Hnp : c_phase c0 <> PPending) by congruence. assert (Hnc : c_phase c0 <> PCur) by congruence.
    inv_res H; constructor; simp_pu; auto.
    + rewrite (cnt_upd _ _ _ _ Hn). unfold counted. cbn. rewrite Hp. cbn. lia.
    + eapply pending_upd; eauto. cbn. discriminate.
    + eapply cur_upd; eauto. cbn. discriminate.
    + intros j Hj. eapply at_phase_upd; eauto.
    + intros j Hj. eapply at_phase_upd; eauto.
    + eapply Forall_upd; eauto. cbn. intro. apply ok_added; auto.
  - destruct (c_closed c0 || c_left c0) eqn:B; [|destruct H; discriminate].
    inv_res H. apply (pres_handler_done s HI i c0); auto.
    + unfold counted. rewrite Hp. reflexivity.
    + pose proof (i_conns s HI) as HF. rewrite Forall_forall in HF. specialize (HF c0 (nth_error_In _ _ Hn)).
      eapply ok_read_failed; eauto.
Qed.

Lemma pres_hclientsadd s (HI : Inv s) t i s' :
  exec t (HClientsAdd i) s = Continue s' \/ exec t (HClientsAdd i) s = Halt s' -> Inv s'.
Proof.
  intro H. cbn in H. apply guard_inv2 in H. destruct H as (c0 & Hn & Hp & H).
  destruct HI as [Hwg Hwait Hpassed Hret Hlc Hpend Hcur Hpend2 Hnd Hcur2 Hconns].
  assert (Hnp : c_phase c0 <> PPending) by congruence. assert (Hnc : c_phase c0 <> PCur) by congruence.
  inv_res H; constructor; simp_pu; auto.
  - rewrite (cnt_upd _ _ _ _ Hn). unfold counted. cbn. rewrite Hp. cbn. lia.
  - eapply pending_upd; eauto. cbn. discriminate.
  - eapply cur_upd; eauto. cbn. discriminate.
  - intros j Hj. eapply at_phase_upd; eauto.
  - intros j Hj. eapply at_phase_upd; eauto.
  - eapply Forall_upd; eauto. cbn. intro. apply ok_inclients; auto.
Qed.

Lemma pres_hconnack s (HI : Inv s) t i s' :
  exec t (HConnack i) s = Continue s' \/ exec t (HConnack i) s = Halt s' -> Inv s'.
Proof.
  intro H. cbn in H. apply guard_inv2 in H. destruct H as (c0 & Hn & Hp & H).
  destruct (k_end (s_k s) || c_closed c0) eqn:B.
  - inv_res H. apply (pres_handler_done s HI i c0); auto.
    + unfold counted. rewrite Hp. reflexivity.
    + pose proof (i_conns s HI) as HF. rewrite Forall_forall in HF. specialize (HF c0 (nth_error_In _ _ Hn)).
      eapply ok_refuse_done; eauto.
  - apply orb_false_iff in B. destruct B as [B1 B2].
    assert (Hk : s_k s = KIdle) by (destruct (s_k s); auto; discriminate).
    destruct HI as [Hwg Hwait Hpassed Hret Hlc Hpend Hcur Hpend2 Hnd Hcur2 Hconns].
    assert (Hnp : c_phase c0 <> PPending) by congruence. assert (Hnc : c_phase c0 <> PCur) by congruence.
    inv_res H; constructor; simp_pu; auto.
    + rewrite (cnt_upd _ _ _ _ Hn). unfold counted. cbn. rewrite Hp. cbn. lia.
    + eapply pending_upd; eauto. cbn. discriminate.
    + eapply cur_upd; eauto. cbn. discriminate.
    + intros j Hj. eapply at_phase_upd; eauto.
    + intros j Hj. eapply at_phase_upd; eauto.
    + rewrite Hk in *. cbn in *. eapply Forall_upd; eauto. cbn. intro. apply ok_serving; auto.
Qed.

Lemma pres_hteardown s (HI : Inv s) t i s' :
  exec t (HTeardown i) s = Continue s' \/ exec t (HTeardown i) s = Halt s' -> Inv s'.
Proof.
  intro H. cbn in H. apply guard_inv2 in H. destruct H as (c0 & Hn & Hp & H).
  destruct (c_closed c0 || c_left c0) eqn:B; [|destruct H; discriminate].
  inv_res H. apply (pres_handler_done s HI i c0); auto.
  - unfold counted. rewrite Hp. reflexivity.
  - pose proof (i_conns s HI) as HF. rewrite Forall_forall in HF. specialize (HF c0 (nth_error_In _ _ Hn)).
    eapply ok_teardown; eauto.
Qed.

Lemma passed_false_before_wait s : Inv s -> s_k s <> KWaiting -> s_k s <> KReturned -> s_passed s = false.
Proof.
  intros HI H1 H2. destruct (s_passed s) eqn:E; auto. destruct (i_passed s HI E); contradiction.
Qed.

Lemma pres_ksetend s (HI : Inv s) t s' : exec t KSetEnd s = Continue s' \/ exec t KSetEnd s = Halt s' -> Inv s'.
Proof.
  intro H. cbn in H. destruct (s_k s) eqn:K; try (destruct H; discriminate).
  assert (Hpf : s_passed s = false) by (apply passed_false_before_wait; auto; congruence).
  destruct HI as [Hwg Hwait Hpassed Hret Hlc Hpend Hcur Hpend2 Hnd Hcur2 Hconns].
  inv_res H; constructor; simp_pu; auto; try discriminate; try congruence.
  rewrite K in Hconns. exact Hconns.
Qed.

Lemma pres_ksnapshot s (HI : Inv s) t s' : exec t KSnapshot s = Continue s' \/ exec t KSnapshot s = Halt s' -> Inv s'.
Proof.
  intro H. cbn in H. destruct (s_k s) eqn:K; try (destruct H; discriminate).
  assert (Hpf : s_passed s = false) by (apply passed_false_before_wait; auto; congruence).
  destruct HI as [Hwg Hwait Hpassed Hret Hlc Hpend Hcur Hpend2 Hnd Hcur2 Hconns].
  inv_res H; constructor; simp_pu; auto; try discriminate; try congruence.
  - rewrite cnt_map; auto.
  - apply pending_map; auto.
  - apply cur_map; auto.
  - intros j Hj. apply at_phase_map; auto.
  - intros j Hj. apply at_phase_map; auto.
  - rewrite K in Hconns. cbn in *. eapply Forall_map_conn; eauto. cbn. intros c. apply ok_snapshot.
Qed.

Lemma disconnect_phase c : c_phase (disconnect Current c) = c_phase c.
Proof.
  unfold disconnect, disconnect_client. destruct (c_insnap c); auto. destruct (c_closed c); auto.
  destruct (c_wfail c); auto.
Qed.

Lemma pres_kdisconnect s (HI : Inv s) t s' : exec t KDisconnect s = Continue s' \/ exec t KDisconnect s = Halt s' -> Inv s'.
Proof.
  intro H. cbn in H. destruct (s_k s) eqn:K; try (destruct H; discriminate).
  assert (Hpf : s_passed s = false) by (apply passed_false_before_wait; auto; congruence).
  destruct HI as [Hwg Hwait Hpassed Hret Hlc Hpend Hcur Hpend2 Hnd Hcur2 Hconns].
  inv_res H; constructor; simp_pu; auto; try discriminate; try congruence.
  - rewrite cnt_map; auto. intro c. unfold counted. now rewrite disconnect_phase.
  - apply pending_map; auto. intro c. now rewrite disconnect_phase.
  - apply cur_map; auto. intro c. now rewrite disconnect_phase.
  - intros j Hj. apply at_phase_map; auto. intro c. now rewrite disconnect_phase.
  - intros j Hj. apply at_phase_map; auto. intro c. now rewrite disconnect_phase.
  - rewrite K in Hconns. cbn in *. eapply Forall_map_conn; eauto. cbn. intros c. apply ok_disconnect.
Qed.

Lemma reset_not_pending c : c_phase (reset_pending c) <> PPending.
Proof. unfold reset_pending. destruct (c_phase c) eqn:E; cbn; congruence. Qed.

Lemma reset_cur c p : p <> PPending -> p <> PReset -> c_phase (reset_pending c) = p -> c_phase c = p.
Proof. unfold reset_pending. destruct (c_phase c) eqn:E; cbn; congruence. Qed.

Lemma reset_keeps c p : p <> PPending -> c_phase c = p -> c_phase (reset_pending c) = p.
Proof. unfold reset_pending. intros H E. rewrite E. destruct p; cbn; congruence. Qed.

Lemma pres_kcloselistener s (HI : Inv s) t s' :
  exec t KCloseListener s = Continue s' \/ exec t KCloseListener s = Halt s' -> Inv s'.
Proof.
  intro H. cbn in H. destruct (s_k s) eqn:K; try (destruct H; discriminate).
  assert (Hpf : s_passed s = false) by (apply passed_false_before_wait; auto; congruence).
  destruct HI as [Hwg Hwait Hpassed Hret Hlc Hpend Hcur Hpend2 Hnd Hcur2 Hconns].
  inv_res H; constructor; simp_pu; auto; try discriminate; try congruence.
  - rewrite cnt_map; auto. intro c. unfold counted, reset_pending. destruct (c_phase c) eqn:E; cbn; rewrite ?E; auto.
  - intros j c Hj Hc. rewrite nth_error_map in Hj. destruct (nth_error (s_conns s) j); cbn in Hj; [|discriminate].
    inversion Hj; subst. exfalso. eapply reset_not_pending; eauto.
  - apply cur_map; auto. intro c. apply reset_cur; discriminate.
  - intros j [].
  - constructor.
  - intros j Hj. apply at_phase_map; auto. intro c. apply reset_keeps. discriminate.
  - rewrite K in Hconns. cbn in *. eapply Forall_map_conn; eauto. cbn. intros c. apply ok_reset.
Qed.

Lemma pres_kenterwait s (HI : Inv s) t s' :
  exec t KEnterWait s = Continue s' \/ exec t KEnterWait s = Halt s' -> Inv s'.
Proof.
  intro H. cbn in H. destruct (s_k s) eqn:K; try (destruct H; discriminate).
  assert (Hpf : s_passed s = false) by (apply passed_false_before_wait; auto; congruence).
  pose proof (cnt_nonneg' s HI) as Hge.
  destruct HI as [Hwg Hwait Hpassed Hret Hlc Hpend Hcur Hpend2 Hnd Hcur2 Hconns].
  inv_res H. apply inv_pass; simp_pu; auto; try discriminate; try congruence.
  - intro X. apply Z.eqb_eq in X. auto.
  - intros _ X _. apply Z.eqb_neq in X. lia.
  - intros _. rewrite K in Hlc. auto.
  - rewrite K in Hconns. cbn in *. eapply Forall_weaken; eauto.
  - rewrite Hpf. reflexivity.
Qed.

Lemma pres_kreturn s (HI : Inv s) t s' : exec t KReturn s = Continue s' \/ exec t KReturn s = Halt s' -> Inv s'.
Proof.
  intro H. cbn in H. destruct (s_k s) eqn:K; try (destruct H; discriminate).
  destruct (s_passed s) eqn:Ps; [|destruct H; discriminate].
  destruct HI as [Hwg Hwait Hpassed Hret Hlc Hpend Hcur Hpend2 Hnd Hcur2 Hconns].
  inv_res H; constructor; simp_pu; auto; try discriminate; try congruence.
  - intros _. rewrite K in Hlc. auto.
  - rewrite K in Hconns. cbn in *. rewrite Ps in *. exact Hconns.
Qed.

Lemma exec_inv t ins s s' : Inv s -> exec t ins s = Continue s' \/ exec t ins s = Halt s' -> Inv s'.
Proof.
  intros HI H. destruct ins.
  - eapply pres_dial; eauto.
  - eapply pres_send; eauto.
  - eapply pres_leave; eauto.
  - eapply pres_achk; eauto.
  - eapply pres_aaccept; eauto.
  - eapply pres_aspawn; eauto.
  - eapply pres_hstart; eauto.
  - eapply pres_hread; eauto.
  - eapply pres_hclientsadd; eauto.
  - eapply pres_hconnack; eauto.
  - eapply pres_hteardown; eauto.
  - eapply pres_ksetend; eauto.
  - eapply pres_ksnapshot; eauto.
  - eapply pres_kdisconnect; eauto.
  - eapply pres_kcloselistener; eauto.
  - eapply pres_kenterwait; eauto.
  - eapply pres_kreturn; eauto.
Qed.

Lemma final_inv vers sched : Inv (final vers sched).
Proof.
  unfold final. apply (run_shared_invariant _ _ exec Inv).
  - intros t i s s'. apply exec_inv.
  - apply init_inv.
Qed.

(* ---------- theorems ---------- *)

(* Close returns only after every handler has finished — unless, when ClientsWg.Wait returned, a
   handler spawned by the accept loop had not yet run ClientsWg.Add (known finding) *)
Lemma shutdown_waits vers sched :
  KF_C36_unstarted_handler vers sched = false ->
  returned (final vers sched) = true -> no_live_handler (final vers sched) = true.
Proof.
  unfold KF_C36_unstarted_handler. intros Hkf Hret. pose proof (final_inv vers sched) as HI.
  remember (final vers sched) as s eqn:Hs. clear Hs.
  assert (Hk : s_k s = KReturned) by (unfold returned in Hret; destruct (s_k s); auto; discriminate).
  pose proof (i_ret s HI Hk) as Hp. pose proof (i_conns s HI) as HF.
  unfold pu_of in HF. rewrite Hp, Hkf in HF. cbn in HF.
  unfold no_live_handler. apply forallb_forall. intros c Hin.
  rewrite Forall_forall in HF. rewrite (ok_pu_live _ _ _ (HF c Hin)). reflexivity.
Qed.

(* when nothing in the broker can move any more and Close was called: Close has returned, the
   listener is closed, every connection is closed (MQTT 5 clients that were connected got 0x8B),
   no handler is alive — unless a handler still waits for the CONNECT of a silent client (known
   finding C36-3). *)
Lemma shutdown_all_closed vers sched :
  KF_C36_silent_connection vers sched = false ->
  KF_C36_disconnect_too_large vers sched = false ->
  close_called (final vers sched) = true -> quiescent (final vers sched) = true ->
  shutdown_complete (final vers sched) = true.
Proof.
  unfold KF_C36_silent_connection, KF_C36_disconnect_too_large. intros Hsil Htl Hcc Hq.
  pose proof (existsb_false_forall _ _ Hsil) as Hns. rewrite Forall_forall in Hns. clear Hsil.
  pose proof (existsb_false_forall _ _ Htl) as Hnt. rewrite Forall_forall in Hnt. clear Htl. pose proof (final_inv vers sched) as HI.
  remember (final vers sched) as s eqn:Hs. clear Hs.
  unfold quiescent in Hq. apply andb_prop in Hq. destruct Hq as [Hq Hh]. apply andb_prop in Hq. destruct Hq as [Ha Hk].
  rewrite forallb_forall in Hh.
  pose proof (i_conns s HI) as HF. rewrite Forall_forall in HF.
  assert (Hret : s_k s = KReturned).
  { unfold close_called in Hcc. destruct (s_k s) eqn:K; try discriminate; auto.
    apply negb_true_iff in Hk.
    pose proof (i_wait s HI K Hk) as Hpos. rewrite (i_wg s HI) in Hpos.
    destruct (cnt_pos _ Hpos) as (c & Hin & Hc). exfalso.
    specialize (HF c Hin). cbn in HF. eapply ok_counted_not_quiet; eauto. }
  assert (Hpend : s_pending s = []) by (apply (i_lclosed s HI); rewrite Hret; reflexivity).
  assert (Hall : forall c, In c (s_conns s) -> conn_closed_ok c = true /\ live c = false).
  { intros c Hin. destruct (In_nth_error _ _ Hin) as (j & Hj).
    specialize (HF c Hin). rewrite Hret in HF. cbn in HF.
    eapply ok_quiet_closed; eauto.
    - intro Hp. pose proof (i_pending s HI j c Hj Hp) as X. rewrite Hpend in X. destruct X.
    - intro Hp. pose proof (i_cur s HI j c Hj Hp) as X. rewrite X in Ha. discriminate. }
  unfold shutdown_complete, returned, no_live_handler. rewrite Hret. cbn.
  apply andb_true_intro. split.
  - apply forallb_forall. intros c Hin. apply Hall; auto.
  - apply forallb_forall. intros c Hin. destruct (Hall c Hin) as [_ X]. rewrite X. reflexivity.
Qed.

(* the listener stops accepting: once Close has returned a new connection attempt is refused *)
Lemma shutdown_refuses vers sched t i s' :
  returned (final vers sched) = true ->
  exec t (Dial i) (final vers sched) = Continue s' ->
  at_phase (s_conns s') i PRefused /\ s_pending s' = s_pending (final vers sched).
Proof.
  intros Hret H. remember (final vers sched) as s eqn:Hs. clear Hs.
  assert (Hk : s_k s = KReturned) by (unfold returned in Hret; destruct (s_k s); auto; discriminate).
  cbn in H. assert (H' : guard i PNone s (fun _ : conn =>
         if k_lclosed (s_k s)
         then Continue (with_conns (upd i (fun c : conn => set_closed (set_phase PRefused c)) (s_conns s)) s)
         else Continue (with_pending (s_pending s ++ [i]) (with_conns (upd i (set_phase PPending) (s_conns s)) s))) = Continue s' \/
         guard i PNone s (fun _ : conn =>
         if k_lclosed (s_k s)
         then Continue (with_conns (upd i (fun c : conn => set_closed (set_phase PRefused c)) (s_conns s)) s)
         else Continue (with_pending (s_pending s ++ [i]) (with_conns (upd i (set_phase PPending) (s_conns s)) s))) = Halt s') by auto.
  apply guard_inv2 in H'. destruct H' as (c0 & Hn & Hp & Hr). rewrite Hk in Hr. cbn in Hr.
  inv_res Hr. cbn. split; auto.
  exists (set_closed (set_phase PRefused c0)). rewrite nth_upd_eq, Hn. cbn. auto.
Qed.

(* and no connection is handed to a handler once Close has started: the accept loop's spawn step
   closes the connection instead *)
Lemma shutdown_no_spawn vers sched t s' :
  close_called (final vers sched) = true ->
  exec t ASpawn (final vers sched) = Continue s' ->
  forall j c, nth_error (s_conns s') j = Some c -> c_phase c = PSpawned ->
  exists c1, nth_error (s_conns (final vers sched)) j = Some c1 /\ c_phase c1 = PSpawned.
Proof.
  intros Hcc H. remember (final vers sched) as s eqn:Hs. clear Hs.
  cbn in H. destruct (s_a s) as [| |i|]; try discriminate.
  unfold close_called in Hcc. rewrite Hcc in H. inversion H; subst; clear H. cbn.
  intros j c Hj Hc. destruct (Nat.eq_dec i j) as [<-|Hne].
  - rewrite nth_upd_eq in Hj. destruct (nth_error (s_conns s) i); cbn in Hj; [|discriminate].
    inversion Hj; subst. discriminate.
  - rewrite nth_upd_neq in Hj by auto. eauto.
Qed.
