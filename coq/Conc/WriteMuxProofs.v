(* Proofs about the write-multiplexing model: for every schedule the wire carries whole packets
   only, and no packet is lost or duplicated. *)
From MV Require Import Base.Val Conc.WriteMux.
From Coq Require Import Permutation Lia.

Definition counted_buf (c : option (tid * pc)) (qs : list bytes) : list bytes :=
  match c with Some (_, PFlushC) => [] | _ => qs end.

Definition pend (c : option (tid * pc)) : list bytes :=
  match c with
  | Some (_, PWrite p) | Some (_, PAppend p) | Some (_, PAppendFlush p) => [p]
  | _ => []
  end.

(* the invariant: wire and buffer are concatenations of whole packets, and together with what is
   still to be written they are exactly the packets of the programs *)
Definition Inv (progs : list (list (kind * bytes))) (s : st) : Prop :=
  exists ps qs, conn s = concat ps /\ buf s = concat qs /\
    Permutation (ps ++ counted_buf (cur s) qs ++ pend (cur s) ++ all_packets (todo s)) (all_packets progs).

Lemma all_packets_take t : forall todo k p rest,
  nth_error todo t = Some ((k, p) :: rest) ->
  Permutation (p :: all_packets (set_nth t rest todo)) (all_packets todo).
Proof.
  unfold all_packets.
  induction t as [|t IH]; intros [|l todo] k p rest H; try discriminate.
  - cbn in H. injection H as ->. cbn. reflexivity.
  - cbn in H. cbn [set_nth map concat].
    rewrite Permutation_middle. apply Permutation_app_head. apply (IH _ k). exact H.
Qed.

Lemma inv_init progs : Inv progs (init progs).
Proof. exists [], []. cbn. repeat split; reflexivity. Qed.

Lemma concat_snoc (ps : list bytes) (p : bytes) : concat (ps ++ [p]) = concat ps ++ p.
Proof. rewrite concat_app. cbn. rewrite app_nil_r. reflexivity. Qed.

Lemma inv_step progs s t : Inv progs s -> Inv progs (step s t).
Proof.
  intros (ps & qs & Hc & Hb & Hp). unfold step.
  destruct (cur s) as [[h c]|] eqn:C.
  - destruct (Nat.eqb h t); cbn [negb]; [|exists ps, qs; rewrite C; auto].
    destruct c; cbn [counted_buf pend app] in Hp.
    + (* PWrite *) exists (ps ++ [p]), qs. cbn. rewrite Hc, concat_snoc. repeat split; [exact Hb|].
      rewrite <- Hp. rewrite <- !app_assoc. apply Permutation_app_head. cbn.
      rewrite (Permutation_app_comm qs (p :: _)). cbn. apply perm_skip. apply Permutation_app_comm.
    + (* PAppend *) exists ps, (qs ++ [p]). cbn. rewrite Hb, concat_snoc. repeat split; [exact Hc|].
      rewrite <- Hp. apply Permutation_app_head. rewrite <- app_assoc. reflexivity.
    + (* PAppendFlush *) exists ps, (qs ++ [p]). cbn. rewrite Hb, concat_snoc. repeat split; [exact Hc|].
      rewrite <- Hp. apply Permutation_app_head. rewrite <- app_assoc. reflexivity.
    + (* PFlushW *) exists (ps ++ qs), qs. cbn. rewrite Hc, Hb, concat_app. repeat split.
      rewrite <- Hp. rewrite <- app_assoc. reflexivity.
    + (* PFlushC *) exists ps, []. cbn. repeat split; [exact Hc|]. exact Hp.
    + (* PDone *) exists ps, qs. cbn. repeat split; assumption.
  - destruct (nth_error (todo s) t) as [[|[k p] rest]|] eqn:N;
      try (exists ps, qs; rewrite C; auto).
    exists ps, qs. cbn [conn buf cur todo]. repeat split; [exact Hc|exact Hb|].
    cbn [counted_buf pend] in Hp. rewrite <- Hp.
    apply Permutation_app_head.
    pose proof (all_packets_take t _ k _ _ N) as T.
    destruct k; cbn [enter counted_buf pend app];
      apply Permutation_app_head; exact T.
Qed.

Theorem inv_run progs sched : Inv progs (run sched (init progs)).
Proof.
  unfold run. generalize (inv_init progs). generalize (init progs).
  induction sched as [|t sched IH]; intros s H; cbn [fold_left]; [exact H|].
  apply IH. apply inv_step. exact H.
Qed.

Lemma all_packets_done todo : Forall (fun l : list (kind * bytes) => l = []) todo -> all_packets todo = [].
Proof.
  unfold all_packets. induction 1 as [|l r Hl _ IH]; [reflexivity|]. subst l. cbn. exact IH.
Qed.

(* For EVERY schedule: what is on the wire is a concatenation of whole packets of the programs,
   in some order; when all writers are done nothing was lost or duplicated. *)
Theorem no_interleaving progs sched :
  let s := run sched (init progs) in
  exists ps qs, conn s = concat ps /\ buf s = concat qs /\
    (forall p, In p ps -> In p (all_packets progs)) /\
    (finished s -> Permutation (ps ++ qs) (all_packets progs)).
Proof.
  cbn zeta. destruct (inv_run progs sched) as (ps & qs & Hc & Hb & Hp).
  exists ps, qs. repeat split; try assumption.
  - intros p Hin. eapply Permutation_in; [exact Hp|]. apply in_or_app. left. exact Hin.
  - intros [Hcur Htodo]. rewrite Hcur in Hp. cbn [counted_buf pend app] in Hp.
    rewrite (all_packets_done _ Htodo), app_nil_r in Hp. exact Hp.
Qed.
