(* For every schedule of the write loop, the handlers and the publishers: when nothing is left to
   do, the write buffer is empty — every packet handed to WritePacket is on the wire.  The stale
   variant (queue sampled before the lock) is refuted by a concrete schedule. *)
From MV Require Import Base.Val Conc.WriteQueue.
From Coq Require Import Lia.

(* somebody is committed to flushing the buffer *)
Definition will_flush (s : st) : Prop :=
  match cur s with
  | Some (t, c) =>
      match c with
      | CFlushW | CFlushC => True
      | CDecide _ _ => t = O               (* the write loop is about to decide *)
      | CDone => False
      end
  | None => False
  end.

(* the invariant: a non-empty buffer is always owed a flush *)
Definition Inv (s : st) : Prop :=
  buf s <> [] -> queue s <> [] \/ wl s <> None \/ will_flush s.

Lemma inv_init q hs : Inv (init q hs).
Proof. intro H. cbn in H. contradiction. Qed.

Lemma app_not_nil {A} (l : list A) (x : A) : l ++ [x] <> [].
Proof. destruct l; discriminate. Qed.

(* the state did not change: re-establish the invariant from the (possibly rewritten) hypothesis *)
Ltac same I :=
  let Hb := fresh "Hb" in let H := fresh "H" in
  intro Hb; destruct (I Hb) as [H|[H|H]];
  [left; congruence | right; left; congruence | right; right; exact H].

Lemma inv_step s a : Inv s -> Inv (step false s a).
Proof.
  intro I. unfold Inv in *. destruct a as [t big | p].
  2:{ cbn. intros Hb. left. apply app_not_nil. }
  unfold step. destruct (cur s) as [[h c]|] eqn:C.
  - destruct (Nat.eqb h t) eqn:E.
    + apply PeanoNat.Nat.eqb_eq in E. subst h.
      destruct c as [p sampled| | |]; cbn [exec].
      * (* CDecide *)
        destruct (is_nil (queue s)) eqn:Q.
        -- destruct (is_nil (buf s)) eqn:B; cbn [buf queue wl cur]; intro Hb.
           ++ destruct (buf s); [contradiction|discriminate].
           ++ right. right. unfold will_flush. cbn. exact Logic.I.
        -- destruct (is_nil (buf s) && big) eqn:B; cbn [buf queue wl cur]; intro Hb.
           ++ left. destruct (queue s); [discriminate|discriminate].
           ++ left. destruct (queue s); [discriminate|discriminate].
      * (* CFlushW *) cbn [buf queue wl cur]. intro Hb. right. right. unfold will_flush. cbn. exact Logic.I.
      * (* CFlushC *) cbn [buf queue wl cur]. intro Hb. contradiction.
      * (* CDone *) cbn [buf queue wl cur]. intro Hb.
        destruct (I Hb) as [H|[H|H]]; [left; exact H|right; left; exact H|].
        unfold will_flush in H. rewrite C in H. contradiction.
    + destruct t as [|i]; [|exact I].
      destruct (wl s) eqn:W; [same I|].
      destruct (queue s) as [|p q] eqn:Q; [same I|].
      cbn [buf queue wl cur]. intro Hb. right. left. discriminate.
  - destruct t as [|i].
    + destruct (wl s) as [p|] eqn:W.
      * cbn [buf queue wl cur]. intro Hb. right. right. unfold will_flush. cbn. reflexivity.
      * destruct (queue s) as [|p q] eqn:Q; [same I|].
        cbn [buf queue wl cur]. intro Hb. right. left. discriminate.
    + destruct (nth_error (pre s) i) as [[[p sample]|]|] eqn:P.
      * (* cannot happen without stale, but harmless: the sampled decision is ignored when stale = false *)
        cbn [buf queue wl cur]. intro Hb. destruct (I Hb) as [H|[H|H]]; [left; exact H|right; left; exact H|].
        unfold will_flush in H. rewrite C in H. contradiction.
      * destruct (nth_error (todo s) i) as [[|p rest]|]; try exact I.
        cbn [buf queue wl cur]. intro Hb. destruct (I Hb) as [H|[H|H]]; [left; exact H|right; left; exact H|].
        unfold will_flush in H. rewrite C in H. contradiction.
      * destruct (nth_error (todo s) i) as [[|p rest]|]; try exact I.
        cbn [buf queue wl cur]. intro Hb. destruct (I Hb) as [H|[H|H]]; [left; exact H|right; left; exact H|].
        unfold will_flush in H. rewrite C in H. contradiction.
Qed.

Theorem inv_run q hs sched : Inv (run false sched (init q hs)).
Proof.
  unfold run. generalize (inv_init q hs). generalize (init q hs).
  induction sched as [|a sched IH]; intros s H; cbn [fold_left]; [exact H|].
  apply IH. apply inv_step. exact H.
Qed.

(* For EVERY schedule: once nothing is left to do, nothing is left in the write buffer. *)
Theorem flushed_when_finished q hs sched :
  let s := run false sched (init q hs) in finished s -> buf s = [].
Proof.
  cbn zeta. intros (Hc & Hw & Hq & _).
  pose proof (inv_run q hs sched) as I. unfold Inv in I.
  destruct (buf (run false sched (init q hs))) eqn:B; [reflexivity|].
  exfalso. destruct I as [H|[H|H]]; [discriminate|contradiction|contradiction|].
  unfold will_flush in H. rewrite Hc in H. exact H.
Qed.

(* With the queue sampled before the lock is taken the statement is false: one queued publish, one
   response; the handler samples "queue not empty", the write loop drains and writes, then the
   handler buffers its response for a flush that never comes. *)
Example stale_strands :
  let s := run true [AStep 1 false;                                               (* handler samples: queue not empty *)
                     AStep 0 false; AStep 0 false; AStep 0 false; AStep 0 false;  (* write loop drains and writes *)
                     AStep 1 false; AStep 1 false; AStep 1 false]                 (* handler buffers, nobody flushes *)
               (init [[7]] [[[8]]]) in
  finished s /\ buf s = [8] /\ conn s = [7].
Proof. vm_compute. repeat split; repeat constructor. Qed.

(* with the queue read inside the lock a response buffered behind a queued publish is flushed by
   the write loop when it writes that publish *)
Example fresh_flushes :
  let s := run false [AStep 1 false; AStep 1 false; AStep 1 false;
                      AStep 0 false; AStep 0 false; AStep 0 false; AStep 0 false; AStep 0 false; AStep 0 false]
               (init [[7]] [[[8]]]) in
  finished s /\ buf s = [] /\ conn s = [8; 7].
Proof. vm_compute. repeat split; repeat constructor. Qed.
