(* C10 — interleaving model of packet-identifier allocation for ONE subscriber by several concurrent
   publishToClient calls (clients.go Client.NextPacketID + server.go publishToClient's Inflight.Set).
   Shared: the packet-id counter and the set of identifiers in use.  A thread allocates (load the counter,
   scan for a free identifier, store the counter) and then records its message under the identifier (Set).
   Two variants: [atomic] - the allocation is one step (NextPacketID holds the client lock: cl.Lock) - and
   [split] - load, scan and store are separate steps (what a shared/read lock allows).  No proofs here. *)
From MV Require Import Base.Val.
Open Scope N_scope.

Record shared := { sh_counter : N; sh_used : list N }.

(* where a thread is *)
Inductive pc :=
| Start
| Loaded (t : N)        (* split only: the counter value read *)
| Scanned (i : N)       (* split only: the free identifier found *)
| Got (i : N)           (* NextPacketID returned i (counter stored); Inflight.Set not yet done *)
| Done (i : N).         (* the message is recorded under i *)

Definition usedb (i : N) (u : list N) : bool := existsb (N.eqb i) u.

(* the scan of NextPacketID from counter value t: the first identifier t+1, t+2, ..., max, 1, 2, ... that is not in use *)
Fixpoint scan_loop (fuel : nat) (maxpid : N) (u : list N) (started i : N) (overflowed : bool) : option N :=
  match fuel with
  | O => None
  | S f =>
      if overflowed && (i =? started) then None
      else if maxpid <=? i then scan_loop f maxpid u started 0 true
      else let i' := i + 1 in if usedb i' u then scan_loop f maxpid u started i' overflowed else Some i'
  end.
Definition scan (maxpid : N) (u : list N) (t : N) : option N :=
  scan_loop (N.to_nat (2 * maxpid + 4)) maxpid u t t false.

Fixpoint set_nth {A} (n : nat) (x : A) (l : list A) : list A :=
  match l, n with
  | [], _ => []
  | _ :: r, O => x :: r
  | y :: r, S n' => y :: set_nth n' x r
  end.

(* one step of thread j *)
Definition step_atomic (maxpid : N) (sh : shared) (ths : list pc) (j : nat) : shared * list pc :=
  match nth_error ths j with
  | Some Start =>
      match scan maxpid (sh_used sh) (sh_counter sh) with
      | Some i => ({| sh_counter := i; sh_used := sh_used sh |}, set_nth j (Got i) ths)
      | None => (sh, ths)
      end
  | Some (Got i) => ({| sh_counter := sh_counter sh; sh_used := i :: sh_used sh |}, set_nth j (Done i) ths)
  | _ => (sh, ths)
  end.

Definition step_split (maxpid : N) (sh : shared) (ths : list pc) (j : nat) : shared * list pc :=
  match nth_error ths j with
  | Some Start => (sh, set_nth j (Loaded (sh_counter sh)) ths)
  | Some (Loaded t) =>
      match scan maxpid (sh_used sh) t with
      | Some i => (sh, set_nth j (Scanned i) ths)
      | None => (sh, ths)
      end
  | Some (Scanned i) => ({| sh_counter := i; sh_used := sh_used sh |}, set_nth j (Got i) ths)
  | Some (Got i) => ({| sh_counter := sh_counter sh; sh_used := i :: sh_used sh |}, set_nth j (Done i) ths)
  | _ => (sh, ths)
  end.

(* a schedule: which thread moves next *)
Fixpoint run_sched (step : shared -> list pc -> nat -> shared * list pc) (sh : shared) (ths : list pc) (sched : list nat)
  : shared * list pc :=
  match sched with
  | [] => (sh, ths)
  | j :: r => let '(sh', ths') := step sh ths j in run_sched step sh' ths' r
  end.

(* identifiers handed out so far *)
Definition id_of (p : pc) : list N := match p with Got i | Done i => [i] | _ => [] end.
Definition ids (ths : list pc) : list N := flat_map id_of ths.
