(* Model of mempool/bufpool.go: the packet buffer pool (Buffer, BufferWithCap over sync.Pool) and
   its users, as a labelled transition system over atomic actions.  No proofs in this file.

     Buffer.Get():            return b.pool.Get()            -- a pointer to a bytes.Buffer
     Buffer.Put(x):           x.Reset(); b.pool.Put(x)
     BufferWithCap.Get():     return b.bp.Get()
     BufferWithCap.Put(x):    if x.Cap() > b.max { return }; b.bp.Put(x)
     sync.Pool.New:           return new(bytes.Buffer)

   A buffer is a pointer: its identity [bid] and, in the heap, its capacity and length (contents
   are abstracted to their length: the property only speaks about emptiness).  sync.Pool is a
   multiset of pointers [pool]; it is not verified but modelled: Get returns any pooled item or
   misses although items are pooled (then New allocates), and items may vanish at any time (GC) —
   all as oracle arguments of the actions, over which the theorems quantify.
   A schedule is a list of actions of arbitrary threads.  An action is enabled only if the thread
   follows get -> use -> put on the buffer: it writes and puts only buffers it obtained and has
   not put since (the caller's obligation assumed by the property).  Put is two atomic steps
   (Reset / capacity check, then sync.Pool.Put), so other threads' actions can come in between. *)
From MV Require Import Base.Val.
Open Scope N_scope.

Record bufv : Type := mkBuf { bcap : N; blen : N }.

Inductive phase : Type := Using | InPut.
Record hold : Type := mkHold { h_tid : N; h_bid : N; h_phase : phase }.

Definition heap_t := list (N * bufv).

Record state : Type := mkState {
  heap : heap_t;         (* every buffer allocated so far *)
  pool : list N;         (* what sync.Pool keeps *)
  held : list hold       (* obtained and not yet back in the pool / dropped *)
}.

Definition init : state := mkState [] [] [].

Fixpoint lookup (h : heap_t) (b : N) : option bufv :=
  match h with
  | [] => None
  | (b', v) :: r => if b' =? b then Some v else lookup r b
  end.

Fixpoint upd (h : heap_t) (b : N) (v : bufv) : heap_t :=
  match h with
  | [] => [(b, v)]
  | (b', v') :: r => if b' =? b then (b, v) :: r else (b', v') :: upd r b v
  end.

Fixpoint remove_nth {A} (i : nat) (l : list A) : list A :=
  match l, i with
  | [], _ => []
  | _ :: r, O => r
  | x :: r, S j => x :: remove_nth j r
  end.

Definition phase_eqb (p q : phase) : bool :=
  match p, q with Using, Using => true | InPut, InPut => true | _, _ => false end.

Definition holds (t b : N) (p : phase) (l : list hold) : bool :=
  existsb (fun h => (h_tid h =? t) && (h_bid h =? b) && phase_eqb (h_phase h) p) l.

Definition drop_hold (b : N) (l : list hold) : list hold :=
  filter (fun h => negb (h_bid h =? b)) l.

Definition set_phase (b : N) (p : phase) (l : list hold) : list hold :=
  map (fun h => if h_bid h =? b then mkHold (h_tid h) (h_bid h) p else h) l.

Definition held_ids (s : state) : list N := map h_bid (held s).

(* oracle of sync.Pool.Get *)
Inductive choice : Type :=
| CPool (i : nat)     (* the i-th pooled item is returned *)
| CNew (b : N).       (* miss: New() allocates; b = the fresh pointer *)

Inductive action : Type :=
| AGet (t : N) (c : choice)
| AWrite (t b n newcap : N)      (* use: append n bytes; newcap = capacity chosen by bytes.Buffer if it must grow *)
| APutReset (t b : N)            (* first half of Put: capacity check (capped pools), x.Reset() *)
| APutPool (t b : N)             (* second half: sync.Pool.Put *)
| AGc (i : nat).                 (* sync.Pool forgets its i-th item *)

Inductive obs : Type :=
| ONone
| OGot (b : N) (v : bufv)        (* Get returned pointer b, which had this capacity / length *)
| OKept (b : N)
| ODropped (b : N).              (* capped Put: too large, not pooled *)

(* max = 0: uncapped (NewBuffer(max <= 0)); otherwise BufferWithCap *)
Definition step (max : N) (s : state) (a : action) : option (state * obs) :=
  match a with
  | AGet t (CPool i) =>
      match nth_error (pool s) i with
      | Some b =>
          match lookup (heap s) b with
          | Some v => Some (mkState (heap s) (remove_nth i (pool s)) (mkHold t b Using :: held s), OGot b v)
          | None => None
          end
      | None => None
      end
  | AGet t (CNew b) =>
      match lookup (heap s) b with
      | Some _ => None                      (* not a fresh pointer *)
      | None => let v := mkBuf 0 0 in
                Some (mkState (upd (heap s) b v) (pool s) (mkHold t b Using :: held s), OGot b v)
      end
  | AWrite t b n newcap =>
      if holds t b Using (held s) then
        match lookup (heap s) b with
        | Some v =>
            let len' := blen v + n in
            if len' <=? bcap v then Some (mkState (upd (heap s) b (mkBuf (bcap v) len')) (pool s) (held s), ONone)
            else if len' <=? newcap then Some (mkState (upd (heap s) b (mkBuf newcap len')) (pool s) (held s), ONone)
            else None                       (* bytes.Buffer never has cap < len *)
        | None => None
        end
      else None
  | APutReset t b =>
      if holds t b Using (held s) then
        match lookup (heap s) b with
        | Some v =>
            if (0 <? max) && (max <? bcap v)
            then Some (mkState (heap s) (pool s) (drop_hold b (held s)), ODropped b)
            else Some (mkState (upd (heap s) b (mkBuf (bcap v) 0)) (pool s) (set_phase b InPut (held s)), OKept b)
        | None => None
        end
      else None
  | APutPool t b =>
      if holds t b InPut (held s)
      then Some (mkState (heap s) (b :: pool s) (drop_hold b (held s)), ONone)
      else None
  | AGc i =>
      match nth_error (pool s) i with
      | Some _ => Some (mkState (heap s) (remove_nth i (pool s)) (held s), ONone)
      | None => None
      end
  end.

(* a schedule: any list of actions; None if some action is not enabled *)
Fixpoint run (max : N) (s : state) (acts : list action) : option state :=
  match acts with
  | [] => Some s
  | a :: r => match step max s a with
              | Some (s', _) => run max s' r
              | None => None
              end
  end.

Definition reachable (max : N) (s : state) : Prop := exists acts, run max init acts = Some s.

(* ---------- specification vocabulary ---------- *)
Definition capped (max : N) : bool := 0 <? max.
Definition cap_ok (max : N) (v : bufv) : bool := negb (capped max) || (bcap v <=? max).

(* ---------- engine ----------
   case = (max events), max = 0 for the uncapped constructor; events in the order of a global
   sequence counter (read after Get returns / after a write / before Put is called):
     (0 tid id len cap)      Get returned the buffer with pointer identity id
     (1 tid id n len cap)    n bytes written to it; length and capacity afterwards
     (2 tid id)              Put
   The model is run on the same events with the oracle reconstructed from the identities.  Only
   the property's observables are judged: emptiness and capacity at Get, and that the buffer was
   neither held by anybody nor dropped by the pool.  The capacity of a buffer is taken from the
   observation (bytes.Buffer's growth policy is not part of the property). *)
Fixpoint index_of (b : N) (l : list N) : option nat :=
  match l with
  | [] => None
  | x :: r => if x =? b then Some O else match index_of b r with Some i => Some (S i) | None => None end
  end.

Definition set_cap (s : state) (b : N) (c : N) : state :=
  match lookup (heap s) b with
  | Some v => mkState (upd (heap s) b (mkBuf c (blen v))) (pool s) (held s)
  | None => s
  end.

Inductive tr : Type :=
| TOk (s : state) (reused dropped : N)
| TFail (code : N) (tg : bytes) (info : list val).

Definition ev_step (max : N) (s : state) (reused dropped : N) (e : val) : tr :=
  match e with
  | VL [VN 0; VN t; VN b; VN len; VN cap] =>
      if existsb (N.eqb b) (held_ids s) then TFail 1 (tag "get-held-by-another") [VN b]
      else
        let c := match index_of b (pool s) with Some i => Some (CPool i, true) | None =>
                   match lookup (heap s) b with None => Some (CNew b, false) | Some _ => None end end in
        match c with
        | None =>
            (* allocated earlier, not pooled, not held: the model's pool dropped it *)
            if negb (cap_ok max (mkBuf cap len)) then TFail 1 (tag "get-over-cap") [VN b; VN cap]
            else TFail 2 (tag "get-dropped-buffer") [VN b]
        | Some (ch, re) =>
            match step max s (AGet t ch) with
            | Some (s', OGot _ v) =>
                if negb (len =? 0) then TFail 1 (tag "get-not-empty") [VN b; VN len]
                else if negb (cap_ok max (mkBuf cap len)) then TFail 1 (tag "get-over-cap") [VN b; VN cap]
                else if negb (blen v =? len) then TFail 2 (tag "get-len") [VN b; VN (blen v)]
                else TOk (set_cap s' b cap) (if re then reused + 1 else reused) dropped
            | _ => TFail 2 (tag "get-model-stuck") [VN b]
            end
        end
  | VL [VN 1; VN t; VN b; VN n; VN len; VN cap] =>
      match step max s (AWrite t b n cap) with
      | Some (s', _) =>
          match lookup (heap s') b with
          | Some v => if blen v =? len then TOk (set_cap s' b cap) reused dropped
                      else TFail 2 (tag "write-len") [VN b; VN (blen v)]
          | None => TFail 9 [] []
          end
      | None => TFail 9 (tag "write-undisciplined") [VN b]
      end
  | VL [VN 2; VN t; VN b] =>
      match step max s (APutReset t b) with
      | Some (s', ODropped _) => TOk s' reused (dropped + 1)
      | Some (s', _) =>
          match step max s' (APutPool t b) with
          | Some (s'', _) => TOk s'' reused dropped
          | None => TFail 2 (tag "put-model-stuck") [VN b]
          end
      | None => TFail 9 (tag "put-undisciplined") [VN b]
      end
  | _ => TFail 9 [] []
  end.

Fixpoint ev_run (max : N) (s : state) (reused dropped : N) (evs : list val) : tr :=
  match evs with
  | [] => TOk s reused dropped
  | e :: r => match ev_step max s reused dropped e with
              | TOk s' re dr => ev_run max s' re dr r
              | f => f
              end
  end.

(* ---------- the order of effects inside Put ----------
   The theorems rest on Put being "x.Reset(); then b.pool.Put(x)": the buffer is emptied while its
   holder still owns it, and nothing touches it once sync.Pool has it.  The harness reads the body
   of the Put methods from the source the binary was built from (go/ast) and reports it as a list
   of abstract statements in execution order (deferred calls last, in reverse order):
     1 = x.Reset()            2 = <recv>.pool.Put(x)       3 = if x.Cap() > max { return }
     4 = delegation to another Put(x)   5 = any other use of x   9 = something the reader cannot place
   [put_shape_ok]: some Reset precedes the release, nothing but Resets / capacity guards lies
   between that Reset and the release, exactly one release, and nothing follows it. *)
Fixpoint only (allowed : list N) (l : list N) : bool :=
  match l with [] => true | x :: r => existsb (N.eqb x) allowed && only allowed r end.

Definition is_nil_N (l : list N) : bool := match l with [] => true | _ => false end.

(* after a Reset has been seen: only 1 / 3 until the release, which must be last *)
Fixpoint after_reset (l : list N) : bool :=
  match l with
  | [] => false
  | x :: r => if x =? 2 then is_nil_N r
              else if (x =? 1) || (x =? 3) then after_reset r else false
  end.

Fixpoint put_shape_ok (l : list N) : bool :=
  match l with
  | [] => false
  | x :: r => if x =? 1 then after_reset r || put_shape_ok r
              else if (x =? 3) || (x =? 5) then put_shape_ok r
              else false
  end.

(* the capped wrapper: the capacity guard, then the delegation to the pool's Put *)
Definition capped_put_shape_ok (l : list N) : bool :=
  match l with [3; 4] => true | _ => false end.

(* a use of x (Reset or anything else) after the release, or a release that no Reset precedes *)
Fixpoint touches_after_release (l : list N) : bool :=
  match l with
  | [] => false
  | x :: r => if x =? 2 then negb (only [3] r) else touches_after_release r
  end.
Fixpoint release_without_reset (l : list N) : bool :=
  match l with
  | [] => false
  | x :: r => if x =? 1 then false else if x =? 2 then true else release_without_reset r
  end.

(* The swapped order, "b.pool.Put(x); then x.Reset()" (e.g. defer x.Reset()), as two more atomic
   actions on the same states: the release makes the buffer available while its holder is still
   inside Put and has not emptied it; the late Reset then empties whatever is there. *)
Inductive action2 : Type :=
| Act (a : action)
| BRelease (t b : N)         (* sync.Pool.Put(x) first *)
| BLateReset (t b : N).      (* x.Reset() afterwards *)

Definition step2 (max : N) (s : state) (a : action2) : option (state * obs) :=
  match a with
  | Act a => step max s a
  | BRelease t b =>
      if holds t b Using (held s)
      then Some (mkState (heap s) (b :: pool s) (set_phase b InPut (held s)), ONone)
      else None
  | BLateReset t b =>
      if holds t b InPut (held s) then
        match lookup (heap s) b with
        | Some v => Some (mkState (upd (heap s) b (mkBuf (bcap v) 0)) (pool s)
                                  (filter (fun h => negb ((h_tid h =? t) && (h_bid h =? b))) (held s)), ONone)
        | None => None
        end
      else None
  end.

(* run a schedule of the swapped pool, collecting what each Get handed out *)
Fixpoint run2 (max : N) (s : state) (acts : list action2) : option (state * list obs) :=
  match acts with
  | [] => Some (s, [])
  | a :: r => match step2 max s a with
              | Some (s', o) => match run2 max s' r with
                                | Some (sf, os) => Some (sf, o :: os)
                                | None => None
                                end
              | None => None
              end
  end.

(* thread 1 obtains buffer 7, writes 5 bytes and starts Put: release first.  Thread 2 obtains 7
   from the pool — 5 bytes in it — and writes 3 more; thread 1's late Reset wipes them. *)
Definition swapped_sched : list action2 :=
  [Act (AGet 1 (CNew 7)); Act (AWrite 1 7 5 64); BRelease 1 7;
   Act (AGet 2 (CPool 0)); Act (AWrite 2 7 3 64); BLateReset 1 7].

(* structural case = (8 kind stmts): kind 0 = Buffer.Put, 1 = BufferWithCap.Put
   stress case     = (7 max gets viols): parallel canary run; viol = (kind tid id want seen)
                     kind 0: Get returned a buffer of length [seen]; 1: the buffer a goroutine
                     owns changed length (want/seen); 2: it contains a byte of goroutine [seen] *)
Definition check_put_body (kind : N) (l : list N) : val :=
  match kind with
  | 0 =>
      if put_shape_ok l then verdict 0 (tag "put-body") true []
      else if touches_after_release l then
        verdict 1 (tag "put-touches-buffer-after-release") true [VL (map VN l)]
      else if release_without_reset l then verdict 1 (tag "put-releases-without-reset") true [VL (map VN l)]
      else verdict 2 (tag "put-body") true [VL (map VN l)]
  | 1 =>
      if capped_put_shape_ok l then verdict 0 (tag "capped-put-body") true []
      else if only [1; 2; 4; 5] l then verdict 1 (tag "capped-put-without-guard") true [VL (map VN l)]
      else verdict 2 (tag "capped-put-body") true [VL (map VN l)]
  | _ => bad_case
  end.

Definition check_stress (max gets : N) (viols : list val) : val :=
  match viols with
  | [] => verdict 0 (tag "stress") (0 <? gets) [VN gets]
  | VL (VN 0 :: _) as v :: _ => verdict 1 (tag "stress-get-not-empty") true [v]
  | VL (VN 1 :: _) as v :: _ => verdict 1 (tag "stress-owned-buffer-changed") true [v]
  | VL (VN 2 :: _) as v :: _ => verdict 1 (tag "stress-foreign-bytes") true [v]
  | _ => bad_case
  end.

(* ENGINE pool Conc.Pool.pool_engine *)
Definition pool_engine (c : val) : val :=
  match c with
  | VL [VN 8; VN kind; VL stmts] =>
      match map_opt as_N stmts with Some l => check_put_body kind l | None => bad_case end
  | VL [VN 7; VN max; VN gets; VL viols] => check_stress max gets viols
  | VL [VN max; VL evs] =>
      let tg := if capped max then tag "capped" else tag "uncapped" in
      match ev_run max init 0 0 evs with
      | TOk _ reused dropped => verdict 0 tg ((0 <? reused) || (0 <? dropped)) [VN reused; VN dropped]
      | TFail 9 _ _ => bad_case
      | TFail code t info => verdict code t true info
      end
  | _ => bad_case
  end.
