(* Model of mempool/bufpool.go: the packet buffer pool (Buffer, BufferWithCap over sync.Pool) and
   its users, as a labelled transition system over atomic actions.  No proofs in this file.

     Buffer.Get():            return b.pool.Get()            -- a pointer to a bytes.Buffer
     Buffer.Put(x):           x.Reset(); b.pool.Put(x)
     BufferWithCap.Get():     return b.bp.Get()
     BufferWithCap.Put(x):    if x.Cap() > b.max { return }; b.bp.Put(x)
     sync.Pool.New:           return new(bytes.Buffer)

   A buffer is a pointer: its identity [bid] and, in the heap, its capacity and length (contents
   are abstracted to their length: the property only speaks about emptiness).  sync.Pool is a
   multiset of pointers [pool]; it is not verified but modelled: Get returns any pooled item or
   misses although items are pooled (then New allocates), and items may vanish at any time (GC) —
   all as oracle arguments of the actions, over which the theorems quantify.
   A schedule is a list of actions of arbitrary threads.  An action is enabled only if the thread
   follows get -> use -> put on the buffer: it writes and puts only buffers it obtained and has
   not put since (the caller's obligation assumed by the property).  Put is two atomic steps
   (Reset / capacity check, then sync.Pool.Put), so other threads' actions can come in between. *)
From MV Require Import Base.Val.
Open Scope N_scope.

Record bufv : Type := mkBuf { bcap : N; blen : N }.

Inductive phase : Type := Using | InPut.
Record hold : Type := mkHold { h_tid : N; h_bid : N; h_phase : phase }.

Definition heap_t := list (N * bufv).

Record state : Type := mkState {
  heap : heap_t;         (* every buffer allocated so far *)
  pool : list N;         (* what sync.Pool keeps *)
  held : list hold       (* obtained and not yet back in the pool / dropped *)
}.

Definition init : state := mkState [] [] [].

Fixpoint lookup (h : heap_t) (b : N) : option bufv :=
  match h with
  | [] => None
  | (b', v) :: r => if b' =? b then Some v else lookup r b
  end.

Fixpoint upd (h : heap_t) (b : N) (v : bufv) : heap_t :=
  match h with
  | [] => [(b, v)]
  | (b', v') :: r => if b' =? b then (b, v) :: r else (b', v') :: upd r b v
  end.

Fixpoint remove_nth {A} (i : nat) (l : list A) : list A :=
  match l, i with
  | [], _ => []
  | _ :: r, O => r
  | x :: r, S j => x :: remove_nth j r
  end.

Definition phase_eqb (p q : phase) : bool :=
  match p, q with Using, Using => true | InPut, InPut => true | _, _ => false end.

Definition holds (t b : N) (p : phase) (l : list hold) : bool :=
  existsb (fun h => (h_tid h =? t) && (h_bid h =? b) && phase_eqb (h_phase h) p) l.

Definition drop_hold (b : N) (l : list hold) : list hold :=
  filter (fun h => negb (h_bid h =? b)) l.

Definition set_phase (b : N) (p : phase) (l : list hold) : list hold :=
  map (fun h => if h_bid h =? b then mkHold (h_tid h) (h_bid h) p else h) l.

Definition held_ids (s : state) : list N := map h_bid (held s).

(* oracle of sync.Pool.Get *)
Inductive choice : Type :=
| CPool (i : nat)     (* the i-th pooled item is returned *)
| CNew (b : N).       (* miss: New() allocates; b = the fresh pointer *)

Inductive action : Type :=
| AGet (t : N) (c : choice)
| AWrite (t b n newcap : N)      (* use: append n bytes; newcap = capacity chosen by bytes.Buffer if it must grow *)
| APutReset (t b : N)            (* first half of Put: capacity check (capped pools), x.Reset() *)
| APutPool (t b : N)             (* second half: sync.Pool.Put *)
| AGc (i : nat).                 (* sync.Pool forgets its i-th item *)

Inductive obs : Type :=
| ONone
| OGot (b : N) (v : bufv)        (* Get returned pointer b, which had this capacity / length *)
| OKept (b : N)
| ODropped (b : N).              (* capped Put: too large, not pooled *)

(* max = 0: uncapped (NewBuffer(max <= 0)); otherwise BufferWithCap *)
Definition step (max : N) (s : state) (a : action) : option (state * obs) :=
  match a with
  | AGet t (CPool i) =>
      match nth_error (pool s) i with
      | Some b =>
          match lookup (heap s) b with
          | Some v => Some (mkState (heap s) (remove_nth i (pool s)) (mkHold t b Using :: held s), OGot b v)
          | None => None
          end
      | None => None
      end
  | AGet t (CNew b) =>
      match lookup (heap s) b with
      | Some _ => None                      (* not a fresh pointer *)
      | None => let v := mkBuf 0 0 in
                Some (mkState (upd (heap s) b v) (pool s) (mkHold t b Using :: held s), OGot b v)
      end
  | AWrite t b n newcap =>
      if holds t b Using (held s) then
        match lookup (heap s) b with
        | Some v =>
            let len' := blen v + n in
            if len' <=? bcap v then Some (mkState (upd (heap s) b (mkBuf (bcap v) len')) (pool s) (held s), ONone)
            else if len' <=? newcap then Some (mkState (upd (heap s) b (mkBuf newcap len')) (pool s) (held s), ONone)
            else None                       (* bytes.Buffer never has cap < len *)
        | None => None
        end
      else None
  | APutReset t b =>
      if holds t b Using (held s) then
        match lookup (heap s) b with
        | Some v =>
            if (0 <? max) && (max <? bcap v)
            then Some (mkState (heap s) (pool s) (drop_hold b (held s)), ODropped b)
            else Some (mkState (upd (heap s) b (mkBuf (bcap v) 0)) (pool s) (set_phase b InPut (held s)), OKept b)
        | None => None
        end
      else None
  | APutPool t b =>
      if holds t b InPut (held s)
      then Some (mkState (heap s) (b :: pool s) (drop_hold b (held s)), ONone)
      else None
  | AGc i =>
      match nth_error (pool s) i with
      | Some _ => Some (mkState (heap s) (remove_nth i (pool s)) (held s), ONone)
      | None => None
      end
  end.

(* a schedule: any list of actions; None if some action is not enabled *)
Fixpoint run (max : N) (s : state) (acts : list action) : option state :=
  match acts with
  | [] => Some s
  | a :: r => match step max s a with
              | Some (s', _) => run max s' r
              | None => None
              end
  end.

Definition reachable (max : N) (s : state) : Prop := exists acts, run max init acts = Some s.

(* ---------- specification vocabulary ---------- *)
Definition capped (max : N) : bool := 0 <? max.
Definition cap_ok (max : N) (v : bufv) : bool := negb (capped max) || (bcap v <=? max).

(* ---------- engine ----------
   case = (max events), max = 0 for the uncapped constructor; events in the order of a global
   sequence counter (read after Get returns / after a write / before Put is called):
     (0 tid id len cap)      Get returned the buffer with pointer identity id
     (1 tid id n len cap)    n bytes written to it; length and capacity afterwards
     (2 tid id)              Put
   The model is run on the same events with the oracle reconstructed from the identities.  Only
   the property's observables are judged: emptiness and capacity at Get, and that the buffer was
   neither held by anybody nor dropped by the pool.  The capacity of a buffer is taken from the
   observation (bytes.Buffer's growth policy is not part of the property). *)
Fixpoint index_of (b : N) (l : list N) : option nat :=
  match l with
  | [] => None
  | x :: r => if x =? b then Some O else match index_of b r with Some i => Some (S i) | None => None end
  end.

Definition set_cap (s : state) (b : N) (c : N) : state :=
  match lookup (heap s) b with
  | Some v => mkState (upd (heap s) b (mkBuf c (blen v))) (pool s) (held s)
  | None => s
  end.

Inductive tr : Type :=
| TOk (s : state) (reused dropped : N)
| TFail (code : N) (tg : bytes) (info : list val).

Definition ev_step (max : N) (s : state) (reused dropped : N) (e : val) : tr :=
  match e with
  | VL [VN 0; VN t; VN b; VN len; VN cap] =>
      if existsb (N.eqb b) (held_ids s) then TFail 1 (tag "get-held-by-another") [VN b]
      else
        let c := match index_of b (pool s) with Some i => Some (CPool i, true) | None =>
                   match lookup (heap s) b with None => Some (CNew b, false) | Some _ => None end end in
        match c with
        | None =>
            (* allocated earlier, not pooled, not held: the model's pool dropped it *)
            if negb (cap_ok max (mkBuf cap len)) then TFail 1 (tag "get-over-cap") [VN b; VN cap]
            else TFail 2 (tag "get-dropped-buffer") [VN b]
        | Some (ch, re) =>
            match step max s (AGet t ch) with
            | Some (s', OGot _ v) =>
                if negb (len =? 0) then TFail 1 (tag "get-not-empty") [VN b; VN len]
                else if negb (cap_ok max (mkBuf cap len)) then TFail 1 (tag "get-over-cap") [VN b; VN cap]
                else if negb (blen v =? len) then TFail 2 (tag "get-len") [VN b; VN (blen v)]
                else TOk (set_cap s' b cap) (if re then reused + 1 else reused) dropped
            | _ => TFail 2 (tag "get-model-stuck") [VN b]
            end
        end
  | VL [VN 1; VN t; VN b; VN n; VN len; VN cap] =>
      match step max s (AWrite t b n cap) with
      | Some (s', _) =>
          match lookup (heap s') b with
          | Some v => if blen v =? len then TOk (set_cap s' b cap) reused dropped
                      else TFail 2 (tag "write-len") [VN b; VN (blen v)]
          | None => TFail 9 [] []
          end
      | None => TFail 9 (tag "write-undisciplined") [VN b]
      end
  | VL [VN 2; VN t; VN b] =>
      match step max s (APutReset t b) with
      | Some (s', ODropped _) => TOk s' reused (dropped + 1)
      | Some (s', _) =>
          match step max s' (APutPool t b) with
          | Some (s'', _) => TOk s'' reused dropped
          | None => TFail 2 (tag "put-model-stuck") [VN b]
          end
      | None => TFail 9 (tag "put-undisciplined") [VN b]
      end
  | _ => TFail 9 [] []
  end.

Fixpoint ev_run (max : N) (s : state) (reused dropped : N) (evs : list val) : tr :=
  match evs with
  | [] => TOk s reused dropped
  | e :: r => match ev_step max s reused dropped e with
              | TOk s' re dr => ev_run max s' re dr r
              | f => f
              end
  end.

(* ENGINE pool Conc.Pool.pool_engine *)
Definition pool_engine (c : val) : val :=
  match c with
  | VL [VN max; VL evs] =>
      let tg := if capped max then tag "capped" else tag "uncapped" in
      match ev_run max init 0 0 evs with
      | TOk _ reused dropped => verdict 0 tg ((0 <? reused) || (0 <? dropped)) [VN reused; VN dropped]
      | TFail 9 _ _ => bad_case
      | TFail code t info => verdict code t true info
      end
  | _ => bad_case
  end.
