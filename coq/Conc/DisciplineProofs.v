(* C33 — proofs about Conc/Discipline.v: the per-site check implies the pairwise statement
   (every two conflicting accesses to overlapping memory that may run concurrently are
   synchronised by the protection declared for a unit both touch). *)
From Coq Require Import List String Bool Arith Lia.
From MV Require Import Base.Val Conc.Locks Conc.Discipline.
Import ListNotations.
Open Scope string_scope.
Open Scope nat_scope.

(* ---- prefixes ---- *)

Lemma prefix_app : forall a b, prefix a b = true <-> exists c, b = (a ++ c)%list.
Proof.
  induction a as [|x a IH]; intros b; simpl.
  - split; [intros _; exists b; reflexivity | reflexivity].
  - destruct b as [|y b].
    + split; [discriminate | intros [c H]; discriminate].
    + rewrite andb_true_iff, String.eqb_eq, IH. split.
      * intros [-> [c ->]]. exists c. reflexivity.
      * intros [c H]. injection H as -> ->. split; [reflexivity | exists c; reflexivity].
Qed.

Lemma prefix_refl : forall a, prefix a a = true.
Proof. intros a. apply prefix_app. exists []. symmetry. apply app_nil_r. Qed.

Lemma prefix_trans : forall a b c, prefix a b = true -> prefix b c = true -> prefix a c = true.
Proof.
  intros a b c H1 H2. apply prefix_app in H1. apply prefix_app in H2.
  destruct H1 as [x ->]. destruct H2 as [y ->]. apply prefix_app. exists (x ++ y)%list.
  symmetry. apply app_assoc.
Qed.

Lemma prefix_length : forall a b, prefix a b = true -> length a <= length b.
Proof. intros a b H. apply prefix_app in H. destruct H as [c ->]. rewrite app_length. lia. Qed.

Lemma prefix_comparable : forall a b c, prefix a c = true -> prefix b c = true ->
  length a <= length b -> prefix a b = true.
Proof.
  induction a as [|x a IH]; intros b c Ha Hb Hl; [reflexivity|].
  destruct b as [|y b]; [simpl in Hl; lia|].
  destruct c as [|z c]; [simpl in Ha; discriminate|].
  simpl in *. apply andb_true_iff in Ha. apply andb_true_iff in Hb.
  destruct Ha as [Ha1 Ha2]. destruct Hb as [Hb1 Hb2].
  apply String.eqb_eq in Ha1. apply String.eqb_eq in Hb1. subst.
  rewrite String.eqb_refl. simpl. apply (IH b c Ha2 Hb2). lia.
Qed.

Lemma prefix_same_length : forall a b, prefix a b = true -> length a = length b -> a = b.
Proof.
  intros a b H Hl. apply prefix_app in H. destruct H as [c ->].
  rewrite app_length in Hl. destruct c; [symmetry; apply app_nil_r | simpl in Hl; lia].
Qed.

(* ---- the most specific unit ---- *)

Lemma inside_unit_spec : forall d p best u,
  (forall b, best = Some b -> prefix (u_path b) p = true) ->
  inside_unit d p best = Some u ->
  (best = Some u \/ In u d) /\ prefix (u_path u) p = true /\
  (forall v, In v d -> prefix (u_path v) p = true -> length (u_path v) <= length (u_path u)) /\
  (forall b, best = Some b -> length (u_path b) <= length (u_path u)).
Proof.
  induction d as [|x d IH]; intros p best u Hb H; simpl in H.
  - subst best. split; [left; reflexivity|]. split; [apply Hb; reflexivity|].
    split; [intros v []|]. intros b E. injection E as ->. lia.
  - destruct (prefix (u_path x) p) eqn:Ex.
    + destruct best as [b|].
      * destruct (Nat.ltb (length (u_path b)) (length (u_path x))) eqn:El.
        -- apply Nat.ltb_lt in El.
           destruct (IH p (Some x) u) as [H1 [H2 [H3 H4]]]; [intros b' E; injection E as <-; exact Ex | exact H |].
           split; [right; destruct H1 as [H1|H1]; [injection H1 as ->; left; reflexivity | right; exact H1]|].
           split; [exact H2|]. split.
           ++ intros v [<-|Hv] Hp; [apply H4; reflexivity | apply H3; assumption].
           ++ intros b' E. injection E as <-. specialize (H4 x eq_refl). lia.
        -- apply Nat.ltb_ge in El.
           destruct (IH p (Some b) u Hb H) as [H1 [H2 [H3 H4]]].
           split; [destruct H1 as [H1|H1]; [left; exact H1 | right; right; exact H1]|].
           split; [exact H2|]. split.
           ++ intros v [<-|Hv] Hp; [specialize (H4 b eq_refl); lia | apply H3; assumption].
           ++ exact H4.
      * destruct (IH p (Some x) u) as [H1 [H2 [H3 H4]]]; [intros b' E; injection E as <-; exact Ex | exact H |].
        split; [right; destruct H1 as [H1|H1]; [injection H1 as ->; left; reflexivity | right; exact H1]|].
        split; [exact H2|]. split.
        -- intros v [<-|Hv] Hp; [apply H4; reflexivity | apply H3; assumption].
        -- intros b' E. discriminate.
    + destruct (IH p best u Hb H) as [H1 [H2 [H3 H4]]].
      split; [destruct H1 as [H1|H1]; [left; exact H1 | right; right; exact H1]|].
      split; [exact H2|]. split; [|exact H4].
      intros v [<-|Hv] Hp; [congruence | apply H3; assumption].
Qed.

Lemma inside_unit_none : forall p u d,
  inside_unit d p None = Some u ->
  In u d /\ prefix (u_path u) p = true /\
  (forall v, In v d -> prefix (u_path v) p = true -> length (u_path v) <= length (u_path u)).
Proof.
  intros p u d H. destruct (inside_unit_spec d p None u) as [H1 [H2 [H3 _]]]; [discriminate | exact H |].
  destruct H1 as [H1|H1]; [discriminate|]. auto.
Qed.

(* declarations name every unit once *)
Definition decl_wf (d : declaration) : Prop :=
  forall u v, In u d -> In v d -> u_path u = u_path v -> u = v.

Fixpoint path_eqb (a b : path) : bool :=
  match a, b with
  | [], [] => true
  | x :: a', y :: b' => String.eqb x y && path_eqb a' b'
  | _, _ => false
  end.

Lemma path_eqb_eq : forall a b, path_eqb a b = true <-> a = b.
Proof.
  induction a as [|x a IH]; destruct b as [|y b]; simpl; split; try discriminate; try reflexivity.
  - rewrite andb_true_iff, String.eqb_eq, IH. intros [-> ->]. reflexivity.
  - intros H. injection H as -> ->. rewrite String.eqb_refl. simpl. apply IH. reflexivity.
Qed.

Fixpoint decl_wfb (d : declaration) : bool :=
  match d with
  | [] => true
  | u :: r => negb (existsb (fun v => path_eqb (u_path u) (u_path v)) r) && decl_wfb r
  end.

Lemma decl_wfb_sound : forall d, decl_wfb d = true -> decl_wf d.
Proof.
  induction d as [|x d IH]; intros H u v Hu Hv E; [destruct Hu|].
  simpl in H. apply andb_true_iff in H. destruct H as [H1 H2].
  apply negb_true_iff in H1.
  assert (Hno : forall w, In w d -> u_path x <> u_path w).
  { intros w Hw Ew. assert (existsb (fun v => path_eqb (u_path x) (u_path v)) d = true).
    { apply existsb_exists. exists w. split; [exact Hw | apply path_eqb_eq; exact Ew]. }
    congruence. }
  destruct Hu as [<-|Hu]; destruct Hv as [<-|Hv].
  - reflexivity.
  - exfalso. apply (Hno v Hv E).
  - exfalso. apply (Hno u Hu). symmetry. exact E.
  - apply (IH H2 u v Hu Hv E).
Qed.

(* two accesses to overlapping memory touch a common declared unit *)
Lemma overlap_common_unit_aux : forall d s1 s2, decl_wf d ->
  covered d s1 = true -> covered d s2 = true ->
  prefix (a_path s1) (a_path s2) = true ->
  exists u, In u (units_of d s1) /\ In u (units_of d s2).
Proof.
  intros d s1 s2 Hwf H1 H2 Hp. unfold covered in *. unfold units_of.
  destruct (inside_unit d (a_path s1) None) as [u1|] eqn:E1; [|discriminate].
  destruct (inside_unit d (a_path s2) None) as [u2|] eqn:E2; [|discriminate].
  apply inside_unit_none in E1. destruct E1 as [I1 [P1 M1]].
  apply inside_unit_none in E2. destruct E2 as [I2 [P2 M2]].
  destruct (le_lt_dec (length (u_path u2)) (length (a_path s1))) as [Hle|Hlt].
  - (* the unit of s2 also contains the location of s1: both have the same unit *)
    assert (Q : prefix (u_path u2) (a_path s1) = true) by (apply (prefix_comparable _ _ (a_path s2)); assumption).
    assert (L1 : length (u_path u2) <= length (u_path u1)) by (apply M1; assumption).
    assert (Q' : prefix (u_path u1) (a_path s2) = true) by (eapply prefix_trans; eassumption).
    assert (L2 : length (u_path u1) <= length (u_path u2)) by (apply M2; assumption).
    assert (Hsame : u_path u1 = u_path u2).
    { apply prefix_same_length; [|lia]. apply (prefix_comparable _ _ (a_path s2)); [assumption|assumption|lia]. }
    assert (u1 = u2) by (apply Hwf; assumption). subst u2.
    exists u1. split; left; reflexivity.
  - (* the unit of s2 lies strictly below the location of s1: s1 covers it *)
    exists u2. split; [|left; reflexivity]. right. unfold covered_units. apply filter_In.
    split; [exact I2|]. apply andb_true_iff. split.
    + apply (prefix_comparable _ _ (a_path s2)); [assumption|assumption|lia].
    + apply Nat.ltb_lt. exact Hlt.
Qed.

Lemma overlap_common_unit : forall d s1 s2, decl_wf d ->
  covered d s1 = true -> covered d s2 = true -> overlap s1 s2 = true ->
  exists u, In u (units_of d s1) /\ In u (units_of d s2).
Proof.
  intros d s1 s2 Hwf H1 H2 Ho. unfold overlap in Ho. apply orb_true_iff in Ho. destruct Ho as [Ho|Ho].
  - apply overlap_common_unit_aux; assumption.
  - destruct (overlap_common_unit_aux d s2 s1 Hwf H2 H1 Ho) as [u [A B]]. exists u. split; assumption.
Qed.

(* ---- the per-site check implies the pairwise statement ---- *)

Lemma root_eqb_eq : forall a b, root_eqb a b = true -> a = b.
Proof. intros [] [] H; simpl in H; congruence. Qed.

Lemma keeps_sync : forall u s1 s2,
  keeps u s1 = true -> keeps u s2 = true -> exempt u s1 = false -> exempt u s2 = false ->
  conflicting s1 s2 = true -> synchronised u s1 s2.
Proof.
  intros u s1 s2 K1 K2 X1 X2 C. unfold keeps in *. rewrite X1 in K1. rewrite X2 in K2. simpl in K1, K2.
  unfold synchronised. destruct (u_prot u) as [c own|c1 o1 c2 o2| | |rs|rs].
  - split; assumption.
  - unfold conflicting in C.
    destruct (a_write s1) eqn:W1; destruct (a_write s2) eqn:W2; simpl in C; try discriminate.
    + apply andb_true_iff in K1. apply andb_true_iff in K2. left. split; tauto.
    + apply andb_true_iff in K1. apply orb_true_iff in K2.
      destruct K2 as [K2|K2]; [left | right]; split; tauto.
    + apply andb_true_iff in K2. apply orb_true_iff in K1.
      destruct K1 as [K1|K1]; [left | right]; split; tauto.
  - split; assumption.
  - unfold conflicting in C. apply negb_true_iff in K1. apply negb_true_iff in K2.
    rewrite K1, K2 in C. discriminate.
  - assert (G : forall s, forallb (fun r => existsb (root_eqb r) rs || root_eqb r RI) (a_roots s) = true ->
                          forall r, In r (a_roots s) -> In r (RI :: rs)).
    { intros s H r Hr. rewrite forallb_forall in H. specialize (H r Hr).
      apply orb_true_iff in H. destruct H as [H|H].
      - apply existsb_exists in H. destruct H as [x [Hx E]]. apply root_eqb_eq in E. subst. right. exact Hx.
      - apply root_eqb_eq in H. subst. left. reflexivity. }
    split; [apply (G s1 K1) | apply (G s2 K2)].
  - assert (G : forall s, confined_to rs s || (a_after_stop s && negb (a_write s)) = true ->
                          confined_to rs s = true \/ (a_after_stop s = true /\ a_write s = false)).
    { intros s H. apply orb_true_iff in H. destruct H as [H|H]; [left; exact H|].
      apply andb_true_iff in H. destruct H as [H1 H2]. apply negb_true_iff in H2. right. split; assumption. }
    split; [apply (G s1 K1) | apply (G s2 K2)].
Qed.

Theorem discipline_sound : forall d t, decl_wf d -> sites_respect d t = true ->
  forall s1 s2, In s1 t -> In s2 t ->
    overlap s1 s2 = true -> conflicting s1 s2 = true -> may_be_concurrent s1 s2 = true ->
    exists u, In u d /\ In u (units_of d s1) /\ In u (units_of d s2) /\
              (exempt u s1 = true \/ exempt u s2 = true \/ synchronised u s1 s2).
Proof.
  intros d t Hwf H s1 s2 I1 I2 Ho Hc _.
  unfold sites_respect in H. rewrite forallb_forall in H.
  pose proof (H s1 I1) as R1. pose proof (H s2 I2) as R2.
  apply andb_true_iff in R1. apply andb_true_iff in R2.
  destruct R1 as [C1 K1]. destruct R2 as [C2 K2].
  destruct (overlap_common_unit d s1 s2 Hwf C1 C2 Ho) as [u [U1 U2]].
  rewrite forallb_forall in K1. rewrite forallb_forall in K2.
  exists u. split.
  { unfold units_of in U1. destruct (inside_unit d (a_path s1) None) as [w|] eqn:E.
    - destruct U1 as [<-|U1]; [apply inside_unit_none in E; tauto|].
      unfold covered_units in U1. apply filter_In in U1. tauto.
    - unfold covered_units in U1. apply filter_In in U1. tauto. }
  split; [exact U1|]. split; [exact U2|].
  destruct (exempt u s1) eqn:X1; [left; reflexivity|].
  destruct (exempt u s2) eqn:X2; [right; left; reflexivity|].
  right. right. apply keeps_sync; auto.
Qed.

(* the same modulo the listed findings: outside the units marked with a known finding *)
Theorem discipline_sound_modulo : forall d t, decl_wf d -> sites_respect_modulo d t = true ->
  forall s1 s2, In s1 t -> In s2 t ->
    overlap s1 s2 = true -> conflicting s1 s2 = true -> may_be_concurrent s1 s2 = true ->
    exists u, In u d /\ In u (units_of d s1) /\ In u (units_of d s2) /\
              (u_kf u <> None \/ exempt u s1 = true \/ exempt u s2 = true \/ synchronised u s1 s2).
Proof.
  intros d t Hwf H s1 s2 I1 I2 Ho Hc _.
  unfold sites_respect_modulo in H. rewrite forallb_forall in H.
  pose proof (H s1 I1) as R1. pose proof (H s2 I2) as R2.
  apply andb_true_iff in R1. apply andb_true_iff in R2.
  destruct R1 as [C1 K1]. destruct R2 as [C2 K2].
  destruct (overlap_common_unit d s1 s2 Hwf C1 C2 Ho) as [u [U1 U2]].
  rewrite forallb_forall in K1. rewrite forallb_forall in K2.
  exists u. split.
  { unfold units_of in U1. destruct (inside_unit d (a_path s1) None) as [w|] eqn:E.
    - destruct U1 as [<-|U1]; [apply inside_unit_none in E; tauto|].
      unfold covered_units in U1. apply filter_In in U1. tauto.
    - unfold covered_units in U1. apply filter_In in U1. tauto. }
  split; [exact U1|]. split; [exact U2|].
  specialize (K1 u U1). specialize (K2 u U2).
  unfold has_kf in *. destruct (u_kf u) eqn:Ek; [left; discriminate|].
  rewrite orb_false_r in K1, K2. right.
  destruct (exempt u s1) eqn:X1; [left; reflexivity|].
  destruct (exempt u s2) eqn:X2; [right; left; reflexivity|].
  right. right. apply keeps_sync; auto.
Qed.

