(* C32 — model of goroutines acquiring and releasing Go mutexes / RW mutexes, the lock table
   produced by the translator (harness/cmd/astx lockgraph -> Gen/LockGraph.v), the discipline
   (strictly increasing lock classes along every nesting), and its boolean checker.
   No proofs in this file (Conc/LocksProofs.v). *)
From Coq Require Import List NArith Bool Arith.
From MV Require Import Base.Val.
Import ListNotations.
Open Scope N_scope.

(* ===================================================================================== *)
(* 1. The machine: threads over lock *instances*                                          *)
(* ===================================================================================== *)

Inductive mode := R | W.

Definition mode_eqb (a b : mode) : bool :=
  match a, b with R, R => true | W, W => true | _, _ => false end.

Definition lock := N.                     (* a mutex instance *)

Inductive op :=
| Acq (l : lock) (m : mode)               (* x.RLock() / x.Lock() *)
| Rel (l : lock) (m : mode).              (* x.RUnlock() / x.Unlock() *)

Definition hl := (lock * mode)%type.      (* a held lock *)
Definition hl_eqb (a b : hl) : bool := (fst a =? fst b) && mode_eqb (snd a) (snd b).

Fixpoint remove_one (x : hl) (h : list hl) : list hl :=
  match h with
  | [] => []
  | y :: r => if hl_eqb x y then r else y :: remove_one x r
  end.

(* A goroutine: the locks it holds, whether its pending Lock() has been *announced* (sync.RWMutex:
   a goroutine inside Lock() that waits for the active readers to leave already blocks every new
   RLock() — writer preference), and the operations still to perform. *)
Record thread := mk_thread { held : list hl; announced : bool; prog : list op }.
Definition cfg := list thread.

Definition holds (l : lock) (t : thread) : bool := existsb (fun h => fst h =? l) (held t).
Definition holds_w (l : lock) (t : thread) : bool :=
  existsb (fun h => (fst h =? l) && mode_eqb (snd h) W) (held t).
Definition pending_w (l : lock) (t : thread) : bool :=
  announced t && match prog t with Acq l' W :: _ => l' =? l | _ => false end.

(* Can thread [t] take its next step in configuration [c]?  (The tests range over *all* threads
   of [c], [t] included: Go mutexes are not re-entrant.)
   - Lock():  first step = announce (always possible); second step = obtain the lock, possible
     when nobody holds it in any mode;
   - RLock(): possible when no writer holds the lock and no writer has announced itself;
   - unlocks are always possible. *)
Definition can_step (c : cfg) (t : thread) : bool :=
  match prog t with
  | [] => false
  | Rel _ _ :: _ => true
  | Acq l W :: _ => if announced t then negb (existsb (holds l) c) else true
  | Acq l R :: _ => negb (existsb (holds_w l) c) && negb (existsb (pending_w l) c)
  end.

Definition do_step (t : thread) : thread :=
  match prog t with
  | [] => t
  | Rel l m :: p => mk_thread (remove_one (l, m) (held t)) false p
  | Acq l W :: p =>
      if announced t then mk_thread ((l, W) :: held t) false p
      else mk_thread (held t) true (prog t)
  | Acq l R :: p => mk_thread ((l, R) :: held t) false p
  end.

Fixpoint update (c : cfg) (i : nat) (t : thread) : cfg :=
  match c, i with
  | [], _ => []
  | _ :: r, O => t :: r
  | x :: r, S j => x :: update r j t
  end.

(* one scheduling decision: thread [i] moves if it can *)
Definition step (c : cfg) (i : nat) : option cfg :=
  match nth_error c i with
  | Some t => if can_step c t then Some (update c i (do_step t)) else None
  | None => None
  end.

(* a schedule is any list of thread numbers; a decision for a blocked / finished / non-existent
   thread changes nothing *)
Fixpoint run (sched : list nat) (c : cfg) : cfg :=
  match sched with
  | [] => c
  | i :: s => run s (match step c i with Some c' => c' | None => c end)
  end.

Definition unfinished (t : thread) : Prop := prog t <> [].

(* deadlock: somebody still has work to do and nobody can move *)
Definition deadlocked (c : cfg) : Prop :=
  (exists t, In t c /\ unfinished t) /\ forall i, step c i = None.

Definition all_done (c : cfg) : Prop := forall t, In t c -> prog t = [].

(* boolean versions, for witnesses *)
Definition deadlockedb (c : cfg) : bool :=
  existsb (fun t => match prog t with [] => false | _ => true end) c &&
  forallb (fun t => negb (can_step c t)) c.

(* ---- the discipline on instance-level programs: every acquisition is of a lock whose rank is
        strictly above the ranks of all locks held, releases are of held locks, and the program
        ends holding nothing ---- *)
Definition memb (x : hl) (h : list hl) : bool := existsb (hl_eqb x) h.

Fixpoint chk (rk : lock -> N) (h : list hl) (p : list op) : bool :=
  match p with
  | [] => match h with [] => true | _ => false end
  | Acq l m :: r => forallb (fun x => rk (fst x) <? rk l) h && chk rk ((l, m) :: h) r
  | Rel l m :: r => memb (l, m) h && chk rk (remove_one (l, m) h) r
  end.

Definition thread_ok (rk : lock -> N) (t : thread) : Prop := chk rk (held t) (prog t) = true.

(* ===================================================================================== *)
(* 2. The table (what the translator extracts from the Go source)                         *)
(* ===================================================================================== *)

Definition cls := N.                      (* lock class = owner type . mutex field *)
Definition fname := N.                    (* function *)

Inductive action :=
| Acquire (c : cls) (m : mode)            (* the function itself locks a lock of class c *)
| Call (g : fname).                       (* the function calls g *)

Record site := mk_site {
  s_fn : fname;                           (* the function containing the site *)
  s_held : list (cls * mode);             (* lock classes this function's own frame holds there *)
  s_act : action }.

Definition lock_table := list site.

(* ---- executions described by a table: a goroutine is a sequence of events with call
        structure; every acquisition / call must happen at a site the table lists for the
        function being executed, with (at most) the locks the table says are held there ---- *)
Inductive ev :=
| EAcq (l : lock) (m : mode)
| ERel (l : lock) (m : mode)
| EEnter (g : fname)
| EExit.

Definition ch := (cls * mode)%type.
Definition ch_eqb (a b : ch) : bool := (fst a =? fst b) && mode_eqb (snd a) (snd b).
Definition ch_mem (x : ch) (l : list ch) : bool := existsb (ch_eqb x) l.
Fixpoint ch_remove (x : ch) (l : list ch) : list ch :=
  match l with [] => [] | y :: r => if ch_eqb x y then r else y :: ch_remove x r end.
Definition ch_subset (a b : list ch) : bool := forallb (fun x => ch_mem x b) a.

Definition action_eqb (a b : action) : bool :=
  match a, b with
  | Acquire c m, Acquire c' m' => (c =? c') && mode_eqb m m'
  | Call g, Call g' => g =? g'
  | _, _ => false
  end.

Definition site_ok (tbl : lock_table) (f : fname) (L : list ch) (a : action) : bool :=
  existsb (fun s => (s_fn s =? f) && action_eqb (s_act s) a && ch_subset L (s_held s)) tbl.

(* a stack frame: the function being executed and the lock instances acquired (and not yet
   released) by this activation *)
Definition frame := (fname * list hl)%type.

(* [cl] maps a lock instance to its class *)
Definition clm (cl : lock -> cls) (x : hl) : ch := (cl (fst x), snd x).

(* [unb] = the functions the translator found *unbalanced*: some path through them (return, panic,
   falling off the end) leaves the function while a lock it acquired is neither released nor
   covered by a defer.  An activation described by the table releases what it acquired before it
   exits ([EExit] needs an empty frame) — exactly what "balanced" says of the code — so executions
   that enter an unbalanced function are not described, and the checker below refuses a table that
   has any. *)
Fixpoint conforms (cl : lock -> cls) (tbl : lock_table) (unb : list fname) (st : list frame) (es : list ev) : bool :=
  match es with
  | [] => match st with [(_, [])] => true | _ => false end
  | e :: r =>
      match st with
      | [] => false
      | (f, L) :: below =>
          match e with
          | EAcq l m => site_ok tbl f (map (clm cl) L) (Acquire (cl l) m) &&
                        conforms cl tbl unb ((f, (l, m) :: L) :: below) r
          | ERel l m => memb (l, m) L && conforms cl tbl unb ((f, remove_one (l, m) L) :: below) r
          | EEnter g => negb (existsb (N.eqb g) unb) && site_ok tbl f (map (clm cl) L) (Call g) &&
                        conforms cl tbl unb ((g, []) :: st) r
          | EExit => match L, below with
                     | [], _ :: _ => conforms cl tbl unb below r
                     | _, _ => false
                     end
          end
      end
  end.

Fixpoint ops_of (es : list ev) : list op :=
  match es with
  | [] => []
  | EAcq l m :: r => Acq l m :: ops_of r
  | ERel l m :: r => Rel l m :: ops_of r
  | _ :: r => ops_of r
  end.

(* a goroutine started at function [f] performing the events [es] *)
Definition thread_of (es : list ev) : thread := mk_thread [] false (ops_of es).

(* ---- the discipline on tables ---- *)

(* [A g] over-approximates the classes g may acquire, directly or through its callees *)
Definition closed (tbl : lock_table) (A : fname -> list cls) : Prop :=
  forall s, In s tbl ->
    match s_act s with
    | Acquire c _ => In c (A (s_fn s))
    | Call g => incl (A g) (A (s_fn s))
    end.

Definition targets (A : fname -> list cls) (s : site) : list cls :=
  match s_act s with Acquire c _ => [c] | Call g => A g end.

(* the lock-order graph: class a -> class b when some function acquires b (itself or through a
   callee) while its frame holds a *)
Definition lock_order (tbl : lock_table) (A : fname -> list cls) : list (cls * cls) :=
  flat_map (fun s => flat_map (fun h => map (fun c => (fst h, c)) (targets A s)) (s_held s)) tbl.

(* acyclic = the graph has a topological numbering (for a finite graph this is equivalent to the
   absence of cycles; [LocksProofs.numbering_no_cycle] proves the direction that matters) *)
Definition acyclic (g : list (cls * cls)) : Prop :=
  exists rk : cls -> N, forall a b, In (a, b) g -> rk a < rk b.

(* no function re-acquires, itself or through its callees, a lock class it already holds — in
   particular not a read lock (RLock; ...; RLock on the same RWMutex) *)
Definition no_reentrant (tbl : lock_table) (A : fname -> list cls) : Prop :=
  forall s h, In s tbl -> In h (s_held s) -> ~ In (fst h) (targets A s).

(* ===================================================================================== *)
(* 3. The checker evaluated on the generated table                                        *)
(* ===================================================================================== *)

Definition amap := list (fname * list cls).

Fixpoint alookup (a : amap) (f : fname) : list cls :=
  match a with [] => [] | (g, l) :: r => if g =? f then l else alookup r f end.

Definition cmem (c : cls) (l : list cls) : bool := existsb (N.eqb c) l.
Definition cunion (a b : list cls) : list cls :=
  fold_left (fun acc c => if cmem c acc then acc else c :: acc) a b.
Definition csubset (a b : list cls) : bool := forallb (fun c => cmem c b) a.

Fixpoint aset (a : amap) (f : fname) (l : list cls) : amap :=
  match a with
  | [] => [(f, l)]
  | (g, l') :: r => if g =? f then (g, l) :: r else (g, l') :: aset r f l
  end.

Definition targets_m (a : amap) (s : site) : list cls :=
  match s_act s with Acquire c _ => [c] | Call g => alookup a g end.

Definition pass (tbl : lock_table) (a : amap) : amap :=
  fold_left (fun a s => aset a (s_fn s) (cunion (targets_m a s) (alookup a (s_fn s)))) tbl a.

Definition closedb (tbl : lock_table) (a : amap) : bool :=
  forallb (fun s => csubset (targets_m a s) (alookup a (s_fn s))) tbl.

Fixpoint closure (fuel : nat) (tbl : lock_table) (a : amap) : amap :=
  match fuel with
  | O => a
  | S k => if closedb tbl a then a else closure k tbl (pass tbl a)
  end.

Definition edges_m (tbl : lock_table) (a : amap) : list (cls * cls) :=
  flat_map (fun s => flat_map (fun h => map (fun c => (fst h, c)) (targets_m a s)) (s_held s)) tbl.

(* ranks: association list, default 0 *)
Definition rmap := list (cls * N).
Fixpoint rlookup (r : rmap) (c : cls) : N :=
  match r with [] => 0 | (d, n) :: q => if d =? c then n else rlookup q c end.
Fixpoint rset (r : rmap) (c : cls) (n : N) : rmap :=
  match r with
  | [] => [(c, n)]
  | (d, m) :: q => if d =? c then (d, n) :: q else (d, m) :: rset q c n
  end.

Definition relax (es : list (cls * cls)) (r : rmap) : rmap :=
  fold_left (fun r e => if rlookup r (fst e) <? rlookup r (snd e) then r
                        else rset r (snd e) (rlookup r (fst e) + 1)) es r.

Definition rankedb (es : list (cls * cls)) (r : rmap) : bool :=
  forallb (fun e => rlookup r (fst e) <? rlookup r (snd e)) es.

Fixpoint ranking (fuel : nat) (es : list (cls * cls)) (r : rmap) : rmap :=
  match fuel with
  | O => r
  | S k => if rankedb es r then r else ranking k es (relax es r)
  end.

Definition closure_of (tbl : lock_table) : amap := closure 200 tbl [].
Definition ranking_of (tbl : lock_table) : rmap :=
  let es := edges_m tbl (closure_of tbl) in ranking (S (length es)) es [].

Definition no_reentrantb (tbl : lock_table) (a : amap) : bool :=
  forallb (fun s => forallb (fun h => negb (cmem (fst h) (targets_m a s))) (s_held s)) tbl.

(* THE CHECK: the closure is closed, no class is re-acquired while held, and the computed
   numbering is strictly increasing along every edge of the lock-order graph *)
Definition lock_discipline_ok (tbl : lock_table) : bool :=
  let a := closure_of tbl in
  closedb tbl a && no_reentrantb tbl a && rankedb (edges_m tbl a) (ranking_of tbl).

(* Functions that intentionally return while holding a lock they acquired would have to be listed
   here by name — and [conforms] extended to describe them.  The tree has none. *)
Definition returns_holding_lock : list String.string := [].

Fixpoint name_of (names : list (N * String.string)) (f : fname) : String.string :=
  match names with
  | [] => String.EmptyString
  | (g, n) :: r => if g =? f then n else name_of r f
  end.

Definition balanced_ok (names : list (N * String.string)) (unb : list fname) : bool :=
  forallb (fun f => existsb (String.eqb (name_of names f)) returns_holding_lock) unb.

(* THE CHECK, complete: every function releases on every path what it acquired, and the lock
   discipline holds *)
Definition lock_discipline_ok_full (names : list (N * String.string)) (unb : list fname) (tbl : lock_table) : bool :=
  balanced_ok names unb && lock_discipline_ok tbl.

(* diagnostics when the check fails: (function, class held, class acquired) of every site that
   re-acquires a held class or goes against the numbering *)
Definition lock_violations (tbl : lock_table) : list (fname * cls * cls) :=
  let a := closure_of tbl in
  let r := ranking_of tbl in
  flat_map (fun s => flat_map (fun h => flat_map (fun c =>
     if (fst h =? c) || negb (rlookup r (fst h) <? rlookup r c) then [(s_fn s, fst h, c)] else [])
     (targets_m a s)) (s_held s)) tbl.

(* ===================================================================================== *)
(* 4. Engine for the dynamic validation (hx lockstress)                                   *)
(* ===================================================================================== *)
(* case = VL [VN 0; VB scenario; VN completed; VN operations; VB detail]
            concurrent stress of one lock-owning type of the real code: did every goroutine
            finish (1) or did the run stop making progress (0 = a hang: the failing input)
        | VL [VN 1; VL [VL [VN thread; VN kind; VN lock] ...]; VL [VN blocked_0; ...]]
            a forced schedule on real sync.RWMutex values.  kind: 0 RLock 1 Lock 2 RUnlock
            3 Unlock.  Command k is given to its thread when the thread is idle; the observation
            after command k is the set of threads that are blocked (bit i = thread i).  The
            engine replays the commands on the machine above and compares: this ties the
            writer-preference semantics of [can_step] to the Go runtime. *)

Definition op_of_kind (k : N) (l : lock) : option op :=
  match k with
  | 0 => Some (Acq l R) | 1 => Some (Acq l W) | 2 => Some (Rel l R) | 3 => Some (Rel l W)
  | _ => None
  end.

(* run every thread that can move until nobody can (fuel bounds the number of steps) *)
Fixpoint first_enabled (c : cfg) (all : cfg) (i : nat) : option nat :=
  match c with
  | [] => None
  | t :: r => if can_step all t then Some i else first_enabled r all (S i)
  end.

Fixpoint settle (fuel : nat) (c : cfg) : cfg :=
  match fuel with
  | O => c
  | S k => match first_enabled c c 0 with
           | Some i => match step c i with Some c' => settle k c' | None => c end
           | None => c
           end
  end.

Fixpoint blocked_bits (c : cfg) (i : N) : N :=
  match c with
  | [] => 0
  | t :: r => (match prog t with [] => 0 | _ => N.shiftl 1 i end) + blocked_bits r (i + 1)
  end.

Definition push_op (c : cfg) (i : nat) (o : op) : cfg :=
  match nth_error c i with
  | Some t => update c i (mk_thread (held t) (announced t) (prog t ++ [o]))
  | None => c
  end.

Fixpoint replay (cmds : list (nat * op)) (c : cfg) : list N :=
  match cmds with
  | [] => []
  | (i, o) :: r => let c' := settle 64 (push_op c i o) in blocked_bits c' 0 :: replay r c'
  end.

Definition parse_cmd (v : val) : option (nat * op) :=
  match v with
  | VL [VN t; VN k; VN l] => match op_of_kind k l with Some o => Some (N.to_nat t, o) | None => None end
  | _ => None
  end.

Fixpoint beq_Ns (a b : list N) : bool :=
  match a, b with
  | [], [] => true
  | x :: a', y :: b' => (x =? y) && beq_Ns a' b'
  | _, _ => false
  end.

(* ENGINE lockstress Conc.Locks.lockstress_engine *)
Definition lockstress_engine (c : val) : val :=
  match c with
  | VL [VN 0; VB name; VN completed; VN nops; VB detail] =>
      if completed =? 1 then verdict 0 (tag "stress") (0 <? nops) []
      else verdict 1 (tag "stress-hang") true [VB name; VB detail]
  | VL [VN 1; VL cmds; VL obs] =>
      match map_opt parse_cmd cmds, map_opt as_N obs with
      | Some cs, Some os =>
          let m := replay cs (repeat (mk_thread [] false []) 4) in
          let nontriv := existsb (fun b => negb (b =? 0)) m in
          if beq_Ns m os then verdict 0 (tag "rwsem") nontriv []
          else verdict 2 (tag "rwsem") nontriv (map VN m)
      | _, _ => bad_case
      end
  | _ => bad_case
  end.
