(* C11 — interleaving model of the send-quota arithmetic of concurrent deliveries to ONE client
   (server.go publishToClient): a delivery reads the quota (the snapshot used for the held-back decision), takes a
   unit (DecreaseSendQuota: atomic, saturating at 0) and is then either queued (the message is in transit) or
   dropped because the outbound queue is full, in which case the unit is returned.  Two variants of the return:
   [step_inc] = IncreaseSendQuota (atomic +1, saturating at the maximum) and [step_snap] = storing the snapshot
   back.  An acknowledgement returns the unit of a message in transit.  No proofs here. *)
From MV Require Import Base.Val.
Open Scope N_scope.

Inductive qpc :=
| QStart
| QSnap (s : Z)          (* the quota value read at the start *)
| QTaken (s : Z)         (* a unit taken; the message is recorded *)
| QHeld                  (* no unit available: held back *)
| QSent                  (* queued: in transit, unacknowledged *)
| QDropped               (* queue full: rolled back *)
| QAcked.

Fixpoint qset_nth {A} (n : nat) (x : A) (l : list A) : list A :=
  match l, n with
  | [], _ => []
  | _ :: r, O => x :: r
  | y :: r, S n' => y :: qset_nth n' x r
  end.

(* full j = the queue is full when delivery j gets there (decided by the environment) *)
Definition qstep (restore_snapshot : bool) (rm : Z) (full : nat -> bool) (q : Z) (ths : list qpc) (j : nat) : Z * list qpc :=
  match nth_error ths j with
  | Some QStart => (q, qset_nth j (QSnap q) ths)
  | Some (QSnap s) => if (0 <? q)%Z then ((q - 1)%Z, qset_nth j (QTaken s) ths) else (q, qset_nth j QHeld ths)
  | Some (QTaken s) =>
      if full j then ((if restore_snapshot then s else if (q <? rm)%Z then (q + 1)%Z else q), qset_nth j QDropped ths)
      else (q, qset_nth j QSent ths)
  | Some QSent => ((if (q <? rm)%Z then (q + 1)%Z else q), qset_nth j QAcked ths)     (* PUBACK *)
  | _ => (q, ths)
  end.

Fixpoint qrun (restore_snapshot : bool) (rm : Z) (full : nat -> bool) (q : Z) (ths : list qpc) (sched : list nat) : Z * list qpc :=
  match sched with
  | [] => (q, ths)
  | j :: r => let '(q', ths') := qstep restore_snapshot rm full q ths j in qrun restore_snapshot rm full q' ths' r
  end.

Definition count_pc (f : qpc -> bool) (ths : list qpc) : Z := Z.of_nat (length (filter f ths)).
Definition is_sent (p : qpc) : bool := match p with QSent => true | _ => false end.
Definition is_taken (p : qpc) : bool := match p with QTaken _ => true | _ => false end.
(* messages in transit and not acknowledged *)
Definition in_transit (ths : list qpc) : Z := count_pc is_sent ths.
