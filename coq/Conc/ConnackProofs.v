(* C13 / C14 (schedules) — proofs over all schedules of the CONNACK window model by exhaustive
   exploration of its finite configuration space (Conc/Reach.v): the configurations reachable from
   the initial one are enumerated, the list is checked to be closed under every schedule entry, and
   the properties are checked on every member, all by vm_compute inside the kernel. *)
From MV Require Import Base.Val Base.Sched Base.SchedProofs Conc.Reach Conc.Connack.
From Coq Require Import Lia.
Open Scope nat_scope.

Definition beq_wpkt (a b : wpkt) : bool :=
  match a, b with WConnack, WConnack | WPublish, WPublish => true | _, _ => false end.
Definition beq_instr (a b : instr) : bool :=
  match a, b with
  | Inherit, Inherit | ClientsAdd, ClientsAdd | SendConnack, SendConnack | Resend, Resend | Publish, Publish | Write, Write => true
  | _, _ => false
  end.
Fixpoint beq_list {A} (eq : A -> A -> bool) (a b : list A) : bool :=
  match a, b with [], [] => true | x :: a', y :: b' => eq x y && beq_list eq a' b' | _, _ => false end.

Lemma beq_list_ok {A} (eq : A -> A -> bool) : (forall x y, eq x y = true -> x = y) ->
  forall a b, beq_list eq a b = true -> a = b.
Proof.
  intros H a. induction a as [|x a IH]; intros [|y b] E; cbn in E; try discriminate; [reflexivity|].
  apply andb_true_iff in E. destruct E as [E1 E2]. f_equal; [apply H, E1|apply IH, E2].
Qed.

Lemma beq_wpkt_ok a b : beq_wpkt a b = true -> a = b.
Proof. destruct a, b; cbn; congruence. Qed.
Lemma beq_instr_ok a b : beq_instr a b = true -> a = b.
Proof. destruct a, b; cbn; congruence. Qed.

Definition beq_cstate (a b : cstate) : bool :=
  Bool.eqb (registered_new a) (registered_new b) && Bool.eqb (inherited a) (inherited b) &&
  Bool.eqb (connack_sent a) (connack_sent b) && Nat.eqb (old_infl a) (old_infl b) && Nat.eqb (new_infl a) (new_infl b) &&
  beq_list beq_wpkt (queue a) (queue b) && beq_list beq_wpkt (wire a) (wire b) &&
  Bool.eqb (early_write a) (early_write b) && Bool.eqb (window_publish a) (window_publish b).

Lemma beq_cstate_ok a b : beq_cstate a b = true -> a = b.
Proof.
  unfold beq_cstate. intro E.
  repeat match goal with H : _ && _ = true |- _ => apply andb_true_iff in H; destruct H end.
  destruct a, b; cbn in *.
  repeat match goal with
         | H : Bool.eqb _ _ = true |- _ => apply Bool.eqb_prop in H
         | H : Nat.eqb _ _ = true |- _ => apply Nat.eqb_eq in H
         | H : beq_list beq_wpkt _ _ = true |- _ => apply (beq_list_ok _ beq_wpkt_ok) in H
         end.
  subst. reflexivity.
Qed.

Definition beq_cfg (a b : cfg cstate instr) : bool :=
  beq_cstate (shared a) (shared b) && beq_list (beq_list beq_instr) (threads a) (threads b).

Lemma beq_cfg_ok a b : beq_cfg a b = true -> a = b.
Proof.
  unfold beq_cfg. intro E. apply andb_true_iff in E. destruct E as [E1 E2].
  apply beq_cstate_ok in E1. apply (beq_list_ok _ (beq_list_ok _ beq_instr_ok)) in E2.
  destruct a, b; cbn in *. subst. reflexivity.
Qed.

(* every configuration reachable from the initial one (6 instructions in total: 7 rounds suffice) *)
Definition reachable : list (cfg cstate instr) := explore _ _ exec beq_cfg 3 7 [connack_threads].

Lemma reachable_closed : closed _ _ exec beq_cfg 3 reachable = true.
Proof. vm_compute. reflexivity. Qed.

Lemma reachable_init : mem _ _ beq_cfg connack_threads reachable = true.
Proof. vm_compute. reflexivity. Qed.

Lemma all_schedules (P : cfg cstate instr -> bool) :
  forallb P reachable = true -> forall sched, P (run_connack sched) = true.
Proof.
  intros F sched. unfold run_connack.
  apply (run_all _ _ exec beq_cfg beq_cfg_ok 3 reachable P connack_threads reachable_closed reachable_init F).
Qed.

(* C13-1: the CONNACK is not always first *)
Theorem connack_first_refuted : exists sched, connack_first (run_connack sched) = false.
Proof. exists [0; 0; 1; 2; 0; 0]. vm_compute. reflexivity. Qed.

(* ... and it is first for every schedule outside the window *)
Theorem connack_first_modulo : forall sched,
  KF_C13_publish_before_connack sched = false -> connack_first (run_connack sched) = true.
Proof.
  intros sched K.
  pose proof (all_schedules (fun c => early_write (shared c) || connack_first c)) as A.
  specialize (A ltac:(vm_compute; reflexivity) sched). cbv beta in A.
  unfold KF_C13_publish_before_connack in K. rewrite K in A. exact A.
Qed.

(* for every schedule: at most one CONNACK, and exactly one once the attaching thread is through *)
Theorem connack_once : forall sched,
  count_connack (wire (shared (run_connack sched))) <= 1 /\
  (finished (run_connack sched) = true -> count_connack (wire (shared (run_connack sched))) = 1).
Proof.
  intro sched.
  pose proof (all_schedules (fun c => Nat.leb (count_connack (wire (shared c))) 1 &&
                                      (negb (finished c) || Nat.eqb (count_connack (wire (shared c))) 1))) as A.
  specialize (A ltac:(vm_compute; reflexivity) sched). cbv beta in A.
  apply andb_true_iff in A. destruct A as [A1 A2]. apply Nat.leb_le in A1. split; [exact A1|].
  intro F. rewrite F in A2. cbn in A2. apply Nat.eqb_eq in A2. exact A2.
Qed.

(* C14-2: a message published in the window between inheritClientSession and Clients.Add is lost *)
Theorem message_kept_refuted : exists sched, message_kept (run_connack sched) = false.
Proof. exists [0; 1; 0; 0; 0]. vm_compute. reflexivity. Qed.

Theorem message_kept_modulo : forall sched,
  KF_C14_publish_in_inherit_window sched = false -> message_kept (run_connack sched) = true.
Proof.
  intros sched K.
  pose proof (all_schedules (fun c => window_publish (shared c) || message_kept c)) as A.
  specialize (A ltac:(vm_compute; reflexivity) sched). cbv beta in A.
  unfold KF_C14_publish_in_inherit_window in K. rewrite K in A. exact A.
Qed.

(* non-vacuity: the sequential order (attach, then publish, then the write loop) meets both *)
Example connack_sequential :
  wire (shared (run_connack [0; 0; 0; 0; 1; 2])) = [WConnack; WPublish] /\
  KF_C13_publish_before_connack [0; 0; 0; 0; 1; 2] = false /\ KF_C14_publish_in_inherit_window [0; 0; 0; 0; 1; 2] = false.
Proof. vm_compute. repeat split. Qed.
