(* C35 — proofs about Conc/Limit.v: for every schedule of any number of concurrent attach attempts
   the counter equals the number of handlers between reservation and release, never exceeds the
   maximum, and so the number of simultaneously established connections never exceeds it;
   a refusal happens only at the limit and carries the version's reason code. *)
From Coq Require Import Lia.
From MV Require Import Base.Val Base.Sched Base.SchedProofs Conc.Limit.
Open Scope Z_scope.

Definition weight (s : status) : Z := match s with Established | Kicked => 1 | _ => 0 end.
Fixpoint wsum (l : list status) : Z := match l with [] => 0 | x :: r => weight x + wsum r end.

Definition ok_thread (p : list instr) (st : status) : Prop :=
  (p = prog_fixed /\ st = Idle) \/
  (p = [Reserve; Decr] /\ st = Idle) \/
  (p = [Decr] /\ (st = Established \/ st = Kicked)) \/
  (p = [] /\ (st = Gone \/ exists k, st = Refused k)).

Record Inv (max : Z) (specs : list tspec) (c : cfg lstate instr) : Prop := mkInv {
  inv_max : l_max (shared c) = max;
  inv_specs : l_specs (shared c) = specs;
  inv_ok : Forall2 ok_thread (threads c) (l_stats (shared c));
  inv_cnt : l_counter (shared c) = wsum (l_stats (shared c));
  inv_le : l_counter (shared c) <= max }.

Lemma wsum_set_nth t a b l :
  nth_error l t = Some a -> wsum (set_nth t b l) = wsum l - weight a + weight b.
Proof.
  revert t; induction l as [|x r IH]; intros [|t] H; cbn in *; try discriminate.
  - inversion H; subst. lia.
  - rewrite (IH _ H). lia.
Qed.

Lemma wsum_kick id specs stats : wsum (kick id specs stats) = wsum stats.
Proof.
  revert specs; induction stats as [|st r IH]; intros [|sp specs]; cbn; auto.
  rewrite IH. destruct ((ts_id sp =? id)%N && is_est st) eqn:E; auto.
  apply andb_prop in E. destruct E as [_ E]. destruct st; cbn in *; try discriminate; lia.
Qed.

Lemma kick_ok id specs thr stats :
  Forall2 ok_thread thr stats -> Forall2 ok_thread thr (kick id specs stats).
Proof.
  intros H; revert specs; induction H as [|p st thr stats Hp H IH]; intros [|sp specs]; cbn;
    try constructor; auto.
  destruct ((ts_id sp =? id)%N && is_est st) eqn:E; auto.
  apply andb_prop in E. destruct E as [_ E]. destruct st; cbn in E; try discriminate.
  destruct Hp as [[_ X]|[[_ X]|[[Hd _]|[_ [X|[k X]]]]]]; try discriminate.
  right; right; left; auto.
Qed.

Lemma kick_nth_keep id specs stats t st :
  nth_error stats t = Some st -> is_est st = false -> nth_error (kick id specs stats) t = Some st.
Proof.
  revert specs t; induction stats as [|x r IH]; intros [|sp specs] [|t] H E; cbn in *; auto; try discriminate.
  - inversion H; subst. rewrite E, andb_false_r. reflexivity.
Qed.

Lemma kick_nth_inv id specs stats t st :
  nth_error (kick id specs stats) t = Some st -> st <> Kicked -> nth_error stats t = Some st.
Proof.
  revert specs t; induction stats as [|x r IH]; intros [|sp specs] [|t] H E; cbn in *; auto; try discriminate.
  - destruct ((ts_id sp =? id)%N && is_est x); auto. inversion H; subst. congruence.
  - eauto.
Qed.

Lemma count_est_le_wsum l : count_est l <= wsum l.
Proof.
  unfold count_est. induction l as [|x r IH]; cbn; try lia.
  destruct x; cbn [is_est weight length]; lia.
Qed.

Lemma nth_error_set_nth_same {A} t (x y : A) l : nth_error (set_nth t x l) t = Some y -> y = x.
Proof.
  revert t; induction l as [|z r IH]; intros [|t] H; cbn in *; try discriminate.
  - now inversion H.
  - eauto.
Qed.

Lemma init_ok n : Forall2 ok_thread (repeat prog_fixed n) (repeat Idle n).
Proof. induction n; cbn; constructor; auto. left; auto. Qed.

Lemma wsum_idle n : wsum (repeat Idle n) = 0.
Proof. induction n; cbn; auto. Qed.

Lemma init_inv max specs : 0 <= max -> Inv max specs (limit_threads max specs).
Proof.
  intro H. constructor; cbn; auto using init_ok.
  - now rewrite wsum_idle.
Qed.

Ltac exec_cases H sp E :=
  unfold exec in H;
  match type of H with
  | context [nth_error (l_specs ?s) ?t] => destruct (nth_error (l_specs s) t) as [sp|] eqn:E; [|discriminate]
  end.

Lemma step_inv max specs t c : Inv max specs c -> Inv max specs (step exec t c).
Proof.
  intros [Hmax Hspecs Hok Hcnt Hle].
  destruct (step_cases _ _ exec t c) as [Hsame|(i & rest & Hn & Hstep)].
  { rewrite Hsame. constructor; auto. }
  destruct (Forall2_nth_error _ _ _ _ _ Hok Hn) as (y & Hy & Hoky).
  destruct Hoky as [[Hp Hst]|[[Hp Hst]|[[Hp Hst]|[Hp _]]]]; try discriminate; inversion Hp; subst i rest; clear Hp.
  - (* Check *)
    subst y.
    destruct Hstep as [(s & Hx & Hs)|(s & Hx & Hs)]; rewrite Hs; clear Hs; exec_cases Hx sp E;
      destruct (at_limit (shared c)) eqn:L; inversion Hx; subst s; clear Hx.
    + constructor; cbn; auto.
      eapply Forall2_set_nth_l; eauto. right; left; auto.
    + constructor; cbn; auto.
      * apply Forall2_set_nth; auto. right; right; right; split; eauto.
      * rewrite (wsum_set_nth _ _ _ _ Hy). cbn. lia.
  - (* Reserve *)
    subst y.
    destruct Hstep as [(s & Hx & Hs)|(s & Hx & Hs)]; rewrite Hs; clear Hs; exec_cases Hx sp E;
      destruct (at_limit (shared c)) eqn:L; inversion Hx; subst s; clear Hx.
    + constructor; cbn; auto.
      * apply Forall2_set_nth; auto using kick_ok. right; right; left; auto.
      * rewrite (wsum_set_nth _ Idle) by (apply kick_nth_keep; auto).
        rewrite wsum_kick. cbn. lia.
      * unfold at_limit in L. lia.
    + constructor; cbn; auto.
      * apply Forall2_set_nth; auto. right; right; right; split; eauto.
      * rewrite (wsum_set_nth _ _ _ _ Hy). cbn. lia.
  - (* Decr *)
    destruct Hstep as [(s & Hx & Hs)|(s & Hx & Hs)]; rewrite Hs; clear Hs; exec_cases Hx sp E;
      inversion Hx; subst s; clear Hx.
    constructor; cbn; auto.
    + apply Forall2_set_nth; auto. right; right; right; split; auto.
    + rewrite (wsum_set_nth _ _ _ _ Hy). destruct Hst; subst y; cbn; lia.
    + destruct Hst; subst y; lia.
Qed.

Lemma run_inv max specs sched : 0 <= max -> Inv max specs (run exec sched (limit_threads max specs)).
Proof.
  intro H. apply (run_invariant _ _ exec (Inv max specs)); auto using init_inv.
  intros t c. apply step_inv.
Qed.

(* the bound: for every schedule of every number of concurrent attempts *)
Lemma limit_bound max specs sched :
  0 <= max -> connected (run exec sched (limit_threads max specs)) <= max.
Proof.
  intro H. destruct (run_inv max specs sched H) as [_ _ _ Hcnt Hle].
  unfold connected. pose proof (count_est_le_wsum (l_stats (shared (run exec sched (limit_threads max specs))))). lia.
Qed.

(* the counter is exact: it counts the handlers between reservation and release *)
Lemma limit_counter max specs sched :
  0 <= max ->
  let c := run exec sched (limit_threads max specs) in
  l_counter (shared c) = wsum (l_stats (shared c)) /\ 0 <= l_counter (shared c) <= max.
Proof.
  intro H. destruct (run_inv max specs sched H) as [_ _ _ Hcnt Hle]. cbn zeta. split; auto. split; auto.
  rewrite Hcnt. clear. generalize (l_stats (shared (run exec sched (limit_threads max specs)))).
  intro l. induction l as [|x r IH]; cbn [wsum]; try lia. destruct x; cbn [weight]; lia.
Qed.

(* ---------- refusals ---------- *)

Lemma step_consts t (c : cfg lstate instr) :
  l_max (shared (step exec t c)) = l_max (shared c) /\ l_specs (shared (step exec t c)) = l_specs (shared c).
Proof.
  destruct (step_cases _ _ exec t c) as [Hsame|(i & rest & Hn & Hstep)].
  { rewrite Hsame; auto. }
  destruct Hstep as [(s & Hx & Hs)|(s & Hx & Hs)]; rewrite Hs; clear Hs; exec_cases Hx sp E;
    destruct i; try destruct (at_limit (shared c)); inversion Hx; subst s; cbn; auto.
Qed.

Lemma run_consts sched (c : cfg lstate instr) :
  l_max (shared (run exec sched c)) = l_max (shared c) /\ l_specs (shared (run exec sched c)) = l_specs (shared c).
Proof.
  revert c; induction sched as [|t r IH]; intro c; cbn; auto.
  destruct (IH (step exec t c)) as [A B]. destruct (step_consts t c) as [C D]. split; congruence.
Qed.

(* a thread becomes Refused only by its own step, only when the counter has reached the maximum,
   and with the reason code of its protocol version *)
Lemma refusal_step (c : cfg lstate instr) t' t k :
  stat t (step exec t' c) = Some (Refused k) -> stat t c <> Some (Refused k) ->
  t' = t /\ l_max (shared c) <= l_counter (shared c) /\
  exists sp, nth_error (l_specs (shared c)) t = Some sp /\ k = refusal_code (ts_ver sp).
Proof.
  unfold stat. intros H1 H0.
  destruct (step_cases _ _ exec t' c) as [Hsame|(i & rest & Hn & Hstep)].
  { rewrite Hsame in H1. contradiction. }
  (* what the step does to the status list *)
  assert (Hst : exists sp, nth_error (l_specs (shared c)) t' = Some sp /\
            ((at_limit (shared c) = true /\
              l_stats (shared (step exec t' c)) = set_nth t' (Refused (refusal_code (ts_ver sp))) (l_stats (shared c))) \/
             l_stats (shared (step exec t' c)) = l_stats (shared c) \/
             l_stats (shared (step exec t' c)) =
               set_nth t' Established (kick (ts_id sp) (l_specs (shared c)) (l_stats (shared c))) \/
             l_stats (shared (step exec t' c)) = set_nth t' Gone (l_stats (shared c)))).
  { destruct Hstep as [(s & Hx & Hs)|(s & Hx & Hs)]; rewrite Hs; clear Hs; exec_cases Hx sp E;
      exists sp; (split; [reflexivity|]);
      destruct i; try destruct (at_limit (shared c)) eqn:L; inversion Hx; subst s; cbn; auto. }
  destruct Hst as (sp & Hsp & [[L Hs]|[Hs|[Hs|Hs]]]); rewrite Hs in H1; clear Hs.
  - destruct (Nat.eq_dec t' t) as [->|Hne].
    + apply nth_error_set_nth_same in H1. inversion H1; subst k.
      split; auto. split; [unfold at_limit in L; lia|eauto].
    + rewrite nth_error_set_nth_neq in H1 by auto. contradiction.
  - contradiction.
  - destruct (Nat.eq_dec t' t) as [->|Hne].
    + apply nth_error_set_nth_same in H1. discriminate.
    + rewrite nth_error_set_nth_neq in H1 by auto.
      apply kick_nth_inv in H1; [contradiction|discriminate].
  - destruct (Nat.eq_dec t' t) as [->|Hne].
    + apply nth_error_set_nth_same in H1. discriminate.
    + rewrite nth_error_set_nth_neq in H1 by auto. contradiction.
Qed.

Lemma limit_refusal max specs sched t' t k :
  let c := run exec sched (limit_threads max specs) in
  stat t (step exec t' c) = Some (Refused k) -> stat t c <> Some (Refused k) ->
  t' = t /\ max <= l_counter (shared c) /\
  exists sp, nth_error specs t = Some sp /\ k = refusal_code (ts_ver sp).
Proof.
  cbn zeta. intros H1 H0. destruct (refusal_step _ _ _ _ H1 H0) as (A & B & sp & C & D).
  destruct (run_consts sched (limit_threads max specs)) as [M S]. cbn in M, S.
  rewrite M in B. rewrite S in C. eauto.
Qed.

Lemma Forall2_len {A B} (R : A -> B -> Prop) l l' : Forall2 R l l' -> length l = length l'.
Proof. induction 1; cbn; auto. Qed.

Lemma kick_length id specs stats : length (kick id specs stats) = length stats.
Proof. revert specs; induction stats as [|x r IH]; intros [|sp specs]; cbn; auto. Qed.

(* below the limit an attempt is admitted: the model does not refuse everybody *)
Lemma limit_admits max specs sched t :
  0 <= max ->
  let c := run exec sched (limit_threads max specs) in
  l_counter (shared c) < max ->
  nth_error (threads c) t = Some [Reserve; Decr] -> (t < length specs)%nat ->
  stat t (step exec t c) = Some Established.
Proof.
  intros Hmax. cbn zeta. intros Hlt Hn Ht.
  destruct (run_inv max specs sched Hmax) as [M S Hok _ _].
  remember (run exec sched (limit_threads max specs)) as c eqn:Hc. clear Hc.
  unfold stat, step, step_thread. rewrite Hn. unfold exec. rewrite S.
  destruct (nth_error specs t) as [sp|] eqn:E.
  - unfold at_limit. rewrite M. destruct (max <=? l_counter (shared c)) eqn:L; [lia|]. cbn.
    apply nth_error_set_nth_eq. rewrite kick_length.
    rewrite <- (Forall2_len _ _ _ Hok). apply nth_error_Some. congruence.
  - apply nth_error_None in E. lia.
Qed.
