(* Finite exploration of an interleaving model (Base/Sched.v): if a finite list of configurations
   contains the initial one and is closed under one schedule entry of every thread, every schedule
   ends in that list; a property checked on the list (vm_compute) therefore holds after every
   schedule.  Used by the takeover / CONNACK window models (C13, C14, C16). *)
From MV Require Import Base.Val Base.Sched Base.SchedProofs.
From Coq Require Import Lia.
Open Scope nat_scope.

Section Reach.
  Variables St Ins : Type.
  Variable exec : tid -> Ins -> St -> outcome St.
  Variable beq : cfg St Ins -> cfg St Ins -> bool.
  Hypothesis beq_ok : forall a b, beq a b = true -> a = b.

  Definition mem (c : cfg St Ins) (L : list (cfg St Ins)) : bool := existsb (beq c) L.

  Lemma mem_in c L : mem c L = true -> In c L.
  Proof. unfold mem. rewrite existsb_exists. intros (x & I & E). apply beq_ok in E. subst. exact I. Qed.

  (* closed under the entries 0 .. n-1; every configuration has n threads *)
  Definition closed (n : nat) (L : list (cfg St Ins)) : bool :=
    forallb (fun c => Nat.eqb (length (threads c)) n && forallb (fun t => mem (step exec t c) L) (seq 0 n)) L.

  Lemma step_no_thread t (c : cfg St Ins) : length (threads c) <= t -> step exec t c = c.
  Proof.
    intro H. unfold step, step_thread. apply nth_error_None in H. rewrite H. reflexivity.
  Qed.

  Lemma run_in n L : closed n L = true -> forall sched c, In c L -> In (run exec sched c) L.
  Proof.
    intros CL sched. induction sched as [|t r IH]; intros c I; cbn [run]; [exact I|].
    apply IH. unfold closed in CL. rewrite forallb_forall in CL. specialize (CL c I).
    apply andb_true_iff in CL. destruct CL as [LEN ST]. apply Nat.eqb_eq in LEN.
    destruct (Nat.lt_ge_cases t n) as [LT|GE].
    - rewrite forallb_forall in ST. apply mem_in, ST. apply in_seq. lia.
    - rewrite step_no_thread by lia. exact I.
  Qed.

  (* a boolean property of configurations checked on the whole list holds after every schedule *)
  Lemma run_all n L (P : cfg St Ins -> bool) c0 :
    closed n L = true -> mem c0 L = true -> forallb P L = true -> forall sched, P (run exec sched c0) = true.
  Proof.
    intros CL M F sched. rewrite forallb_forall in F. apply F. apply (run_in n L CL). apply mem_in, M.
  Qed.

  (* exploration: all configurations reachable by schedules over threads 0..n-1 of length <= fuel *)
  Fixpoint add_new (cs : list (cfg St Ins)) (seen : list (cfg St Ins)) : list (cfg St Ins) :=
    match cs with
    | [] => seen
    | c :: r => if mem c seen then add_new r seen else add_new r (seen ++ [c])
    end.

  Fixpoint explore (n fuel : nat) (seen : list (cfg St Ins)) : list (cfg St Ins) :=
    match fuel with
    | O => seen
    | S f => explore n f (add_new (flat_map (fun c => map (fun t => step exec t c) (seq 0 n)) seen) seen)
    end.
End Reach.
