(* C14 / C16 (schedules) — proofs over all schedules and all parameter combinations of the takeover
   model by exhaustive exploration of its finite configuration space (Conc/Reach.v). *)
From MV Require Import Base.Val Base.Sched Base.SchedProofs Conc.Reach Conc.Takeover.
From Coq Require Import Lia.
Open Scope nat_scope.

Definition beq_instr (a b : instr) : bool :=
  match a, b with
  | ASendLWT, ASendLWT | AStop, AStop | ACheck, ACheck | AClear, AClear | ADelete, ADelete | BGet, BGet
  | BDisconnectOld, BDisconnectOld | BStoreTko, BStoreTko | BClientsAdd, BClientsAdd | BConnack, BConnack
  | BWillCancel, BWillCancel => true
  | _, _ => false
  end.
Lemma beq_instr_ok a b : beq_instr a b = true -> a = b.
Proof. destruct a, b; cbn; congruence. Qed.

Fixpoint beq_list {A} (eq : A -> A -> bool) (a b : list A) : bool :=
  match a, b with [], [] => true | x :: a', y :: b' => eq x y && beq_list eq a' b' | _, _ => false end.
Lemma beq_list_ok {A} (eq : A -> A -> bool) : (forall x y, eq x y = true -> x = y) ->
  forall a b, beq_list eq a b = true -> a = b.
Proof.
  intros H a. induction a as [|x a IH]; intros [|y b] E; cbn in E; try discriminate; [reflexivity|].
  apply andb_true_iff in E. destruct E as [E1 E2]. f_equal; [apply H, E1|apply IH, E2].
Qed.

Definition beq_params (a b : params) : bool :=
  Bool.eqb (p_expire a) (p_expire b) && Bool.eqb (p_will a) (p_will b) && Bool.eqb (p_delay a) (p_delay b) &&
  Bool.eqb (p_clean a) (p_clean b) && Bool.eqb (p_selfended a) (p_selfended b).
Lemma beq_params_ok a b : beq_params a b = true -> a = b.
Proof.
  unfold beq_params. intro E.
  repeat match goal with H : _ && _ = true |- _ => apply andb_true_iff in H; destruct H end.
  destruct a, b; cbn in *.
  repeat match goal with H : Bool.eqb _ _ = true |- _ => apply Bool.eqb_prop in H end. subst. reflexivity.
Qed.

Definition beq_tstate (a b : tstate) : bool :=
  beq_params (prm a) (prm b) && Bool.eqb (a_readret a) (a_readret b) && Bool.eqb (a_tko a) (a_tko b) &&
  N.eqb (reg a) (reg b) && Bool.eqb (found a) (found b) && Bool.eqb (b_added a) (b_added b) &&
  Bool.eqb (cancel_done a) (cancel_done b) && Bool.eqb (will_pending a) (will_pending b) &&
  Nat.eqb (will_published a) (will_published b) && Bool.eqb (deleted_new a) (deleted_new b) &&
  Bool.eqb (late_add a) (late_add b).
Lemma beq_tstate_ok a b : beq_tstate a b = true -> a = b.
Proof.
  unfold beq_tstate. intro E.
  repeat match goal with H : _ && _ = true |- _ => apply andb_true_iff in H; destruct H end.
  destruct a, b; cbn in *.
  repeat match goal with
         | H : Bool.eqb _ _ = true |- _ => apply Bool.eqb_prop in H
         | H : Nat.eqb _ _ = true |- _ => apply Nat.eqb_eq in H
         | H : N.eqb _ _ = true |- _ => apply N.eqb_eq in H
         | H : beq_params _ _ = true |- _ => apply beq_params_ok in H
         end.
  subst. reflexivity.
Qed.

Definition beq_cfg (a b : cfg tstate instr) : bool :=
  beq_tstate (shared a) (shared b) && beq_list (beq_list beq_instr) (threads a) (threads b).
Lemma beq_cfg_ok a b : beq_cfg a b = true -> a = b.
Proof.
  unfold beq_cfg. intro E. apply andb_true_iff in E. destruct E as [E1 E2].
  apply beq_tstate_ok in E1. apply (beq_list_ok _ (beq_list_ok _ beq_instr_ok)) in E2.
  destruct a, b; cbn in *. subst. reflexivity.
Qed.

(* the configurations reachable for one parameter combination (11 instructions in total: 12 rounds suffice) *)
Definition reach_p (p : params) : list (cfg tstate instr) := explore _ _ exec beq_cfg 2 12 [takeover_threads p].

Lemma reach_closed p : closed _ _ exec beq_cfg 2 (reach_p p) = true.
Proof. destruct p as [[] [] [] [] []]; vm_compute; reflexivity. Qed.

Lemma reach_init p : mem _ _ beq_cfg (takeover_threads p) (reach_p p) = true.
Proof. destruct p as [[] [] [] [] []]; vm_compute; reflexivity. Qed.

Lemma all_schedules (P : cfg tstate instr -> bool) :
  (forall p, forallb P (reach_p p) = true) -> forall p sched, P (run_takeover p sched) = true.
Proof.
  intros F p sched. unfold run_takeover.
  apply (run_all _ _ exec beq_cfg beq_cfg_ok 2 (reach_p p) P (takeover_threads p) (reach_closed p) (reach_init p) (F p)).
Qed.

Ltac all_params := let p := fresh "p" in intro p; destruct p as [[] [] [] [] []]; vm_compute; reflexivity.

Definition pA (ex w d cl se : bool) : params :=
  {| p_expire := ex; p_will := w; p_delay := d; p_clean := cl; p_selfended := se |}.

(* C14-1: A passes the !IsTakenOver() test, B stores the flag and registers, A deletes B's registration *)
Theorem new_registered_refuted : exists p sched, new_registered (run_takeover p sched) = false.
Proof. exists (pA true false false false false), [1; 1; 0; 0; 0; 1; 1; 0; 0]. vm_compute. reflexivity. Qed.

Theorem new_registered_modulo : forall p sched,
  KF_C14_stale_takenover_check p sched = false -> new_registered (run_takeover p sched) = true.
Proof.
  intros p sched K.
  pose proof (all_schedules (fun c => deleted_new (shared c) || new_registered c)) as A.
  specialize (A ltac:(all_params) p sched). cbv beta in A.
  unfold KF_C14_stale_takenover_check in K. rewrite K in A. exact A.
Qed.

(* C16-1: A's delayed will is registered after B's cancellation and stays pending *)
Theorem will_cancelled_refuted : exists p sched, will_cancelled (run_takeover p sched) = false.
Proof. exists (pA false true true false false), [1; 1; 1; 1; 1; 1; 0; 0; 0]. vm_compute. reflexivity. Qed.

Theorem will_cancelled_modulo : forall p sched,
  KF_C16_late_will_registration p sched = false -> will_cancelled (run_takeover p sched) = true.
Proof.
  intros p sched K.
  pose proof (all_schedules (fun c => late_add (shared c) || will_cancelled c)) as A.
  specialize (A ltac:(all_params) p sched). cbv beta in A.
  unfold KF_C16_late_will_registration in K. rewrite K in A. exact A.
Qed.

(* for every interleaving: a will without delay is published at most once, exactly once when A's handler is through *)
Theorem will_once_all : forall p sched, will_once (run_takeover p sched) = true.
Proof. apply all_schedules. all_params. Qed.

(* non-vacuity: the order "A's teardown completely before B" meets everything *)
Example takeover_sequential :
  let c := run_takeover (pA true true true false true) [0; 0; 0; 0; 0; 1; 1; 1; 1; 1; 1] in
  new_registered c = true /\ will_cancelled c = true /\ all_done c = true /\ reg (shared c) = 2%N.
Proof. vm_compute. repeat split. Qed.
