(* C36 — proofs about Conc/Shutdown.v, part 1: the per-connection invariant.
   C36 — proofs about Conc/Shutdown.v (the current code, [exec = exec_gen true]): an invariant of
   the shared state preserved by every instruction, hence valid after every schedule; from it
   - when nothing in the broker can move any more and Close was called, Close has returned, the
     listener is closed, every connection is closed (MQTT 5 clients that were connected got 0x8B)
     and no handler is alive;
   - Close returns only after every handler has finished, unless a spawned handler had not yet
     run ClientsWg.Add when Wait returned (the known finding). *)
From Coq Require Import Lia.
From MV Require Import Base.Val Base.Sched Base.SchedProofs Conc.Shutdown.
Open Scope Z_scope.

(* ---------- per-connection invariant, boolean so that its preservation is checked by enumeration ---------- *)

Definition imp (a b : bool) : bool := negb a || b.

Definition closed_phase (p : phase) : bool :=
  match p with PDone | PRefused | PReset | PDropped => true | _ => false end.

(* sn = the closer has taken its snapshot, dc = it has disconnected the snapshot,
   pu = Wait has returned and no spawned handler was unstarted at that moment *)
Definition conn_ok (sn dc pu : bool) (c : conn) : bool :=
  imp (closed_phase (c_phase c)) (c_closed c) &&
  imp (sn && phase_eqb (c_phase c) PServing) (c_insnap c) &&
  imp (dc && c_insnap c) (c_closed c) &&
  imp (phase_eqb (c_phase c) PServing && c_closed c) (c_disc c) &&
  imp (phase_eqb (c_phase c) PDone && c_connack c && negb (c_left c)) (c_disc c) &&
  imp (c_connack c) (phase_eqb (c_phase c) PServing || phase_eqb (c_phase c) PDone) &&
  imp (negb (c_insnap c)) true &&
  imp pu (negb (live c)).

(* enumeration over the phase and the flags of the connection; the invariant does not mention
   [c_sent], which stays a variable *)
Ltac crush_conn :=
  intros;
  repeat match goal with
         | c : conn |- _ =>
             let se := fresh "se" in
             destruct c as [? [] [] [] [] [] [] se];
             assert (se = se) by reflexivity
         | b : bool |- _ =>
             lazymatch goal with
             | _ : b = b |- _ => fail
             | _ => destruct b
             end
         end;
  cbn in *; try reflexivity; try discriminate.

Ltac crush_conn_all :=
  intros;
  repeat match goal with
         | c : conn |- _ => destruct c as [? [] [] [] [] [] [] []]
         | b : bool |- _ => destruct b
         end;
  cbn in *; try reflexivity; try discriminate.

Lemma ok_weaken sn dc c : conn_ok sn dc true c = true -> conn_ok sn dc false c = true.
Proof. crush_conn. Qed.

Lemma ok_strengthen sn dc c : conn_ok sn dc false c = true -> live c = false -> conn_ok sn dc true c = true.
Proof. crush_conn. Qed.

Lemma ok_pu_live sn dc c : conn_ok sn dc true c = true -> live c = false.
Proof. crush_conn. Qed.

Lemma ok_snapshot pu c : conn_ok false false pu c = true -> conn_ok true false pu (take_snapshot c) = true.
Proof. crush_conn. Qed.

Lemma ok_disconnect pu c : conn_ok true false pu c = true -> conn_ok true true pu (disconnect c) = true.
Proof. crush_conn. Qed.

Lemma ok_reset sn dc pu c : conn_ok sn dc pu c = true -> conn_ok sn dc pu (reset_pending c) = true.
Proof. crush_conn. Qed.

Lemma ok_refused sn dc pu c :
  c_phase c = PNone -> conn_ok sn dc pu c = true -> conn_ok sn dc pu (set_closed (set_phase PRefused c)) = true.
Proof. crush_conn. Qed.

Lemma ok_pending sn dc pu c :
  c_phase c = PNone -> conn_ok sn dc pu c = true -> conn_ok sn dc pu (set_phase PPending c) = true.
Proof. crush_conn. Qed.

Lemma ok_left sn dc pu c : conn_ok sn dc pu c = true -> conn_ok sn dc pu (set_left c) = true.
Proof. crush_conn. Qed.

Lemma ok_cur sn dc pu c :
  c_phase c = PPending -> conn_ok sn dc pu c = true -> conn_ok sn dc pu (set_phase PCur c) = true.
Proof. crush_conn. Qed.

Lemma ok_dropped sn dc pu c :
  c_phase c = PCur -> conn_ok sn dc pu c = true -> conn_ok sn dc pu (set_closed (set_phase PDropped c)) = true.
Proof. crush_conn. Qed.

Lemma ok_spawned sn dc c :
  c_phase c = PCur -> conn_ok sn dc false c = true -> conn_ok sn dc false (set_phase PSpawned c) = true.
Proof. crush_conn. Qed.

Lemma ok_wait sn dc pu c :
  c_phase c = PSpawned -> conn_ok sn dc pu c = true -> conn_ok sn dc pu (set_phase PWait c) = true.
Proof. crush_conn. Qed.

Lemma ok_added sn dc pu c :
  c_phase c = PWait -> conn_ok sn dc pu c = true -> conn_ok sn dc pu (set_phase PAdded c) = true.
Proof. crush_conn. Qed.

Lemma ok_sent sn dc pu c : conn_ok sn dc pu c = true -> conn_ok sn dc pu (set_sent c) = true.
Proof. crush_conn. Qed.

Lemma ok_read_failed sn dc pu c :
  c_phase c = PWait -> conn_ok sn dc pu c = true -> conn_ok sn dc false (set_closed (set_phase PDone c)) = true.
Proof. crush_conn. Qed.

Lemma ok_inclients sn dc pu c :
  c_phase c = PAdded -> conn_ok sn dc pu c = true -> conn_ok sn dc pu (set_phase PInClients c) = true.
Proof. crush_conn. Qed.

Lemma ok_refuse_done sn dc pu c :
  c_phase c = PInClients -> conn_ok sn dc pu c = true -> conn_ok sn dc false (set_closed (set_phase PDone c)) = true.
Proof. crush_conn. Qed.

Lemma ok_serving pu c :
  c_phase c = PInClients -> c_closed c = false ->
  conn_ok false false pu c = true -> conn_ok false false pu (set_connack (set_phase PServing c)) = true.
Proof. crush_conn. Qed.

Lemma ok_teardown sn dc pu c :
  c_phase c = PServing -> c_closed c || c_left c = true ->
  conn_ok sn dc pu c = true -> conn_ok sn dc false (set_closed (set_phase PDone c)) = true.
Proof. crush_conn. Qed.


(* what the invariant says about a connection once the closer has disconnected its snapshot *)
Lemma ok_counted_not_quiet pu c :
  conn_ok true true pu c = true -> counted c = true -> handler_quiet c = true -> silent c = false -> False.
Proof. crush_conn_all. Qed.

Lemma ok_quiet_closed pu c :
  conn_ok true true pu c = true -> handler_quiet c = true -> silent c = false ->
  c_phase c <> PPending -> c_phase c <> PCur ->
  conn_closed_ok c = true /\ live c = false.
Proof.
  intros; destruct c as [v [] [] [] [] [] [] []]; destruct pu; cbn in *;
    try discriminate; try congruence; split; try reflexivity;
    destruct (v =? 5)%N; reflexivity.
Qed.
