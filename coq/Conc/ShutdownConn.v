(* C36 — proofs about Conc/Shutdown.v, part 1: the per-connection invariant.
   C36 — proofs about Conc/Shutdown.v (the current code, [exec = exec_gen true]): an invariant of
   the shared state preserved by every instruction, hence valid after every schedule; from it
   - when nothing in the broker can move any more and Close was called, Close has returned, the
     listener is closed, every connection is closed (MQTT 5 clients that were connected got 0x8B)
     and no handler is alive;
   - Close returns only after every handler has finished, unless a spawned handler had not yet
     run ClientsWg.Add when Wait returned (the known finding). *)
From Coq Require Import Lia.
From MV Require Import Base.Val Base.Sched Base.SchedProofs Conc.Shutdown.
Open Scope Z_scope.

(* ---------- per-connection invariant, boolean so that its preservation is checked by enumeration ---------- *)

Definition imp (a b : bool) : bool := negb a || b.

Definition closed_phase (p : phase) : bool :=
  match p with PDone | PRefused | PReset | PDropped => true | _ => false end.

(* sn = the closer has taken its snapshot, dc = it has disconnected the snapshot,
   pu = Wait has returned and no spawned handler was unstarted at that moment *)
(* part 1 — closing: depends on the phase, [c_closed], [c_insnap] only *)
Definition conn_ok1 (sn dc pu : bool) (c : conn) : bool :=
  imp (closed_phase (c_phase c)) (c_closed c) &&
  imp (sn && phase_eqb (c_phase c) PServing) (c_insnap c) &&
  imp (dc && c_insnap c) (c_closed c) &&
  imp pu (negb (live c)).

(* part 2 — what the client was sent: depends on the phase, [c_closed], [c_left], [c_connack],
   [c_disc], [c_wfail] only.  A connected client that the broker closed was sent the DISCONNECT
   unless the write failed. *)
Definition conn_ok2 (c : conn) : bool :=
  imp (phase_eqb (c_phase c) PServing && c_closed c) (c_disc c || c_wfail c) &&
  imp (phase_eqb (c_phase c) PDone && c_connack c && negb (c_left c)) (c_disc c || c_wfail c) &&
  imp (c_connack c) (phase_eqb (c_phase c) PServing || phase_eqb (c_phase c) PDone).

Definition conn_ok (sn dc pu : bool) (c : conn) : bool := conn_ok1 sn dc pu c && conn_ok2 c.

(* enumeration: each part is checked separately; only the phase is split at once, then the fields
   and parameters that the goal at hand really depends on *)
Ltac crush_part :=
  lazymatch goal with
  | |- conn_ok1 _ _ _ _ = true => repeat match goal with H : conn_ok2 _ = true |- _ => clear H end
  | |- conn_ok2 _ = true => repeat match goal with H : conn_ok1 _ _ _ _ = true |- _ => clear H end
  | _ => repeat match goal with H : conn_ok2 _ = true |- _ => clear H end
  end;
  repeat match goal with c : conn |- _ => destruct c as [? [] ? ? ? ? ? ? ? ?] end;
  cbn in *; try discriminate;
  repeat match goal with b : bool |- _ => clear b end;
  repeat match goal with b : bool |- _ => destruct b end;
  try reflexivity; try discriminate;
  try (exfalso; match goal with H : _ = true |- _ => vm_compute in H; discriminate H end);
  cbn in *; try reflexivity; try discriminate.

Ltac crush_conn :=
  intros; unfold conn_ok in *;
  repeat match goal with H : _ && _ = true |- _ => apply andb_prop in H; destruct H end;
  try (apply andb_true_intro; split);
  crush_part.

Lemma ok_weaken sn dc c : conn_ok sn dc true c = true -> conn_ok sn dc false c = true.
Proof. crush_conn. Qed.

Lemma ok_strengthen sn dc c : conn_ok sn dc false c = true -> live c = false -> conn_ok sn dc true c = true.
Proof. crush_conn. Qed.

Lemma ok_pu_live sn dc c : conn_ok sn dc true c = true -> live c = false.
Proof. crush_conn. Qed.

Lemma ok_snapshot pu c : conn_ok false false pu c = true -> conn_ok true false pu (take_snapshot c) = true.
Proof. crush_conn. Qed.

Lemma ok_disconnect pu c : conn_ok true false pu c = true -> conn_ok true true pu (disconnect Current c) = true.
Proof. crush_conn. Qed.

Lemma ok_reset sn dc pu c : conn_ok sn dc pu c = true -> conn_ok sn dc pu (reset_pending c) = true.
Proof. crush_conn. Qed.

Lemma ok_refused sn dc pu c :
  c_phase c = PNone -> conn_ok sn dc pu c = true -> conn_ok sn dc pu (set_closed (set_phase PRefused c)) = true.
Proof. crush_conn. Qed.

Lemma ok_pending sn dc pu c :
  c_phase c = PNone -> conn_ok sn dc pu c = true -> conn_ok sn dc pu (set_phase PPending c) = true.
Proof. crush_conn. Qed.

Lemma ok_left sn dc pu c : conn_ok sn dc pu c = true -> conn_ok sn dc pu (set_left c) = true.
Proof. crush_conn. Qed.

Lemma ok_cur sn dc pu c :
  c_phase c = PPending -> conn_ok sn dc pu c = true -> conn_ok sn dc pu (set_phase PCur c) = true.
Proof. crush_conn. Qed.

Lemma ok_dropped sn dc pu c :
  c_phase c = PCur -> conn_ok sn dc pu c = true -> conn_ok sn dc pu (set_closed (set_phase PDropped c)) = true.
Proof. crush_conn. Qed.

Lemma ok_spawned sn dc c :
  c_phase c = PCur -> conn_ok sn dc false c = true -> conn_ok sn dc false (set_phase PSpawned c) = true.
Proof. crush_conn. Qed.

Lemma ok_wait sn dc pu c :
  c_phase c = PSpawned -> conn_ok sn dc pu c = true -> conn_ok sn dc pu (set_phase PWait c) = true.
Proof. crush_conn. Qed.

Lemma ok_added sn dc pu c :
  c_phase c = PWait -> conn_ok sn dc pu c = true -> conn_ok sn dc pu (set_phase PAdded c) = true.
Proof. crush_conn. Qed.

Lemma ok_sent sn dc pu c : conn_ok sn dc pu c = true -> conn_ok sn dc pu (set_sent c) = true.
Proof. crush_conn. Qed.

Lemma ok_read_failed sn dc pu c :
  c_phase c = PWait -> conn_ok sn dc pu c = true -> conn_ok sn dc false (set_closed (set_phase PDone c)) = true.
Proof. crush_conn. Qed.

Lemma ok_inclients sn dc pu c :
  c_phase c = PAdded -> conn_ok sn dc pu c = true -> conn_ok sn dc pu (set_phase PInClients c) = true.
Proof. crush_conn. Qed.

Lemma ok_refuse_done sn dc pu c :
  c_phase c = PInClients -> conn_ok sn dc pu c = true -> conn_ok sn dc false (set_closed (set_phase PDone c)) = true.
Proof. crush_conn. Qed.

Lemma ok_serving pu c :
  c_phase c = PInClients -> c_closed c = false ->
  conn_ok false false pu c = true -> conn_ok false false pu (set_connack (set_phase PServing c)) = true.
Proof. crush_conn. Qed.

Lemma ok_teardown sn dc pu c :
  c_phase c = PServing -> c_closed c || c_left c = true ->
  conn_ok sn dc pu c = true -> conn_ok sn dc false (set_closed (set_phase PDone c)) = true.
Proof. crush_conn. Qed.


(* what the invariant says about a connection once the closer has disconnected its snapshot *)
Lemma ok_counted_not_quiet pu c :
  conn_ok true true pu c = true -> counted c = true -> handler_quiet c = true -> silent c = false -> False.
Proof. crush_conn. Qed.

Lemma ok_quiet_closed pu c :
  conn_ok true true pu c = true -> handler_quiet c = true -> silent c = false -> undelivered c = false ->
  c_phase c <> PPending -> c_phase c <> PCur ->
  conn_closed_ok c = true /\ live c = false.
Proof.
  intros; destruct c as [v [] [] [] [] [] [] [] [] []]; destruct pu;
    unfold conn_closed_ok, undelivered, owed_disconnect in *; cbn in *;
    try discriminate; try congruence; split; try reflexivity;
    destruct (v =? 5)%N; cbn in *; try reflexivity; try discriminate.
Qed.
