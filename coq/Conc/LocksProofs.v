(* C32 — proofs about Conc/Locks.v:
   1. under the rank discipline no reachable configuration of the RW-mutex machine is deadlocked,
      and every schedule can be extended to completion;
   2. executions that conform to a lock table whose lock-order graph has a topological numbering
      obey the rank discipline;
   3. the boolean checker [lock_discipline_ok] is sound for the hypotheses of 2. *)
From Coq Require Import List NArith Bool Arith Lia Permutation.
From MV Require Import Base.Val Conc.Locks.
Import ListNotations.
Open Scope N_scope.

(* ------------------------------------------------------------------------------------- *)
(* small facts                                                                            *)
(* ------------------------------------------------------------------------------------- *)

Lemma mode_eqb_eq : forall a b, mode_eqb a b = true -> a = b.
Proof. intros [] [] H; simpl in H; congruence. Qed.

Lemma mode_eqb_refl : forall a, mode_eqb a a = true.
Proof. intros []; reflexivity. Qed.

Lemma hl_eqb_eq : forall a b, hl_eqb a b = true -> a = b.
Proof.
  intros [l m] [l' m'] H. unfold hl_eqb in H. simpl in H.
  apply andb_prop in H. destruct H as [H1 H2].
  apply N.eqb_eq in H1. apply mode_eqb_eq in H2. subst. reflexivity.
Qed.

Lemma hl_eqb_refl : forall a, hl_eqb a a = true.
Proof. intros [l m]. unfold hl_eqb. simpl. rewrite N.eqb_refl, mode_eqb_refl. reflexivity. Qed.

Lemma ch_eqb_eq : forall a b, ch_eqb a b = true -> a = b.
Proof. exact hl_eqb_eq. Qed.

Lemma memb_In : forall x h, memb x h = true <-> In x h.
Proof.
  intros x h. unfold memb. rewrite existsb_exists. split.
  - intros [y [Hy E]]. apply hl_eqb_eq in E. subst. exact Hy.
  - intros H. exists x. split; [exact H | apply hl_eqb_refl].
Qed.

Lemma ch_mem_In : forall x h, ch_mem x h = true -> In x h.
Proof.
  intros x h H. unfold ch_mem in H. apply existsb_exists in H.
  destruct H as [y [Hy E]]. apply ch_eqb_eq in E. subst. exact Hy.
Qed.

Lemma remove_one_perm : forall x h, In x h -> Permutation h (x :: remove_one x h).
Proof.
  intros x h. induction h as [|y r IH]; intros H; [destruct H|].
  simpl. destruct (hl_eqb x y) eqn:E.
  - apply hl_eqb_eq in E. subst. apply Permutation_refl.
  - destruct H as [H|H].
    + subst. rewrite hl_eqb_refl in E. discriminate.
    + eapply Permutation_trans; [apply perm_skip, IH, H | apply perm_swap].
Qed.

(* ------------------------------------------------------------------------------------- *)
(* 1. the machine under the rank discipline                                               *)
(* ------------------------------------------------------------------------------------- *)

Section Machine.
Variable rk : lock -> N.

Lemma do_step_ok : forall t, thread_ok rk t -> thread_ok rk (do_step t).
Proof.
  intros [h a p] H. unfold thread_ok, do_step in *. simpl in *.
  destruct p as [|[l m|l m] p]; simpl in *.
  - exact H.
  - apply andb_prop in H. destruct H as [H1 H2].
    destruct m; simpl.
    + exact H2.
    + destruct a; simpl; [exact H2|]. rewrite H1, H2. reflexivity.
  - apply andb_prop in H. destruct H as [_ H2]. exact H2.
Qed.

Lemma In_update : forall c i t x, In x (update c i t) -> x = t \/ In x c.
Proof.
  induction c as [|y r IH]; intros i t x H; simpl in H.
  - destruct i; destruct H.
  - destruct i; simpl in H.
    + destruct H as [H|H]; [left; symmetry; exact H | right; right; exact H].
    + destruct H as [H|H]; [right; left; exact H|].
      apply IH in H. destruct H as [H|H]; [left; exact H | right; right; exact H].
Qed.

Definition all_ok (c : cfg) : Prop := forall t, In t c -> thread_ok rk t.

Lemma step_ok : forall c i c', all_ok c -> step c i = Some c' -> all_ok c'.
Proof.
  intros c i c' Hok Hs. unfold step in Hs.
  destruct (nth_error c i) as [t|] eqn:En; [|discriminate].
  destruct (can_step c t); [|discriminate]. injection Hs as <-.
  intros x Hx. apply In_update in Hx. destruct Hx as [->|Hx].
  - apply do_step_ok. apply Hok. eapply nth_error_In; exact En.
  - apply Hok; exact Hx.
Qed.

Lemma run_ok : forall sched c, all_ok c -> all_ok (run sched c).
Proof.
  induction sched as [|i s IH]; intros c Hok; simpl; [exact Hok|].
  apply IH. destruct (step c i) as [c'|] eqn:Es; [eapply step_ok; eauto | exact Hok].
Qed.

(* rank of the lock a thread is about to acquire *)
Definition hr (t : thread) : N := match prog t with Acq l _ :: _ => rk l | _ => 0 end.
Definition top (c : cfg) : N := fold_right N.max 0 (map hr c).

Lemma hr_le_top : forall c t, In t c -> hr t <= top c.
Proof.
  induction c as [|y r IH]; intros t H; [destruct H|].
  unfold top. simpl. fold (top r). destruct H as [->|H].
  - apply N.le_max_l.
  - etransitivity; [apply IH, H | apply N.le_max_r].
Qed.

Lemma holds_w_holds : forall l t, holds_w l t = true -> holds l t = true.
Proof.
  intros l t H. unfold holds_w, holds in *. apply existsb_exists in H.
  destruct H as [x [Hx E]]. apply andb_prop in E. destruct E as [E _].
  apply existsb_exists. exists x. split; assumption.
Qed.

(* a thread holding something, in a configuration where nobody can move, waits for a lock of
   strictly higher rank than everything it holds *)
Lemma holder_waits_higher : forall c v l,
  all_ok c -> (forall t, In t c -> can_step c t = false) ->
  In v c -> holds l v = true ->
  exists l' m' p', prog v = Acq l' m' :: p' /\ rk l < rk l'.
Proof.
  intros c v l Hok Hstuck Hv Hh.
  unfold holds in Hh. apply existsb_exists in Hh. destruct Hh as [x [Hx E]].
  apply N.eqb_eq in E.
  pose proof (Hok v Hv) as Hc. unfold thread_ok in Hc.
  pose proof (Hstuck v Hv) as Hs. unfold can_step in Hs.
  destruct (prog v) as [|[l' m'|l' m'] p'] eqn:Ep.
  - simpl in Hc. destruct (held v); [destruct Hx | discriminate].
  - exists l', m', p'. split; [reflexivity|].
    simpl in Hc. apply andb_prop in Hc. destruct Hc as [Hc _].
    rewrite forallb_forall in Hc. specialize (Hc x Hx). cbv beta in Hc. apply N.ltb_lt in Hc.
    rewrite <- E. exact Hc.
  - discriminate.
Qed.

(* nobody can move => everybody has finished *)
Lemma stuck_all_done : forall c,
  all_ok c -> (forall t, In t c -> can_step c t = false) -> all_done c.
Proof.
  intros c Hok Hstuck.
  assert (Hno : forall r, forall t l m p, In t c -> prog t = Acq l m :: p -> rk l = r -> False).
  { intros r. induction r as [r IH] using (well_founded_induction (N.gt_wf (top c))).
    intros t l m p Ht Ep Er.
    (* some thread holds l *)
    assert (Hholder : exists v, In v c /\ holds l v = true).
    { pose proof (Hstuck t Ht) as Hs. unfold can_step in Hs. rewrite Ep in Hs.
      destruct m.
      - apply andb_false_iff in Hs. destruct Hs as [Hs|Hs].
        + apply negb_false_iff in Hs. apply existsb_exists in Hs.
          destruct Hs as [v [Hv Hw]]. exists v. split; [exact Hv | apply holds_w_holds; exact Hw].
        + apply negb_false_iff in Hs. apply existsb_exists in Hs.
          destruct Hs as [u [Hu Hp]]. unfold pending_w in Hp.
          apply andb_prop in Hp. destruct Hp as [Ha Hq].
          destruct (prog u) as [|[l2 [|]|] pu] eqn:Epu; try discriminate.
          apply N.eqb_eq in Hq. subst l2.
          pose proof (Hstuck u Hu) as Hsu. unfold can_step in Hsu. rewrite Epu, Ha in Hsu.
          apply negb_false_iff in Hsu. apply existsb_exists in Hsu.
          destruct Hsu as [v [Hv Hh]]. exists v. split; assumption.
      - destruct (announced t); [|discriminate].
        apply negb_false_iff in Hs. apply existsb_exists in Hs.
        destruct Hs as [v [Hv Hh]]. exists v. split; assumption. }
    destruct Hholder as [v [Hv Hh]].
    destruct (holder_waits_higher c v l Hok Hstuck Hv Hh) as [l' [m' [p' [Epv Hlt]]]].
    apply (IH (rk l')) with (t := v) (l := l') (m := m') (p := p'); try assumption; try reflexivity.
    split; [rewrite <- Er; exact Hlt|].
    pose proof (hr_le_top c v Hv) as Hle. unfold hr in Hle. rewrite Epv in Hle. exact Hle. }
  intros t Ht. destruct (prog t) as [|[l m|l m] p] eqn:Ep; [reflexivity| |].
  - exfalso. eapply Hno; eauto.
  - pose proof (Hstuck t Ht) as Hs. unfold can_step in Hs. rewrite Ep in Hs. discriminate.
Qed.

Lemma progress : forall c, all_ok c -> (exists t, In t c /\ unfinished t) ->
  exists i c', step c i = Some c'.
Proof.
  intros c Hok [t [Ht Hu]].
  destruct (existsb (can_step c) c) eqn:Ex.
  - apply existsb_exists in Ex. destruct Ex as [u [Hin Hc]].
    apply In_nth_error in Hin. destruct Hin as [i Hi].
    exists i, (update c i (do_step u)). unfold step. rewrite Hi, Hc. reflexivity.
  - exfalso. apply Hu. apply (stuck_all_done c Hok); [|exact Ht].
    intros u Hin. destruct (can_step c u) eqn:Ec; [|reflexivity].
    assert (existsb (can_step c) c = true) by (apply existsb_exists; exists u; split; assumption).
    congruence.
Qed.

Definition init_ok (c : cfg) : Prop :=
  forall t, In t c -> held t = [] /\ chk rk [] (prog t) = true.

Lemma init_all_ok : forall c, init_ok c -> all_ok c.
Proof. intros c H t Ht. destruct (H t Ht) as [Hh Hc]. unfold thread_ok. rewrite Hh. exact Hc. Qed.

Theorem discipline_sound : forall c0, init_ok c0 -> forall sched, ~ deadlocked (run sched c0).
Proof.
  intros c0 H0 sched [Hu Hnone].
  destruct (progress (run sched c0) (run_ok sched c0 (init_all_ok c0 H0)) Hu) as [i [c' Hs]].
  rewrite Hnone in Hs. discriminate.
Qed.

(* ---- completion: every schedule can be extended so that all threads finish ---- *)

Definition weight (t : thread) : nat :=
  2 * length (prog t) - (if announced t then 1 else 0).
Definition total (c : cfg) : nat := fold_right plus O (map weight c).

Lemma do_step_weight : forall t, prog t <> [] -> (weight (do_step t) < weight t)%nat.
Proof.
  intros [h a p] Hp. unfold weight, do_step. simpl in *.
  destruct p as [|[l m|l m] p]; [congruence| |].
  - destruct m; simpl.
    + destruct a; lia.
    + destruct a; simpl; lia.
  - simpl. destruct a; lia.
Qed.

Lemma total_update : forall c i t u, nth_error c i = Some t ->
  (total (update c i u) + weight t = total c + weight u)%nat.
Proof.
  induction c as [|y r IH]; intros i t u H.
  - destruct i; discriminate.
  - destruct i; simpl in *.
    + injection H as ->. unfold total. simpl. lia.
    + specialize (IH i t u H). unfold total in *. simpl. lia.
Qed.

Lemma step_total : forall c i c', step c i = Some c' -> (total c' < total c)%nat.
Proof.
  intros c i c' H. unfold step in H.
  destruct (nth_error c i) as [t|] eqn:En; [|discriminate].
  destruct (can_step c t) eqn:Ec; [|discriminate]. injection H as <-.
  pose proof (total_update c i t (do_step t) En).
  assert (prog t <> []) by (unfold can_step in Ec; destruct (prog t); [discriminate|congruence]).
  pose proof (do_step_weight t H0). lia.
Qed.

Lemma completes_from : forall n c, (total c <= n)%nat -> all_ok c ->
  exists sched, all_done (run sched c).
Proof.
  induction n as [|n IH]; intros c Hn Hok.
  - exists []. simpl. intros t Ht.
    destruct (prog t) eqn:Ep; [reflexivity|]. exfalso.
    assert (Hu : exists t, In t c /\ unfinished t) by (exists t; split; [exact Ht | unfold unfinished; congruence]).
    destruct (progress c Hok Hu) as [i [c' Hs]]. apply step_total in Hs. lia.
  - destruct (existsb (fun t => match prog t with [] => false | _ => true end) c) eqn:Ex.
    + apply existsb_exists in Ex. destruct Ex as [t [Ht Hp]].
      assert (Hu : exists t, In t c /\ unfinished t).
      { exists t. split; [exact Ht|]. unfold unfinished. destruct (prog t); [discriminate|congruence]. }
      destruct (progress c Hok Hu) as [i [c' Hs]].
      destruct (IH c') as [s Hs'].
      * apply step_total in Hs. lia.
      * eapply step_ok; eauto.
      * exists (i :: s). simpl. rewrite Hs. exact Hs'.
    + exists []. simpl. intros t Ht. destruct (prog t) eqn:Ep; [reflexivity|].
      assert (existsb (fun t => match prog t with [] => false | _ => true end) c = true).
      { apply existsb_exists. exists t. split; [exact Ht|]. rewrite Ep. reflexivity. }
      congruence.
Qed.

Lemma run_app : forall s1 s2 c, run (s1 ++ s2) c = run s2 (run s1 c).
Proof. induction s1 as [|i s IH]; intros; simpl; [reflexivity | apply IH]. Qed.

Theorem discipline_completes : forall c0, init_ok c0 ->
  forall sched, exists sched', all_done (run (sched ++ sched') c0).
Proof.
  intros c0 H0 sched.
  destruct (completes_from (total (run sched c0)) (run sched c0) (le_n _)
              (run_ok sched c0 (init_all_ok c0 H0))) as [s Hs].
  exists s. rewrite run_app. exact Hs.
Qed.

End Machine.

(* ------------------------------------------------------------------------------------- *)
(* 2. executions conforming to a table with a numbered lock-order graph                   *)
(* ------------------------------------------------------------------------------------- *)

Lemma action_eqb_eq : forall a b, action_eqb a b = true -> a = b.
Proof.
  intros [c m|g] [c' m'|g'] H; simpl in H; try discriminate.
  - apply andb_prop in H. destruct H as [H1 H2].
    apply N.eqb_eq in H1. apply mode_eqb_eq in H2. subst. reflexivity.
  - apply N.eqb_eq in H. subst. reflexivity.
Qed.

Lemma site_ok_site : forall tbl f L a, site_ok tbl f L a = true ->
  exists s, In s tbl /\ s_fn s = f /\ s_act s = a /\ forall x, In x L -> In x (s_held s).
Proof.
  intros tbl f L a H. unfold site_ok in H. apply existsb_exists in H.
  destruct H as [s [Hs E]]. apply andb_prop in E. destruct E as [E E3].
  apply andb_prop in E. destruct E as [E1 E2].
  exists s. split; [exact Hs|]. split; [apply N.eqb_eq; exact E1|].
  split; [apply action_eqb_eq; exact E2|].
  intros x Hx. unfold ch_subset in E3. rewrite forallb_forall in E3.
  apply ch_mem_In. apply E3. exact Hx.
Qed.

Section Table.
Variable cl : lock -> cls.
Variable tbl : lock_table.
Variable unb : list fname.
Variable A : fname -> list cls.
Variable rkc : cls -> N.
Hypothesis Hclosed : closed tbl A.
Hypothesis Hrank : forall a b, In (a, b) (lock_order tbl A) -> rkc a < rkc b.

Lemma site_rank : forall s h c, In s tbl -> In h (s_held s) -> In c (targets A s) ->
  rkc (fst h) < rkc c.
Proof.
  intros s h c Hs Hh Hc. apply Hrank. unfold lock_order.
  apply in_flat_map. exists s. split; [exact Hs|].
  apply in_flat_map. exists h. split; [exact Hh|].
  apply in_map_iff. exists c. split; [reflexivity | exact Hc].
Qed.

(* every frame below the top one called the frame above it at a site of the table *)
Fixpoint stack_inv (st : list frame) : Prop :=
  match st with
  | [] => False
  | (g, _) :: below =>
      match below with
      | [] => True
      | (f, L) :: _ => site_ok tbl f (map (clm cl) L) (Call g) = true /\ stack_inv below
      end
  end.

Lemma stack_inv_top : forall f L L' below, stack_inv ((f, L) :: below) -> stack_inv ((f, L') :: below).
Proof. intros f L L' below H. simpl in *. exact H. Qed.

(* whatever the function on top may acquire ranks above everything held by the frames below *)
Lemma below_rank : forall below f L c, stack_inv ((f, L) :: below) -> In c (A f) ->
  forall fr x, In fr below -> In x (snd fr) -> rkc (cl (fst x)) < rkc c.
Proof.
  induction below as [|[f' L'] rest IH]; intros f L c Hinv Hc fr x Hfr Hx; [destruct Hfr|].
  simpl in Hinv. destruct Hinv as [Hsite Hinv'].
  apply site_ok_site in Hsite. destruct Hsite as [s [Hs [Hf [Ha Hsub]]]].
  assert (HcA' : In c (A f')).
  { pose proof (Hclosed s Hs) as Hcl. rewrite Ha in Hcl. rewrite Hf in Hcl. apply Hcl. exact Hc. }
  destruct Hfr as [<-|Hfr].
  - simpl in Hx.
    assert (Hin : In (clm cl x) (s_held s)) by (apply Hsub; apply in_map; exact Hx).
    apply (site_rank s (clm cl x) c Hs Hin). unfold targets. rewrite Ha. exact Hc.
  - apply (IH f' L' c Hinv' HcA' fr x Hfr Hx).
Qed.

Definition rki (l : lock) : N := rkc (cl l).

Lemma conforms_chk : forall es st H,
  stack_inv st -> conforms cl tbl unb st es = true ->
  Permutation H (concat (map snd st)) ->
  chk rki H (ops_of es) = true.
Proof.
  induction es as [|e r IH]; intros st H Hinv Hc Hperm.
  - simpl in Hc. destruct st as [|[f L] below]; [discriminate|].
    destruct L; [|discriminate]. destruct below; [|discriminate].
    simpl in Hperm. apply Permutation_sym, Permutation_nil in Hperm. subst. reflexivity.
  - destruct st as [|[f L] below]; [simpl in Hc; discriminate|].
    destruct e as [l m|l m|g|]; simpl in Hc.
    + (* acquire *)
      apply andb_prop in Hc. destruct Hc as [Hsite Hc].
      simpl. apply andb_true_intro. split.
      * apply forallb_forall. intros x Hx. apply N.ltb_lt.
        apply site_ok_site in Hsite. destruct Hsite as [s [Hs [Hf [Ha Hsub]]]].
        assert (HcA : In (cl l) (A f)).
        { pose proof (Hclosed s Hs) as Hcl. rewrite Ha, Hf in Hcl. exact Hcl. }
        apply (Permutation_in _ Hperm) in Hx. simpl in Hx. apply in_app_or in Hx.
        destruct Hx as [Hx|Hx].
        -- assert (Hin : In (clm cl x) (s_held s)) by (apply Hsub; apply in_map; exact Hx).
           apply (site_rank s (clm cl x) (cl l) Hs Hin). unfold targets. rewrite Ha. left. reflexivity.
        -- apply in_concat in Hx. destruct Hx as [Lx [HLx Hx]].
           apply in_map_iff in HLx. destruct HLx as [fr [<- Hfr]].
           apply (below_rank below f L (cl l) Hinv HcA fr x Hfr Hx).
      * apply (IH ((f, (l, m) :: L) :: below)).
        -- eapply stack_inv_top; exact Hinv.
        -- exact Hc.
        -- simpl. apply perm_skip. exact Hperm.
    + (* release *)
      apply andb_prop in Hc. destruct Hc as [Hm Hc].
      apply memb_In in Hm.
      assert (HinH : In (l, m) H).
      { apply (Permutation_in _ (Permutation_sym Hperm)). simpl. apply in_or_app. left. exact Hm. }
      simpl. apply andb_true_intro. split; [apply memb_In; exact HinH|].
      apply (IH ((f, remove_one (l, m) L) :: below)).
      * eapply stack_inv_top; exact Hinv.
      * exact Hc.
      * simpl. apply (Permutation_cons_inv (a := (l, m))).
        eapply Permutation_trans; [apply Permutation_sym, remove_one_perm; exact HinH|].
        eapply Permutation_trans; [exact Hperm|]. simpl.
        change ((l, m) :: remove_one (l, m) L ++ concat (map snd below))
          with (((l, m) :: remove_one (l, m) L) ++ concat (map snd below)).
        apply Permutation_app_tail. apply remove_one_perm. exact Hm.
    + (* call *)
      apply andb_prop in Hc. destruct Hc as [Hsite Hc].
      apply andb_prop in Hsite. destruct Hsite as [_ Hsite].
      simpl. apply (IH ((g, []) :: (f, L) :: below)).
      * simpl. split; [exact Hsite|]. exact Hinv.
      * exact Hc.
      * simpl. exact Hperm.
    + (* return *)
      destruct L; [|discriminate]. destruct below as [|fr below']; [discriminate|].
      simpl. apply (IH (fr :: below')).
      * simpl in Hinv. destruct fr as [f' L']. destruct Hinv as [_ Hinv]. exact Hinv.
      * exact Hc.
      * simpl in Hperm. exact Hperm.
Qed.

Lemma conforms_thread_ok : forall f es, conforms cl tbl unb [(f, [])] es = true ->
  chk rki [] (ops_of es) = true.
Proof.
  intros f es H. apply (conforms_chk es [(f, [])] []); [simpl; exact I | exact H | simpl; apply Permutation_refl].
Qed.

End Table.

Theorem table_discipline_sound : forall (cl : lock -> cls) tbl unb A,
  closed tbl A -> acyclic (lock_order tbl A) -> no_reentrant tbl A ->
  forall gs : list (fname * list ev),
    (forall f es, In (f, es) gs -> conforms cl tbl unb [(f, [])] es = true) ->
    forall sched, ~ deadlocked (run sched (map (fun g => thread_of (snd g)) gs)).
Proof.
  intros cl tbl unb A Hcl [rkc Hrk] _ gs Hgs sched.
  apply (discipline_sound (rki cl rkc)).
  intros t Ht. apply in_map_iff in Ht. destruct Ht as [[f es] [<- Hin]].
  split; [reflexivity|]. simpl.
  apply (conforms_thread_ok cl tbl unb A rkc Hcl Hrk f es). apply Hgs. exact Hin.
Qed.

Theorem table_discipline_completes : forall (cl : lock -> cls) tbl unb A,
  closed tbl A -> acyclic (lock_order tbl A) -> no_reentrant tbl A ->
  forall gs : list (fname * list ev),
    (forall f es, In (f, es) gs -> conforms cl tbl unb [(f, [])] es = true) ->
    forall sched, exists sched', all_done (run (sched ++ sched') (map (fun g => thread_of (snd g)) gs)).
Proof.
  intros cl tbl unb A Hcl [rkc Hrk] _ gs Hgs sched.
  apply (discipline_completes (rki cl rkc)).
  intros t Ht. apply in_map_iff in Ht. destruct Ht as [[f es] [<- Hin]].
  split; [reflexivity|]. simpl.
  apply (conforms_thread_ok cl tbl unb A rkc Hcl Hrk f es). apply Hgs. exact Hin.
Qed.

(* a numbering excludes cycles, in particular self-loops (re-acquisition of a held class) *)
Inductive path (g : list (cls * cls)) : cls -> cls -> Prop :=
| path_one : forall a b, In (a, b) g -> path g a b
| path_cons : forall a b c, In (a, b) g -> path g b c -> path g a c.

Lemma numbering_path : forall g (rk : cls -> N), (forall a b, In (a, b) g -> rk a < rk b) ->
  forall a b, path g a b -> rk a < rk b.
Proof.
  intros g rk H a b P. induction P as [a b Hab | a b c Hab _ IH].
  - apply H; exact Hab.
  - etransitivity; [apply H; exact Hab | exact IH].
Qed.

Theorem numbering_no_cycle : forall g, acyclic g -> forall a, ~ path g a a.
Proof.
  intros g [rk H] a P. pose proof (numbering_path g rk H a a P) as Hlt.
  apply N.lt_irrefl in Hlt. exact Hlt.
Qed.

Theorem acyclic_no_reentrant : forall tbl A, acyclic (lock_order tbl A) -> no_reentrant tbl A.
Proof.
  intros tbl A [rk H] s h Hs Hh Hin.
  assert (E : In (fst h, fst h) (lock_order tbl A)).
  { unfold lock_order. apply in_flat_map. exists s. split; [exact Hs|].
    apply in_flat_map. exists h. split; [exact Hh|].
    apply in_map_iff. exists (fst h). split; [reflexivity | exact Hin]. }
  apply H in E. apply N.lt_irrefl in E. exact E.
Qed.

(* ------------------------------------------------------------------------------------- *)
(* 3. soundness of the boolean checker                                                    *)
(* ------------------------------------------------------------------------------------- *)

Lemma cmem_In : forall c l, cmem c l = true <-> In c l.
Proof.
  intros c l. unfold cmem. rewrite existsb_exists. split.
  - intros [x [Hx E]]. apply N.eqb_eq in E. subst. exact Hx.
  - intros H. exists c. split; [exact H | apply N.eqb_refl].
Qed.

Lemma targets_m_targets : forall a s, targets_m a s = targets (alookup a) s.
Proof. reflexivity. Qed.

Lemma edges_m_lock_order : forall tbl a, edges_m tbl a = lock_order tbl (alookup a).
Proof. reflexivity. Qed.

Lemma closedb_closed : forall tbl a, closedb tbl a = true -> closed tbl (alookup a).
Proof.
  intros tbl a H s Hs. unfold closedb in H. rewrite forallb_forall in H.
  specialize (H s Hs). unfold csubset in H. rewrite forallb_forall in H.
  unfold targets_m in H. destruct (s_act s) as [c m|g].
  - apply cmem_In. apply H. left. reflexivity.
  - intros c Hc. apply cmem_In. apply H. exact Hc.
Qed.

Lemma rankedb_acyclic : forall es r, rankedb es r = true -> acyclic es.
Proof.
  intros es r H. exists (rlookup r). intros a b Hab.
  unfold rankedb in H. rewrite forallb_forall in H. specialize (H (a, b) Hab).
  simpl in H. apply N.ltb_lt. exact H.
Qed.

Lemma no_reentrantb_sound : forall tbl a, no_reentrantb tbl a = true -> no_reentrant tbl (alookup a).
Proof.
  intros tbl a H s h Hs Hh Hin. unfold no_reentrantb in H. rewrite forallb_forall in H.
  specialize (H s Hs). rewrite forallb_forall in H. specialize (H h Hh).
  apply negb_true_iff in H. rewrite <- targets_m_targets in Hin.
  apply cmem_In in Hin. congruence.
Qed.

Theorem lock_discipline_ok_sound : forall tbl, lock_discipline_ok tbl = true ->
  exists A, closed tbl A /\ acyclic (lock_order tbl A) /\ no_reentrant tbl A.
Proof.
  intros tbl H. unfold lock_discipline_ok in H.
  apply andb_prop in H. destruct H as [H H3]. apply andb_prop in H. destruct H as [H1 H2].
  exists (alookup (closure_of tbl)). split; [apply closedb_closed; exact H1|].
  split; [|apply no_reentrantb_sound; exact H2].
  rewrite <- edges_m_lock_order. eapply rankedb_acyclic. exact H3.
Qed.

(* the statement used per run: a table accepted by the checker admits no deadlock *)
Theorem checked_table_sound : forall tbl unb, lock_discipline_ok tbl = true ->
  forall (cl : lock -> cls) (gs : list (fname * list ev)),
    (forall f es, In (f, es) gs -> conforms cl tbl unb [(f, [])] es = true) ->
    forall sched,
      ~ deadlocked (run sched (map (fun g => thread_of (snd g)) gs)) /\
      exists sched', all_done (run (sched ++ sched') (map (fun g => thread_of (snd g)) gs)).
Proof.
  intros tbl unb H cl gs Hgs sched.
  destruct (lock_discipline_ok_sound tbl H) as [A [H1 [H2 H3]]]. split.
  - apply (table_discipline_sound cl tbl unb A H1 H2 H3 gs Hgs).
  - apply (table_discipline_completes cl tbl unb A H1 H2 H3 gs Hgs).
Qed.

(* the complete check: no function of the table is unbalanced (so the restriction of [conforms] to
   balanced functions excludes nothing: every function may be a goroutine's root and may be
   entered), and the conclusion of [checked_table_sound] holds *)
Lemma balanced_ok_nil : forall names unb, balanced_ok names unb = true -> unb = [].
Proof.
  intros names [|f r] H; [reflexivity|]. unfold balanced_ok, returns_holding_lock in H. simpl in H. discriminate.
Qed.

Theorem checked_table_sound_full : forall names unb tbl, lock_discipline_ok_full names unb tbl = true ->
  (forall g, existsb (N.eqb g) unb = false) /\
  forall (cl : lock -> cls) (gs : list (fname * list ev)),
    (forall f es, In (f, es) gs -> conforms cl tbl unb [(f, [])] es = true) ->
    forall sched,
      ~ deadlocked (run sched (map (fun g => thread_of (snd g)) gs)) /\
      exists sched', all_done (run (sched ++ sched') (map (fun g => thread_of (snd g)) gs)).
Proof.
  intros names unb tbl H. unfold lock_discipline_ok_full in H.
  apply andb_prop in H. destruct H as [Hb Hd]. split.
  - apply balanced_ok_nil in Hb. subst. reflexivity.
  - apply checked_table_sound. exact Hd.
Qed.

(* the boolean deadlock test used for witnesses *)
Lemma deadlockedb_sound : forall c, deadlockedb c = true -> deadlocked c.
Proof.
  intros c H. unfold deadlockedb in H. apply andb_prop in H. destruct H as [H1 H2]. split.
  - apply existsb_exists in H1. destruct H1 as [t [Ht Hp]]. exists t. split; [exact Ht|].
    unfold unfinished. destruct (prog t); [discriminate | congruence].
  - intros i. unfold step. destruct (nth_error c i) as [t|] eqn:En; [|reflexivity].
    rewrite forallb_forall in H2. specialize (H2 t (nth_error_In c i En)).
    apply negb_true_iff in H2. rewrite H2. reflexivity.
Qed.

(* ------------------------------------------------------------------------------------- *)
(* 4. mutual exclusion in the machine (what "synchronised by a common lock" means, C33)   *)
(* ------------------------------------------------------------------------------------- *)
(* For arbitrary programs (no discipline needed): in every configuration reachable from "nobody
   holds anything", a lock held in write mode by one goroutine is held by nobody else, in any
   mode, and only once by its holder. *)

Definition cnt (l : lock) (h : list hl) : nat := length (filter (fun x => N.eqb (fst x) l) h).
Definition cntw (l : lock) (h : list hl) : nat :=
  length (filter (fun x => N.eqb (fst x) l && mode_eqb (snd x) W) h).
Definition tot (f : list hl -> nat) (c : cfg) : nat := fold_right plus O (map (fun t => f (held t)) c).

Definition excl_inv (c : cfg) : Prop := forall l, tot (cntw l) c = O \/ tot (cnt l) c = 1%nat.

Lemma cntw_le_cnt : forall l h, (cntw l h <= cnt l h)%nat.
Proof.
  intros l h. unfold cntw, cnt. induction h as [|[lx mx] r IH]; simpl; [lia|].
  destruct (N.eqb lx l); simpl; [|exact IH]. destruct (mode_eqb mx W); simpl; lia.
Qed.

Lemma tot_le : forall f g c, (forall h, (f h <= g h)%nat) -> (tot f c <= tot g c)%nat.
Proof.
  intros f g c H. unfold tot. induction c as [|t r IH]; simpl; [lia|]. specialize (H (held t)). lia.
Qed.

Lemma tot_update : forall f c i t u, nth_error c i = Some t ->
  (tot f (update c i u) + f (held t) = tot f c + f (held u))%nat.
Proof.
  intros f. induction c as [|y r IH]; intros i t u H.
  - destruct i; discriminate.
  - destruct i; simpl in *.
    + injection H as ->. unfold tot. simpl. lia.
    + specialize (IH i t u H). unfold tot in *. simpl. lia.
Qed.

Lemma tot_ge_one : forall f c i t, nth_error c i = Some t -> (f (held t) <= tot f c)%nat.
Proof.
  intros f. induction c as [|y r IH]; intros i t H; [destruct i; discriminate|].
  destruct i; simpl in H.
  - injection H as ->. unfold tot. simpl. lia.
  - specialize (IH i t H). unfold tot in *. simpl. lia.
Qed.

Lemma tot_ge_two : forall f c i j t u, nth_error c i = Some t -> nth_error c j = Some u -> i <> j ->
  (f (held t) + f (held u) <= tot f c)%nat.
Proof.
  intros f. induction c as [|y r IH]; intros i j t u Hi Hj Hne; [destruct i; discriminate|].
  destruct i, j; simpl in Hi, Hj.
  - congruence.
  - injection Hi as ->. pose proof (tot_ge_one f r j u Hj). unfold tot in *. simpl. lia.
  - injection Hj as ->. pose proof (tot_ge_one f r i t Hi). unfold tot in *. simpl. lia.
  - assert (i <> j) by congruence. specialize (IH i j t u Hi Hj H). unfold tot in *. simpl. lia.
Qed.

Lemma holds_cnt : forall l t, holds l t = true <-> (0 < cnt l (held t))%nat.
Proof.
  intros l t. unfold holds, cnt. induction (held t) as [|[lx mx] r IH]; simpl.
  - split; [discriminate | lia].
  - destruct (N.eqb lx l); simpl; [split; [lia | reflexivity] | exact IH].
Qed.

Lemma holds_w_cntw : forall l t, holds_w l t = true <-> (0 < cntw l (held t))%nat.
Proof.
  intros l t. unfold holds_w, cntw. induction (held t) as [|[lx mx] r IH]; simpl.
  - split; [discriminate | lia].
  - destruct (N.eqb lx l && mode_eqb mx W); simpl; [split; [lia | reflexivity] | exact IH].
Qed.

Lemma nobody_tot : forall (p : lock -> thread -> bool) (f : lock -> list hl -> nat) l c,
  (forall t, p l t = true <-> (0 < f l (held t))%nat) ->
  existsb (p l) c = false -> tot (f l) c = O.
Proof.
  intros p f l c Hp H. unfold tot. induction c as [|t r IH]; simpl in *; [reflexivity|].
  apply orb_false_iff in H. destruct H as [H1 H2]. rewrite (IH H2).
  destruct (f l (held t)) eqn:E; [reflexivity|].
  assert (p l t = true) by (apply Hp; lia). congruence.
Qed.

Lemma cnt_remove_one : forall l x h,
  cnt l (remove_one x h) = cnt l h \/ S (cnt l (remove_one x h)) = cnt l h.
Proof.
  intros l x h. unfold cnt. induction h as [|[ly my] r IH]; simpl; [left; reflexivity|].
  destruct (hl_eqb x (ly, my)).
  - destruct (N.eqb ly l); simpl; [right; reflexivity | left; reflexivity].
  - simpl. destruct (N.eqb ly l); simpl; [|exact IH]. destruct IH as [IH|IH]; [left | right]; lia.
Qed.

Lemma cntw_remove_one : forall l x h, (cntw l (remove_one x h) <= cntw l h)%nat.
Proof.
  intros l x h. unfold cntw. induction h as [|[ly my] r IH]; simpl; [lia|].
  destruct (hl_eqb x (ly, my)).
  - destruct (N.eqb ly l && mode_eqb my W); simpl; lia.
  - simpl. destruct (N.eqb ly l && mode_eqb my W); simpl; lia.
Qed.

Lemma cnt_cons : forall l l0 m h, cnt l ((l0, m) :: h) = ((if N.eqb l0 l then 1 else 0) + cnt l h)%nat.
Proof. intros. unfold cnt. simpl. destruct (N.eqb l0 l); reflexivity. Qed.

Lemma cntw_cons : forall l l0 m h,
  cntw l ((l0, m) :: h) = ((if N.eqb l0 l && mode_eqb m W then 1 else 0) + cntw l h)%nat.
Proof. intros. unfold cntw. simpl. destruct (N.eqb l0 l && mode_eqb m W); reflexivity. Qed.

Lemma step_excl : forall c i c', excl_inv c -> step c i = Some c' -> excl_inv c'.
Proof.
  intros c i c' Inv Hs. unfold step in Hs.
  destruct (nth_error c i) as [t|] eqn:En; [|discriminate].
  destruct (can_step c t) eqn:Ec; [|discriminate]. injection Hs as <-.
  intros l. specialize (Inv l).
  pose proof (tot_update (cnt l) c i t (do_step t) En) as Uc.
  pose proof (tot_update (cntw l) c i t (do_step t) En) as Uw.
  unfold can_step in Ec. unfold do_step in *.
  destruct (prog t) as [|[l0 m|l0 m] p] eqn:Ep; [discriminate| |].
  - destruct m.
    + (* read lock granted: nobody holds l0 in write mode *)
      apply andb_true_iff in Ec. destruct Ec as [Ec _]. apply negb_true_iff in Ec.
      pose proof (nobody_tot holds_w cntw l0 c (holds_w_cntw l0) Ec) as Z.
      simpl in Uc, Uw. rewrite cnt_cons in Uc. rewrite cntw_cons in Uw. simpl in Uw.
      rewrite andb_false_r in Uw. simpl in Uw.
      destruct (N.eqb l0 l) eqn:El.
      * apply N.eqb_eq in El. subst l0. left. lia.
      * destruct Inv as [Inv|Inv]; [left | right]; lia.
    + destruct (announced t) eqn:Ea.
      * (* write lock granted: nobody holds l0 at all *)
        apply negb_true_iff in Ec.
        pose proof (nobody_tot holds cnt l0 c (holds_cnt l0) Ec) as Z.
        simpl in Uc, Uw. rewrite cnt_cons in Uc. rewrite cntw_cons in Uw. simpl in Uw.
        rewrite andb_true_r in Uw.
        destruct (N.eqb l0 l) eqn:El.
        -- apply N.eqb_eq in El. subst l0. right. lia.
        -- destruct Inv as [Inv|Inv]; [left | right]; lia.
      * simpl in Uc, Uw. destruct Inv as [Inv|Inv]; [left | right]; lia.
  - (* release *)
    simpl in Uc, Uw.
    pose proof (cnt_remove_one l (l0, m) (held t)) as R1.
    pose proof (cntw_remove_one l (l0, m) (held t)) as R2.
    pose proof (cntw_le_cnt l (remove_one (l0, m) (held t))) as R3.
    pose proof (tot_le (cntw l) (cnt l) (update c i (mk_thread (remove_one (l0, m) (held t)) false p)) (cntw_le_cnt l)) as R4.
    destruct Inv as [Inv|Inv]; [left; lia|].
    destruct R1 as [R1|R1]; [right; lia | left; lia].
Qed.

Lemma run_excl : forall sched c, excl_inv c -> excl_inv (run sched c).
Proof.
  induction sched as [|i s IH]; intros c H; simpl; [exact H|].
  apply IH. destruct (step c i) as [c'|] eqn:Es; [eapply step_excl; eauto | exact H].
Qed.

Lemma init_excl : forall c, (forall t, In t c -> held t = []) -> excl_inv c.
Proof.
  intros c H l. left. unfold tot. induction c as [|t r IH]; simpl; [reflexivity|].
  rewrite (H t (or_introl eq_refl)). simpl. apply IH. intros u Hu. apply H. right. exact Hu.
Qed.

Theorem mutual_exclusion : forall c0, (forall t, In t c0 -> held t = []) ->
  forall sched i j t u l,
    nth_error (run sched c0) i = Some t -> nth_error (run sched c0) j = Some u -> i <> j ->
    holds_w l t = true -> holds l u = false /\ cnt l (held t) = 1%nat.
Proof.
  intros c0 H0 sched i j t u l Hi Hj Hne Hw.
  pose proof (run_excl sched c0 (init_excl c0 H0) l) as Inv.
  apply holds_w_cntw in Hw.
  pose proof (tot_ge_one (cntw l) _ i t Hi) as G1.
  destruct Inv as [Inv|Inv]; [lia|].
  pose proof (tot_ge_two (cnt l) _ i j t u Hi Hj Hne) as G2.
  pose proof (cntw_le_cnt l (held t)) as L.
  split; [|lia].
  destruct (holds l u) eqn:Eh; [|reflexivity]. apply holds_cnt in Eh. lia.
Qed.
