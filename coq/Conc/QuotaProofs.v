(* C11: for every schedule of concurrent deliveries, queue-full drops and acknowledgements, with the unit returned by
   an atomic increment the messages in transit never outnumber the receive maximum. *)
From MV Require Import Base.Val Conc.Quota.
From Coq Require Import Lia ZifyBool ZifyN ZifyNat.
Open Scope N_scope.

Lemma count_set_nth f ths j p x :
  nth_error ths j = Some p ->
  count_pc f (qset_nth j x ths) = (count_pc f ths - (if f p then 1 else 0) + (if f x then 1 else 0))%Z.
Proof.
  unfold count_pc. revert j. induction ths as [|a ths IH]; intros [|j] H; cbn in H; try discriminate.
  - inversion H; subst a. cbn [qset_nth filter]. destruct (f p), (f x); cbn [length]; lia.
  - cbn [qset_nth filter]. specialize (IH j H). destruct (f a); cbn [length]; lia.
Qed.

(* quota + units taken but not yet committed + messages in transit = receive maximum *)
Definition qinv (rm q : Z) (ths : list qpc) : Prop :=
  (0 <= q)%Z /\ (q + count_pc is_taken ths + in_transit ths = rm)%Z.

Lemma qstep_inv rm full q ths j :
  qinv rm q ths -> qinv rm (fst (qstep false rm full q ths j)) (snd (qstep false rm full q ths j)).
Proof.
  intros [Q0 I]. unfold qstep, in_transit in *.
  pose proof (fun f => Zle_0_nat (length (filter f ths))) as Pos.
  assert (PT : (0 <= count_pc is_taken ths)%Z) by apply Pos.
  assert (PS : (0 <= count_pc is_sent ths)%Z) by apply Pos.
  destruct (nth_error ths j) as [p|] eqn:E; [|split; assumption].
  destruct p; cbn [fst snd]; try (split; assumption).
  - split; [exact Q0|]. rewrite (count_set_nth is_taken ths j QStart _ E), (count_set_nth is_sent ths j QStart _ E). cbn. lia.
  - destruct (0 <? q)%Z eqn:P; cbn [fst snd]; (split; [lia|]); rewrite (count_set_nth is_taken ths j (QSnap s) _ E), (count_set_nth is_sent ths j (QSnap s) _ E); cbn; lia.
  - assert (T1 : (1 <= count_pc is_taken ths)%Z).
    { unfold count_pc. clear - E. revert j E. induction ths as [|a ths IH]; intros [|j] E; cbn in E; try discriminate.
      - inversion E; subst a. cbn. lia.
      - cbn [filter]. specialize (IH j E). destruct (is_taken a); cbn [length]; lia. }
    destruct (full j); cbn [fst snd].
    + replace (q <? rm)%Z with true by lia. split; [lia|]. rewrite (count_set_nth is_taken ths j (QTaken s) _ E), (count_set_nth is_sent ths j (QTaken s) _ E). cbn. lia.
    + split; [lia|]. rewrite (count_set_nth is_taken ths j (QTaken s) _ E), (count_set_nth is_sent ths j (QTaken s) _ E). cbn. lia.
  - assert (S1 : (1 <= count_pc is_sent ths)%Z).
    { unfold count_pc. clear - E. revert j E. induction ths as [|a ths IH]; intros [|j] E; cbn in E; try discriminate.
      - inversion E; subst a. cbn. lia.
      - cbn [filter]. specialize (IH j E). destruct (is_sent a); cbn [length]; lia. }
    replace (q <? rm)%Z with true by lia. split; [lia|]. rewrite (count_set_nth is_taken ths j QSent _ E), (count_set_nth is_sent ths j QSent _ E). cbn. lia.
Qed.

(* C11: n deliveries start with the full quota rm.  Whatever the schedule and whichever of them find the queue full,
   at the end (hence at every moment: every prefix of a schedule is a schedule) the messages in transit and
   unacknowledged number at most rm. *)
Theorem quota_all_schedules rm n full sched :
  (0 <= rm)%Z ->
  let '(q, ths) := qrun false rm full rm (repeat QStart n) sched in
  (in_transit ths <= rm)%Z /\ (0 <= q <= rm)%Z.
Proof.
  intros R.
  assert (Gen : forall sched q ths, qinv rm q ths -> let '(q', ths') := qrun false rm full q ths sched in qinv rm q' ths').
  { clear sched. induction sched as [|j sched IH]; intros q ths I; [exact I|].
    cbn [qrun]. pose proof (qstep_inv rm full q ths j I) as I'. destruct (qstep false rm full q ths j) as [q1 ths1].
    apply IH. exact I'. }
  assert (I0 : qinv rm rm (repeat QStart n)).
  { assert (Z1 : forall m, count_pc is_taken (repeat QStart m) = 0%Z) by (induction m; cbn; auto).
    assert (Z2 : forall m, count_pc is_sent (repeat QStart m) = 0%Z) by (induction m; cbn; auto).
    unfold qinv, in_transit. rewrite Z1, Z2. lia. }
  specialize (Gen sched rm _ I0). destruct (qrun false rm full rm (repeat QStart n) sched) as [q ths].
  destruct Gen as [Q0 I]. unfold in_transit in *.
  assert (PT : (0 <= count_pc is_taken ths)%Z) by (unfold count_pc; lia).
  assert (PS : (0 <= count_pc is_sent ths)%Z) by (unfold count_pc; lia).
  lia.
Qed.
