(* C23 (packets never interleave) — interleaving model of clients.go WritePacket's critical section:
   several goroutines (the connection handler, the write loop, publishers calling
   DisconnectClient...) write encoded packets to one connection.  Everything that touches the
   connection or the shared write buffer happens between cl.Lock() and cl.Unlock():
     direct write of the whole packet | append to outbuf | append, flush (WriteTo + outbuf = nil).
   A goroutine that does not hold the lock can only try to acquire it.  No proofs in this file. *)
From MV Require Import Base.Val.
From Coq Require Import Permutation.
Open Scope N_scope.

Definition tid := nat.

(* the three shapes of the critical section (which one is taken depends on the queue length and
   buffer size at the time: an oracle, fixed per packet in the thread's program) *)
Inductive kind := KDirect | KBuffer | KBufferFlush.

(* program counter inside the critical section *)
Inductive pc :=
| PWrite (p : bytes)        (* about to write p to the connection *)
| PAppend (p : bytes)       (* about to append p to outbuf, then release *)
| PAppendFlush (p : bytes)  (* about to append p to outbuf, then flush *)
| PFlushW                   (* about to write outbuf to the connection *)
| PFlushC                   (* about to set outbuf = nil *)
| PDone.                    (* about to unlock *)

Record st := {
  conn : bytes;                              (* bytes on the wire so far *)
  buf : bytes;                               (* contents of outbuf ([] = nil or empty) *)
  cur : option (tid * pc);                   (* lock holder and its program counter *)
  todo : list (list (kind * bytes)) }.       (* per thread: packets still to be written *)

Definition enter (k : kind) (p : bytes) : pc :=
  match k with KDirect => PWrite p | KBuffer => PAppend p | KBufferFlush => PAppendFlush p end.

Fixpoint set_nth {A} (n : nat) (x : A) (l : list A) : list A :=
  match n, l with
  | O, _ :: r => x :: r
  | S n', y :: r => y :: set_nth n' x r
  | _, [] => []
  end.

(* one scheduling decision: thread t runs one atomic step if it can *)
Definition step (s : st) (t : tid) : st :=
  match cur s with
  | None =>
      match nth_error (todo s) t with
      | Some ((k, p) :: rest) =>                               (* cl.Lock() succeeds *)
          {| conn := conn s; buf := buf s; cur := Some (t, enter k p); todo := set_nth t rest (todo s) |}
      | _ => s                                                 (* nothing left to do *)
      end
  | Some (h, c) =>
      if negb (Nat.eqb h t) then s                             (* blocked in cl.Lock() *)
      else match c with
           | PWrite p => {| conn := conn s ++ p; buf := buf s; cur := Some (t, PDone); todo := todo s |}
           | PAppend p => {| conn := conn s; buf := buf s ++ p; cur := Some (t, PDone); todo := todo s |}
           | PAppendFlush p => {| conn := conn s; buf := buf s ++ p; cur := Some (t, PFlushW); todo := todo s |}
           | PFlushW => {| conn := conn s ++ buf s; buf := buf s; cur := Some (t, PFlushC); todo := todo s |}
           | PFlushC => {| conn := conn s; buf := []; cur := Some (t, PDone); todo := todo s |}
           | PDone => {| conn := conn s; buf := buf s; cur := None; todo := todo s |}   (* cl.Unlock() *)
           end
  end.

Definition run (sched : list tid) (s : st) : st := fold_left step sched s.

Definition init (progs : list (list (kind * bytes))) : st :=
  {| conn := []; buf := []; cur := None; todo := progs |}.

Definition all_packets (progs : list (list (kind * bytes))) : list bytes :=
  concat (map (map snd) progs).

Definition finished (s : st) : Prop := cur s = None /\ Forall (fun l => l = []) (todo s).
