(* C10: with the allocation atomic, every schedule of n allocators hands out pairwise distinct identifiers. *)
From MV Require Import Base.Val Conc.NextId.
From Coq Require Import Lia ZifyBool ZifyN ZifyNat.
Open Scope N_scope.

Lemma usedb_false i u : (forall x, In x u -> x <> i) -> usedb i u = false.
Proof.
  intros H. unfold usedb. destruct (existsb (N.eqb i) u) eqn:E; [|reflexivity].
  apply existsb_exists in E. destruct E as (x & I & Ex). exfalso. apply (H x I). lia.
Qed.

(* room above the counter and nothing in use above it: the scan returns counter + 1 *)
Lemma scan_next maxpid u t : t < maxpid -> (forall x, In x u -> x <= t) -> scan maxpid u t = Some (t + 1).
Proof.
  intros Lt H. unfold scan.
  assert (F : exists f, N.to_nat (2 * maxpid + 4) = S f) by (exists (pred (N.to_nat (2 * maxpid + 4))); lia).
  destruct F as [f ->]. cbn [scan_loop andb].
  replace (maxpid <=? t) with false by lia.
  rewrite usedb_false; [reflexivity|]. intros x I. specialize (H x I). lia.
Qed.

Lemma nth_set_nth_same {A} (l : list A) j x y : nth_error l j = Some y -> nth_error (set_nth j x l) j = Some x.
Proof. revert j. induction l as [|a l IH]; intros [|j] H; cbn in *; try discriminate; [reflexivity|apply IH; exact H]. Qed.

Lemma length_set_nth {A} (l : list A) j x : length (set_nth j x l) = length l.
Proof. revert j. induction l as [|a l IH]; intros [|j]; cbn; try reflexivity. rewrite IH. reflexivity. Qed.

(* replacing a thread that holds no identifier by one that holds i adds exactly i *)
Lemma ids_set_nth_fresh ths j p i :
  nth_error ths j = Some p -> id_of p = [] ->
  forall x, In x (ids (set_nth j (Got i) ths)) <-> x = i \/ In x (ids ths).
Proof.
  revert j. induction ths as [|a ths IH]; intros [|j] H E x; cbn in H; try discriminate.
  - inversion H; subst a. unfold ids. cbn [set_nth flat_map id_of]. rewrite E. cbn. intuition.
  - unfold ids in *. cbn [set_nth flat_map]. rewrite !in_app_iff. rewrite (IH j H E x). tauto.
Qed.

Lemma nodup_ids_set_nth_fresh ths j p i :
  nth_error ths j = Some p -> id_of p = [] -> NoDup (ids ths) -> ~ In i (ids ths) -> NoDup (ids (set_nth j (Got i) ths)).
Proof.
  revert j. induction ths as [|a ths IH]; intros [|j] H E N NI; cbn in H; try discriminate.
  - inversion H; subst a. unfold ids in *. cbn [set_nth flat_map id_of] in *. rewrite E in *. cbn in *.
    constructor; assumption.
  - unfold ids in *. cbn [set_nth flat_map] in *.
    (* NoDup (id_of a ++ rest') from NoDup (id_of a ++ rest) *)
    assert (Na : NoDup (id_of a)) by (destruct a; cbn; repeat constructor; intros []).
    assert (Nr : NoDup (flat_map id_of ths)).
    { clear - N. induction (id_of a) as [|y l IHl]; [exact N|]. inversion N; subst. apply IHl. assumption. }
    assert (NIr : ~ In i (flat_map id_of ths)) by (intros X; apply NI; apply in_or_app; right; exact X).
    specialize (IH j H E Nr NIr).
    assert (Disj : forall y, In y (id_of a) -> ~ In y (flat_map id_of (set_nth j (Got i) ths))).
    { intros y Iy Iy'. apply (ids_set_nth_fresh ths j p i H E) in Iy'. destruct Iy' as [->|Iy'].
      - apply NI. apply in_or_app. left. exact Iy.
      - clear - N Iy Iy'. induction (id_of a) as [|z l IHl]; [destruct Iy|]. inversion N as [|? ? NIz Nd]; subst.
        destruct Iy as [->|Iy]; [apply NIz; apply in_or_app; right; exact Iy'|apply IHl; assumption]. }
    clear - Na IH Disj. induction (id_of a) as [|y l IHl]; [exact IH|]. cbn [app]. inversion Na; subst.
    constructor.
    + intros X. apply in_app_or in X. destruct X as [X|X]; [contradiction|]. apply (Disj y); [left; reflexivity|exact X].
    + apply IHl; [assumption|]. intros z Iz. apply Disj. right. exact Iz.
Qed.

(* Got i -> Done i keeps the identifiers *)
Lemma ids_set_nth_done ths j i : nth_error ths j = Some (Got i) -> ids (set_nth j (Done i) ths) = ids ths.
Proof.
  revert j. induction ths as [|a ths IH]; intros [|j] H; cbn in H; try discriminate.
  - inversion H; subst a. reflexivity.
  - unfold ids in *. cbn [set_nth flat_map]. rewrite (IH j H). reflexivity.
Qed.

Lemma in_ids_nth ths j i : nth_error ths j = Some (Got i) -> In i (ids ths).
Proof.
  revert j. induction ths as [|a ths IH]; intros [|j] H; cbn in H; try discriminate.
  - inversion H; subst a. left. reflexivity.
  - unfold ids. cbn [flat_map]. apply in_or_app. right. apply (IH j H).
Qed.

(* number of threads that have left Start *)
Fixpoint started (ths : list pc) : nat :=
  match ths with [] => 0 | Start :: r => started r | _ :: r => S (started r) end.

Lemma started_lt ths j : nth_error ths j = Some Start -> (started ths < length ths)%nat.
Proof.
  revert j. induction ths as [|a ths IH]; intros [|j] H; cbn in H; try discriminate.
  - inversion H; subst a. cbn. assert (started ths <= length ths)%nat by (clear; induction ths as [|b r IHr]; cbn; [lia|destruct b; lia]). lia.
  - specialize (IH j H). cbn. destruct a; lia.
Qed.

Lemma started_set_got ths j i : nth_error ths j = Some Start -> started (set_nth j (Got i) ths) = S (started ths).
Proof.
  revert j. induction ths as [|a ths IH]; intros [|j] H; cbn in H; try discriminate.
  - inversion H; subst a. reflexivity.
  - cbn. rewrite (IH j H). destruct a; reflexivity.
Qed.

Lemma started_set_done ths j i : nth_error ths j = Some (Got i) -> started (set_nth j (Done i) ths) = started ths.
Proof.
  revert j. induction ths as [|a ths IH]; intros [|j] H; cbn in H; try discriminate.
  - inversion H; subst a. reflexivity.
  - cbn. rewrite (IH j H). destruct a; reflexivity.
Qed.

(* the invariant of the atomic variant: the counter counts the allocations, everything in use or handed out is at
   most the counter, the identifiers handed out are distinct, new (above c0, not in u0) *)
Record inv (c0 : N) (u0 : list N) (sh : shared) (ths : list pc) : Prop := {
  i_cnt : sh_counter sh = c0 + N.of_nat (started ths);
  i_used : forall x, In x (sh_used sh) -> x <= sh_counter sh;
  i_ids : forall x, In x (ids ths) -> c0 < x <= sh_counter sh;
  i_nodup : NoDup (ids ths);
  i_split : forall p, In p ths -> match p with Loaded _ | Scanned _ => False | _ => True end }.

Lemma in_set_nth {A} (l : list A) j x y : In y (set_nth j x l) -> y = x \/ In y l.
Proof.
  revert j. induction l as [|a l IH]; intros [|j] H; cbn in *; try tauto.
  - destruct H as [H|H]; [left; symmetry; exact H|right; right; exact H].
  - destruct H as [H|H]; [right; left; exact H|]. destruct (IH j H) as [E|I]; [left; exact E|right; right; exact I].
Qed.

Lemma step_atomic_inv maxpid c0 u0 sh ths j :
  c0 + N.of_nat (length ths) <= maxpid ->
  inv c0 u0 sh ths -> inv c0 u0 (fst (step_atomic maxpid sh ths j)) (snd (step_atomic maxpid sh ths j)).
Proof.
  intros Room [Ic Iu Ii In Is]. unfold step_atomic.
  destruct (nth_error ths j) as [p|] eqn:E; [|constructor; assumption].
  destruct p; try (constructor; assumption).
  - (* allocation *)
    pose proof (started_lt ths j E) as Lt.
    rewrite (scan_next maxpid (sh_used sh) (sh_counter sh)); [|lia|exact Iu]. cbn [fst snd].
    constructor; cbn [sh_counter sh_used].
    + rewrite (started_set_got ths j _ E). lia.
    + intros x I. specialize (Iu x I). lia.
    + intros x I. apply (ids_set_nth_fresh ths j Start _ E eq_refl) in I. destruct I as [->|I]; [lia|].
      specialize (Ii x I). lia.
    + apply (nodup_ids_set_nth_fresh ths j Start _ E eq_refl In). intros X. specialize (Ii _ X). lia.
    + intros p I. apply in_set_nth in I. destruct I as [->|I]; [exact Logic.I|apply Is; exact I].
  - (* Set *)
    cbn [fst snd]. constructor; cbn [sh_counter sh_used].
    + rewrite (started_set_done ths j i E). exact Ic.
    + intros x [<-|I]; [|apply Iu; exact I]. apply (Ii i). apply (in_ids_nth ths j i E).
    + rewrite (ids_set_nth_done ths j i E). exact Ii.
    + rewrite (ids_set_nth_done ths j i E). exact In.
    + intros p I. apply in_set_nth in I. destruct I as [->|I]; [exact Logic.I|apply Is; exact I].
Qed.

Lemma length_step_atomic maxpid sh ths j : length (snd (step_atomic maxpid sh ths j)) = length ths.
Proof.
  unfold step_atomic. destruct (nth_error ths j) as [p|]; [|reflexivity].
  destruct p; try reflexivity; [destruct (scan maxpid (sh_used sh) (sh_counter sh))|]; cbn [snd];
    rewrite ?length_set_nth; reflexivity.
Qed.

(* C10: n allocators start on a session whose identifiers in use are all at most the counter c0 (a connection's
   identifiers are handed out upwards and only acknowledgements free them) with room for n more below the maximum.
   Whatever the schedule, the identifiers handed out are pairwise distinct, were not in use, and lie in (c0, c0 + n]. *)
Theorem atomic_ids_distinct maxpid c0 u0 n sched :
  (forall x, In x u0 -> x <= c0) -> c0 + N.of_nat n <= maxpid ->
  let '(sh, ths) := run_sched (step_atomic maxpid) {| sh_counter := c0; sh_used := u0 |} (repeat Start n) sched in
  NoDup (ids ths) /\ forall x, In x (ids ths) -> c0 < x <= c0 + N.of_nat n /\ ~ In x u0.
Proof.
  intros U Room.
  assert (Gen : forall sched sh ths, length ths = n -> inv c0 u0 sh ths ->
            let '(sh', ths') := run_sched (step_atomic maxpid) sh ths sched in length ths' = n /\ inv c0 u0 sh' ths').
  { clear sched. induction sched as [|j sched IH]; intros sh ths L I; [cbn; tauto|].
    cbn [run_sched]. pose proof (step_atomic_inv maxpid c0 u0 sh ths j ltac:(lia) I) as I'.
    pose proof (length_step_atomic maxpid sh ths j) as L'.
    destruct (step_atomic maxpid sh ths j) as [sh1 ths1]. cbn [fst snd] in *. apply IH; [lia|exact I']. }
  assert (I0 : inv c0 u0 {| sh_counter := c0; sh_used := u0 |} (repeat Start n)).
  { assert (S0' : forall m, started (repeat Start m) = 0%nat) by (induction m; cbn; auto).
    assert (D0' : forall m, ids (repeat Start m) = []) by (induction m; cbn; auto).
    pose proof (S0' n) as S0. pose proof (D0' n) as D0.
    constructor; cbn [sh_counter sh_used]; rewrite ?S0, ?D0; try lia; try exact U.
    - intros x [].
    - constructor.
    - intros p Ip. apply repeat_spec in Ip. subst p. exact Logic.I. }
  specialize (Gen sched _ _ (repeat_length Start n) I0).
  destruct (run_sched (step_atomic maxpid) {| sh_counter := c0; sh_used := u0 |} (repeat Start n) sched) as [sh ths].
  destruct Gen as [L [Ic Iu Ii In Is]]. split; [exact In|].
  intros x I. specialize (Ii x I).
  assert (St : (started ths <= length ths)%nat) by (clear; induction ths as [|b r IHr]; cbn; [lia|destruct b; lia]).
  split; [lia|]. intros X. specialize (U x X). lia.
Qed.
