(* C33 — the lock discipline of the shared broker state: which field is protected how (written by
   hand from reading the code, section 3), the access table produced by the translator
   (harness/cmd/astx access -> Gen/AccessTable.v), and the boolean checker relating the two.
   No proofs in this file (Conc/DisciplineProofs.v). *)
From Coq Require Import List String Bool.
From MV Require Import Base.Val Conc.Locks.
Import ListNotations.
Open Scope string_scope.

(* ===================================================================================== *)
(* 1. Access sites                                                                        *)
(* ===================================================================================== *)

(* goroutine roots: H = connection handler (EstablishConnection/attachClient, one per connection),
   W = client write loop (one per connection), E = server event loop (one per server), A = caller
   of the exported Server API (application goroutines, hooks), I = initialisation (New, readStore:
   before any other goroutine exists), G = other spawned goroutine, X = reachable from no known
   root (exported methods of the shared types, callable from anywhere). *)
Inductive root := RH | RW | RE | RA | RI | RG | RX.

Definition root_eqb (a b : root) : bool :=
  match a, b with
  | RH, RH | RW, RW | RE, RE | RA, RA | RI, RI | RG, RG | RX, RX => true
  | _, _ => false
  end.

Definition path := list string.

Record asite := mk_asite {
  a_path : path;                          (* owner type :: field :: sub-field ... *)
  a_fn : string;                          (* enclosing function *)
  a_write : bool;
  a_atomic : bool;                        (* through sync/atomic (function or atomic.* typed field) *)
  a_after_stop : bool;                    (* the access is dominated, in its block, by
                                             v := obj.StopTime(); if v == 0 { continue / return }
                                             on the very object accessed *)
  a_locks : list (string * mode * bool);  (* lock class, mode, lock of the very object accessed? *)
  a_roots : list root }.

Definition access_table := list asite.

(* ===================================================================================== *)
(* 2. Declarations                                                                        *)
(* ===================================================================================== *)

Inductive protection :=
| GuardedBy (c : string) (own : bool)
    (* every write holds lock class c in write mode, every read holds it in read or write mode;
       own = true: the lock embedded in the very object accessed; own = false: the one lock of
       the enclosing structure (the root lock of the topic index) *)
| GuardedEither (c1 : string) (own1 : bool) (c2 : string) (own2 : bool)
    (* two locks: every write holds both in write mode, every read holds at least one of them *)
| Atomic                                  (* every access goes through sync/atomic *)
| Immutable                               (* never written after publication *)
| Confined (rs : list root)               (* touched only by goroutines of these roots and, per
                                             object, by the single goroutine that owns it *)
| ConfinedAfterStop (rs : list root).
    (* a field of Client owned by the client's connection handler while the client is live:
       the owner (roots rs) reads and writes it freely, always before it calls Client.Stop, whose
       last action is the atomic store of State.disconnected; any other goroutine may only READ
       it, and only after it has observed StopTime() <> 0 (the atomic load of State.disconnected)
       on that client: the store happens-before the load that sees it, so every write the owner
       made before Stop happens-before such a read.  The translator establishes the guard
       syntactically (a_after_stop).
       What the discipline does NOT establish, and what the current code gets wrong in a narrow
       window (dynamic finding KF_C33_session_expiry below): Stop may also be called by another
       goroutine (a newer session taking the client over, DisconnectClient, Close) while the owning
       handler is still between Clients.Add and its last write. *)

Record unit_decl := mk_unit {
  u_path : path;                          (* the unit = this field and everything below it *)
  u_prot : protection;
  u_exempt : list string;                 (* functions whose accesses are ordered by other means
                                             (initialisation before publication, hand-off through
                                             an atomic flag): justified in the comment *)
  u_kf : option string }.                 (* listed known finding: the code does not keep it *)

Definition declaration := list unit_decl.

(* ---- which units does a site touch ---- *)
Fixpoint prefix (a b : path) : bool :=
  match a, b with
  | [], _ => true
  | x :: a', y :: b' => String.eqb x y && prefix a' b'
  | _ :: _, [] => false
  end.

(* the most specific declared unit containing the site's location *)
Fixpoint inside_unit (d : declaration) (p : path) (best : option unit_decl) : option unit_decl :=
  match d with
  | [] => best
  | u :: r =>
      if prefix (u_path u) p then
        match best with
        | Some b => if Nat.ltb (length (u_path b)) (length (u_path u)) then inside_unit r p (Some u)
                    else inside_unit r p best
        | None => inside_unit r p (Some u)
        end
      else inside_unit r p best
  end.

(* the declared units strictly below the site's location (a whole-struct access covers them) *)
Definition covered_units (d : declaration) (p : path) : list unit_decl :=
  filter (fun u => prefix p (u_path u) && Nat.ltb (length p) (length (u_path u))) d.

Definition units_of (d : declaration) (s : asite) : list unit_decl :=
  match inside_unit d (a_path s) None with
  | Some u => u :: covered_units d (a_path s)
  | None => covered_units d (a_path s)
  end.

(* ---- does a site keep the protection of a unit ---- *)
Definition mem_string (x : string) (l : list string) : bool := existsb (String.eqb x) l.

Definition holds_guard (c : string) (own needw : bool) (s : asite) : bool :=
  existsb (fun l => match l with (c', m, o) =>
     String.eqb c c' && (negb own || o) && (negb needw || mode_eqb m W) end) (a_locks s).

Definition exempt (u : unit_decl) (s : asite) : bool := mem_string (a_fn s) (u_exempt u).

Definition confined_to (rs : list root) (s : asite) : bool :=
  forallb (fun r => existsb (root_eqb r) rs || root_eqb r RI) (a_roots s).

Definition keeps (u : unit_decl) (s : asite) : bool :=
  exempt u s ||
  match u_prot u with
  | GuardedBy c own => holds_guard c own (a_write s) s
  | GuardedEither c1 o1 c2 o2 =>
      if a_write s then holds_guard c1 o1 true s && holds_guard c2 o2 true s
      else holds_guard c1 o1 false s || holds_guard c2 o2 false s
  | Atomic => a_atomic s
  | Immutable => negb (a_write s)
  | Confined rs => confined_to rs s
  | ConfinedAfterStop rs => confined_to rs s || (a_after_stop s && negb (a_write s))
  end.

Definition covered (d : declaration) (s : asite) : bool :=
  match inside_unit d (a_path s) None with Some _ => true | None => false end.

(* THE CHECK (full strength): every site lies in a declared unit and keeps the protection of every
   unit it touches *)
Definition sites_respect (d : declaration) (t : access_table) : bool :=
  forallb (fun s => covered d s && forallb (fun u => keeps u s) (units_of d s)) t.

(* the check modulo listed findings: a unit marked with a known finding may be violated *)
Definition has_kf (u : unit_decl) : bool := match u_kf u with Some _ => true | None => false end.
Definition sites_respect_modulo (d : declaration) (t : access_table) : bool :=
  forallb (fun s => covered d s && forallb (fun u => keeps u s || has_kf u) (units_of d s)) t.

(* diagnostics *)
Definition violations (d : declaration) (t : access_table) : list (path * string * option string) :=
  flat_map (fun s =>
    List.app (if covered d s then [] else [(a_path s, a_fn s, None)])
    (flat_map (fun u => if keeps u s then [] else [(u_path u, a_fn s, u_kf u)]) (units_of d s))) t.

(* findings that are listed but no longer violated by any site *)
Definition stale_findings (d : declaration) (t : access_table) : list string :=
  flat_map (fun u => match u_kf u with
    | Some k => if existsb (fun s => existsb (fun u' => prefix (u_path u) (u_path u') && prefix (u_path u') (u_path u)
                                                      && negb (keeps u' s)) (units_of d s)) t then [] else [k]
    | None => [] end) d.

(* ---- the pairwise statement the check implies ---- *)
Definition conflicting (s1 s2 : asite) : bool := a_write s1 || a_write s2.

(* two goroutine roots can run at the same time unless one of them is initialisation; a root
   with several instances (handlers, write loops, API callers, ...) is concurrent with itself *)
Definition multi (r : root) : bool := match r with RE | RI => false | _ => true end.
Definition conc (r1 r2 : root) : bool :=
  negb (root_eqb r1 RI) && negb (root_eqb r2 RI) && (negb (root_eqb r1 r2) || multi r1).
Definition may_be_concurrent (s1 s2 : asite) : bool :=
  existsb (fun r1 => existsb (fun r2 => conc r1 r2) (a_roots s2)) (a_roots s1).

(* same memory: one location is the other or contains it *)
Definition overlap (s1 s2 : asite) : bool :=
  prefix (a_path s1) (a_path s2) || prefix (a_path s2) (a_path s1).

Definition synchronised (u : unit_decl) (s1 s2 : asite) : Prop :=
  match u_prot u with
  | GuardedBy c own =>
      (* a common lock instance, held by the writer(s) in write mode *)
      holds_guard c own (a_write s1) s1 = true /\ holds_guard c own (a_write s2) s2 = true
  | GuardedEither c1 o1 c2 o2 =>
      (holds_guard c1 o1 (a_write s1) s1 = true /\ holds_guard c1 o1 (a_write s2) s2 = true) \/
      (holds_guard c2 o2 (a_write s1) s1 = true /\ holds_guard c2 o2 (a_write s2) s2 = true)
  | Atomic => a_atomic s1 = true /\ a_atomic s2 = true
  | Immutable => False                    (* never happens: no write outside initialisation *)
  | Confined rs =>                        (* same owning goroutine *)
      (forall r, In r (a_roots s1) -> In r (RI :: rs)) /\ (forall r, In r (a_roots s2) -> In r (RI :: rs))
  | ConfinedAfterStop rs =>               (* each access is the owner's, or a read ordered after the
                                             owner's Stop by the atomic State.disconnected *)
      (confined_to rs s1 = true \/ (a_after_stop s1 = true /\ a_write s1 = false)) /\
      (confined_to rs s2 = true \/ (a_after_stop s2 = true /\ a_write s2 = false))
  end.

(* ===================================================================================== *)
(* 3. The declaration for mochi-mqtt/server                                               *)
(* ===================================================================================== *)

Definition U (p : path) (pr : protection) (ex : list string) : unit_decl := mk_unit p pr ex None.
Definition KF (p : path) (pr : protection) (ex : list string) (k : string) : unit_decl := mk_unit p pr ex (Some k).

(* functions that run on an object before it becomes visible to any other goroutine
   (publication = Clients.Add under the Clients lock / the go statement / the listener start):
   Client.ParseConnect and Server.inheritClientSession run in attachClient before Clients.Add;
   Server.loadClients, loadServerInfo run in readStore before Serve starts any goroutine. *)
Definition client_init : list string :=
  ["Client.ParseConnect"; "Server.inheritClientSession"; "Server.loadClients"; "newClient"; "Server.NewClient"].

Definition decl : declaration := [
  (* --- Server, event-loop tickers: set up by New, read-only afterwards --- *)
  U ["Server"] Immutable ["New"];
  U ["loop"] Immutable ["New"];

  (* --- Clients --- *)
  U ["Clients"; "internal"] (GuardedBy "Clients.RWMutex" true) [];

  (* --- Client --- *)
  U ["Client"; "ID"] Immutable client_init;
  U ["Client"; "ops"] Immutable client_init;
  U ["Client"; "Net"] Immutable client_init;
  U ["Client"; "Net"; "outbuf"] (GuardedBy "Client.RWMutex" true) [];
  U ["Client"; "Properties"] Immutable client_init;
  (* the will is cleared by the handler at a clean disconnect and read by it when it fires; the
     event loop clears it as well when a delayed will fires (server.go sendDelayedLWT) *)
  KF ["Client"; "Properties"; "Will"] (Confined [RH; RA]) client_init "KF_C33_will";
  (* written by the handler (CONNACK cap in SendConnack, DISCONNECT in processDisconnect); read by
     the event loop in clearExpiredClients, which must first have observed StopTime() <> 0 *)
  U ["Client"; "Properties"; "Props"; "SessionExpiryInterval"] (ConfinedAfterStop [RH; RA]) client_init;
  U ["Client"; "Properties"; "Props"; "SessionExpiryIntervalFlag"] (ConfinedAfterStop [RH; RA]) client_init;
  U ["Client"; "State"] Immutable client_init;
  U ["Client"; "State"; "Keepalive"] (Confined [RH; RA]) client_init;
  U ["Client"; "State"; "ServerKeepalive"] (Confined [RH; RA]) client_init;
  U ["Client"; "State"; "disconnected"] Atomic client_init;
  U ["Client"; "State"; "stopCause"] Atomic [];
  U ["Client"; "State"; "isTakenOver"] Atomic [];
  U ["Client"; "State"; "packetID"] Atomic [];
  U ["Client"; "State"; "outboundQty"] Atomic [];

  (* --- Inflight --- *)
  U ["Inflight"; "internal"] (GuardedBy "Inflight.RWMutex" true) [];
  U ["Inflight"; "receiveQuota"] Atomic [];
  U ["Inflight"; "sendQuota"] Atomic [];
  (* inheritClientSession reads maximumReceiveQuota of the clone it has just made *)
  U ["Inflight"; "maximumReceiveQuota"] Atomic ["Server.inheritClientSession"];
  U ["Inflight"; "maximumSendQuota"] Atomic [];

  (* --- topic index --- *)
  U ["TopicsIndex"] Immutable [];
  U ["particle"] Immutable ["newParticle"];
  (* written under the root lock and the particle's own lock by RetainMessage; read under the root
     lock by trim and under the particle's lock by particle.retained (scanMessages) *)
  U ["particle"; "retainPath"] (GuardedEither "particle.Mutex#root" false "particle.Mutex" true) [];
  U ["particles"; "internal"] (GuardedBy "particles.RWMutex" true) [];
  U ["Subscriptions"; "internal"] (GuardedBy "Subscriptions.RWMutex" true) [];
  U ["SharedSubscriptions"; "internal"] (GuardedBy "SharedSubscriptions.RWMutex" true) [];
  U ["InlineSubscriptions"; "internal"] (GuardedBy "InlineSubscriptions.RWMutex" true) [];

  (* --- topic aliases --- *)
  U ["InboundTopicAliases"; "internal"] (GuardedBy "InboundTopicAliases.RWMutex" true) [];
  U ["InboundTopicAliases"; "maximum"] Immutable [];
  U ["OutboundTopicAliases"; "internal"] (GuardedBy "OutboundTopicAliases.RWMutex" true) [];
  U ["OutboundTopicAliases"; "cursor"] Atomic [];
  U ["OutboundTopicAliases"; "maximum"] Immutable [];

  (* --- retained / delayed-will packet maps --- *)
  U ["packets.Packets"; "internal"] (GuardedBy "packets.Packets.RWMutex" true) [];

  (* --- $SYS counters --- *)
  U ["system.Info"] Atomic ["Server.loadServerInfo"];
  U ["system.Info"; "Version"] Immutable [];

  (* --- hooks --- *)
  U ["Hooks"; "Log"] Immutable [];
  U ["Hooks"; "internal"] Atomic [];
  U ["Hooks"; "qty"] Atomic []
].

(* ===================================================================================== *)
(* 4. Engine for the dynamic validation (hx race)                                         *)
(* ===================================================================================== *)
(* case = VL [VN 0; VB scenario; VN races; VN operations]
            one concurrent scenario against the real broker built with -race: number of distinct
            race reports and of operations performed
        | VL [VN 1; VB fn1; VN write1; VB fn2; VN write2; VB detail]
            one race report of the Go race detector: the innermost broker functions of the two
            conflicting accesses.
   A race report is a violation of C33 unless it is explained by a listed finding: both functions
   contain an access site of the finding's unit (looked up in the table passed by the wrapper in
   Gen/AccessEngine). *)

Definition string_of_bytes (b : bytes) : string :=
  fold_right (fun n acc => String (Ascii.ascii_of_N n) acc) EmptyString b.

Fixpoint bytes_of_str (s : string) : bytes :=
  match s with EmptyString => [] | String a r => Ascii.N_of_ascii a :: bytes_of_str r end.

(* the findings whose unit has an access site (violating or not) in f *)
Definition kf_of_fn (d : declaration) (t : access_table) (f : string) : list string :=
  flat_map (fun s => if String.eqb (a_fn s) f then
     flat_map (fun u => match u_kf u with Some k => [k] | None => [] end) (units_of d s) else []) t.

Definition common (a b : list string) : list string := filter (fun x => mem_string x b) a.

(* Findings that exist only dynamically: the access table keeps the declared discipline, but an
   assumption behind the discipline fails.  A race report between two different functions of the
   same entry is explained by it.
   - KF_C33_session_expiry: Client.Stop is called by another goroutine (session takeover,
     DisconnectClient, Close) while the client's own handler has not yet written the capped
     Session Expiry Interval (SendConnack, after Clients.Add) or is rewriting it (processDisconnect);
     clearExpiredClients then sees StopTime() <> 0 and reads the field concurrently.
   (The WaitGroup Add/Wait misuse KF_C33_wg_add_wait is matched directly in the engine below.) *)
Definition dynamic_findings : list (string * list string) :=
  [ ("KF_C33_session_expiry", ["Server.clearExpiredClients"; "Server.SendConnack"; "Server.processDisconnect"]) ].

Definition dynamic_kf (f1 f2 : string) : list string :=
  flat_map (fun e => if negb (String.eqb f1 f2) && mem_string f1 (snd e) && mem_string f2 (snd e)
                     then [fst e] else []) dynamic_findings.

Definition race_engine_with (d : declaration) (t : access_table) (c : val) : val :=
  match c with
  | VL [VN 0; VB name; VN races; VN nops] =>
      verdict 0 (tag "scenario") (N.ltb 0 nops) []
  | VL [VN 1; VB f1; VN w1; VB f2; VN w2; VB detail] =>
      let s1 := string_of_bytes f1 in
      let s2 := string_of_bytes f2 in
      (* C36-1a seen by the race detector: ClientsWg.Add(1) runs inside the handler (attachClient), so
         it can be concurrent with ClientsWg.Wait() in Listeners.CloseAll (sync.WaitGroup misuse,
         reported as a race on the WaitGroup's internal state, which is not a field of the table) *)
      let wg a b := String.eqb a "Server.attachClient" && String.eqb b "listeners.Listeners.CloseAll" in
      if wg s1 s2 || wg s2 s1 then verdict 3 (tag "race") true [VB (bytes_of_str "KF_C33_wg_add_wait"); VB f1; VB f2] else
      match List.app (dynamic_kf s1 s2) (common (kf_of_fn d t s1) (kf_of_fn d t s2)) with
      | k :: _ => verdict 3 (tag "race") true [VB (bytes_of_str k); VB f1; VB f2]
      | [] => verdict 1 (tag "race") true [VB f1; VB f2; VB detail]
      end
  | _ => bad_case
  end.
