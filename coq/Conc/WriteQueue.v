(* C34 / C07 under concurrency — the write loop and the connection handlers in clients.go
   WritePacket.  The decision "write through / buffer / flush" depends on whether the client's
   outbound queue is empty, and that is read INSIDE the critical section (cl.Lock()).  The write
   loop dequeues a packet without the lock and then writes it through the same critical section.
   Schedules are lists of actions (a thread step, or a publisher enqueueing a packet); the size
   threshold of the write buffer is an oracle bit carried by the action.  A variant in which the
   queue is sampled BEFORE the lock is taken ([stale]) is included to show what the lock placement
   buys (it is what a seeded change to the real code did; see seeded/C07a).
   Only successful writes are modelled.  No proofs in this file. *)
From MV Require Import Base.Val.
Open Scope N_scope.

Inductive cpc :=
| CDecide (p : bytes) (sampled_empty : bool)   (* inside the lock, about to decide; the sample is used only if [stale] *)
| CFlushW                                       (* about to write outbuf to the connection *)
| CFlushC                                       (* about to set outbuf = nil *)
| CDone.                                        (* about to unlock *)

Record st := {
  conn : bytes;                       (* bytes on the wire *)
  buf : bytes;                        (* outbuf contents, [] = nil *)
  queue : list bytes;                 (* cl.State.outbound *)
  wl : option bytes;                  (* packet the write loop has dequeued and not yet written *)
  cur : option (nat * cpc);           (* lock holder (0 = write loop, S i = handler i) and its pc *)
  todo : list (list bytes);           (* responses each handler still has to write *)
  pre : list (option (bytes * bool))  (* [stale] only: handler i has entered WritePacket with this sample *)
}.

Inductive action :=
| AStep (t : nat) (big : bool)   (* thread t runs one atomic step; big = the buffer reaches its size *)
| AEnq (p : bytes).              (* a publisher queues a packet for this client *)

Fixpoint set_nth {A} (n : nat) (x : A) (l : list A) : list A :=
  match n, l with
  | O, _ :: r => x :: r
  | S n', y :: r => y :: set_nth n' x r
  | _, [] => []
  end.

Definition is_nil {A} (l : list A) : bool := match l with [] => true | _ => false end.

(* the body of the critical section, one atomic step at a time *)
Definition exec (stale : bool) (s : st) (t : nat) (c : cpc) (big : bool) : st :=
  match c with
  | CDecide p sampled =>
      let empty := if stale then sampled else is_nil (queue s) in
      if empty then
        if is_nil (buf s)
        then {| conn := conn s ++ p; buf := buf s; queue := queue s; wl := wl s; cur := Some (t, CDone); todo := todo s; pre := pre s |}
        else {| conn := conn s; buf := buf s ++ p; queue := queue s; wl := wl s; cur := Some (t, CFlushW); todo := todo s; pre := pre s |}
      else
        if is_nil (buf s) && big
        then {| conn := conn s ++ p; buf := buf s; queue := queue s; wl := wl s; cur := Some (t, CDone); todo := todo s; pre := pre s |}
        else {| conn := conn s; buf := buf s ++ p; queue := queue s; wl := wl s;
                cur := Some (t, if big then CFlushW else CDone); todo := todo s; pre := pre s |}
  | CFlushW => {| conn := conn s ++ buf s; buf := buf s; queue := queue s; wl := wl s; cur := Some (t, CFlushC); todo := todo s; pre := pre s |}
  | CFlushC => {| conn := conn s; buf := []; queue := queue s; wl := wl s; cur := Some (t, CDone); todo := todo s; pre := pre s |}
  | CDone => {| conn := conn s; buf := buf s; queue := queue s; wl := wl s; cur := None; todo := todo s; pre := pre s |}
  end.

Definition step (stale : bool) (s : st) (a : action) : st :=
  match a with
  | AEnq p => {| conn := conn s; buf := buf s; queue := queue s ++ [p]; wl := wl s; cur := cur s; todo := todo s; pre := pre s |}
  | AStep t big =>
      match cur s with
      | Some (h, c) =>
          if Nat.eqb h t then exec stale s t c big
          else match t with
               | O => (* the write loop may dequeue while somebody else holds the lock *)
                   match wl s, queue s with
                   | None, p :: q => {| conn := conn s; buf := buf s; queue := q; wl := Some p; cur := cur s; todo := todo s; pre := pre s |}
                   | _, _ => s
                   end
               | S i => (* [stale]: a handler may enter WritePacket and sample the queue while blocked *)
                   if stale then
                     match nth_error (pre s) i, nth_error (todo s) i with
                     | Some None, Some (p :: rest) =>
                         {| conn := conn s; buf := buf s; queue := queue s; wl := wl s; cur := cur s;
                            todo := set_nth i rest (todo s); pre := set_nth i (Some (p, is_nil (queue s))) (pre s) |}
                     | _, _ => s
                     end
                   else s
               end
      | None =>
          match t with
          | O =>
              match wl s, queue s with
              | Some p, _ => {| conn := conn s; buf := buf s; queue := queue s; wl := None;
                                cur := Some (0%nat, CDecide p (is_nil (queue s))); todo := todo s; pre := pre s |}
              | None, p :: q => {| conn := conn s; buf := buf s; queue := q; wl := Some p; cur := None; todo := todo s; pre := pre s |}
              | None, [] => s
              end
          | S i =>
              match nth_error (pre s) i with
              | Some (Some (p, sample)) =>      (* only reachable when [stale] *)
                  {| conn := conn s; buf := buf s; queue := queue s; wl := wl s; cur := Some (t, CDecide p sample);
                     todo := todo s; pre := set_nth i None (pre s) |}
              | _ =>
                  match nth_error (todo s) i with
                  | Some (p :: rest) =>
                      if stale
                      then {| conn := conn s; buf := buf s; queue := queue s; wl := wl s; cur := None;
                              todo := set_nth i rest (todo s); pre := set_nth i (Some (p, is_nil (queue s))) (pre s) |}
                      else {| conn := conn s; buf := buf s; queue := queue s; wl := wl s;
                              cur := Some (t, CDecide p (is_nil (queue s))); todo := set_nth i rest (todo s); pre := pre s |}
                  | _ => s
                  end
              end
          end
      end
  end.

Definition run (stale : bool) (sched : list action) (s : st) : st := fold_left (step stale) sched s.

Definition init (q : list bytes) (handlers : list (list bytes)) : st :=
  {| conn := []; buf := []; queue := q; wl := None; cur := None; todo := handlers;
     pre := map (fun _ => None) handlers |}.

(* nothing left to do anywhere *)
Definition finished (s : st) : Prop :=
  cur s = None /\ wl s = None /\ queue s = [] /\ Forall (fun l => l = []) (todo s) /\ Forall (fun o => o = None) (pre s).
