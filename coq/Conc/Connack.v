(* C13 (schedules) — a connection B resumes the session of client id X while a publisher sends a
   QoS 1 message to a topic the session is subscribed to.  Interleaving model of the window in
   server.go attachClient between inheritClientSession, Clients.Add and SendConnack, at the
   granularity of the Go critical sections, delimited on the real code by the verifPoints
   attach.afterInherit / attach.afterClientsAdd.  No proofs in this file.

     attachClient(B):                                   thread 0
       sessionPresent := inheritClientSession(pk, B)    Inherit     B's in-flight map := clone of the old object's;
                                                                    the old object's in-flight map is emptied
       verifPoint("attach.afterInherit")
       s.Clients.Add(B)                                 ClientsAdd  Clients[X] := B
       verifPoint("attach.afterClientsAdd")
       s.SendConnack(B, ...)                            SendConnack CONNACK written to B's connection (directly)
       B.ResendInflightMessages                         Resend      every message in B's in-flight map is written
     publisher: publishToSubscribers(msg)               thread 1
       cl := Clients.Get(X); publishToClient(cl, msg)   Publish     in-flight record in cl; if cl is open: queued on
                                                                    cl's outbound channel
     B's write loop (started at the top of attachClient) thread 2
       pk := <-outbound; WritePacket(pk)                Write       blocked while the queue is empty

   The old object (an offline persistent session) is closed: a message published to it only
   enters its in-flight map. *)
From MV Require Import Base.Val Base.Sched.
Open Scope N_scope.

Inductive wpkt := WConnack | WPublish.

Record cstate := {
  registered_new : bool;     (* Clients[X] is B (otherwise the old object) *)
  inherited : bool;          (* inheritClientSession has run *)
  connack_sent : bool;       (* SendConnack has run *)
  old_infl : nat;            (* messages in the old object's in-flight map *)
  new_infl : nat;            (* messages in B's in-flight map *)
  queue : list wpkt;         (* B's outbound channel *)
  wire : list wpkt;          (* what has been written to B's connection *)
  early_write : bool;        (* ghost: the write loop wrote before SendConnack *)
  window_publish : bool }.   (* ghost: the publisher ran between inheritClientSession and Clients.Add *)

Inductive instr := Inherit | ClientsAdd | SendConnack | Resend | Publish | Write.

Definition exec (t : tid) (i : instr) (s : cstate) : outcome cstate :=
  match i with
  | Inherit =>
      Continue {| registered_new := registered_new s; inherited := true; connack_sent := connack_sent s; old_infl := 0;
                  new_infl := new_infl s + old_infl s; queue := queue s; wire := wire s;
                  early_write := early_write s; window_publish := window_publish s |}
  | ClientsAdd =>
      Continue {| registered_new := true; inherited := inherited s; connack_sent := connack_sent s;
                  old_infl := old_infl s; new_infl := new_infl s; queue := queue s; wire := wire s;
                  early_write := early_write s; window_publish := window_publish s |}
  | SendConnack =>
      Continue {| registered_new := registered_new s; inherited := inherited s; connack_sent := true;
                  old_infl := old_infl s; new_infl := new_infl s; queue := queue s; wire := wire s ++ [WConnack];
                  early_write := early_write s; window_publish := window_publish s |}
  | Resend =>
      Continue {| registered_new := registered_new s; inherited := inherited s; connack_sent := connack_sent s;
                  old_infl := old_infl s; new_infl := new_infl s; queue := queue s;
                  wire := wire s ++ repeat WPublish (new_infl s);
                  early_write := early_write s; window_publish := window_publish s |}
  | Publish =>
      if registered_new s then
        Continue {| registered_new := true; inherited := inherited s; connack_sent := connack_sent s;
                    old_infl := old_infl s; new_infl := S (new_infl s); queue := queue s ++ [WPublish]; wire := wire s;
                    early_write := early_write s; window_publish := window_publish s |}
      else
        Continue {| registered_new := false; inherited := inherited s; connack_sent := connack_sent s;
                    old_infl := S (old_infl s); new_infl := new_infl s; queue := queue s; wire := wire s;
                    early_write := early_write s; window_publish := window_publish s || inherited s |}
  | Write =>
      match queue s with
      | [] => Blocked
      | p :: q => Continue {| registered_new := registered_new s; inherited := inherited s; connack_sent := connack_sent s;
                              old_infl := old_infl s; new_infl := new_infl s; queue := q; wire := wire s ++ [p];
                              early_write := early_write s || negb (connack_sent s); window_publish := window_publish s |}
      end
  end.

Definition init_state : cstate :=
  {| registered_new := false; inherited := false; connack_sent := false; old_infl := 0; new_infl := 0; queue := [];
     wire := []; early_write := false; window_publish := false |}.

Definition connack_threads : cfg cstate instr :=
  mkCfg init_state [[Inherit; ClientsAdd; SendConnack; Resend]; [Publish]; [Write]].

Definition run_connack (sched : list tid) : cfg cstate instr := run exec sched connack_threads.

(* ---------- specification ---------- *)
(* C13: the first packet on the connection is the CONNACK *)
Definition wire_connack_first (w : list wpkt) : bool :=
  match w with [] => true | WConnack :: _ => true | WPublish :: _ => false end.
Definition connack_first (c : cfg cstate instr) : bool := wire_connack_first (wire (shared c)).

(* exactly one CONNACK once the attach thread is through *)
Definition count_connack (w : list wpkt) : nat := length (filter (fun p => match p with WConnack => true | _ => false end) w).

(* C14 (a resumed session keeps every unacknowledged message), once everything has run: the
   published message is held by the session of B (in its in-flight map) *)
Definition thread_done (t : tid) (c : cfg cstate instr) : bool :=
  match nth_error (threads c) t with Some [] => true | Some _ => false | None => true end.
Definition message_kept (c : cfg cstate instr) : bool :=
  negb (thread_done 0%nat c && thread_done 1%nat c) || Nat.ltb 0 (new_infl (shared c)).

(* ---------- known findings: the windows, as predicates on the schedule ---------- *)
(* C13-1: the publisher runs after Clients.Add and B's write loop writes the message before
   SendConnack has run *)
Definition KF_C13_publish_before_connack (sched : list tid) : bool := early_write (shared (run_connack sched)).

(* C14-2: the publisher runs between inheritClientSession and Clients.Add: the message enters the
   in-flight map of the old object, which nobody reads any more *)
Definition KF_C14_publish_in_inherit_window (sched : list tid) : bool := window_publish (shared (run_connack sched)).

(* ---------- engine ----------
   case = ((tid...) (wire...) new_infl)   wire entries: 2 = CONNACK, 3 = PUBLISH; what the real
   broker did under the forced schedule: B's packets in order, messages in B's in-flight map *)
Definition wire_val (w : list wpkt) : list N := map (fun p => match p with WConnack => 2 | WPublish => 3 end) w.

Fixpoint beq_NL (a b : list N) : bool :=
  match a, b with [], [] => true | x :: a', y :: b' => (x =? y) && beq_NL a' b' | _, _ => false end.

(* ENGINE connack_sched Conc.Connack.connack_engine *)
Definition connack_engine (v : val) : val :=
  match v with
  | VL [VL sched; VL w; VN infl] =>
      match map_opt as_N sched, map_opt as_N w with
      | Some sc, Some w' =>
          let sc' := map N.to_nat sc in
          let c := run_connack sc' in
          let first_ok := match w' with [] => true | p :: _ => p =? 2 end in
          let kept_ok := negb (thread_done 0%nat c && thread_done 1%nat c) || (0 <? infl) in
          if negb first_ok then
            if KF_C13_publish_before_connack sc' then verdict 3 (tag "connack") true [VB (tag "KF_C13_publish_before_connack")]
            else verdict 1 (tag "connack") true []
          else if negb kept_ok then
            if KF_C14_publish_in_inherit_window sc' then verdict 3 (tag "kept") true [VB (tag "KF_C14_publish_in_inherit_window")]
            else verdict 1 (tag "kept") true []
          else if beq_NL w' (wire_val (wire (shared c))) && (infl =? N.of_nat (new_infl (shared c)))
          then verdict 0 (tag "connack") true []
          else verdict 2 (tag "connack") true [VL (map VN (wire_val (wire (shared c)))); VN (N.of_nat (new_infl (shared c)))]
      | _, _ => bad_case
      end
  | _ => bad_case
  end.
