(* C33 — the repaired defect (fix commit 5827d88 in /repo: scanMessages reads particle.retainPath through
   particle.retained, under the particle's lock) and the listed finding KF_C33_will, as small
   access tables checked against the real declaration. *)
From Coq Require Import List String Bool.
From MV Require Import Conc.Locks Conc.Discipline Conc.DisciplineProofs.
Import ListNotations.
Open Scope string_scope.

(* ---- retainPath, before the fix: written under root + particle lock, read with no lock ---- *)
Definition rp_write : asite :=
  mk_asite ["particle"; "retainPath"] "TopicsIndex.RetainMessage" true false false
    [("particle.Mutex#root", W, false); ("particle.Mutex", W, true)] [RA; RE; RH; RI].
Definition rp_read_prefix : asite :=
  mk_asite ["particle"; "retainPath"] "TopicsIndex.scanMessages" false false false [] [RA; RH].
Definition rp_read_fixed : asite :=
  mk_asite ["particle"; "retainPath"] "particle.retained" false false false [("particle.Mutex", W, true)] [RA; RH].
Definition rp_read_trim : asite :=
  mk_asite ["particle"; "retainPath"] "TopicsIndex.trim" false false false [("particle.Mutex#root", W, false)] [RA; RE; RH; RI].

Lemma retainPath_prefix_rejected :
  sites_respect decl [rp_write; rp_read_prefix; rp_read_trim] = false /\
  overlap rp_write rp_read_prefix = true /\ conflicting rp_write rp_read_prefix = true /\
  may_be_concurrent rp_write rp_read_prefix = true /\
  forall u, In u (units_of decl rp_write) -> ~ synchronised u rp_write rp_read_prefix.
Proof.
  split; [vm_compute; reflexivity|]. split; [vm_compute; reflexivity|].
  split; [vm_compute; reflexivity|]. split; [vm_compute; reflexivity|].
  intros u Hu. vm_compute in Hu. destruct Hu as [<-|[]].
  unfold synchronised. simpl. intros [[_ H]|[_ H]]; vm_compute in H; discriminate.
Qed.

Lemma retainPath_fixed_accepted :
  sites_respect decl [rp_write; rp_read_fixed; rp_read_trim] = true.
Proof. vm_compute. reflexivity. Qed.

(* ---- KF_C33_will: the handler clears / reads the will, the event loop clears it as well ---- *)
Definition will_handler : asite :=
  mk_asite ["Client"; "Properties"; "Will"] "Server.attachClient" true false false [] [RH].
Definition will_eventloop : asite :=
  mk_asite ["Client"; "Properties"; "Will"] "Server.sendDelayedLWT" true false false [] [RE].

Lemma will_refuted :
  sites_respect decl [will_handler; will_eventloop] = false /\
  sites_respect_modulo decl [will_handler; will_eventloop] = true /\
  overlap will_handler will_eventloop = true /\ conflicting will_handler will_eventloop = true /\
  may_be_concurrent will_handler will_eventloop = true /\
  forall u, In u (units_of decl will_handler) -> In u (units_of decl will_eventloop) ->
    exempt u will_handler = false /\ exempt u will_eventloop = false /\
    u_kf u = Some "KF_C33_will" /\ ~ synchronised u will_handler will_eventloop.
Proof.
  split; [vm_compute; reflexivity|]. split; [vm_compute; reflexivity|].
  split; [vm_compute; reflexivity|]. split; [vm_compute; reflexivity|].
  split; [vm_compute; reflexivity|].
  intros u Hu _. vm_compute in Hu. destruct Hu as [<-|[]].
  split; [vm_compute; reflexivity|]. split; [vm_compute; reflexivity|]. split; [reflexivity|].
  unfold synchronised. simpl. intros [_ H]. specialize (H RE (or_introl eq_refl)).
  simpl in H. destruct H as [H|[H|[H|[]]]]; discriminate.
Qed.

(* ---- session expiry interval: owned by the handler until Client.Stop, read by the event loop
        only behind the StopTime() guard (seeded change: the read moved in front of the guard) ---- *)
Definition sei_write : asite :=
  mk_asite ["Client"; "Properties"; "Props"; "SessionExpiryInterval"] "Server.processDisconnect" true false false [] [RA; RH].
Definition sei_read_guarded : asite :=
  mk_asite ["Client"; "Properties"; "Props"; "SessionExpiryInterval"] "Server.clearExpiredClients" false false true [] [RE].
Definition sei_read_unguarded : asite :=
  mk_asite ["Client"; "Properties"; "Props"; "SessionExpiryInterval"] "Server.clearExpiredClients" false false false [] [RE].
Definition sei_write_guarded : asite :=
  mk_asite ["Client"; "Properties"; "Props"; "SessionExpiryInterval"] "Server.clearExpiredClients" true false true [] [RE].

Lemma sei_guard_required :
  sites_respect decl [sei_write; sei_read_guarded] = true /\
  sites_respect decl [sei_write; sei_read_unguarded] = false /\
  sites_respect_modulo decl [sei_write; sei_read_unguarded] = false /\
  sites_respect decl [sei_write; sei_write_guarded] = false.
Proof. vm_compute. repeat split. Qed.
