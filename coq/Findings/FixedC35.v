(* The pre-fix limit handling of attachClient (pinned commit f01d2fe, server.go:419-453) — kept
   only to document the repaired defect C35-1:

       if atomic.LoadInt64(&s.Info.ClientsConnected) >= s.Options.Capabilities.MaximumClients { refuse }
       ... validateConnect, OnConnect, OnConnectAuthenticate ...
       atomic.AddInt64(&s.Info.ClientsConnected, 1)

   The check and the increment are two atomic steps ([Check; Incr; Decr] in Conc/Limit.v), so two
   attempts can both pass the check before either increments.  The schedule below is the one the
   harness forces on the real goroutines (hx limit): with the pre-fix code both attempts receive a
   success CONNACK with MaximumClients = 1. *)
From MV Require Import Base.Val Base.Sched Conc.Limit.
Open Scope Z_scope.

Definition prefix_threads (max : Z) (specs : list tspec) : cfg lstate instr := init prog_prefix max specs.

Definition two_clients : list tspec := [mkSpec 5 1; mkSpec 4 2].

(* A checks, B checks, A increments, B increments *)
Definition race : list tid := [0; 1; 0; 1]%nat.

Lemma prefix_exceeds_limit :
  connected (run exec race (prefix_threads 1 two_clients)) = 2 /\
  l_counter (shared (run exec race (prefix_threads 1 two_clients))) = 2.
Proof. vm_compute. split; reflexivity. Qed.

Lemma C35_refuted_prefix : exists max specs sched,
  0 <= max /\ connected (run exec sched (prefix_threads max specs)) > max.
Proof. exists 1, two_clients, race. vm_compute. split; [discriminate|reflexivity]. Qed.

(* the same schedule on the fixed code: B is refused with 0x03 (MQTT 3.1.1) *)
Lemma fixed_same_schedule :
  connected (run exec race (limit_threads 1 two_clients)) = 1 /\
  stat 1%nat (run exec race (limit_threads 1 two_clients)) = Some (Refused 3).
Proof. vm_compute. split; reflexivity. Qed.
