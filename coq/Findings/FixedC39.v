(* The pre-fix wsConn.Read (pinned commit f01d2fe, listeners/websocket.go:150) — kept only to
   document the repaired defect C39-1.  Read was what is now [read1]: a binary message without
   payload (and the exhausted reader left behind by a message that exactly filled the buffer)
   produced an empty read (0, nil).  bufio.Reader.fill — under Client.ReadFixedHeader — gives up
   with io.ErrNoProgress after 100 consecutive empty reads, so 100 empty binary messages in a row
   at a packet boundary ended the connection although every message was binary. *)
From MV Require Import Base.Val IO.WsFrame.
Open Scope N_scope.

Definition ws_read_prefix (sz : nat) (s : ws) (o : oracle) : rres * ws * oracle :=
  let '(r, s', o') := read1 sz s o in
  match r with
  | R1Data d => (ROk d, s', o')
  | R1Invalid => (RInvalid, s', o')
  | R1Closed => (RClosed, s', o')
  end.

(* number of consecutive empty reads at the start of a sequence of n reads of 2048 bytes *)
Fixpoint empty_reads_prefix (n : nat) (s : ws) : nat :=
  match n with
  | O => O
  | S k => match ws_read_prefix 2048 s [] with
           | (ROk [], s', _) => S (empty_reads_prefix k s')
           | _ => O
           end
  end.

Fixpoint empty_reads_fixed (n : nat) (s : ws) : nat :=
  match n with
  | O => O
  | S k => match ws_read 2048 s [] with
           | (ROk [], s', _) => S (empty_reads_fixed k s')
           | _ => O
           end
  end.

Definition hundred_empty_then_ping : list msg := repeat (2, []) 100 ++ [(2, [192; 0])].

Lemma prefix_hundred_empty_reads :
  empty_reads_prefix 100 (mkWs None hundred_empty_then_ping) = 100%nat.
Proof. vm_compute. reflexivity. Qed.

Lemma fixed_skips_empty_messages :
  empty_reads_fixed 100 (mkWs None hundred_empty_then_ping) = 0%nat /\
  fst (fst (ws_read 2048 (mkWs None hundred_empty_then_ping) [])) = ROk [192; 0].
Proof. vm_compute. split; reflexivity. Qed.
