(* The pre-fix scanMessages (pinned commit f01d2fe, topics.go:530-579) — kept only to document the repaired
   defects C02-1 (x/# omits the retained message on x) and C02-2 (a leading wildcard matches $foo/... retained
   topics; only the literal $SYS child of the root was skipped). *)
From MV Require Import Base.Val Topics.Levels Topics.Match Topics.Alist Topics.IndexSpec Topics.Trie.
Open Scope N_scope.

(* below a '#' (over-depth isolateParticle keeps returning "#"): each child's message, then recursion *)
Fixpoint scan_hash_prefix (ret : list (bytes * bytes)) (n : node) : list msg :=
  match n with
  | Node _ ch =>
      (fix go (l : list (level * node)) : list msg :=
         match l with
         | [] => []
         | (_, a) :: l' => own_msg ret (cont a) ++ scan_hash_prefix ret a ++ go l'
         end) ch
  end.

Definition sys_prefix : bytes := tag "$SYS".

Fixpoint scan_msgs_prefix (ret : list (bytes * bytes)) (top : bool) (fs : list level) (n : node) : list msg :=
  match fs with
  | [] => []
  | key :: rest =>
      let hasNext := negb (nilb rest) in
      if is_plus key || is_hash key then
        flat_map (fun e : level * node =>
                    let (k, adjacent) := e in
                    if top && beq_bytes k sys_prefix then [] else
                    (if negb hasNext then own_msg ret (cont adjacent) else []) ++
                    (if hasNext then scan_msgs_prefix ret false rest adjacent
                     else if is_hash key then scan_hash_prefix ret adjacent else []))
                 (children n)
      else
        match get_child key (children n) with
        | Some particle =>
            if hasNext then scan_msgs_prefix ret false rest particle
            else ret_lookup ret (c_retain (cont particle))
        | None => []
        end
  end.

Definition messages_prefix (x : index) (filter : bytes) : list msg :=
  if nilb filter || nilb (ix_ret x) then []
  else if negb (has 35 filter) && negb (has 43 filter) then ret_lookup (ix_ret x) filter
  else scan_msgs_prefix (ix_ret x) true (path_of filter 0) (ix_root x).

Definition three : list op :=
  [ORetain (tag "x") (tag "m1"); ORetain (tag "x/y") (tag "m2"); ORetain (tag "$foo/y") (tag "m3")].

(* C02-1: "x/#" omits the message retained on "x" *)
Lemma prefix_hash_omits_parent :
  messages_prefix (run three) (tag "x/#") = [(tag "x/y", tag "m2")] /\
  spec_retained (abs three) (tag "x/#") = [(tag "x", tag "m1"); (tag "x/y", tag "m2")] /\
  messages (run three) (tag "x/#") = [(tag "x", tag "m1"); (tag "x/y", tag "m2")].
Proof. vm_compute. repeat split. Qed.

(* C02-2: "+/y" returns the message retained on "$foo/y" *)
Lemma prefix_wild_matches_dollar :
  messages_prefix (run three) (tag "+/y") = [(tag "x/y", tag "m2"); (tag "$foo/y", tag "m3")] /\
  spec_retained (abs three) (tag "+/y") = [(tag "x/y", tag "m2")] /\
  messages (run three) (tag "+/y") = [(tag "x/y", tag "m2")].
Proof. vm_compute. repeat split. Qed.
