(* The pre-fix counter bookkeeping of server.go (pinned commit f01d2fe) — kept only to document the
   repaired defects C38-1..5.  Each [*_old] is the old variant of one primitive of Session/Stats.v;
   each lemma shows a state in which counters and counts agree and which the old primitive takes to
   one where they do not. *)
From MV Require Import Base.Val Session.Pkt Session.Stats.
Open Scope Z_scope.

Definition A : bytes := tag "a".
Definition T1 : bytes := tag "t/1".

(* session "a": disconnected, one outbound QoS 1 message (packet id 1) in flight; one retained message *)
Definition s_good : st :=
  {| s_clients := [ {| c_id := A; c_conn := false; c_v3clean := false; c_infl := [(1%N, T_PUBLISH)]; c_subs := [] |} ];
     s_index := []; s_ret := [T1]; n_conn := 0; n_subs := 0; n_ret := 1; n_infl := 1 |}.

Lemma s_good_ok : stats_ok s_good.
Proof. vm_compute. repeat split; discriminate. Qed.

(* C38-3 (fixed by b64bdc3): inheritClientSession cloned the in-flight map into the new session and
   then called existing.ClearInflights(), which decremented Info.Inflight once per inherited record *)
Definition takeover_old (s : st) (id : bytes) : st :=
  match get id (s_clients s) with
  | Some ex =>
      let s1 := with_clients s (upd id (fun _ => new_client id false (c_infl ex) (c_subs ex)) (s_clients s)) in
      with_nconn (with_ninfl s1 (n_infl s1 - Z.of_nat (length (c_infl ex)))) (n_conn s1 + 1)
  | None => s
  end.

Lemma takeover_old_drifts : n_infl (takeover_old s_good A) = 0 /\ act_infl (takeover_old s_good A) = 1.
Proof. vm_compute. split; reflexivity. Qed.

(* C38-5 (fixed by 426cc48): the pending-writes queue is full: publishToClient deleted the record it
   had just stored and counted, without decrementing *)
Definition deliver_full_old (s : st) (id : bytes) (pid : N) : st :=
  let s1 := infl_set s id pid T_PUBLISH in
  with_clients s1 (upd id (fun c => set_infl c (del_pid pid (c_infl c))) (s_clients s1)).

Lemma deliver_full_old_drifts :
  n_infl (deliver_full_old s_good A 2) = 2 /\ act_infl (deliver_full_old s_good A 2) = 1.
Proof. vm_compute. split; reflexivity. Qed.

(* C38-2a (fixed by 7446663): clearExpiredRetainedMessages deleted from the store and left Info.Retained *)
Definition expire_retained_old (s : st) (t : bytes) : st := with_ret s (del_b t (s_ret s)) (n_ret s).

Lemma expire_retained_old_drifts :
  n_ret (expire_retained_old s_good T1) = 1 /\ act_ret (expire_retained_old s_good T1) = 0.
Proof. vm_compute. split; reflexivity. Qed.

(* C38-4 (fixed by 7446663): publishSysTopics retained the $SYS topics and left Info.Retained *)
Definition sys_tick_old (s : st) (topics : list bytes) : st :=
  with_ret s (fold_left (fun r t => add_b t r) topics (s_ret s)) (n_ret s).

Lemma sys_tick_old_drifts :
  n_ret (sys_tick_old s_good [tag "$SYS/broker/uptime"]) = 1 /\ act_ret (sys_tick_old s_good [tag "$SYS/broker/uptime"]) = 2.
Proof. vm_compute. split; reflexivity. Qed.

(* C38-2b (fixed by ed068ea, with C15-1): clearExpiredClients removed the session from Clients and
   left its in-flight messages counted *)
Definition expire_client_old (s : st) (id : bytes) : st := with_clients s (drop id (s_clients s)).

Lemma expire_client_old_drifts :
  n_infl (expire_client_old s_good A) = 1 /\ act_infl (expire_client_old s_good A) = 0.
Proof. vm_compute. split; reflexivity. Qed.

(* the repaired operations on the same state keep the equality *)
Lemma fixed_ops_ok :
  stats_ok (step s_good (OConnect A false 4 true)) /\
  stats_ok (step s_good (OExpireRetained [T1])) /\
  stats_ok (step s_good (OSysTick [tag "$SYS/broker/uptime"])) /\
  stats_ok (step s_good (OExpireClients [A])) /\
  stats_ok (deliver s_good (A, 2%N, 1%N)).
Proof. vm_compute. repeat split; discriminate. Qed.
