(* The pre-fix refreshDeadline (pinned commit f01d2fe, clients.go:265) — kept only to document the
   repaired defect C37-1:
       expiry = time.Now().Add(time.Duration(keepalive+(keepalive/2)) * time.Second)
   The sum is computed in uint16 whole seconds: odd keepalives lose half a second, and from
   keepalive 43691 upwards the sum wraps modulo 2^16 (43691 gives a deadline of zero seconds). *)
From MV Require Import Base.Val IO.Keepalive.
Open Scope Z_scope.

Definition deadline_ms_prefix (K : Z) : option Z :=
  if 0 <? K then Some (((K + K / 2) mod 65536) * 1000) else None.

Lemma prefix_odd_loses_half_second : deadline_ms_prefix 1 = Some 1000 /\ limit_ms 1 = 1500.
Proof. vm_compute. split; reflexivity. Qed.

Lemma prefix_wraps : deadline_ms_prefix 43691 = Some 0 /\ deadline_ms_prefix 65535 = Some 32766000.
Proof. vm_compute. split; reflexivity. Qed.

(* with the pre-fix deadline a client with keepalive 1 that sends a packet every 1.25 s is cut off *)
Definition step_prefix (c : conn) (K arrival : Z) : conn :=
  match c with
  | Closed t => Closed t
  | Open t0 =>
      match deadline_ms_prefix K with
      | None => Open arrival
      | Some d => if arrival <? t0 + d then Open arrival else Closed (t0 + d)
      end
  end.

Lemma prefix_closes_early : step_prefix (Open 0) 1 1250 = Closed 1000.
Proof. vm_compute. reflexivity. Qed.
