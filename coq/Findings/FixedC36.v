(* The pre-fix shutdown behaviour (pinned commit f01d2fe) — kept only to document the repaired
   defects C36-1b and C36-2; it is the instance [exec_gen PreFix] of Conc/Shutdown.v:

   C36-1b  attachClient did not look at `done` after Clients.Add: a handler that had run
           ClientsWg.Add(1) but was not yet in Clients when Close took its snapshot was never
           disconnected; its client received a success CONNACK from a server that was shutting down
           and Close blocked in ClientsWg.Wait for as long as that client stayed connected.
   C36-2   listeners/tcp.go (net.go, unixsock.go) Serve: a connection returned by Accept after
           end = 1 was neither handed to a handler nor closed.

   Both schedules below are forced on the real goroutines by the harness (hx shutdown). *)
From MV Require Import Base.Val Base.Sched Conc.Shutdown.
Open Scope Z_scope.

Definition v5 : cspec := mkCS 5 false false.

Definition final_prefix (vers : list cspec) (sched : list tid) : sstate :=
  shared (run (exec_gen PreFix) sched (shutdown_threads vers)).

(* tids for one connection: 0 closer, 1 accept loop, 2 client, 3 handler (4 client going away).
   dial, send CONNECT, accept, spawn, handler runs ClientsWg.Add and reads the CONNECT; Close: end, snapshot (empty), disconnect, close
   listener, (accept loop returns), Wait blocks; the handler goes on: Clients.Add, CONNACK, serving *)
Definition mid_attach : list tid := [1; 2; 2; 1; 1; 1; 3; 3; 0; 0; 0; 0; 1; 0; 0; 3; 3]%nat.

Lemma prefix_mid_attach :
  let s := final_prefix [v5] mid_attach in
  close_called s = true /\ quiescent s = true /\ returned s = false /\
  map (fun c => (c_phase c, c_connack c, c_closed c, c_disc c)) (s_conns s) = [(PServing, true, false, false)] /\
  shutdown_complete s = false.
Proof. vm_compute. repeat split. Qed.

(* the same schedule on the current code: the handler refuses the client (failure CONNACK) and
   returns, Wait returns *)
Lemma fixed_mid_attach :
  let s := final [v5] (mid_attach ++ [0]%nat) in
  quiescent s = true /\ shutdown_complete s = true /\
  map (fun c => (c_phase c, c_connack c, c_closed c)) (s_conns s) = [(PDone, false, true)].
Proof. vm_compute. repeat split. Qed.

(* Close sets end; a client dials; Accept returns the connection; end = 1: dropped; Close completes *)
Definition accept_after_end : list tid := [1; 0; 2; 2; 1; 1; 1; 0; 0; 0; 0; 0]%nat.

Lemma prefix_dropped :
  let s := final_prefix [v5] accept_after_end in
  quiescent s = true /\ returned s = true /\
  map (fun c => (c_phase c, c_closed c)) (s_conns s) = [(PDropped, false)] /\
  shutdown_complete s = false.
Proof. vm_compute. repeat split. Qed.

Lemma fixed_dropped :
  let s := final [v5] accept_after_end in
  quiescent s = true /\ shutdown_complete s = true.
Proof. vm_compute. repeat split. Qed.

Lemma C36_refuted_prefix : exists vers sched,
  close_called (final_prefix vers sched) = true /\ quiescent (final_prefix vers sched) = true /\
  shutdown_complete (final_prefix vers sched) = false.
Proof. exists [v5], mid_attach. vm_compute. repeat split. Qed.
