(* The pre-fix DisconnectDecode and AuthDecode (pinned commit f01d2fe, packets.go:567-585 and
   1141-1156) — kept only to document the repaired defects C42-1 and C42-2.
   C42-1: the reason code of a DISCONNECT was read only when the remaining length exceeded 1, so the
          permitted two-byte-short form "e0 01 <reason>" lost its reason code; in particular
          "e0 01 04" (disconnect with will message) was taken for a normal disconnection and the will
          was discarded.  Properties were read only when the remaining length exceeded 2, so a
          non-zero property length with nothing behind it ("e0 02 00 05") was accepted.
   C42-2: AUTH always required a reason code and a property length, so the permitted forms with
          remaining length 0 ("f0 00") and 1 ("f0 01 18") were rejected as malformed.
   Fixed in /repo by 1a5113d and a924969. *)
From MV Require Import Base.Val Codec.Vbi Codec.Wire Codec.Props Codec.MochiCodec Codec.SpecCodec
  Codec.SpecBridge.
Open Scope N_scope.

Definition disconnect_decode_prefix (pk : packet) (buf : bytes) : res packet :=
  if (pk_version pk =? 5) && (1 <? fh_remaining (pk_fh pk)) then
    let* (rc, offset) := decodeByte buf 0 onerr EReasonCode in
    let pk := set_pk_reason_code rc pk in
    if 2 <? fh_remaining (pk_fh pk) then
      let* (_, pk) := decode_props_at pk buf offset in Ok pk
    else Ok pk
  else Ok pk.

Definition auth_decode_prefix (pk : packet) (buf : bytes) : res packet :=
  let* (rc, offset) := decodeByte buf 0 onerr EReasonCode in
  let pk := set_pk_reason_code rc pk in
  let* (_, pk) := decode_props_at pk buf offset in Ok pk.

(* "e0 01 04": the reason code 0x04 is lost *)
Lemma prefix_disconnect_loses_reason :
  exists pk, disconnect_decode_prefix (fresh_packet 5 (mkfh 1 DISCONNECT 0 false false)) [4] = Ok pk /\
             pk_reason_code pk = 0.
Proof. eexists. split; [vm_compute; reflexivity | reflexivity]. Qed.

Lemma fixed_disconnect_keeps_reason :
  mochi_decode_packet 5 [224; 1; 4] = Ok (expected 5 (SDisconnect 4 []) 1, []).
Proof. vm_compute. reflexivity. Qed.

(* "f0 00" and "f0 01 18" are rejected *)
Lemma prefix_auth_rejects_short :
  auth_decode_prefix (fresh_packet 5 (mkfh 0 AUTH 0 false false)) [] = Err EOffsetByteOutOfRange /\
  auth_decode_prefix (fresh_packet 5 (mkfh 1 AUTH 0 false false)) [24] = Err EEOF.
Proof. split; vm_compute; reflexivity. Qed.

Lemma fixed_auth_accepts_short :
  mochi_decode_packet 5 [240; 0] = Ok (expected 5 (SAuth 0 []) 0, []) /\
  mochi_decode_packet 5 [240; 1; 24] = Ok (expected 5 (SAuth 24 []) 1, []).
Proof. split; vm_compute; reflexivity. Qed.
