(* The pre-fix Subscription.Merge (packets.go:254-274 at f01d2fe) and publishRetainedToClient — kept only
   to document the repaired defects
     C04-1  retained deliveries carried no Subscription Identifier (the un-merged subscription has a nil
            Identifiers map)                                                   fixed by d481be6
     C04-2  Retain As Published of overlapping subscriptions was that of whichever subscription was
            gathered first                                                     fixed by 97e644e
     C04-3  a client selected in two share groups that also held a matching non-shared subscription lost
            the identifier of the second group (Merge copied only n.Identifier) fixed by ad56d60 *)
From MV Require Import Base.Val Topics.Match Topics.Alist Session.Deliver.
Open Scope N_scope.

Definition merge_prefix (s n : msub) : msub :=
  mkMS (ms_filter s) (ms_id s) (Some (set_pos (idmap s) (ms_filter n, ms_id n)))
       (if ms_qos s <? ms_qos n then ms_qos n else ms_qos s)
       (ms_rap s) (ms_nolocal s || ms_nolocal n) (ms_fwd s).

Definition merge_into_prefix (acc : option msub) (fo : bytes * subopt) : option msub :=
  let sub := msub_of fo in Some (merge_prefix (match acc with Some a => a | None => sub end) sub).
Definition merge_all_prefix (l : list (bytes * subopt)) : option msub := fold_left merge_into_prefix l None.

Definition wire_ids_of (o : option msub) : list N :=
  match o with Some m => match ms_ids m with Some l => filter pos (isort (map snd l)) | None => [] end | None => [] end.

Definition so (q : N) (rap : bool) (id : N) : subopt := mkSO q false rap 0 id.

(* C04-2: a/b (no RAP) gathered before # (RAP): the retain flag was cleared *)
Lemma prefix_rap_depends_on_order :
  let l := [(tag "a/b", so 1 false 2); (tag "#", so 2 true 0)] in
  option_map ms_rap (merge_all_prefix l) = Some false /\ option_map ms_rap (merge_all_prefix (rev l)) = Some true
  /\ spec_retain 5 true l = true /\ option_map ms_rap (merge_all l) = Some true.
Proof. vm_compute. repeat split. Qed.

(* C04-3: non-shared a/b (id 1) + selected in $share/g/a/+ (id 2) and $share/h/a/# (id 3) *)
Lemma prefix_loses_second_group_identifier :
  let plain := [(tag "a/b", so 0 false 1)] in
  let picks := [(tag "$share/g/a/+", so 1 false 2); (tag "$share/h/a/#", so 2 false 3)] in
  wire_ids_of (match merge_all_prefix plain, merge_all_prefix picks with
               | Some g, Some sel => Some (merge_prefix g sel) | _, _ => None end) = [1; 2]
  /\ spec_ids (plain ++ picks) = [1; 2; 3]
  /\ wire_ids_of (match merge_all plain, merge_all picks with
                  | Some g, Some sel => Some (merge g sel) | _, _ => None end) = [1; 2; 3].
Proof. vm_compute. repeat split. Qed.

(* C04-1: publishRetainedToClient passed the subscription as decoded: Identifiers = nil *)
Definition retained_sub_prefix (f : bytes) (o : subopt) : msub :=
  mkMS f (so_id o) None (so_qos o) (so_rap o) (so_nolocal o) true.

Lemma prefix_retained_without_identifier :
  let s := init 2 true [] in
  let cl := mkCl true 5 false false [] [] in
  let m := mkMsg (tag "a/b") (tag "r") 1 true mp_none (tag "p") in
  (match publish_to_client s (tag "s") cl (retained_sub_prefix (tag "a/#") (so 1 false 7)) m false with
   | PSend d => d_ids d | _ => [99] end) = []
  /\ (match publish_to_client s (tag "s") cl (retained_sub (tag "a/#") (so 1 false 7)) m false with
      | PSend d => d_ids d | _ => [99] end) = [7].
Proof. vm_compute. split; reflexivity. Qed.
