(* The pre-fix scanSubscribers (pinned commit f01d2fe, topics.go:593-628) — kept only to document the
   repaired defects C01-1 (+/# does not match the parent level), C01-2/3 (shared and inline filters starting
   with a wildcard match $-topics) and C01-4 / C40-1 (inline x/# misses x). *)
From MV Require Import Base.Val Topics.Levels Topics.Match Topics.Alist Topics.IndexSpec Topics.Trie.
Open Scope N_scope.

Fixpoint scan_subs_prefix (topic : bytes) (ks : list level) (n : node) : scan_res :=
  match ks with
  | [] => res_empty
  | key :: rest =>
      let hasNext := negb (nilb rest) in
      let visit (partKey : level) : scan_res :=
        match get_child partKey (children n) with
        | Some particle =>
            if hasNext then scan_subs_prefix topic rest particle
            else res_app (gather_all topic (cont particle))
                         (match get_child [35] (children particle) with
                          | Some wild =>
                              if is_plus partKey then res_empty      (* `wild != nil && partKey != "+"` *)
                              else mkR (gather_subs topic (cont wild)) (gather_shared (cont wild))
                                       (gather_inline (cont particle))   (* gatherInlineSubscriptions(particle, ...) *)
                          | None => res_empty
                          end)
        | None => res_empty
        end in
      res_app (res_app (visit key) (visit [43]))
              (match get_child [35] (children n) with
               | Some particle => gather_all topic (cont particle)     (* no $ test for shared / inline *)
               | None => res_empty
               end)
  end.
Definition subscribers_prefix (x : index) (topic : bytes) : scan_res :=
  if nilb topic then res_empty else scan_subs_prefix topic (path_of topic 0) (ix_root x).

(* C01-1: client subscription "+/#" is not selected for topic "a" *)
Lemma prefix_plus_hash_misses_parent :
  let ops := [OSub (tag "c1") (tag "+/#") 1] in
  r_cl (subscribers_prefix (run ops) (tag "a")) = [] /\
  sel_cl (abs ops) (tag "a") = [(tag "c1", tag "+/#", 1)] /\
  r_cl (subscribers (run ops) (tag "a")) = [(tag "c1", tag "+/#", 1)].
Proof. vm_compute. repeat split. Qed.

(* C01-2: shared subscription "$share/g/#" is selected for topic "$foo/x" *)
Lemma prefix_shared_wild_matches_dollar :
  let ops := [OSub (tag "c1") (tag "$share/g/#") 1] in
  r_sh (subscribers_prefix (run ops) (tag "$foo/x")) = [(tag "c1", tag "$share/g/#", 1)] /\
  sel_sh (abs ops) (tag "$foo/x") = [] /\ r_sh (subscribers (run ops) (tag "$foo/x")) = [].
Proof. vm_compute. repeat split. Qed.

(* C01-3: inline subscription "+/x" is selected for topic "$foo/x" *)
Lemma prefix_inline_wild_matches_dollar :
  let ops := [OInSub 7 (tag "+/x") 1] in
  r_in (subscribers_prefix (run ops) (tag "$foo/x")) = [(7, tag "+/x", 1)] /\
  sel_in (abs ops) (tag "$foo/x") = [] /\ r_in (subscribers (run ops) (tag "$foo/x")) = [].
Proof. vm_compute. repeat split. Qed.

(* C01-4 / C40-1: inline subscription "x/#" is not selected for topic "x" *)
Lemma prefix_inline_hash_misses_parent :
  let ops := [OInSub 7 (tag "x/#") 1] in
  r_in (subscribers_prefix (run ops) (tag "x")) = [] /\
  sel_in (abs ops) (tag "x") = [(7, tag "x/#", 1)] /\
  r_in (subscribers (run ops) (tag "x")) = [(7, tag "x/#", 1)].
Proof. vm_compute. repeat split. Qed.
