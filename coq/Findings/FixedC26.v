(* The pre-fix encodePubAckRelRecComp (pinned commit f01d2fe, packets.go:703-725) — kept only to
   document the repaired defect C26-1: for protocol version 5 the reason code was written only when
   it was >= 0x80 or when properties followed, so a success-class reason other than 0x00 (PUBACK /
   PUBREC 0x10 "no matching subscribers") without properties was dropped and the packet decoded
   with reason 0x00.  Fixed in /repo by bdb97b6. *)
From MV Require Import Base.Val Codec.Vbi Codec.Wire Codec.Props Codec.MochiCodec.
Open Scope N_scope.

Definition ack_encode_prefix (pk : packet) : res bytes :=
  let nb := encodeUint16 (pk_packet_id pk) in
  if pk_version pk =? 5 then
    let* pb := enc_props pk (blen nb) in
    finish pk (nb ++ when ((128 <=? pk_reason_code pk) || (1 <? blen pb)) [pk_reason_code pk]
                  ++ when (1 <? blen pb) pb)
  else finish pk nb.

Definition pubrec_0x10 : packet :=
  set_pk_reason_code 16 (set_pk_packet_id 7 (fresh_packet 5 (mkfh 0 PUBREC 0 false false))).

Lemma prefix_ack_drops_reason :
  ack_encode_prefix pubrec_0x10 = Ok [80; 2; 0; 7] /\
  (exists pk, mochi_decode_packet 5 [80; 2; 0; 7] = Ok (pk, []) /\ pk_reason_code pk = 0).
Proof. split; [vm_compute; reflexivity | eexists; split; [vm_compute; reflexivity | reflexivity]]. Qed.

Lemma fixed_ack_keeps_reason :
  mochi_encode pubrec_0x10 = Ok [80; 3; 0; 7; 16] /\
  (exists pk, mochi_decode_packet 5 [80; 3; 0; 7; 16] = Ok (pk, []) /\ pk_reason_code pk = 16).
Proof. split; [vm_compute; reflexivity | eexists; split; [vm_compute; reflexivity | reflexivity]]. Qed.

(* Second repaired defect (found while proving the re-encode statement): PingreqEncode/PingrespEncode
   wrote the fixed header with whatever FixedHeader.Remaining the Packet carried.  The decoder accepts
   a PINGREQ with a non-zero remaining length (c0 01 00: ReadPacket reads the byte and ignores it), so
   re-encoding the decoded packet produced "c0 01" — a header announcing one more byte that is not
   there.  Fixed in /repo by 46da5a3 (Remaining := 0). *)
Definition ping_encode_prefix (pk : packet) : res bytes := fh_encode (pk_fh pk).

Lemma prefix_ping_stale_length :
  exists pk, (mochi_decode_packet 4 [192; 1; 0] = Ok (pk, [])) /\
             (ping_encode_prefix pk = Ok [192; 1]) /\
             (mochi_decode_packet 4 [192; 1] = Err EShortRead) /\
             (mochi_encode pk = Ok [192; 0]).
Proof. eexists. split; [vm_compute; reflexivity|]. repeat split; vm_compute; reflexivity. Qed.
