(* The pre-fix encodePubAckRelRecComp (pinned commit f01d2fe, packets.go:703-725) — kept only to
   document the repaired defect C26-1: for protocol version 5 the reason code was written only when
   it was >= 0x80 or when properties followed, so a success-class reason other than 0x00 (PUBACK /
   PUBREC 0x10 "no matching subscribers") without properties was dropped and the packet decoded
   with reason 0x00.  Fixed in /repo by bdb97b6. *)
From MV Require Import Base.Val Codec.Vbi Codec.Wire Codec.Props Codec.MochiCodec.
Open Scope N_scope.

Definition ack_encode_prefix (pk : packet) : res bytes :=
  let nb := encodeUint16 (pk_packet_id pk) in
  if pk_version pk =? 5 then
    let* pb := enc_props pk (blen nb) in
    finish pk (nb ++ when ((128 <=? pk_reason_code pk) || (1 <? blen pb)) [pk_reason_code pk]
                  ++ when (1 <? blen pb) pb)
  else finish pk nb.

Definition pubrec_0x10 : packet :=
  set_pk_reason_code 16 (set_pk_packet_id 7 (fresh_packet 5 (mkfh 0 PUBREC 0 false false))).

Lemma prefix_ack_drops_reason :
  ack_encode_prefix pubrec_0x10 = Ok [80; 2; 0; 7] /\
  (exists pk, mochi_decode_packet 5 [80; 2; 0; 7] = Ok (pk, []) /\ pk_reason_code pk = 0).
Proof. split; [vm_compute; reflexivity | eexists; split; [vm_compute; reflexivity | reflexivity]]. Qed.

Lemma fixed_ack_keeps_reason :
  mochi_encode pubrec_0x10 = Ok [80; 3; 0; 7; 16] /\
  (exists pk, mochi_decode_packet 5 [80; 3; 0; 7; 16] = Ok (pk, []) /\ pk_reason_code pk = 16).
Proof. split; [vm_compute; reflexivity | eexists; split; [vm_compute; reflexivity | reflexivity]]. Qed.
