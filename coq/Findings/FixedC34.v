(* The pre-fix write loop (pinned commit f01d2fe, clients.go WriteLoop: a WritePacket error was only
   logged) — kept only to document the repaired defects C34-1 and C34-2. *)
From MV Require Import Base.Val Session.Pkt IO.WriteBuf.
Open Scope N_scope.

(* a queued packet refused before the buffer logic: nothing was reported and nothing flushed *)
Definition wstep_old (thr : N) (s : wst) (e : wev) : wst :=
  if e_early e then s else wstep thr s e.

Definition ev (src0 : src) (id size : N) (early qempty : bool) : wev :=
  {| e_src := src0; e_id := id; e_size := size; e_early := early; e_qempty := qempty |}.

(* write buffer 64 bytes; the write loop takes packet 1 (20 bytes) while packet 2 is still queued: it
   is buffered and reported sent.  Packet 2 is too large for the client's Maximum Packet Size. *)
Definition h : list wev := [ev Loop 1 20 false false; ev Loop 2 90 true true].

Lemma c34_1_stranded :
  idle_after h = true /\
  let s := fold_left (wstep_old 64) h winit in
  reported s = [1] /\ written s = [] /\ outbuf s = [(1, 20)] /\ dropped s = [].
Proof. vm_compute. repeat split. Qed.

(* repaired: packet 1 is flushed, packet 2 is reported dropped *)
Lemma c34_fixed_same_history :
  let s := wrun 64 h in reported s = [1] /\ written s = [1] /\ outbuf s = [] /\ dropped s = [2].
Proof. vm_compute. repeat split. Qed.

(* C34-3: before 17f8a7b a message refused because the in-flight store was full was not reported *)
Definition fate_report_old (f : fate) : option hook :=
  match f with FInflightFull => None | _ => fate_report f end.
Lemma c34_3_inflight_full_unreported : fate_is_drop FInflightFull = true /\ fate_report_old FInflightFull = None.
Proof. split; reflexivity. Qed.
