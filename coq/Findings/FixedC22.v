(* The storage hooks before the repairs C22-1 and C22-2 (pinned commit f01d2fe), kept only to
   document the repaired defects:
     C22-1  bolt.go / redis.go OnDisconnect did not call updateClient (badger and pebble do), so a
            client record changed at disconnect (will cleared, session expiry from DISCONNECT) stayed
            stale in those two back ends;
     C22-2  bolt.go / redis.go OnQosPublish did not set PacketID in the stored message, so every
            restored in-flight message had packet identifier 0. *)
From MV Require Import Base.Val Storage.Kv Storage.StoreHooks.
Open Scope N_scope.

Definition old_full (b : backend) : bool := match b with Badger | Pebble => true | _ => false end.

Definition hook_writes_prefix (b : backend) (e : event) : list wr :=
  match e with
  | EDisconnect c expire =>
      (if old_full b then [WSet TCL (cr_id (rc_rec c)) (SClient (rc_rec c))] else []) ++
      (if expire && negb (rc_takenover c) then [WDel TCL (cr_id (rc_rec c))] else [])
  | EQosPublish cid p sent =>
      let m := inflight_record cid p sent in
      let m' := if old_full b then m
                else mkMsgRec (mr_key m) (mr_client m) (mr_origin m) 0 (mr_fh m) (mr_topic m) (mr_payload m)
                              (mr_sent m) (mr_created m) (mr_pf m) (mr_pf_flag m) (mr_mei m) (mr_props m) in
      [WSet TIFM (ifm_suffix cid (p_pid p)) (SMsg m')]
  | _ => hook_writes e
  end.

Definition run_hooks_prefix (b : backend) (evs : list event) : bstore :=
  apply_writes b (empty_store b) (flat_map (hook_writes_prefix b) evs).

Definition cl (will : val) : rclient :=
  mkRClient (mkClientRec (tag "a") [] [] [] false 4 0 false 0 false (VL []) will) false.
Definition pk : pkt := mkPkt (VL []) 2 (tag "t") [] [] 0 0%Z 4 0 false 0 (VL []).

(* C22-1: after [established with a will; clean disconnect (will cleared)] badger holds the record
   without the will, bolt still the one with it *)
Lemma prefix_disconnect_differs :
  let evs := [ESessionEstablished (cl (VN 1)); EDisconnect (cl (VN 0)) false] in
  map cr_will (rb_clients (read_back (run_hooks_prefix Badger evs))) = [VN 0] /\
  map cr_will (rb_clients (read_back (run_hooks_prefix Bolt evs))) = [VN 1] /\
  map cr_will (rb_clients (read_back (run_hooks_prefix Redis evs))) = [VN 1].
Proof. vm_compute. repeat split. Qed.

(* C22-2: the packet identifier of an in-flight message was lost by bolt and redis *)
Lemma prefix_packet_id_lost :
  let evs := [EQosPublish (tag "a") pk 0] in
  map mr_pid (rb_inflight (read_back (run_hooks_prefix Pebble evs))) = [2] /\
  map mr_pid (rb_inflight (read_back (run_hooks_prefix Bolt evs))) = [0] /\
  map mr_pid (rb_inflight (read_back (run_hooks_prefix Redis evs))) = [0].
Proof. vm_compute. repeat split. Qed.
