(* The pre-fix alias handling (pinned commit f01d2fe) — kept only to document the repaired defects
   C24-1, C24-2 (deferral part) and C24-3. *)
From MV Require Import Base.Val Session.Pkt Session.Alias.
Open Scope N_scope.

(* ---- outbound, before 8111849: publishToClient chose the alias BEFORE storing the in-flight copy,
   so the stored copy carried (topic "" + alias) whenever the alias already existed, and a message
   held back by flow control had recorded its binding without announcing it ---- *)
Inductive oev_old :=
| OQueue (topic : bytes)                 (* alias chosen, stored, queued and written *)
| ODefer (topic : bytes)                 (* alias chosen, stored, held back (send quota 0): nothing written *)
| OWriteStored (w : wire).               (* a stored copy written verbatim (resend / deferred send) *)

Definition stored_form (t : otab) (topic : bytes) : wire * otab :=
  let '(a, ex, t') := out_set t topic in ((topic, if (0 <? a) && ex then [] else topic, a), t').

Definition out_step_old (t : otab) (e : oev_old) : otab * list wire :=
  match e with
  | OQueue topic => let '(w, t') := stored_form t topic in (t', [w])
  | ODefer topic => let '(_, t') := stored_form t topic in (t', [])
  | OWriteStored w => (t, [w])
  end.

Fixpoint out_run_old (t : otab) (evs : list oev_old) : list wire :=
  match evs with [] => [] | e :: r => let '(t', w) := out_step_old t e in w ++ out_run_old t' r end.

Definition TA : bytes := tag "q1/a".

(* C24-1: two QoS 1 messages for one topic reach a subscriber (Topic Alias Maximum 1); the second is
   stored as ("" , alias 1).  The subscriber reconnects: the new connection has an empty alias table and
   receives the stored copies verbatim — the second one cannot be resolved. *)
Lemma c24_1_resend_unresolvable :
  let first_connection := out_run_old (oinit 1) [OQueue TA; OQueue TA] in
  first_connection = [(TA, TA, 1); (TA, [], 1)] /\
  recv_ok 1 [] first_connection = true /\
  (* the copies stored during the first connection, written on the second one in map order *)
  recv_ok 1 [] (out_run_old (oinit 1) [OWriteStored (TA, [], 1); OWriteStored (TA, TA, 1)]) = false.
Proof. vm_compute. repeat split. Qed.

(* C24-2 (deferral): the first message for the topic is held back by flow control after its alias
   was recorded; the next one (QoS 0, not subject to the quota) is written with the alias only. *)
Lemma c24_2_deferred_binding :
  recv_ok 1 [] (out_run_old (oinit 1) [ODefer TA; OQueue TA]) = false.
Proof. vm_compute. reflexivity. Qed.

(* the repaired order on the same scenarios *)
Lemma c24_fixed_same_scenarios :
  recv_ok 1 [] (out_run (oinit 1) [EStored TA; EStored TA]) = true /\
  recv_ok 1 [] (out_run (oinit 1) [EQueue TA true; EStored TA]) = true.
Proof. vm_compute. split; reflexivity. Qed.

(* ---- inbound, before de3df06: InboundTopicAliases.Set recorded and returned "" for an alias that
   was never bound, and processPublish routed the message under topic "" ---- *)
Definition in_set_old (t : itab) (id : N) (topic : bytes) : bytes * itab :=
  if i_max t =? 0 then (topic, t)
  else match lookup_a id (i_map t) with
       | Some x => if is_empty topic then (x, t)
                   else (topic, {| i_max := i_max t; i_map := set_a id topic (i_map t) |})
       | None => (topic, {| i_max := i_max t; i_map := set_a id topic (i_map t) |})
       end.

Definition in_step_old (t : itab) (topic : bytes) (alias : N) : inres * itab :=
  if i_max t <? alias then (IReject, t)
  else if is_empty topic && (alias =? 0) then (IReject, t)
  else if alias =? 0 then (IRoute topic, t)
  else let '(tp, t') := in_set_old t alias topic in (IRoute tp, t').

Lemma c24_3_unbound_alias_routed :
  fst (in_step_old (iinit 5) [] 3) = IRoute [] /\ spec_in 5 [] [] 3 = IReject /\
  fst (in_step (iinit 5) [] 3) = IReject.
Proof. vm_compute. repeat split. Qed.
