(* The persistence path before the repairs recorded in findings.d/C20.json and C21.json (pinned
   commit f01d2fe), kept only to document the repaired defects by one witness each:
     C20-1  updateClient did not persist SessionExpiryIntervalFlag / RequestProblemInfoFlag;
     C20-4  PayloadFormatFlag of retained and in-flight messages was not persisted;
     C17-3  subscriptions refused with a reason code >= 0x80 were persisted with Qos = the code;
     C20-3  the expiry time and protocol version of a message are not stored and were not recomputed
            on load: a restored message never expired by its own interval;
     C21-2  loadSubscriptions put subscriptions of client ids without a restored session into the index;
     C21-3  OnWillSent / OnDisconnect of a taken-over client rewrote the client record of the session
            that took over.
   (C20-5: OnUnsubscribed was called for an UNSUBSCRIBE refused with 0x91; C20-6: processPubrec did
   not report the PUBREL replacing the in-flight PUBLISH; C21-1: a take-over reported the inherited
   in-flight messages as dropped: these are in server.go, the hook model is unchanged by them.) *)
From MV Require Import Base.Val Storage.Kv Storage.StoreHooks Storage.Restart.
Open Scope N_scope.

Definition client_rec_prefix (c : client_rec) : client_rec :=
  mkClientRec (cr_id c) (cr_listener c) (cr_remote c) (cr_username c) (cr_clean c) (cr_ver c) (cr_sei c) false
              (cr_rpi c) false (cr_props c) (cr_will c).

Definition c1 : client_rec := mkClientRec (tag "a") (tag "t") [] [] false 5 60 true 0 true (VL []) (VL []).

(* C20-1: the stored record has lost both flags; clearExpiredClients then applies the server's
   maximum session expiry instead of the client's 60 seconds *)
Lemma prefix_flags_lost : cr_sei_flag (client_rec_prefix c1) = false /\ cr_rpi_flag (client_rec_prefix c1) = false.
Proof. split; reflexivity. Qed.

(* C20-3: ToPacket alone: no expiry time, protocol version 0 *)
Definition to_packet_prefix (m : msg_rec) : pkt :=
  mkPkt (mr_fh m) (mr_pid m) (mr_topic m) (mr_payload m) (mr_origin m) (mr_created m) 0%Z 0
        (mr_pf m) (mr_pf_flag m) (mr_mei m) (mr_props m).

Definition p1 : pkt := mkPkt (VL [VN 3; VN 1; VN 0; VN 1; VN 9]) 0 (tag "t") (tag "x") (tag "o") 1000 1005%Z 5 1 true 5 (VL []).

Lemma prefix_expiry_lost :
  deadline 86400 p1 = Some 1005%Z /\
  deadline 86400 (to_packet_prefix (retained_record (tag "o") p1)) = Some 87400%Z /\
  deadline 86400 (to_packet 86400 (retained_record (tag "o") p1)) = Some 1005%Z.
Proof. vm_compute. repeat split. Qed.

(* C21-2: subscriptions restored whether or not their client was *)
Definition load_subs_prefix (ss : list sub_rec) : amap sub_key subscription :=
  fold_left (fun m s => aset sub_key_eqb (sr_client s, sr_filter s)
                          (mkSub (sr_filter s) (sr_identifier s) (sr_rh s) (sr_qos s) (sr_rap s) (sr_nolocal s)) m) ss [].

Definition orphan : sub_rec := mkSubRec (tag "SUB_gone:a/b") (tag "gone") (tag "a/b") 0 0 1 false false.

Lemma prefix_orphan_restored :
  aget sub_key_eqb (tag "gone", tag "a/b") (load_subs_prefix [orphan]) <> None /\
  aget sub_key_eqb (tag "gone", tag "a/b") (load_subs [] [orphan]) = None.
Proof. vm_compute. split; [discriminate | reflexivity]. Qed.

(* C21-3: the record written for a taken-over client replaced the one of the live session *)
Definition old_conn : client_rec := mkClientRec (tag "a") (tag "t") [] [] false 5 0 true 0 false (VL []) (VL []).
Definition new_conn : client_rec := mkClientRec (tag "a") (tag "t") [] [] false 5 3600 true 0 false (VL []) (VL []).

Lemma prefix_takeover_clobbers :
  (* new connection established, then the old connection's OnDisconnect: before the repair one more
     ASetClient, which leaves the old record (session expiry 0: dropped at restart) *)
  spec_session (arun [ASetClient new_conn; ASetClient old_conn]) (tag "a") = None /\
  spec_session (arun (awrites_of [ESessionEstablished (mkRClient new_conn false);
                                  EDisconnect (mkRClient old_conn true) true])) (tag "a") <> None.
Proof. vm_compute. split; [reflexivity | discriminate]. Qed.
