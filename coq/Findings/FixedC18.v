(* The pre-fix auth ledger (pinned commit f01d2fe) — kept only to document the repaired defects
   C18-1 (MatchTopic's loop ended with the filter: deeper topics matched) and C18-2 (the first matching
   user ACL filter in map iteration order decided). *)
From Coq Require Import String Permutation.
From MV Require Import Base.Val Topics.Valid Auth.Ledger.
Import VLevels.
Open Scope N_scope.
Open Scope list_scope.

(* C18-1: ledger.go:90-119 ended with [return elements, true] *)
Fixpoint match_loop_prefix (fp tp : list level) : bool :=
  match fp with
  | [] => true
  | f :: fp' =>
      match tp with
      | [] => false
      | t :: tp' =>
          if is_plus f then match_loop_prefix fp' tp'
          else if is_hash f then true
          else if beq_bytes f t then match_loop_prefix fp' tp'
          else false
      end
  end.
Definition match_topic_prefix (f t : bytes) : bool := match_loop_prefix (split f) (split t).

Definition B (s : string) : bytes := bytes_of_string s.

Lemma prefix_matches_deeper_topics :
  match_topic_prefix (B "a/+") (B "a/b/c") = true /\ level_match (split (B "a/+")) (split (B "a/b/c")) = false /\
  match_topic_prefix (B "a") (B "a/b") = true /\ level_match (split (B "a")) (split (B "a/b")) = false.
Proof. vm_compute. repeat split. Qed.

(* C18-2: ledger.go:168-182 returned at the first matching filter of [range u.ACL] *)
Fixpoint user_acl_loop_prefix (acl : filters) (topic : bytes) (write : bool) : option bool :=
  match acl with
  | [] => None
  | (f, a) :: r =>
      if match_topic f topic then Some (grants write a) else user_acl_loop_prefix r topic write
  end.

(* the same map enumerated in two orders gives two decisions *)
Lemma prefix_user_acl_depends_on_order :
  let acl := [(B "a/#", 3); (B "a/b", 0)] in
  let acl' := [(B "a/b", 0); (B "a/#", 3)] in
  Permutation acl acl' /\
  user_acl_loop_prefix acl (B "a/b") true = Some true /\
  user_acl_loop_prefix acl' (B "a/b") true = Some false.
Proof. cbv zeta. split; [apply perm_swap|]. vm_compute. split; reflexivity. Qed.
