(* The pre-fix SubscribeDecode (pinned commit f01d2fe, packets.go:958-960) — kept only to document
   the repaired defect C27-1: for protocol version 5 the subscription-options byte was read with
   an unchecked index, [sub.decode(buf[offset])], so a SUBSCRIBE whose last topic filter is not
   followed by an options byte made the decoder panic (and, with no recover() in the connection
   goroutine, killed the broker process).  Fixed in /repo by de482bb. *)
From MV Require Import Base.Val Codec.Vbi Codec.Wire Codec.Props Codec.MochiCodec.
Open Scope N_scope.

Fixpoint subscribe_loop_prefix (fuel : nat) (v5 : bool) (ids : list N) (buf : bytes) (offset : N)
         (acc : list subscription) : res (list subscription) :=
  if blen buf <=? offset then Ok acc
  else match fuel with
       | O => Fuel
       | S f =>
           let* (filter, offset) := decodeString buf offset onerr ETopic in
           let sub := set_s_filter filter sub0 in
           let* (sub, offset) :=
             (if v5 then
                let* b := index buf offset in            (* sub.decode(buf[offset]); offset += 1 *)
                Ok (sub_decode b sub, offset + 1)
              else
                let* (option, offset) := decodeByte buf offset onerr EQos in
                Ok (set_s_qos option sub, offset)) in
           let sub := match ids with i :: _ => set_s_identifier i sub | [] => sub end in
           if 2 <? s_qos sub then Err EQosOutOfRange
           else subscribe_loop_prefix f v5 ids buf offset (acc ++ [sub])
       end.

Definition subscribe_decode_prefix (pk : packet) (buf : bytes) : res packet :=
  let* (id, offset) := decodeUint16 buf 0 onerr EPacketID in
  let pk := set_pk_packet_id id pk in
  let* (pk, offset) := props_if_v5 pk buf offset in
  let* fs := subscribe_loop_prefix (S (length buf)) (pk_version pk =? 5) (p_sub_ids (pk_props pk)) buf offset [] in
  Ok (set_pk_filters fs pk).

(* packet id 1, no properties, filter "a", no options byte *)
Definition c27_witness : bytes := [0; 1; 0; 0; 1; 97].

Lemma prefix_subscribe_panics :
  subscribe_decode_prefix (fresh_packet 5 (mkfh 6 SUBSCRIBE 1 false false)) c27_witness = Panic.
Proof. vm_compute. reflexivity. Qed.

Lemma fixed_subscribe_rejects :
  mochi_decode_body 5 (mkfh 6 SUBSCRIBE 1 false false) c27_witness = Err EOffsetByteOutOfRange.
Proof. vm_compute. reflexivity. Qed.
