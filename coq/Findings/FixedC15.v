(* Pre-fix behaviour (pinned commit f01d2fe) — kept only to document the repaired defects
   C15-1 (clearExpiredClients only deleted the Clients entry: subscriptions stayed in the topic
   index and delivered to the next connection with the identifier; fixed by /repo ed068ea) and
   C15-2 (a Session Expiry Interval set by DISCONNECT was not capped by the server maximum; fixed by
   /repo a70a1ed).  The pre-fix steps are the current model with exactly those two changes undone;
   the C15 monitor rejects their traces. *)
From MV Require Import Base.Val Session.Lifecycle Session.LifeSpec.
Open Scope N_scope.

Fixpoint tick_clients_prefix (k : caps) (now : Z) (l : list (bytes * N)) (s : state) : state * list out :=
  match l with
  | [] => (s, [])
  | (id, c) :: r =>
      match get_obj c (st_objs s) with
      | None => tick_clients_prefix k now r s
      | Some o =>
          if (o_disc o =? 0)%Z then tick_clients_prefix k now r s
          else
            let ex := if (o_ver o =? 5) && o_seiflag o then o_sei o else k_maxsei k in
            if (o_disc o + Z.of_N ex <? now)%Z then
              let s2 := set_clients s (adel id (st_clients s)) in     (* only the Clients entry is deleted *)
              let (s3, outs) := tick_clients_prefix k now r s2 in
              (s3, OExpired id :: outs)
            else tick_clients_prefix k now r s
      end
  end.

(* processDisconnect without the cap (normal disconnect only; enough for the witness) *)
Definition do_disconnect_prefix (k : caps) (c : N) (now : Z) (sei : N) (s : state) : state * list out :=
  match reading s c with
  | None => (s, [])
  | Some o =>
      let o' := with_sei o sei true in
      let s1 := upd_obj s o' in
      let s2 := set_wills s1 (adel (o_id o') (st_wills s1)) in
      let s3 := upd_obj s2 (stopped o' now) in
      let (s4, o4) := handler_tail k now c false s3 in
      (s4, OClose c :: o4)
  end.

Definition step_prefix (k : caps) (s : state) (o : op) : state * list out :=
  match o with
  | OTickClients now => tick_clients_prefix k now (st_clients s) s
  | ODisconnect c now 0 (Some v) => do_disconnect_prefix k c now v s
  | _ => step k s o
  end.

Fixpoint trace_prefix (k : caps) (s : state) (ops : list op) : list tstep :=
  match ops with
  | [] => []
  | o :: r => let (s', outs) := step_prefix k s o in
              {| t_op := o; t_outs := outs; t_hooks := []; t_pre := s; t_post := s' |} :: trace_prefix k s' r
  end.

Definition caps10 : caps := {| k_maxsei := 10; k_minver := 3; k_maxqos := 2; k_retain := true |}.
Definition cp5 (id : bytes) (clean : bool) (sei : option N) : cparams :=
  {| cp_pname := name_MQTT; cp_ver := 5; cp_reserved := false; cp_clean := clean; cp_willflag := false; cp_willqos := 0;
     cp_willretain := false; cp_willtopic := []; cp_willpayload := []; cp_willdelay := 0; cp_userflag := false; cp_user := [];
     cp_passflag := false; cp_pass := []; cp_keepalive := 60; cp_id := id;
     cp_seiflag := match sei with Some _ => true | None => false end; cp_sei := match sei with Some v => v | None => 0 end;
     cp_trunc := false; cp_willtopic_ok := true |}.
Definition mk (t pl : bytes) (q : N) : msg := {| m_topic := t; m_payload := pl; m_qos := q; m_retain := false |}.

(* C15-1: session a subscribes to "t", expires; a NEW session with the id (clean start!) receives the publish *)
Definition hist_c15_1 : list op :=
  [OConnect 0 1000 (cp5 [111] true None) true [111]; OConnect 1 1000 (cp5 [97] false (Some 5)) true [97];
   OSubscribe 1 [116] 1; ODisconnect 1 1000 0 None; OTickClients 1006;
   OConnect 2 1000 (cp5 [97] true None) true [97]; OPublish 0 (mk [116] [51] 1)].

Lemma prefix_expiry_leaves_subscriptions :
  map v_tag (mon15 caps10 (map obs_of (trace_prefix caps10 init hist_c15_1)))
    = [V15_stale_index; V15_stale_index; V15_stale_index; V15_unjustified] /\
  nth 6 (map t_outs (trace_prefix caps10 init hist_c15_1)) [] = [OPkt 2 (PPublish (mk [116] [51] 1) false)] /\
  mon15 caps10 (map obs_of (trace caps10 init hist_c15_1)) = [] /\
  nth 6 (map t_outs (trace caps10 init hist_c15_1)) [] = [].
Proof. vm_compute. repeat split. Qed.

(* C15-2: server maximum 10, DISCONNECT sets the interval to 40: the session survives the tick at 1011 *)
Definition hist_c15_2 : list op :=
  [OConnect 1 1000 (cp5 [97] false (Some 5)) true [97]; ODisconnect 1 1000 0 (Some 40); OTickClients 1011].

Lemma prefix_disconnect_expiry_uncapped :
  map v_tag (mon15 caps10 (map obs_of (trace_prefix caps10 init hist_c15_2))) = [V15_late] /\
  mon15 caps10 (map obs_of (trace caps10 init hist_c15_2)) = [].
Proof. vm_compute. repeat split. Qed.
