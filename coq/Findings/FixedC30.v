(* The pre-fix IsValidFilter (pinned commit f01d2fe, topics.go:707-745) — kept only to document the
   repaired defects C30-1/2 (wildcard inside a level, empty share name / empty filter after the share
   name accepted), C30-3 ('$SYS' test case-insensitive) and C30-4 (share rules applied to publish
   topic names). *)
From Coq Require Import String.
From MV Require Import Base.Val Topics.Valid.
Open Scope N_scope.
Open Scope list_scope.

(* wildhash >= 0 && wildhash != len-1 *)
Fixpoint hash_check_prefix (s : bytes) : bool :=
  match s with
  | [] => true
  | c :: r => if c =? 35 then nilb r else hash_check_prefix r
  end.

(* len(filter) >= 4 && strings.EqualFold(filter[0:4], "$SYS"): a 4-byte slice can only fold to the
   4 ASCII runes of "$SYS" if it consists of 4 ASCII bytes *)
Definition sys_fold4 (s : bytes) : bool :=
  match s with
  | a :: b :: c :: d :: _ =>
      (a =? 36) && ((b =? 83) || (b =? 115)) && ((c =? 89) || (c =? 121)) && ((d =? 83) || (d =? 115))
  | _ => false
  end.

Definition is_valid_filter_prefix (s : bytes) (for_publish : bool) : bool :=
  if negb for_publish && nilb s then false
  else if for_publish && sys_fold4 s then false
  else if for_publish && (contains_rune s 43 || contains_rune s 35) then false
  else if negb (hash_check_prefix s) then false
  else
    let (prefix, has_next) := isolate_particle 0 s in
    if negb has_next && equal_fold_share prefix then false
    else if has_next && equal_fold_share prefix then
      let (group, has_next2) := isolate_particle 1 s in
      if negb has_next2 then false
      else if contains_rune group 43 || contains_rune group 35 then false
      else true
    else true.

Definition B (s : string) : bytes := bytes_of_string s.

(* C30-1/2 *)
Lemma prefix_accepts_wildcard_inside_level :
  is_valid_filter_prefix (B "a/b#") false = true /\ valid_filter_spec (B "a/b#") = false /\
  is_valid_filter_prefix (B "a+") false = true /\ valid_filter_spec (B "a+") = false.
Proof. vm_compute. repeat split. Qed.

Lemma prefix_accepts_empty_share_parts :
  is_valid_filter_prefix (B "$share//t") false = true /\ valid_filter_spec (B "$share//t") = false /\
  is_valid_filter_prefix (B "$share/g/") false = true /\ valid_filter_spec (B "$share/g/") = false.
Proof. vm_compute. repeat split. Qed.

(* C30-3 *)
Lemma prefix_refuses_lowercase_sys :
  is_valid_filter_prefix (B "$sys/x") true = false /\ valid_pub_topic_spec (B "$sys/x") = true.
Proof. vm_compute. repeat split. Qed.

(* C30-4 *)
Lemma prefix_refuses_share_topic_names :
  is_valid_filter_prefix (B "$share") true = false /\ valid_pub_topic_spec (B "$share") = true /\
  is_valid_filter_prefix (B "$share/g") true = false /\ valid_pub_topic_spec (B "$share/g") = true.
Proof. vm_compute. repeat split. Qed.
