(* C32 — the two repaired defects (fix commit c4b2fef in /repo): Inflight.NextImmediate called
   GetAll, and Clients.GetByListener called Len, while holding the read lock that the callee
   takes again.  The pre-fix shape is rejected by the checker, and the executions it describes do
   deadlock in the machine: the reader is between its two RLocks when a writer announces itself. *)
From Coq Require Import List NArith String.
From MV Require Import Conc.Locks Conc.LocksProofs.
Import ListNotations.
Open Scope N_scope.

(* functions: 0 = NextImmediate / GetByListener, 1 = GetAll / Len, 2 = Set / Delete; class 0 *)
Definition prefix_table : lock_table :=
  [ mk_site 0 [] (Acquire 0 R); mk_site 0 [(0, R)] (Call 1);
    mk_site 1 [] (Acquire 0 R);
    mk_site 2 [] (Acquire 0 W) ].

Definition fixed_table : lock_table :=
  [ mk_site 0 [] (Call 1);
    mk_site 1 [] (Acquire 0 R);
    mk_site 2 [] (Acquire 0 W) ].

Lemma prefix_rejected : lock_discipline_ok prefix_table = false /\ lock_violations prefix_table = [(0, 0, 0)].
Proof. vm_compute. split; reflexivity. Qed.

Lemma fixed_accepted : lock_discipline_ok fixed_table = true.
Proof. vm_compute. reflexivity. Qed.

(* lock instance 7 of class 0 *)
Definition reader_evs : list ev := [EAcq 7 R; EEnter 1; EAcq 7 R; ERel 7 R; EExit; ERel 7 R].
Definition writer_evs : list ev := [EAcq 7 W; ERel 7 W].

Lemma prefix_conforms :
  conforms (fun _ => 0) prefix_table [] [(0, [])] reader_evs = true /\
  conforms (fun _ => 0) prefix_table [] [(2, [])] writer_evs = true.
Proof. vm_compute. split; reflexivity. Qed.

(* schedule: the reader takes its first RLock, the writer calls Lock (announced, waits for the
   reader), the reader's second RLock now waits for the writer *)
Lemma prefix_deadlocks :
  deadlocked (run [0%nat; 1%nat] [thread_of reader_evs; thread_of writer_evs]).
Proof. apply deadlockedb_sound. vm_compute. reflexivity. Qed.

(* without the writer's announcement in between, the same reader runs to completion: this is why
   no single-goroutine test sees the defect *)
Lemma prefix_other_schedule_completes :
  all_done (run [0; 0; 0; 0; 1; 1; 1]%nat [thread_of reader_evs; thread_of writer_evs]).
Proof. intros t Ht. vm_compute in Ht. destruct Ht as [<-|[<-|[]]]; reflexivity. Qed.

(* ---- an unbalanced function (seeded change to Client.flushIdle: Lock; if queue non-empty return;
        flush; Unlock): the early return leaves the client's lock held.  The goroutine that leaked
        it finishes, every later Lock() on that client waits for ever. ---- *)
Definition leak_table : lock_table := [ mk_site 0 [] (Acquire 0 W) ].

Lemma leak_rejected :
  lock_discipline_ok leak_table = true /\                         (* nesting alone sees nothing *)
  lock_discipline_ok_full [(0, "Client.flushIdle"%string)] [0] leak_table = false /\
  lock_discipline_ok_full [(0, "Client.flushIdle"%string)] [] leak_table = true.
Proof. vm_compute. repeat split. Qed.

(* thread 0 = flushIdle taking the early return, thread 1 = the next WritePacket *)
Lemma leak_deadlocks :
  deadlocked (run [0; 0; 1]%nat [mk_thread [] false [Acq 7 W]; mk_thread [] false [Acq 7 W; Rel 7 W]]).
Proof. apply deadlockedb_sound. vm_compute. reflexivity. Qed.
