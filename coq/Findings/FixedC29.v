(* The pre-fix DecodeLength (pinned commit f01d2fe) — kept only to document the repaired defect
   C29-1: encodings longer than four bytes were accepted. *)
From MV Require Import Base.Val Codec.Vbi.
Open Scope N_scope.

Fixpoint vbi_decode_loop_prefix (bs : bytes) (mult value bu : N) : vbi_res :=
  match bs with
  | [] => VErrEOF bu
  | eb :: r =>
      let value' := N.lor value (u32 (N.shiftl (N.land eb 127) mult)) in
      if 268435455 <? value' then VErrMalformed bu
      else if N.land eb 128 =? 0 then VOk value' bu r
      else vbi_decode_loop_prefix r (mult + 7) value' (bu + 1)
  end.

Lemma prefix_accepts_five_bytes :
  vbi_decode_loop_prefix [128; 128; 128; 128; 0] 0 0 1 = VOk 0 5 [].
Proof. vm_compute. reflexivity. Qed.

Lemma prefix_accepts_six_bytes :
  vbi_decode_loop_prefix [129; 128; 128; 128; 128; 1] 0 0 1 = VOk 1 6 [].
Proof. vm_compute. reflexivity. Qed.
