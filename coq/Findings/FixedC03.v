(* The pre-fix Properties.Encode (packets/properties.go:326 at f01d2fe) applied Mods.DisallowProblemInfo to
   the user properties of every packet type: a subscriber that connected with Request Problem Information = 0
   received forwarded PUBLISH packets without their user properties (C03-2, fixed by 0829057: PUBLISH is
   exempt, as [MQTT-3.1.2-29] says).  Kept only to document the repaired defect. *)
From MV Require Import Base.Val Session.Deliver.
Open Scope N_scope.

Definition wire_prefix (cl : client) (d : delivery) : delivery :=
  if cl_ver cl =? 5 then
    (if cl_rpi0 cl
     then mkD (d_to d) (d_topic d) (d_payload d) (d_qos d) (d_retain d) (d_ids d)
              (mkMP (mp_ct (d_props d)) (mp_rt (d_props d)) (mp_cd (d_props d)) [])
     else d)
  else mkD (d_to d) (d_topic d) (d_payload d) (d_qos d) (d_retain d) [] mp_none.

Lemma prefix_strips_user_properties :
  let cl := mkCl true 5 true false [] [] in
  let d := mkD (TClient (tag "c")) (tag "b") (tag "m") 1 false [] (mkMP [] [] [] [(tag "only", tag "one")]) in
  mp_user (d_props (wire_prefix cl d)) = [] /\ mp_user (d_props (wire cl d)) = [(tag "only", tag "one")].
Proof. vm_compute. split; reflexivity. Qed.
