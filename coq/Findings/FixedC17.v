(* The pre-fix will paths (pinned commit f01d2fe: server.go sendLWT 1516-1552, validateConnect
   538-557) — kept only to document the repaired defects C17-1 / C17-2 (fix 411d180): sendLWT
   published (and retained) the will without asking OnACLCheck and without validating the topic, and
   validateConnect accepted any non-empty will topic.  A will on a topic the client may not write, on
   $SYS/... or on a/+/# was delivered to the matching subscribers and retained. *)
From MV Require Import Base.Val Topics.Levels Topics.Match Hooks.Chain Auth.Acl.
Open Scope N_scope.

Section Prefix.
Variable perm : client -> bytes -> bool -> bool.
Variable matches : bytes -> bytes -> bool.
Variable is_shared : bytes -> bool.
Variable eff : bytes -> bytes.

Definition send_will_prefix (st : ast) (cl : client) : ast * list (client * aev) :=
  match assoc cl (a_cl st) with
  | Some s =>
      match c_will s with
      | Some w =>
          let m := mkM (Some cl) (w_topic w) (w_payload w) (w_qos w) (w_retain w) in
          if w_delay w then (mkAst (a_cl st) (a_subs st) (a_ret st) ((cl, m) :: remove_key cl (a_delayed st)), [])
          else route perm matches is_shared eff (fun _ _ => true) st m
      | None => (st, [])
      end
  | None => (st, [])
  end.
End Prefix.

Definition tbl0 : acl_table := [ (tag "s", (tag "#", false)); (tag "s", (tag "d/x", false)); (tag "s", (tag "$SYS/#", false));
                                 (tag "s", (tag "$SYS/w", false)) ].
(* state: s is subscribed to # and $SYS/#, p is connected with a retained will on [t]; p has no write permission at all *)
Definition st_will (t : bytes) : ast :=
  mkAst [(tag "p", mkC 4 true false (Some (mkW t [9] 0 true false)) [] [] []); (tag "s", mkC 4 true false None [] [] [])]
        [(tag "s", (tag "#", (0, false))); (tag "s", (tag "$SYS/#", (0, false)))] [] [].

Lemma prefix_denied_will_published :
  let r := send_will_prefix (perm_of tbl0) topic_matches is_share eff_filter (st_will (tag "d/x")) (tag "p") in
  snd r = [(tag "s", ADeliver (mkM (Some (tag "p")) (tag "d/x") [9] 0 true))] /\ map fst (a_ret (fst r)) = [tag "d/x"].
Proof. vm_compute. split; reflexivity. Qed.

Lemma prefix_sys_will_published :
  let r := send_will_prefix (perm_of tbl0) topic_matches is_share eff_filter (st_will (tag "$SYS/w")) (tag "p") in
  snd r = [(tag "s", ADeliver (mkM (Some (tag "p")) (tag "$SYS/w") [9] 0 true))] /\ map fst (a_ret (fst r)) = [tag "$SYS/w"].
Proof. vm_compute. split; reflexivity. Qed.

Lemma prefix_wildcard_will_retained :
  map fst (a_ret (fst (send_will_prefix (perm_of tbl0) topic_matches is_share eff_filter (st_will (tag "a/+/#")) (tag "p")))) = [tag "a/+/#"].
Proof. vm_compute. reflexivity. Qed.

(* the repaired code on the same states: nothing is delivered, nothing retained *)
Lemma fixed_will_not_published :
  send_will (perm_of tbl0) topic_matches is_share eff_filter (fun _ _ => true) (st_will (tag "d/x")) (tag "p") = (st_will (tag "d/x"), []) /\
  send_will (perm_of tbl0) topic_matches is_share eff_filter (fun _ _ => true) (st_will (tag "$SYS/w")) (tag "p") = (st_will (tag "$SYS/w"), []) /\
  send_will (perm_of tbl0) topic_matches is_share eff_filter (fun _ _ => true) (st_will (tag "a/+/#")) (tag "p") = (st_will (tag "a/+/#"), []).
Proof. vm_compute. repeat split. Qed.
