(* The pre-fix Unsubscribe / InlineUnsubscribe (pinned commit f01d2fe, topics.go:382-397, 423-448) returned true
   whenever the particle for the filter existed — kept only to document the repaired defect C31-1. *)
From MV Require Import Base.Val Topics.Levels Topics.Match Topics.Alist Topics.IndexSpec Topics.Trie.
Open Scope N_scope.

Definition unsubscribe_ret_prefix (x : index) (filter client : bytes) : N :=
  let '(prefix, _) := isolate filter 0 in
  let p := path_of filter (if is_share_level prefix then 2 else 0) in
  match seek p (ix_root x) with None => 0 | Some _ => 1 end.

Definition inline_unsubscribe_ret_prefix (x : index) (id : N) (filter : bytes) : N :=
  match seek (path_of filter 0) (ix_root x) with None => 0 | Some _ => 1 end.

(* c2 never subscribed to a/b, yet "it existed"; no serial order of the set specification returns 1 here *)
Lemma prefix_unsubscribe_reports_absent :
  let ops := [OSub (tag "c1") (tag "a/b") 1] in
  unsubscribe_ret_prefix (run ops) (tag "a/b") (tag "c2") = 1 /\
  snd (a_step (abs ops) (OUnsub (tag "c2") (tag "a/b"))) = 0 /\
  snd (t_step (run ops) (OUnsub (tag "c2") (tag "a/b"))) = 0.
Proof. vm_compute. repeat split. Qed.

Lemma prefix_inline_unsubscribe_reports_absent :
  let ops := [OInSub 7 (tag "q") 1] in
  inline_unsubscribe_ret_prefix (run ops) 9 (tag "q") = 1 /\
  snd (a_step (abs ops) (OInUnsub 9 (tag "q"))) = 0 /\
  snd (t_step (run ops) (OInUnsub 9 (tag "q"))) = 0.
Proof. vm_compute. repeat split. Qed.
