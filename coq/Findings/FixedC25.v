(* The pre-fix deferral marker (pinned commit f01d2fe, server.go publishToClient: out.Expiry = -1) —
   kept only to document the repaired defect C25-1. *)
From MV Require Import Base.Val Session.Pkt Session.Expiry.
Open Scope Z_scope.

(* the stored Expiry of a message held back by flow control was overwritten with -1 *)
Definition stored_expiry_old (c : cfg) : Z :=
  if (g_place c =? P_HELD)%N then -1 else pub_expiry (g_smax c) (g_created c) (g_interval c).

(* ClearExpiredInflights / WritePacket read the field as it was *)
Definition house_removes_old (c : cfg) (now : Z) : bool :=
  let e := stored_expiry_old c in
  (g_ver5 c && (0 <? e) && (e <? now)) || ((0 <? g_smax c) && (g_smax c <? now - g_created c)).
Definition write_interval_old (c : cfg) (now : Z) : Z :=
  let e := stored_expiry_old c in
  if 0 <? e then (let r := e - now in if r <? 1 then 1 else r) else g_interval c.

(* a message published at time 1000 with Message Expiry Interval 5 (server maximum one day), held back
   by flow control *)
Definition c1 : cfg := {| g_smax := 86400; g_interval := 5; g_ver5 := true; g_place := P_HELD; g_created := 1000 |}.

(* housekeeping at 1106 — 101 s after the expiry time — kept it, and it was then sent with the full
   interval 5 *)
Lemma c25_1_held_never_expires :
  expiry_time c1 = 1005 /\ house_removes_old c1 1106 = false /\ write_interval_old c1 1003 = 5 /\
  (* repaired: removed by the same housekeeping run; sent at 1003 it carries the 2 s that remain *)
  house_removes c1 (stored_expiry c1) 1106 = true /\ write_interval c1 (stored_expiry c1) 1003 = 2.
Proof. vm_compute. repeat split. Qed.
