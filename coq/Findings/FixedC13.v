(* Pre-fix packets.ConnectValidate (pinned commit f01d2fe) — kept only to document the repaired
   defects C13-2 and C13-3: a CONNECT with a will QoS but no will flag, and an MQTT 3.1.1 CONNECT
   with the password flag but no username flag, were accepted and yielded a session
   (fixed by /repo dbedcdd and 9834d12). *)
From MV Require Import Base.Val Session.Lifecycle Session.LifeSpec.
Open Scope N_scope.

Definition connect_validate_prefix (p : cparams) : N :=
  let isdp := beq_bytes (cp_pname p) name_MQIsdp in
  let mqtt := beq_bytes (cp_pname p) name_MQTT in
  if negb isdp && negb mqtt then 130
  else if (isdp && negb (cp_ver p =? 3)) || (mqtt && negb (cp_ver p =? 4) && negb (cp_ver p =? 5)) then 130
  else if cp_reserved p then 130
  else if negb (cp_userflag p) && negb (N.of_nat (length (cp_user p)) =? 0) then 130
  else if cp_passflag p && (N.of_nat (length (cp_pass p)) =? 0) then 130
  else if negb (cp_passflag p) && negb (N.of_nat (length (cp_pass p)) =? 0) then 130
  else if cp_willflag p && ((N.of_nat (length (cp_willpayload p)) =? 0) || (N.of_nat (length (cp_willtopic p)) =? 0)) then 130
  else if cp_willflag p && (2 <? cp_willqos p) then 130
  else if negb (cp_willflag p) && cp_willretain p then 130
  else 0.

Definition cp_base (ver : N) : cparams :=
  {| cp_pname := name_MQTT; cp_ver := ver; cp_reserved := false; cp_clean := true; cp_willflag := false; cp_willqos := 0;
     cp_willretain := false; cp_willtopic := []; cp_willpayload := []; cp_willdelay := 0; cp_userflag := false; cp_user := [];
     cp_passflag := false; cp_pass := []; cp_keepalive := 30; cp_id := [97]; cp_seiflag := false; cp_sei := 0;
     cp_trunc := false; cp_willtopic_ok := true |}.
Definition with_willqos (p : cparams) (q : N) : cparams :=
  {| cp_pname := cp_pname p; cp_ver := cp_ver p; cp_reserved := cp_reserved p; cp_clean := cp_clean p; cp_willflag := cp_willflag p;
     cp_willqos := q; cp_willretain := cp_willretain p; cp_willtopic := cp_willtopic p; cp_willpayload := cp_willpayload p;
     cp_willdelay := cp_willdelay p; cp_userflag := cp_userflag p; cp_user := cp_user p; cp_passflag := cp_passflag p;
     cp_pass := cp_pass p; cp_keepalive := cp_keepalive p; cp_id := cp_id p; cp_seiflag := cp_seiflag p; cp_sei := cp_sei p;
     cp_trunc := cp_trunc p; cp_willtopic_ok := cp_willtopic_ok p |}.
Definition with_password (p : cparams) (pw : bytes) : cparams :=
  {| cp_pname := cp_pname p; cp_ver := cp_ver p; cp_reserved := cp_reserved p; cp_clean := cp_clean p; cp_willflag := cp_willflag p;
     cp_willqos := cp_willqos p; cp_willretain := cp_willretain p; cp_willtopic := cp_willtopic p; cp_willpayload := cp_willpayload p;
     cp_willdelay := cp_willdelay p; cp_userflag := cp_userflag p; cp_user := cp_user p; cp_passflag := true;
     cp_pass := pw; cp_keepalive := cp_keepalive p; cp_id := cp_id p; cp_seiflag := cp_seiflag p; cp_sei := cp_sei p;
     cp_trunc := cp_trunc p; cp_willtopic_ok := cp_willtopic_ok p |}.

(* will QoS 1 without a will flag: invalid per MQTT-3.1.2-11, accepted before the fix, refused now *)
Lemma prefix_accepts_surplus_willqos :
  connect_ok_spec (with_willqos (cp_base 5) 1) = false /\
  connect_validate_prefix (with_willqos (cp_base 5) 1) = 0 /\ connect_validate (with_willqos (cp_base 5) 1) = 130.
Proof. vm_compute. repeat split. Qed.

(* MQTT 3.1.1 password without username: invalid per MQTT-3.1.2-22, accepted before the fix, refused now *)
Lemma prefix_accepts_password_without_username :
  connect_ok_spec (with_password (cp_base 4) [112]) = false /\
  connect_validate_prefix (with_password (cp_base 4) [112]) = 0 /\ connect_validate (with_password (cp_base 4) [112]) = 130.
Proof. vm_compute. repeat split. Qed.
