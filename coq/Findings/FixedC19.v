(* The pre-fix handling of the OnPublish result in processPublish (pinned commit f01d2fe,
   server.go:913-926) — kept only to document the repaired defects C19-1 / C19-2 (fix fcb436d):

       } else if cl.Properties.ProtocolVersion == 5 && pk.FixedHeader.Qos > 0 && errors.As(err, new(packets.Code)) {
           err = cl.WritePacket(s.buildAck(pk.PacketID, packets.Puback, 0, pk.Properties, err.(packets.Code)))
           ...return nil
       }
       // every other error fell through: the ORIGINAL packet was retained and forwarded

   An error other than reject / ignore was honoured only for MQTT 5 with QoS > 0 and only if it was a
   packets.Code; MQTT 3 publishes, QoS 0 publishes and publishes answered with a plain error were
   forwarded and retained; an MQTT 5 QoS 2 publish got a PUBACK instead of a PUBREC. *)
From MV Require Import Base.Val Topics.Levels Topics.Match Hooks.Chain.
Open Scope N_scope.

Definition process_publish_prefix (hs : list hook) (ver : N) (cl : client) (pk : ppkt) : pub_out :=
  let qos := pp_qos pk in
  if negb (valid_pub_topic (pp_topic pk)) then
    mkPO None None (if qos =? 0 then None else Some (ack_ty qos, 144)) false []
  else
    let '(okw, lg1) := on_acl hs cl (pp_topic pk) true in
    if negb okw then
      if qos =? 0 then nothing lg1
      else if negb (ver =? 5) then mkPO None None None true lg1
      else mkPO None None (Some (ack_ty qos, 135)) false lg1
    else
      let '(pkx, e, lg2) := on_publish hs cl pk in
      let lg := lg1 ++ lg2 in
      let as_success (p : ppkt) := mkPO (Some p) (if pp_retain p then Some p else None) (ok_ack (pp_qos p)) false lg in
      match e with
      | ENone => as_success pkx
      | EReject => nothing lg
      | EIgnore => mkPO None None (ok_ack qos) false lg
      | ECode c => if (ver =? 5) && (0 <? qos) then mkPO None None (Some (T_PUBACK, c)) false lg   (* always PUBACK *)
                   else as_success pkx                        (* pkx = the original packet: forwarded and retained *)
      | EOther => as_success pkx
      end.

(* one hook that permits everything and answers every publish with ErrPayloadFormatInvalid (0x99) *)
Definition objector (e : herr) : hook :=
  mkHook 1 (Some (fun _ => true)) (Some (fun _ _ _ => true)) None (Some (fun _ p => (p, e))) None.
Definition msg (qos : N) : ppkt := mkP (tag "a/b") (tag "m") qos true 7.

(* MQTT 3.1.1, any QoS, and MQTT 5 QoS 0: forwarded and retained although the hook answered with an error *)
Lemma prefix_error_forwarded :
  po_forward (process_publish_prefix [objector (ECode 153)] 4 (tag "p") (msg 1)) = Some (msg 1) /\
  po_retain (process_publish_prefix [objector (ECode 153)] 4 (tag "p") (msg 1)) = Some (msg 1) /\
  po_forward (process_publish_prefix [objector (ECode 153)] 5 (tag "p") (msg 0)) = Some (msg 0) /\
  po_retain (process_publish_prefix [objector EOther] 5 (tag "p") (msg 2)) = Some (msg 2).
Proof. vm_compute. repeat split. Qed.

(* MQTT 5 QoS 2: PUBACK (4) instead of PUBREC (5) *)
Lemma prefix_qos2_puback :
  po_ack (process_publish_prefix [objector (ECode 153)] 5 (tag "p") (msg 2)) = Some (4, 153) /\
  po_ack (process_publish [objector (ECode 153)] 5 (tag "p") (msg 2)) = Some (5, 153).
Proof. vm_compute. split; reflexivity. Qed.

(* the repaired code on the same inputs *)
Lemma fixed_error_not_forwarded :
  po_forward (process_publish [objector (ECode 153)] 4 (tag "p") (msg 1)) = None /\
  po_retain (process_publish [objector (ECode 153)] 4 (tag "p") (msg 1)) = None /\
  po_forward (process_publish [objector (ECode 153)] 5 (tag "p") (msg 0)) = None /\
  po_retain (process_publish [objector EOther] 5 (tag "p") (msg 2)) = None.
Proof. vm_compute. repeat split. Qed.
