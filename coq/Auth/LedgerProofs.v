(* Proofs for C18: MatchTopic is level-by-level MQTT matching; the ledger's decisions do not depend
   on the iteration order of its maps; global rules are consulted in list order and a user's own
   rules take precedence; the model refines the declarative specification. *)
From MV Require Import Base.Val Topics.Valid Topics.ValidProofs Auth.Ledger.
From Coq Require Import Lia Permutation.
Import VLevels.
Open Scope N_scope.

Arguments N.add : simpl never.
Arguments N.eqb : simpl never.

(* ====================================================================================== *)
(* MatchTopic *)

Lemma is_plus_not_hash l : is_plus l = true -> is_hash l = false.
Proof. intro H. apply is_plus_eq in H. subst l. reflexivity. Qed.

Lemma match_loop_spec fl : forall tl,
  hash_only_last fl = true -> match_loop fl tl = level_match fl tl.
Proof.
  induction fl as [|f fl' IH]; intros tl G.
  - destruct tl; reflexivity.
  - cbn [hash_only_last] in G. apply andb_true_iff in G. destruct G as [G1 G2].
    destruct tl as [|t tl']; [reflexivity|].
    cbn [match_loop level_match].
    destruct (is_plus f) eqn:P.
    + rewrite (is_plus_not_hash f P). cbn [orb andb]. apply IH. exact G2.
    + destruct (is_hash f) eqn:H.
      * rewrite G1. reflexivity.
      * cbn [orb]. destruct (beq_bytes f t); [apply IH; exact G2 | reflexivity].
Qed.

Theorem match_topic_spec : forall f t,
  hash_only_last (split f) = true -> match_topic f t = level_match (split f) (split t).
Proof. intros f t G. apply match_loop_spec. exact G. Qed.

Lemma split_inj a b : split a = split b -> a = b.
Proof. intro H. rewrite <- (join_split a), <- (join_split b), H. reflexivity. Qed.

(* a filter without wildcard levels matches only the identical topic *)
Definition no_wildcard (fl : list level) : Prop :=
  Forall (fun l => is_plus l = false /\ is_hash l = false) fl.

Lemma level_match_exact fl : forall tl, no_wildcard fl -> (level_match fl tl = true <-> fl = tl).
Proof.
  induction fl as [|f fl' IH]; intros tl NW.
  - destruct tl; cbn [level_match]; split; intro H; try reflexivity; discriminate.
  - inversion NW as [|? ? [P H] NW']. subst.
    destruct tl as [|t tl']; cbn [level_match]; [split; intro X; discriminate|].
    rewrite H, P. cbn [orb]. rewrite andb_true_iff, (IH tl' NW'). split.
    + intros [E1 E2]. apply beq_bytes_eq in E1. subst. reflexivity.
    + intro E. inversion E. subst. split; [apply beq_bytes_refl | reflexivity].
Qed.

Lemma no_wildcard_hash_only_last fl : no_wildcard fl -> hash_only_last fl = true.
Proof.
  induction 1 as [|l r [_ H] _ IH]; [reflexivity|]. cbn [hash_only_last]. rewrite H, IH. reflexivity.
Qed.

Theorem match_topic_exact : forall f t,
  no_wildcard (split f) -> (match_topic f t = true <-> f = t).
Proof.
  intros f t NW. rewrite (match_topic_spec f t (no_wildcard_hash_only_last _ NW)).
  rewrite (level_match_exact _ _ NW). split; [apply split_inj | intros ->; reflexivity].
Qed.

(* '+' matches exactly one level (whatever it contains) *)
Theorem level_match_plus : forall fl tl,
  level_match ([43] :: fl) tl = true <-> exists x tl', tl = x :: tl' /\ level_match fl tl' = true.
Proof.
  intros fl tl. destruct tl as [|x tl']; cbn [level_match].
  - split; [discriminate | intros [x [tl' [E _]]]; discriminate].
  - change (is_hash [43]) with false. change (is_plus [43]) with true. cbn [orb andb]. split.
    + intro H. exists x, tl'. split; [reflexivity | exact H].
    + intros [x' [tl'' [E H]]]. inversion E. subst. exact H.
Qed.

(* a trailing '#' matches one or more further levels: the levels before it are matched one by one
   and at least one level remains *)
Theorem level_match_trailing_hash : forall pre tl,
  hash_only_last pre = true -> Forall (fun l => is_hash l = false) pre ->
  (level_match (pre ++ [[35]]) tl = true <->
   exists t1 t2, tl = (t1 ++ t2)%list /\ level_match pre t1 = true /\ t2 <> []).
Proof.
  induction pre as [|f pre' IH]; intros tl G NH.
  - cbn [app]. destruct tl as [|x tl']; cbn [level_match].
    + split; [discriminate|]. intros [t1 [t2 [E [M N]]]].
      destruct t1; [|discriminate]. destruct t2; [contradiction | discriminate].
    + change (is_hash [35]) with true. cbn [nilb]. split; [|reflexivity].
      intros _. exists [], (x :: tl'). repeat split. discriminate.
  - inversion NH as [|? ? Hf NH']. subst.
    cbn [hash_only_last] in G. apply andb_true_iff in G. destruct G as [_ G2].
    cbn [app]. destruct tl as [|x tl']; cbn [level_match].
    + split; [discriminate|]. intros [t1 [t2 [E [M N]]]].
      destruct t1; [cbn [level_match] in M; discriminate | discriminate].
    + rewrite Hf. rewrite andb_true_iff, (IH tl' G2 NH'). split.
      * intros [A [t1 [t2 [E [M N]]]]]. exists (x :: t1), t2. subst tl'. repeat split; [|exact N].
        rewrite A, M. reflexivity.
      * intros [t1 [t2 [E [M N]]]]. destruct t1 as [|y t1']; [cbn [level_match] in M; discriminate|].
        inversion E. subst. apply andb_true_iff in M.
        destruct M as [A M]. split; [exact A|]. exists t1', t2. repeat split; assumption.
Qed.

(* ====================================================================================== *)
(* Order independence *)

Lemma existsb_perm {A} (p : A -> bool) l l' : Permutation l l' -> existsb p l = existsb p l'.
Proof.
  induction 1 as [|x l l' _ IH|x y l|l l' l'' _ IH1 _ IH2]; cbn [existsb].
  - reflexivity.
  - rewrite IH. reflexivity.
  - destruct (p x); destruct (p y); reflexivity.
  - rewrite IH1. exact IH2.
Qed.

(* the user ACL loop computes an order-free expression *)
Lemma user_acl_loop_closed acl topic write : forall matched,
  user_acl_loop acl topic write matched =
  if any_granting acl topic write then Some true
  else if matched || any_matching acl topic then Some false
  else None.
Proof.
  unfold any_granting, any_matching.
  induction acl as [|[f a] r IH]; intro matched.
  - cbn. destruct matched; reflexivity.
  - cbn [user_acl_loop existsb fst snd]. destruct (match_topic f topic).
    + destruct (grants write a); cbn [andb orb]; [reflexivity|].
      rewrite IH. cbn [orb]. rewrite orb_true_r. reflexivity.
    + rewrite andb_false_r. cbn [orb]. apply IH.
Qed.

Theorem user_acl_loop_perm : forall acl acl' topic write,
  Permutation acl acl' -> user_acl_loop acl topic write false = user_acl_loop acl' topic write false.
Proof.
  intros acl acl' topic write P. rewrite !user_acl_loop_closed. unfold any_granting, any_matching.
  rewrite (existsb_perm _ _ _ P). cbn [orb]. rewrite (existsb_perm _ _ _ P). reflexivity.
Qed.

(* Go map lookup: with unique keys the position of an entry does not matter *)
Lemma find_user_in us name u :
  NoDup (map fst us) -> In (name, u) us -> find_user us name = Some u.
Proof.
  induction us as [|[k v] r IH]; intros ND Hin; [contradiction|].
  cbn [find_user]. cbn [map fst] in ND. inversion ND as [|? ? Hk ND']. subst.
  destruct Hin as [E|Hin].
  - inversion E. subst. rewrite beq_bytes_refl. reflexivity.
  - destruct (beq_bytes k name) eqn:B.
    + apply beq_bytes_eq in B. subst k. exfalso. apply Hk.
      change name with (fst (name, u)). apply in_map. exact Hin.
    + apply IH; assumption.
Qed.

Lemma find_user_none us name :
  find_user us name = None -> forall u, ~ In (name, u) us.
Proof.
  induction us as [|[k v] r IH]; intros H u Hin; [contradiction|].
  cbn [find_user] in H. destruct (beq_bytes k name) eqn:B; [discriminate|].
  destruct Hin as [E|Hin].
  - inversion E. subst. rewrite beq_bytes_refl in B. discriminate.
  - exact (IH H u Hin).
Qed.

Lemma find_user_some_in us name u : find_user us name = Some u -> In (name, u) us.
Proof.
  induction us as [|[k v] r IH]; intro H; [discriminate|].
  cbn [find_user] in H. destruct (beq_bytes k name) eqn:B.
  - apply beq_bytes_eq in B. inversion H. subst. left. reflexivity.
  - right. apply IH. exact H.
Qed.

Theorem find_user_perm : forall us us' name,
  NoDup (map fst us) -> Permutation us us' -> find_user us name = find_user us' name.
Proof.
  intros us us' name ND P.
  assert (ND' : NoDup (map fst us')) by (eapply Permutation_NoDup; [apply Permutation_map; exact P | exact ND]).
  destruct (find_user us name) as [u|] eqn:E.
  - symmetry. apply find_user_in; [exact ND'|]. eapply Permutation_in; [exact P|].
    apply find_user_some_in. exact E.
  - destruct (find_user us' name) as [u'|] eqn:E'; [|reflexivity].
    exfalso. apply (find_user_none us name E u'). eapply Permutation_in; [apply Permutation_sym; exact P|].
    apply find_user_some_in. exact E'.
Qed.

(* Two ledgers that are the same Go value: same rule lists, same maps up to the order in which the
   association lists happen to enumerate them. *)
Definition user_equiv (u u' : user_rule) : Prop :=
  u_password u = u_password u' /\ u_disallow u = u_disallow u' /\ Permutation (u_acl u) (u_acl u').
Definition users_equiv (us us' : users) : Prop :=
  forall name, match find_user us name, find_user us' name with
               | Some u, Some u' => user_equiv u u'
               | None, None => True
               | _, _ => False
               end.
Definition acl_rule_equiv (r r' : acl_rule) : Prop :=
  c_client r = c_client r' /\ c_username r = c_username r' /\ c_remote r = c_remote r' /\
  Permutation (c_filters r) (c_filters r').
Definition ledger_equiv (l l' : ledger) : Prop :=
  users_equiv (l_users l) (l_users l') /\ l_auth l = l_auth l' /\ Forall2 acl_rule_equiv (l_acl l) (l_acl l').

(* in particular: permuting the Users map (unique keys) or any Filters map *)
Lemma users_equiv_perm us us' :
  NoDup (map fst us) -> Permutation us us' -> users_equiv us us'.
Proof.
  intros ND P name. rewrite <- (find_user_perm us us' name ND P).
  destruct (find_user us name); [|exact I]. repeat split. apply Permutation_refl.
Qed.

Lemma nilb_perm {A} (l l' : list A) : Permutation l l' -> nilb l = nilb l'.
Proof.
  intro P. destruct l; destruct l'; try reflexivity.
  - apply Permutation_nil in P. discriminate.
  - apply Permutation_sym, Permutation_nil in P. discriminate.
Qed.

Lemma acl_global_equiv rs rs' : Forall2 acl_rule_equiv rs rs' ->
  forall n c topic write, acl_global rs n c topic write = acl_global rs' n c topic write.
Proof.
  induction 1 as [|r r' rs rs' [E1 [E2 [E3 P]]] _ IH]; intros n c topic write; [reflexivity|].
  cbn [acl_global]. unfold acl_rule_matches, any_granting, any_matching.
  rewrite E1, E2, E3, (nilb_perm _ _ P), (existsb_perm _ _ _ P), (existsb_perm _ _ _ P), !IH. reflexivity.
Qed.

Theorem acl_ok_equiv : forall l l' c topic write,
  ledger_equiv l l' -> acl_ok l c topic write = acl_ok l' c topic write.
Proof.
  intros l l' c topic write [U [_ A]]. unfold acl_ok, user_acl.
  specialize (U (cl_username c)).
  rewrite (acl_global_equiv _ _ A).
  destruct (find_user (l_users l) (cl_username c)) as [u|];
    destruct (find_user (l_users l') (cl_username c)) as [u'|]; try contradiction; [|reflexivity].
  destruct U as [_ [_ P]]. rewrite (user_acl_loop_perm _ _ topic write P). reflexivity.
Qed.

Theorem auth_ok_equiv : forall l l' c pw,
  ledger_equiv l l' -> auth_ok l c pw = auth_ok l' c pw.
Proof.
  intros l l' c pw [U [A _]]. unfold auth_ok, user_auth.
  specialize (U (cl_username c)). rewrite A.
  destruct (find_user (l_users l) (cl_username c)) as [u|];
    destruct (find_user (l_users l') (cl_username c)) as [u'|]; try contradiction; [|reflexivity].
  destruct U as [E1 [E2 _]]. rewrite E1, E2. reflexivity.
Qed.

(* ====================================================================================== *)
(* Rule order and precedence *)

(* AuthOk: the first global rule that matches decides, with its index; none: refused *)
Lemma auth_global_first pre : forall n r post c pw,
  Forall (fun x => auth_rule_matches x c pw = false) pre -> auth_rule_matches r c pw = true ->
  auth_global (pre ++ r :: post) n c pw = (n + N.of_nat (length pre), a_allow r).
Proof.
  induction pre as [|x pre' IH]; intros n r post c pw F M.
  - cbn [app auth_global length]. rewrite M. f_equal. lia.
  - inversion F as [|? ? Hx F']. subst. cbn [app auth_global]. rewrite Hx.
    rewrite (IH (n + 1) r post c pw F' M). f_equal. cbn [length]. lia.
Qed.

Lemma auth_global_none rs : forall n c pw,
  Forall (fun x => auth_rule_matches x c pw = false) rs -> auth_global rs n c pw = (0, false).
Proof.
  induction rs as [|x rs' IH]; intros n c pw F; [reflexivity|].
  inversion F as [|? ? Hx F']. subst. cbn [auth_global]. rewrite Hx. apply IH. exact F'.
Qed.

(* ACLOk: a global rule is decisive when it matches the client and has no filters or a filter that
   matches the topic; the first decisive rule decides *)
Definition acl_decisive (r : acl_rule) (c : client) (topic : bytes) : bool :=
  acl_rule_matches r c && (nilb (c_filters r) || any_matching (c_filters r) topic).
Definition acl_rule_decision (r : acl_rule) (topic : bytes) (write : bool) : bool :=
  nilb (c_filters r) || any_granting (c_filters r) topic write.

Lemma granting_matching fs topic write : any_granting fs topic write = true -> any_matching fs topic = true.
Proof.
  unfold any_granting, any_matching. rewrite !existsb_exists. intros [x [Hin H]].
  apply andb_true_iff in H. exists x. split; [exact Hin | apply H].
Qed.

Lemma acl_global_skip r rs n c topic write :
  acl_decisive r c topic = false ->
  acl_global (r :: rs) n c topic write = acl_global rs (n + 1) c topic write.
Proof.
  unfold acl_decisive. intro H. cbn [acl_global].
  destruct (acl_rule_matches r c); [|reflexivity]. cbn [andb] in H.
  apply orb_false_iff in H. destruct H as [H1 H2]. rewrite H1, H2.
  destruct (any_granting (c_filters r) topic write) eqn:G; [|reflexivity].
  apply granting_matching in G. rewrite G in H2. discriminate.
Qed.

Lemma acl_global_first pre : forall n r post c topic write,
  Forall (fun x => acl_decisive x c topic = false) pre -> acl_decisive r c topic = true ->
  acl_global (pre ++ r :: post) n c topic write = (n + N.of_nat (length pre), acl_rule_decision r topic write).
Proof.
  induction pre as [|x pre' IH]; intros n r post c topic write F M.
  - cbn [app acl_global length]. unfold acl_decisive in M. apply andb_true_iff in M. destruct M as [M1 M2].
    rewrite M1. unfold acl_rule_decision. replace (n + N.of_nat 0) with n by lia.
    destruct (nilb (c_filters r)); [reflexivity|]. cbn [orb] in *.
    destruct (any_granting (c_filters r) topic write); [reflexivity|]. rewrite M2. reflexivity.
  - inversion F as [|? ? Hx F']. subst. cbn [app]. rewrite (acl_global_skip x _ n c topic write Hx).
    rewrite (IH (n + 1) r post c topic write F' M). f_equal. cbn [length]. lia.
Qed.

Lemma acl_global_none rs : forall n c topic write,
  Forall (fun x => acl_decisive x c topic = false) rs -> acl_global rs n c topic write = (0, true).
Proof.
  induction rs as [|x rs' IH]; intros n c topic write F; [reflexivity|].
  inversion F as [|? ? Hx F']. subst. rewrite (acl_global_skip x _ n c topic write Hx). apply IH. exact F'.
Qed.

(* a user's own rules take precedence over every global rule *)
Theorem user_auth_precedence : forall l c pw u,
  find_user (l_users l) (cl_username c) = Some u ->
  u_password u <> [] -> u_password u = pw ->
  auth_ok l c pw = (0, negb (u_disallow u)).
Proof.
  intros l c pw u F NE E. unfold auth_ok, user_auth. rewrite F, E.
  rewrite beq_bytes_refl. subst pw. destruct (u_password u); [contradiction|]. reflexivity.
Qed.

Theorem user_acl_precedence : forall l c topic write u,
  find_user (l_users l) (cl_username c) = Some u ->
  any_matching (u_acl u) topic = true ->
  acl_ok l c topic write = (0, any_granting (u_acl u) topic write).
Proof.
  intros l c topic write u F M. unfold acl_ok, user_acl. rewrite F, user_acl_loop_closed, M. cbn [orb].
  destruct (any_granting (u_acl u) topic write); reflexivity.
Qed.

(* when the user's own rules do not speak (no such user, or none of the user's filters matches the
   topic) the global rules decide *)
Theorem user_acl_fallthrough : forall l c topic write,
  match find_user (l_users l) (cl_username c) with
  | Some u => any_matching (u_acl u) topic = false
  | None => True
  end ->
  acl_ok l c topic write = acl_global (l_acl l) 0 c topic write.
Proof.
  intros l c topic write H. unfold acl_ok, user_acl.
  destruct (find_user (l_users l) (cl_username c)) as [u|]; [|reflexivity].
  rewrite user_acl_loop_closed, H. cbn [orb].
  destruct (any_granting (u_acl u) topic write) eqn:G; [|reflexivity].
  apply granting_matching in G. rewrite G in H. discriminate.
Qed.

(* ====================================================================================== *)
(* The model refines the declarative specification *)

Lemma any_matching_verdicts fs topic write :
  any_matching fs topic = negb (nilb (verdicts match_topic fs topic write)).
Proof.
  unfold any_matching, verdicts. induction fs as [|[f a] r IH]; [reflexivity|].
  cbn [existsb filter fst]. destruct (match_topic f topic); [reflexivity|]. exact IH.
Qed.

Lemma any_granting_verdicts fs topic write :
  any_granting fs topic write = existsb (fun b => b) (verdicts match_topic fs topic write).
Proof.
  unfold any_granting, verdicts. induction fs as [|[f a] r IH]; [reflexivity|].
  cbn [existsb filter fst snd]. destruct (match_topic f topic).
  - cbn [map existsb]. rewrite andb_true_r, IH. reflexivity.
  - rewrite andb_false_r. exact IH.
Qed.

Lemma decide_sound vs d : vs <> [] -> decide vs = Some d -> existsb (fun b => b) vs = d.
Proof.
  unfold decide. intros NE H.
  destruct (forallb (fun b => b) vs) eqn:A.
  - inversion H. subst. destruct vs as [|b vs']; [contradiction|].
    cbn [forallb] in A. apply andb_true_iff in A. destruct A as [A _]. subst b. reflexivity.
  - destruct (forallb negb vs) eqn:B; [|discriminate]. inversion H. subst.
    clear -B. induction vs as [|b vs' IH]; [reflexivity|].
    cbn [forallb] in B. apply andb_true_iff in B. destruct B as [B1 B2].
    destruct b; [discriminate|]. cbn [existsb orb]. apply IH. exact B2.
Qed.

Lemma find_decisive rs c topic :
  (forall r, acl_rule_applies match_topic r c topic = acl_decisive r c topic) ->
  match find (fun r => acl_rule_applies match_topic r c topic) rs with
  | Some r => exists pre post, rs = (pre ++ r :: post)%list /\
                Forall (fun x => acl_decisive x c topic = false) pre /\ acl_decisive r c topic = true
  | None => Forall (fun x => acl_decisive x c topic = false) rs
  end.
Proof.
  intro EQ. induction rs as [|x rs' IH]; [constructor|].
  cbn [find]. rewrite EQ. destruct (acl_decisive x c topic) eqn:D.
  - exists [], rs'. repeat split; [constructor | exact D].
  - destruct (find (fun r => acl_rule_applies match_topic r c topic) rs') as [r|].
    + destruct IH as [pre [post [E [F M]]]]. exists (x :: pre), post. subst rs'. repeat split; [|exact M].
      constructor; assumption.
    + constructor; assumption.
Qed.

Lemma applies_decisive r c topic : acl_rule_applies match_topic r c topic = acl_decisive r c topic.
Proof. unfold acl_rule_applies, acl_decisive. rewrite (any_matching_verdicts _ topic true). reflexivity. Qed.

Lemma acl_global_refines l c topic write d :
  match find (fun r => acl_rule_applies match_topic r c topic) (l_acl l) with
  | Some r => if nilb (c_filters r) then Some true
              else decide (verdicts match_topic (c_filters r) topic write)
  | None => Some true
  end = Some d ->
  snd (acl_global (l_acl l) 0 c topic write) = d.
Proof.
  pose proof (find_decisive (l_acl l) c topic (fun r => applies_decisive r c topic)) as FD.
  destruct (find (fun r => acl_rule_applies match_topic r c topic) (l_acl l)) as [r|].
  - destruct FD as [pre [post [E [F M]]]]. intro H. rewrite E, (acl_global_first pre 0 r post c topic write F M).
    cbn [snd]. unfold acl_rule_decision.
    destruct (nilb (c_filters r)) eqn:NF; [inversion H; reflexivity|]. cbn [orb].
    rewrite any_granting_verdicts. apply decide_sound; [|exact H].
    unfold acl_decisive in M. apply andb_true_iff in M. destruct M as [_ M]. rewrite NF in M. cbn [orb] in M.
    rewrite (any_matching_verdicts _ topic write) in M. intro Z. rewrite Z in M. discriminate.
  - intro H. inversion H. subst. rewrite (acl_global_none _ 0 c topic write FD). reflexivity.
Qed.

Theorem acl_ok_refines_spec : forall l c topic write d,
  acl_spec match_topic l c topic write = Some d -> snd (acl_ok l c topic write) = d.
Proof.
  intros l c topic write d. unfold acl_spec, acl_ok, user_acl.
  destruct (find_user (l_users l) (cl_username c)) as [u|]; [|apply acl_global_refines].
  rewrite user_acl_loop_closed. cbn [orb].
  rewrite any_granting_verdicts, (any_matching_verdicts _ topic write).
  destruct (verdicts match_topic (u_acl u) topic write) as [|b vs] eqn:V.
  - cbn [nilb existsb negb]. apply acl_global_refines.
  - cbn [nilb negb]. intro H. apply decide_sound in H; [|discriminate]. rewrite H.
    destruct d; reflexivity.
Qed.

Lemma auth_global_find rs : forall n c pw,
  snd (auth_global rs n c pw) =
  match find (fun r => auth_rule_matches r c pw) rs with Some r => a_allow r | None => false end.
Proof.
  induction rs as [|x rs' IH]; intros n c pw; [reflexivity|].
  cbn [auth_global find]. destruct (auth_rule_matches x c pw); [reflexivity | apply IH].
Qed.

Theorem auth_ok_is_spec : forall l c pw, snd (auth_ok l c pw) = auth_spec l c pw.
Proof.
  intros l c pw. unfold auth_ok, auth_spec. destruct (user_auth l c pw); [reflexivity|]. apply auth_global_find.
Qed.
