(* Model of hooks/auth/ledger.go (RString.Matches, MatchTopic, Ledger.AuthOk, Ledger.ACLOk) and of the
   two hook methods of hooks/auth/auth.go, after the fixes 9fe5493 (MatchTopic) and 4d0d379 (user ACL),
   with the specification of C18.  Go maps (Users, Filters) are association lists in ARBITRARY order
   with unique keys; LedgerProofs.v shows that no decision depends on that order.
   No proofs in this file. *)
From MV Require Import Base.Val Topics.Valid.
Import VLevels.
Open Scope N_scope.

(* ====================================================================================== *)
(* Data *)

(* Filters map[RString]Access; Access is a byte: 0 Deny, 1 ReadOnly, 2 WriteOnly, 3 ReadWrite
   (any other value grants nothing) *)
Definition filters := list (bytes * N).

Record user_rule := { u_password : bytes; u_acl : filters; u_disallow : bool }.
Definition users := list (bytes * user_rule).      (* Users map[string]UserRule; nil = empty *)

Record auth_rule := { a_client : bytes; a_username : bytes; a_remote : bytes; a_password : bytes;
                      a_allow : bool }.
Record acl_rule := { c_client : bytes; c_username : bytes; c_remote : bytes; c_filters : filters }.

Record ledger := { l_users : users; l_auth : list auth_rule; l_acl : list acl_rule }.

(* what the ledger reads of a client: cl.ID, cl.Properties.Username, cl.Net.Remote *)
Record client := { cl_id : bytes; cl_username : bytes; cl_remote : bytes }.

(* ====================================================================================== *)
(* Model *)

(* RString.Matches (ledger.go:68): r == "" || r == "*" || a == r, or r has its first '*' at i > 0,
   a is longer than i and both agree on the first i bytes *)
Definition rstring_matches (r a : bytes) : bool :=
  if nilb r || beq_bytes r [42] || beq_bytes a r then true
  else match index_byte 42 r with
       | Some i => Nat.ltb 0 i && Nat.ltb i (length a) && beq_bytes (firstn i r) (firstn i a)
       | None => false
       end.

(* MatchTopic (ledger.go:90), the [matched] result: loop over the filter's levels *)
Fixpoint match_loop (fp tp : list level) : bool :=
  match fp with
  | [] => nilb tp                         (* loop done: len(filterParts) == len(topicParts) *)
  | f :: fp' =>
      match tp with
      | [] => false                       (* i >= len(topicParts) *)
      | t :: tp' =>
          if is_plus f then match_loop fp' tp'
          else if is_hash f then true
          else if beq_bytes f t then match_loop fp' tp'
          else false
      end
  end.
Definition match_topic (f t : bytes) : bool := match_loop (split f) (split t).

(* Users[username] *)
Fixpoint find_user (us : users) (name : bytes) : option user_rule :=
  match us with
  | [] => None
  | (k, u) :: r => if beq_bytes k name then Some u else find_user r name
  end.

(* ---- AuthOk (ledger.go:138) ---- *)
Definition auth_rule_matches (r : auth_rule) (c : client) (pw : bytes) : bool :=
  rstring_matches (a_client r) (cl_id c) && rstring_matches (a_username r) (cl_username c)
  && rstring_matches (a_password r) pw && rstring_matches (a_remote r) (cl_remote c).

Fixpoint auth_global (rs : list auth_rule) (n : N) (c : client) (pw : bytes) : N * bool :=
  match rs with
  | [] => (0, false)
  | r :: rs' => if auth_rule_matches r c pw then (n, a_allow r) else auth_global rs' (n + 1) c pw
  end.

Definition user_auth (l : ledger) (c : client) (pw : bytes) : option bool :=
  match find_user (l_users l) (cl_username c) with
  | Some u => if negb (nilb (u_password u)) && beq_bytes (u_password u) pw
              then Some (negb (u_disallow u)) else None
  | None => None
  end.

Definition auth_ok (l : ledger) (c : client) (pw : bytes) : N * bool :=
  match user_auth l c pw with
  | Some d => (0, d)
  | None => auth_global (l_auth l) 0 c pw
  end.

(* ---- ACLOk (ledger.go:163) ---- *)
Definition grants (write : bool) (a : N) : bool :=
  if write then (a =? 2) || (a =? 3) else (a =? 1) || (a =? 3).

(* the loop over a user's ACL map (in whatever order the map yields it): the first matching filter
   that grants the access returns true; [matched] remembers that some filter matched *)
Fixpoint user_acl_loop (acl : filters) (topic : bytes) (write matched : bool) : option bool :=
  match acl with
  | [] => if matched then Some false else None
  | (f, a) :: r =>
      if match_topic f topic then
        if grants write a then Some true else user_acl_loop r topic write true
      else user_acl_loop r topic write matched
  end.

Definition user_acl (l : ledger) (c : client) (topic : bytes) (write : bool) : option bool :=
  match find_user (l_users l) (cl_username c) with
  | Some u => user_acl_loop (u_acl u) topic write false        (* an empty ACL yields None *)
  | None => None
  end.

Definition acl_rule_matches (r : acl_rule) (c : client) : bool :=
  rstring_matches (c_client r) (cl_id c) && rstring_matches (c_username r) (cl_username c)
  && rstring_matches (c_remote r) (cl_remote c).

(* the three loops over rule.Filters: each returns at the first filter satisfying the test *)
Definition any_granting (fs : filters) (topic : bytes) (write : bool) : bool :=
  existsb (fun fa => grants write (snd fa) && match_topic (fst fa) topic) fs.
Definition any_matching (fs : filters) (topic : bytes) : bool :=
  existsb (fun fa => match_topic (fst fa) topic) fs.

Fixpoint acl_global (rs : list acl_rule) (n : N) (c : client) (topic : bytes) (write : bool) : N * bool :=
  match rs with
  | [] => (0, true)
  | r :: rs' =>
      if acl_rule_matches r c then
        if nilb (c_filters r) then (n, true)
        else if any_granting (c_filters r) topic write then (n, true)
        else if any_matching (c_filters r) topic then (n, false)
        else acl_global rs' (n + 1) c topic write
      else acl_global rs' (n + 1) c topic write
  end.

Definition acl_ok (l : ledger) (c : client) (topic : bytes) (write : bool) : N * bool :=
  match user_acl l c topic write with
  | Some d => (0, d)
  | None => acl_global (l_acl l) 0 c topic write
  end.

(* auth.go: OnConnectAuthenticate / OnACLCheck return the ledger's decision *)
Definition on_connect_authenticate (l : ledger) (c : client) (pw : bytes) : bool := snd (auth_ok l c pw).
Definition on_acl_check (l : ledger) (c : client) (topic : bytes) (write : bool) : bool :=
  snd (acl_ok l c topic write).

(* ====================================================================================== *)
(* Specification, from the property text *)

(* A rule filter matches a topic only level by level: a level without wildcard matches the identical
   level, '+' matches exactly one level, a trailing '#' matches one or more further levels. *)
Fixpoint level_match (f t : list level) : bool :=
  match f, t with
  | [], [] => true
  | [], _ :: _ => false
  | _ :: _, [] => false
  | h :: f', x :: t' =>
      if is_hash h then nilb f'
      else (is_plus h || beq_bytes h x) && level_match f' t'
  end.

(* The text speaks of a TRAILING '#'.  A filter with a "#" level that is not the last one is not an
   MQTT filter; what the ledger does with it is outside the property (the existing suite pins that
   'a/+/#/+' matches 'a/b/c/d/as/dds'), so the matching theorem and the checker are guarded by: *)
Fixpoint hash_only_last (ls : list level) : bool :=
  match ls with
  | [] => true
  | l :: r => (if is_hash l then nilb r else true) && hash_only_last r
  end.

(* Decisions.  [mt] is the matching function the rules are read with (instantiated with
   [match_topic]; C18_match_spec relates it to [level_match]).
   verdicts = for every filter of the map that matches the topic, whether it grants the access. *)
Section Spec.
  Variable mt : bytes -> bytes -> bool.

  Definition verdicts (fs : filters) (topic : bytes) (write : bool) : list bool :=
    map (fun fa => grants write (snd fa)) (filter (fun fa => mt (fst fa) topic) fs).

  (* matching filters that agree decide; when they conflict the property only demands that the
     outcome is the same on every evaluation (None = either answer, but always the same) *)
  Definition decide (vs : list bool) : option bool :=
    if forallb (fun b => b) vs then Some true
    else if forallb negb vs then Some false
    else None.

  (* a global ACL rule applies when it matches the client and has no filters or a matching filter *)
  Definition acl_rule_applies (r : acl_rule) (c : client) (topic : bytes) : bool :=
    acl_rule_matches r c && (nilb (c_filters r) || negb (nilb (verdicts (c_filters r) topic true))).

  (* a user's own rules take precedence; then the first applicable global rule decides; default allow *)
  Definition acl_spec (l : ledger) (c : client) (topic : bytes) (write : bool) : option bool :=
    let global :=
      match find (fun r => acl_rule_applies r c topic) (l_acl l) with
      | Some r => if nilb (c_filters r) then Some true else decide (verdicts (c_filters r) topic write)
      | None => Some true
      end in
    match find_user (l_users l) (cl_username c) with
    | Some u => let vs := verdicts (u_acl u) topic write in if nilb vs then global else decide vs
    | None => global
    end.
End Spec.

(* connect: a user's own record (non-empty password that equals the given one) takes precedence;
   then the first matching global rule decides; default refuse *)
Definition auth_spec (l : ledger) (c : client) (pw : bytes) : bool :=
  match user_auth l c pw with
  | Some d => d
  | None => match find (fun r => auth_rule_matches r c pw) (l_auth l) with
            | Some r => a_allow r
            | None => false
            end
  end.

(* ====================================================================================== *)
(* Engine.
   case = VL [VN 0; VB filter; VB topic; VN matched]                       MatchTopic
        | VL [VN 1; ledger; VB id; VB user; VB remote; VB topic; VN write; VL outcomes]   ACLOk
        | VL [VN 2; ledger; VB id; VB user; VB remote; VB password; VL outcomes]          AuthOk
        | VL [VN 3; VB rule; VB value; VN matched]                         RString.Matches
   ledger   = VL [VL users; VL auth; VL acl]
   user     = VL [VB name; VB password; VN disallow; VL filters]     filter = VL [VB filter; VN access]
   auth     = VL [VB client; VB username; VB remote; VB password; VN allow]
   acl      = VL [VB client; VB username; VB remote; VL filters]
   outcomes = the DISTINCT results of 50 evaluations: VL [VN n; VN ok; VN hook_ok] each *)
Definition p_filter (v : val) : option (bytes * N) :=
  match v with VL [VB f; VN a] => Some (f, a) | _ => None end.
Definition p_filters (v : val) : option filters :=
  match v with VL l => map_opt p_filter l | _ => None end.
Definition p_user (v : val) : option (bytes * user_rule) :=
  match v with
  | VL [VB name; VB pw; VN dis; fs] =>
      match p_filters fs with
      | Some f => Some (name, Build_user_rule pw f (negb (dis =? 0)))
      | None => None
      end
  | _ => None
  end.
Definition p_auth (v : val) : option auth_rule :=
  match v with
  | VL [VB cl; VB us; VB re; VB pw; VN al] => Some (Build_auth_rule cl us re pw (negb (al =? 0)))
  | _ => None
  end.
Definition p_acl (v : val) : option acl_rule :=
  match v with
  | VL [VB cl; VB us; VB re; fs] =>
      match p_filters fs with Some f => Some (Build_acl_rule cl us re f) | None => None end
  | _ => None
  end.
Definition p_ledger (v : val) : option ledger :=
  match v with
  | VL [VL us; VL au; VL ac] =>
      match map_opt p_user us, map_opt p_auth au, map_opt p_acl ac with
      | Some u, Some a, Some c => Some (Build_ledger u a c)
      | _, _, _ => None
      end
  | _ => None
  end.
Definition p_outcome (v : val) : option (N * bool * bool) :=
  match v with
  | VL [VN n; VN ok; VN hk] => Some (n, negb (ok =? 0), negb (hk =? 0))
  | _ => None
  end.

Definition check_match (f t : bytes) (res : bool) : val :=
  let m := match_topic f t in
  let nontriv := has 47 f || has 43 f || has 35 f in
  if hash_only_last (split f) then
    let sp := level_match (split f) (split t) in
    let tg := if sp then tag "match-yes" else tag "match-no" in
    if negb (Bool.eqb res sp) then verdict 1 tg nontriv [vbool sp; vbool m]
    else if negb (Bool.eqb res m) then verdict 2 tg nontriv [vbool sp; vbool m]
    else verdict 0 tg nontriv []
  else
    (* '#' before the last level: outside the property, correspondence only *)
    if Bool.eqb res m then verdict 0 (tag "match-inner-hash") nontriv []
    else verdict 2 (tag "match-inner-hash") nontriv [vbool m].

Definition check_decision (tg : bytes) (nontriv : bool) (sp : option bool) (m : N * bool)
                          (outs : list (N * bool * bool)) : val :=
  match outs with
  | [(n, ok, hk)] =>
      let info := [VN (fst m); vbool (snd m)] in
      if negb (Bool.eqb hk ok) then verdict 1 (tg ++ tag "-hook")%list nontriv info
      else match sp with
           | Some d =>
               if negb (Bool.eqb ok d) then verdict 1 tg nontriv info
               else if (n =? fst m) && Bool.eqb ok (snd m) then verdict 0 tg nontriv []
               else verdict 2 tg nontriv info
           | None =>
               if (n =? fst m) && Bool.eqb ok (snd m) then verdict 0 (tg ++ tag "-conflict")%list nontriv []
               else verdict 2 (tg ++ tag "-conflict")%list nontriv info
           end
  | [] => bad_case
  | _ => verdict 1 (tg ++ tag "-nondeterministic")%list nontriv [VN (fst m); vbool (snd m)]
  end.

Definition some_rule_reached (l : ledger) (c : client) : bool :=
  match find_user (l_users l) (cl_username c) with Some _ => true | None => false end
  || existsb (fun r => acl_rule_matches r c) (l_acl l).

(* ENGINE ledger Auth.Ledger.ledger_engine *)
Definition ledger_engine (cs : val) : val :=
  match cs with
  | VL [VN 0; VB f; VB t; VN res] => check_match f t (negb (res =? 0))
  | VL [VN 1; lv; VB id; VB us; VB re; VB topic; VN w; VL outs] =>
      match p_ledger lv, map_opt p_outcome outs with
      | Some l, Some os =>
          let c := Build_client id us re in
          let write := negb (w =? 0) in
          check_decision (if write then tag "acl-write" else tag "acl-read") (some_rule_reached l c)
                         (acl_spec match_topic l c topic write) (acl_ok l c topic write) os
      | _, _ => bad_case
      end
  | VL [VN 2; lv; VB id; VB us; VB re; VB pw; VL outs] =>
      match p_ledger lv, map_opt p_outcome outs with
      | Some l, Some os =>
          let c := Build_client id us re in
          check_decision (tag "auth")
                         (match find_user (l_users l) us with Some _ => true | None => false end
                          || existsb (fun r => auth_rule_matches r c pw) (l_auth l))
                         (Some (auth_spec l c pw)) (auth_ok l c pw) os
      | _, _ => bad_case
      end
  | VL [VN 3; VB r; VB a; VN res] =>
      if Bool.eqb (negb (res =? 0)) (rstring_matches r a) then verdict 0 (tag "rstring") (has 42 r) []
      else verdict 2 (tag "rstring") (has 42 r) [vbool (rstring_matches r a)]
  | _ => bad_case
  end.
