(* Proofs for C17 over the routing model of Auth/Acl.v: an invariant of [astep] for ALL permission
   relations, matching relations, filter-validity predicates and histories; plus the lemmas for the
   server-level clause of C30 (invalid filter: 0x8F / 0x80, nothing created, nothing delivered). *)
From MV Require Import Base.Val Topics.Levels Topics.Match Hooks.Chain Auth.Acl.
From Coq Require Import Lia.
Open Scope N_scope.

Lemma beq_bytes_true (a b : bytes) : beq_bytes a b = true -> a = b.
Proof.
  revert b; induction a as [|x a IH]; intros [|y b] H; cbn in H; try discriminate; [reflexivity|].
  apply andb_prop in H. destruct H as [H1 H2]. apply N.eqb_eq in H1. subst y. f_equal. apply IH, H2.
Qed.

Lemma Forall_remove_key {A} (P : bytes * A -> Prop) (k : bytes) (l : list (bytes * A)) :
  Forall P l -> Forall P (remove_key k l).
Proof.
  induction 1 as [|[k' v] l Hx Hl IH]; cbn; [constructor|].
  destruct (beq_bytes k k'); [exact IH | constructor; assumption].
Qed.

Lemma assoc_In {A} (k : bytes) (l : list (bytes * A)) (v : A) : assoc k l = Some v -> In (k, v) l.
Proof.
  induction l as [|[k' v'] l IH]; cbn; [discriminate|].
  destruct (beq_bytes k k') eqn:E.
  - intro H. injection H as ->. apply beq_bytes_true in E. subst k'. left; reflexivity.
  - intro H. right. apply IH, H.
Qed.

Lemma Forall_filter {A} (P : A -> Prop) (f : A -> bool) (l : list A) : Forall P l -> Forall P (filter f l).
Proof. induction 1; cbn; [constructor|]. destruct (f x); [constructor|]; assumption. Qed.

Section Proofs.
Variable perm : client -> bytes -> bool -> bool.
Variable matches : bytes -> bytes -> bool.
Variable valid_filter : bytes -> bool.

Local Notation msg_ok := (msg_ok perm).
Local Notation justified := (justified perm matches valid_filter).
Local Notation deliveries_ok := (deliveries_ok perm matches valid_filter).
Local Notation fanout := (fanout perm matches).
Local Notation route := (route perm matches).
Local Notation send_will := (send_will perm matches).
Local Notation close_with_will := (close_with_will perm matches).
Local Notation sub_codes := (sub_codes perm valid_filter).
Local Notation replay_one := (replay_one perm matches).
Local Notation replay_granted := (replay_granted perm matches).
Local Notation fire := (fire perm matches).
Local Notation astep := (astep perm matches valid_filter).
Local Notation arun := (arun perm matches valid_filter).

(* ---------- the invariant ---------- *)
Definition sub_ok (e : client * (bytes * N)) : Prop :=
  valid_filter (fst (snd e)) = true /\ perm (fst e) (fst (snd e)) false = true.
Definition queued_ok (c : client) (m : msg) : Prop :=
  perm c (m_topic m) false = true /\ msg_ok m /\ justified c m.
Definition will_ok (w : option will) : Prop :=
  match w with Some w' => valid_pub_topic (w_topic w') = true | None => True end.
Definition sess_ok (e : client * sess) : Prop :=
  Forall (queued_ok (fst e)) (c_queue (snd e)) /\ will_ok (c_will (snd e)).
Definition ret_ok (e : bytes * msg) : Prop := fst e = m_topic (snd e) /\ msg_ok (snd e).
Definition del_ok (e : client * msg) : Prop := msg_ok (snd e).

Definition inv (st : ast) : Prop :=
  Forall sub_ok (a_subs st) /\ Forall ret_ok (a_ret st) /\ Forall sess_ok (a_cl st) /\ Forall del_ok (a_delayed st).

Lemma inv_init : inv a_init.
Proof. repeat split; constructor. Qed.

Lemma deliveries_ok_nil : deliveries_ok [].
Proof. intros c m []. Qed.

Lemma deliveries_ok_app (a b : list (client * aev)) : deliveries_ok a -> deliveries_ok b -> deliveries_ok (a ++ b).
Proof. intros Ha Hb c m Hin. apply in_app_or in Hin. destruct Hin; [apply Ha | apply Hb]; assumption. Qed.

Lemma deliveries_ok_cons_other (x : client * aev) (l : list (client * aev)) :
  (forall m, snd x <> ADeliver m) -> deliveries_ok l -> deliveries_ok (x :: l).
Proof.
  intros Hx Hl c m [E|Hin]; [|apply Hl; exact Hin].
  exfalso. apply (Hx m). rewrite E. reflexivity.
Qed.

Lemma matching_justifies (subs : list (client * (bytes * N))) (c : client) (t : bytes) e es :
  Forall sub_ok subs -> matching matches subs c t = e :: es ->
  exists f, valid_filter f = true /\ perm c f false = true /\ matches f t = true.
Proof.
  intros Hs Hm.
  assert (Hin : In e (matching matches subs c t)) by (rewrite Hm; left; reflexivity).
  unfold matching in Hin. apply filter_In in Hin. destruct Hin as [Hin Hc].
  apply andb_prop in Hc. destruct Hc as [Hc1 Hc2]. apply beq_bytes_true in Hc1.
  rewrite Forall_forall in Hs. destruct (Hs e Hin) as [Hv Hp].
  exists (fst (snd e)). rewrite <- Hc1. auto.
Qed.

Lemma fanout_ok (subs : list (client * (bytes * N))) (m : msg) (cls : list (client * sess)) :
  Forall sub_ok subs -> msg_ok m -> Forall sess_ok cls ->
  Forall sess_ok (fst (fanout subs m cls)) /\ deliveries_ok (snd (fanout subs m cls)).
Proof.
  intros Hs Hm. induction 1 as [|[c s] r Hx Hr IH]; cbn [Acl.fanout].
  - split; [constructor | apply deliveries_ok_nil].
  - destruct (fanout subs m r) as [r' evs]. cbn [fst snd] in IH. destruct IH as [IH1 IH2].
    destruct (matching matches subs c (m_topic m)) as [|e es] eqn:Em.
    + cbn [fst snd]. split; [constructor; assumption | assumption].
    + destruct (perm c (m_topic m) false) eqn:Hp; cbn [negb].
      2:{ cbn [fst snd]. split; [constructor; assumption | assumption]. }
      pose proof (matching_justifies subs c (m_topic m) e es Hs Em) as Hj.
      destruct (c_online s).
      * cbn [fst snd]. split; [constructor; assumption|].
        intros c' m' [E|Hin]; [|apply IH2; exact Hin].
        injection E as <- <-. repeat split; assumption.
      * destruct (0 <? N.min (m_qos m) (maxq (e :: es))); cbn [fst snd].
        -- split; [|assumption]. constructor; [|assumption].
           destruct Hx as [Hq Hw]. split; [|exact Hw]. cbn [fst snd enqueue c_queue] in *.
           apply Forall_app. split; [exact Hq|]. constructor; [|constructor]. repeat split; assumption.
        -- split; [constructor; assumption | assumption].
Qed.

Lemma retain_ok (ret : list (bytes * msg)) (m : msg) : Forall ret_ok ret -> msg_ok m -> Forall ret_ok (retain ret m).
Proof.
  intros Hr Hm. unfold retain. destruct (nilb (m_payload m)).
  - apply Forall_remove_key, Hr.
  - constructor; [split; [reflexivity | exact Hm] | apply Forall_remove_key, Hr].
Qed.

Lemma route_ok (st : ast) (m : msg) : inv st -> msg_ok m -> inv (fst (route st m)) /\ deliveries_ok (snd (route st m)).
Proof.
  intros (Hs & Hr & Hc & Hd) Hm. unfold Acl.route.
  pose proof (fanout_ok (a_subs st) m (a_cl st) Hs Hm Hc) as Hf.
  destruct (fanout (a_subs st) m (a_cl st)) as [cls' evs]. cbn [fst snd] in *. destruct Hf as [Hf1 Hf2].
  split; [|exact Hf2]. repeat split; cbn; try assumption.
  destruct (m_retain m); [apply retain_ok; assumption | assumption].
Qed.

Lemma end_session_ok (st : ast) (cl : client) : inv st -> inv (end_session st cl).
Proof.
  intros (Hs & Hr & Hc & Hd). unfold end_session.
  destruct (assoc cl (a_cl st)) as [s|] eqn:Ea; [|repeat split; assumption].
  destruct (c_persist s).
  - repeat split; cbn; try assumption.
    constructor; [|apply Forall_remove_key, Hc].
    apply assoc_In in Ea. rewrite Forall_forall in Hc. destruct (Hc _ Ea) as [Hq _].
    split; cbn; [exact Hq | exact I].
  - repeat split; cbn; try assumption; apply Forall_remove_key; assumption.
Qed.

Lemma send_will_ok (st : ast) (cl : client) :
  inv st -> inv (fst (send_will st cl)) /\ deliveries_ok (snd (send_will st cl)).
Proof.
  intro Hi. unfold Acl.send_will.
  destruct (assoc cl (a_cl st)) as [s|]; [|split; [exact Hi | apply deliveries_ok_nil]].
  destruct (c_will s) as [w|]; [|split; [exact Hi | apply deliveries_ok_nil]].
  destruct (valid_pub_topic (w_topic w) && perm cl (w_topic w) true) eqn:Ec;
    [|split; [exact Hi | apply deliveries_ok_nil]].
  apply andb_prop in Ec. destruct Ec as [Ev Ep].
  assert (Hm : msg_ok (mkM (Some cl) (w_topic w) (w_payload w) (w_qos w) (w_retain w))) by (cbn; split; assumption).
  destruct (w_delay w).
  - cbn [fst snd]. split; [|apply deliveries_ok_nil].
    destruct Hi as (Hs & Hr & Hc & Hd). repeat split; cbn; try assumption.
    constructor; [exact Hm | apply Forall_remove_key, Hd].
  - apply route_ok; assumption.
Qed.

Lemma close_with_will_ok (st : ast) (cl : client) :
  inv st -> inv (fst (close_with_will st cl)) /\ deliveries_ok (snd (close_with_will st cl)).
Proof.
  intro Hi. unfold Acl.close_with_will. pose proof (send_will_ok st cl Hi) as H.
  destruct (send_will st cl) as [st1 evs]. cbn [fst snd] in *. destruct H as [H1 H2].
  split; [apply end_session_ok, H1|].
  apply deliveries_ok_cons_other; [cbn; discriminate | exact H2].
Qed.

Lemma sub_codes_granted (ver : N) (ob : bool) (cl : client) (fs : list (bytes * N)) :
  forall f q, In (f, q) (snd (sub_codes ver ob cl fs)) -> valid_filter f = true /\ perm cl f false = true.
Proof.
  induction fs as [|[f0 q0] r IH]; cbn [Acl.sub_codes]; [intros f q []|].
  destruct (sub_codes ver ob cl r) as [codes gr]. cbn [snd] in IH.
  destruct (valid_filter f0) eqn:Ev; cbn [negb]; [|exact IH].
  destruct (perm cl f0 false) eqn:Ep; cbn [negb]; [|exact IH].
  cbn [snd]. intros f q [E|Hin]; [injection E as <- <-; split; assumption | apply IH with q; exact Hin].
Qed.

Lemma add_sub_ok (cl : client) (gr : list (bytes * N)) (subs : list (client * (bytes * N))) :
  Forall sub_ok subs -> (forall f q, In (f, q) gr -> valid_filter f = true /\ perm cl f false = true) ->
  Forall sub_ok (add_sub cl gr subs).
Proof.
  revert subs. induction gr as [|[f q] r IH]; intros subs Hs Hg; cbn [add_sub]; [exact Hs|].
  apply IH.
  - constructor; [apply (Hg f q); left; reflexivity | apply Forall_filter, Hs].
  - intros f' q' Hin. apply (Hg f' q'). right; exact Hin.
Qed.

Lemma replay_one_ok (cl : client) (f : bytes) (ret : list (bytes * msg)) :
  valid_filter f = true -> perm cl f false = true -> Forall ret_ok ret -> deliveries_ok (replay_one cl f ret).
Proof.
  intros Hv Hp Hr c m Hin. unfold Acl.replay_one in Hin. apply in_map_iff in Hin.
  destruct Hin as (e & E & Hin). injection E as <- <-. apply filter_In in Hin. destruct Hin as [Hin Hc].
  apply andb_prop in Hc. destruct Hc as [Hm Hrd].
  rewrite Forall_forall in Hr. destruct (Hr e Hin) as [Hk Hok]. rewrite Hk in Hm, Hrd.
  split; [exact Hrd|]. split; [exact Hok|]. exists f. auto.
Qed.

Lemma replay_granted_ok (cl : client) (gr : list (bytes * N)) (ret : list (bytes * msg)) :
  (forall f q, In (f, q) gr -> valid_filter f = true /\ perm cl f false = true) -> Forall ret_ok ret ->
  deliveries_ok (replay_granted cl gr ret).
Proof.
  intros Hg Hr. induction gr as [|[f q] r IH]; cbn; [apply deliveries_ok_nil|].
  apply deliveries_ok_app.
  - destruct (Hg f q (or_introl eq_refl)) as [Hv Hp]. apply replay_one_ok; assumption.
  - apply IH. intros f' q' Hin. apply (Hg f' q'). right; exact Hin.
Qed.

Lemma fire_ok (ds : list (client * msg)) : forall st, inv st -> Forall del_ok ds ->
  inv (fst (fire st ds)) /\ deliveries_ok (snd (fire st ds)).
Proof.
  induction ds as [|[c m] r IH]; intros st Hi Hd; cbn [Acl.fire].
  - split; [exact Hi | apply deliveries_ok_nil].
  - inversion Hd as [|x l Hm Hr]; subst. cbn in Hm.
    destruct Hi as (Hs & Hrt & Hc & Hdl).
    pose proof (fanout_ok (a_subs st) m (a_cl st) Hs Hm Hc) as Hf.
    destruct (fanout (a_subs st) m (a_cl st)) as [cls' evs]. cbn [fst snd] in Hf. destruct Hf as [Hf1 Hf2].
    set (ret' := match assoc c (a_cl st) with
                 | Some _ => if m_retain m then retain (a_ret st) m else a_ret st
                 | None => a_ret st end).
    assert (Hret : Forall ret_ok ret').
    { unfold ret'. destruct (assoc c (a_cl st)); [|exact Hrt].
      destruct (m_retain m); [apply retain_ok; assumption | exact Hrt]. }
    specialize (IH (mkAst cls' (a_subs st) ret' (a_delayed st))).
    destruct (fire (mkAst cls' (a_subs st) ret' (a_delayed st)) r) as [st' evs'].
    cbn [fst snd] in *. destruct IH as [IH1 IH2]; [repeat split; cbn; assumption | exact Hr |].
    split; [exact IH1 | apply deliveries_ok_app; assumption].
Qed.

Lemma online_In (st : ast) (cl : client) (s : sess) : online st cl = Some s -> In (cl, s) (a_cl st).
Proof.
  unfold online. destruct (assoc cl (a_cl st)) as [s'|] eqn:E; [|discriminate].
  destruct (c_online s'); [|discriminate]. intro H. injection H as <-. apply assoc_In, E.
Qed.

Theorem astep_ok (ob : bool) (st : ast) (o : aop) :
  inv st -> inv (fst (astep ob st o)) /\ deliveries_ok (snd (astep ob st o)).
Proof.
  intro Hi. destruct o as [cl ver clean w|cl|cl|cl|cl topic payload qos rt pid|cl pid fs|topic payload rt|]; cbn [Acl.astep].
  - (* connect *)
    destruct (match w with Some w' => negb (valid_pub_topic (w_topic w')) | None => false end) eqn:Ew.
    { cbn [fst snd]. split; [exact Hi|].
      apply deliveries_ok_cons_other; [cbn; discriminate|].
      apply deliveries_ok_cons_other; [cbn; discriminate | apply deliveries_ok_nil]. }
    destruct Hi as (Hs & Hr & Hc & Hd). cbn [fst snd]. split.
    + repeat split; cbn [a_subs a_ret a_cl a_delayed].
      * destruct (match assoc cl (a_cl st) with Some _ => negb clean | None => false end);
          [exact Hs | apply Forall_remove_key, Hs].
      * exact Hr.
      * constructor; [|apply Forall_remove_key, Hc]. split; cbn; [constructor|].
        destruct w as [w'|]; cbn; [|exact I]. cbn in Ew. destruct (valid_pub_topic (w_topic w')); [reflexivity | discriminate].
      * apply Forall_remove_key, Hd.
    + apply deliveries_ok_cons_other; [cbn; discriminate|].
      destruct (assoc cl (a_cl st)) as [s|] eqn:Ea; [|apply deliveries_ok_nil].
      destruct (negb clean); [|apply deliveries_ok_nil].
      apply assoc_In in Ea. rewrite Forall_forall in Hc. destruct (Hc _ Ea) as [Hq _]. cbn in Hq.
      intros c m Hin. apply in_map_iff in Hin. destruct Hin as (m' & E & Hin). injection E as <- <-.
      rewrite Forall_forall in Hq. apply Hq, Hin.
  - (* DISCONNECT *)
    destruct (online st cl); [|split; [exact Hi | apply deliveries_ok_nil]].
    cbn [fst snd]. split.
    + pose proof (end_session_ok st cl Hi) as (Hs & Hr & Hc & Hd).
      repeat split; cbn; try assumption. apply Forall_remove_key, Hd.
    + apply deliveries_ok_cons_other; [cbn; discriminate | apply deliveries_ok_nil].
  - (* DISCONNECT with will *)
    destruct (online st cl); [apply close_with_will_ok, Hi | split; [exact Hi | apply deliveries_ok_nil]].
  - (* network close *)
    destruct (online st cl); [apply close_with_will_ok, Hi | split; [exact Hi | apply deliveries_ok_nil]].
  - (* publish *)
    destruct (online st cl) as [s|]; [|split; [exact Hi | apply deliveries_ok_nil]].
    destruct (has_wild topic); [apply close_with_will_ok, Hi|].
    destruct (valid_pub_topic topic) eqn:Ev; cbn [negb].
    2:{ cbn [fst snd]. split; [exact Hi|]. destruct (qos =? 0); [apply deliveries_ok_nil|].
        apply deliveries_ok_cons_other; [cbn; discriminate | apply deliveries_ok_nil]. }
    destruct (perm cl topic true) eqn:Ep; cbn [negb].
    2:{ destruct (qos =? 0); [split; [exact Hi | apply deliveries_ok_nil]|].
        destruct (negb (c_ver s =? 5)); [apply close_with_will_ok, Hi|].
        cbn [fst snd]. split; [exact Hi|].
        apply deliveries_ok_cons_other; [cbn; discriminate | apply deliveries_ok_nil]. }
    assert (Hm : msg_ok (mkM (Some cl) topic payload qos rt)) by (cbn; split; assumption).
    pose proof (route_ok st _ Hi Hm) as H.
    destruct (route st (mkM (Some cl) topic payload qos rt)) as [st' evs]. cbn [fst snd] in *.
    destruct H as [H1 H2]. split; [exact H1|].
    apply deliveries_ok_app; [|exact H2].
    destruct (qos =? 0); [apply deliveries_ok_nil|].
    apply deliveries_ok_cons_other; [cbn; discriminate | apply deliveries_ok_nil].
  - (* subscribe *)
    destruct (online st cl) as [s|]; [|split; [exact Hi | apply deliveries_ok_nil]].
    pose proof (sub_codes_granted (c_ver s) ob cl fs) as Hg.
    destruct (sub_codes (c_ver s) ob cl fs) as [codes gr]. cbn [fst snd] in *.
    destruct Hi as (Hs & Hr & Hc & Hd). split.
    + repeat split; cbn; try assumption. apply add_sub_ok; assumption.
    + apply deliveries_ok_cons_other; [cbn; discriminate|]. apply replay_granted_ok; assumption.
  - (* inline publish *)
    apply route_ok; [exact Hi | exact I].
  - (* will tick *)
    pose proof (fire_ok (a_delayed st) st Hi) as H.
    destruct Hi as (Hs & Hr & Hc & Hd). specialize (H Hd).
    destruct (fire st (a_delayed st)) as [st' evs]. cbn [fst snd] in *. destruct H as [(Hs' & Hr' & Hc' & Hd') H2].
    split; [|exact H2]. repeat split; cbn; try assumption. constructor.
Qed.

Theorem arun_ok (ob : bool) (ops : list aop) : forall st, inv st ->
  inv (fst (arun ob st ops)) /\ Forall deliveries_ok (snd (arun ob st ops)).
Proof.
  induction ops as [|o r IH]; intros st Hi; cbn [Acl.arun].
  - split; [exact Hi | constructor].
  - pose proof (astep_ok ob st o Hi) as H. destruct (astep ob st o) as [st1 evs]. cbn [fst snd] in H.
    destruct H as [H1 H2]. specialize (IH st1 H1). destruct (arun ob st1 r) as [st2 rest]. cbn [fst snd] in *.
    destruct IH as [IH1 IH2]. split; [exact IH1 | constructor; assumption].
Qed.

(* ---------- the clauses of C17 over every history from the empty broker ---------- *)

Definition reachable (ob : bool) (st : ast) : Prop := exists ops, fst (arun ob a_init ops) = st.
Definition emitted (ob : bool) (evs : list (client * aev)) : Prop := exists ops, In evs (snd (arun ob a_init ops)).

Lemma reachable_inv (ob : bool) (st : ast) : reachable ob st -> inv st.
Proof. intros [ops <-]. apply arun_ok, inv_init. Qed.

Lemma emitted_ok (ob : bool) (evs : list (client * aev)) : emitted ob evs -> deliveries_ok evs.
Proof.
  intros [ops Hin]. pose proof (arun_ok ob ops a_init inv_init) as [_ H].
  rewrite Forall_forall in H. apply H, Hin.
Qed.

(* read: nobody receives a message on a topic it may not read (live fan-out, retained replay, resend) *)
Theorem read_enforced (ob : bool) (evs : list (client * aev)) (c : client) (m : msg) :
  emitted ob evs -> In (c, ADeliver m) evs -> perm c (m_topic m) false = true.
Proof. intros He Hin. apply (emitted_ok ob evs He c m Hin). Qed.

(* write: whatever is delivered, retained, kept for an offline session or waiting as a delayed will and
   stems from a non-inline client was published with write permission on a valid non-$SYS topic name *)
Theorem write_enforced (ob : bool) :
  (forall evs c m, emitted ob evs -> In (c, ADeliver m) evs -> msg_ok m) /\
  (forall st, reachable ob st ->
     (forall t m, In (t, m) (a_ret st) -> t = m_topic m /\ msg_ok m) /\
     (forall c s m, In (c, s) (a_cl st) -> In m (c_queue s) -> msg_ok m /\ perm c (m_topic m) false = true) /\
     (forall c m, In (c, m) (a_delayed st) -> msg_ok m)).
Proof.
  split.
  - intros evs c m He Hin. apply (emitted_ok ob evs He c m Hin).
  - intros st Hr. destruct (reachable_inv ob st Hr) as (Hs & Hrt & Hc & Hd). split; [|split].
    + intros t m Hin. rewrite Forall_forall in Hrt. apply (Hrt _ Hin).
    + intros c s m Hin Hq. rewrite Forall_forall in Hc. destruct (Hc _ Hin) as [Hqs _].
      rewrite Forall_forall in Hqs. destruct (Hqs _ Hq) as (A & B & _). split; assumption.
    + intros c m Hin. rewrite Forall_forall in Hd. apply (Hd _ Hin).
Qed.

(* the reason codes of a SUBSCRIBE, filter by filter *)
Lemma sub_codes_nth (ver : N) (ob : bool) (cl : client) (fs : list (bytes * N)) :
  length (fst (sub_codes ver ob cl fs)) = length fs /\
  forall i f q, nth_error fs i = Some (f, q) ->
    nth_error (fst (sub_codes ver ob cl fs)) i =
      Some (if negb (valid_filter f) then v3map ver 143
            else if negb (perm cl f false) then v3map ver (if ob then 128 else 135) else v3map ver q).
Proof.
  induction fs as [|[f0 q0] r [IHl IH]]; cbn [Acl.sub_codes].
  - split; [reflexivity | intros [|i] f q H; discriminate].
  - destruct (sub_codes ver ob cl r) as [codes gr]. cbn [fst] in *.
    assert (Hhd : forall c g, (if negb (valid_filter f0) then (v3map ver 143 :: codes, gr)
                        else if negb (perm cl f0 false) then (v3map ver (if ob then 128 else 135) :: codes, gr)
                        else (v3map ver q0 :: codes, (f0, q0) :: gr)) = (c, g) ->
              c = (if negb (valid_filter f0) then v3map ver 143
                   else if negb (perm cl f0 false) then v3map ver (if ob then 128 else 135) else v3map ver q0) :: codes).
    { intros c g. destruct (negb (valid_filter f0)); [intro E; injection E as <- _; reflexivity|].
      destruct (negb (perm cl f0 false)); intro E; injection E as <- _; reflexivity. }
    destruct (if negb (valid_filter f0) then _ else _) as [c g] eqn:E. rewrite (Hhd c g eq_refl). cbn [fst].
    split; [cbn; lia|].
    intros [|i] f q H; cbn in H |- *; [injection H as <- <-; reflexivity | apply IH, H].
Qed.

(* subscriptions: a denied filter is answered 0x87 (0x80 when obscured or MQTT 3), only valid permitted
   filters are ever in the index, and every delivery rests on such a filter matching the topic *)
Theorem sub_refused (ob : bool) :
  (forall ver cl fs i f q, nth_error fs i = Some (f, q) -> valid_filter f = true -> perm cl f false = false ->
     nth_error (fst (sub_codes ver ob cl fs)) i = Some (if (ver <? 5) || ob then 128 else 135)) /\
  (forall st c f q, reachable ob st -> In (c, (f, q)) (a_subs st) -> valid_filter f = true /\ perm c f false = true) /\
  (forall evs c m, emitted ob evs -> In (c, ADeliver m) evs ->
     exists f, valid_filter f = true /\ perm c f false = true /\ matches f (m_topic m) = true).
Proof.
  split; [|split].
  - intros ver cl fs i f q Hn Hv Hp. destruct (sub_codes_nth ver ob cl fs) as [_ H]. rewrite (H i f q Hn).
    rewrite Hv, Hp. cbn [negb]. f_equal. unfold v3map. destruct ob; destruct (ver <? 5); reflexivity.
  - intros st c f q Hr Hin. destruct (reachable_inv ob st Hr) as (Hs & _). rewrite Forall_forall in Hs.
    apply (Hs _ Hin).
  - intros evs c m He Hin. apply (emitted_ok ob evs He c m Hin).
Qed.

(* $SYS: a client publish to a topic starting with $SYS changes nothing and reaches nobody *)
Theorem sys_refused (ob : bool) (st : ast) (cl : client) (topic payload : bytes) (qos : N) (rt : bool) (pid : N) :
  prefix (tag "$SYS") topic = true -> has_wild topic = false ->
  fst (astep ob st (APublish cl topic payload qos rt pid)) = st /\
  forall c m, ~ In (c, ADeliver m) (snd (astep ob st (APublish cl topic payload qos rt pid))).
Proof.
  intros Hp Hw. cbn [Acl.astep]. destruct (online st cl) as [s|]; [|split; [reflexivity | intros c m []]].
  rewrite Hw. unfold valid_pub_topic. rewrite Hp. cbn [negb andb fst snd]. split; [reflexivity|].
  intros c m. destruct (qos =? 0); cbn; [tauto | intros [E|[]]; discriminate].
Qed.

(* will topics: a CONNECT whose will topic is no valid topic name is refused and changes nothing; every
   will a session holds has a valid topic name *)
Theorem will_topic_valid (ob : bool) :
  (forall st cl ver clean w, valid_pub_topic (w_topic w) = false ->
     astep ob st (AConnect cl ver clean (Some w)) = (st, [(cl, AConnack false false); (cl, AClosed)])) /\
  (forall st c s w, reachable ob st -> In (c, s) (a_cl st) -> c_will s = Some w -> valid_pub_topic (w_topic w) = true).
Proof.
  split.
  - intros st cl ver clean w Hv. cbn [Acl.astep]. rewrite Hv. reflexivity.
  - intros st c s w Hr Hin Hw. destruct (reachable_inv ob st Hr) as (_ & _ & Hc & _). rewrite Forall_forall in Hc.
    destruct (Hc _ Hin) as [_ H]. cbn in H. rewrite Hw in H. exact H.
Qed.

(* ---------- C30, server-level clause: an invalid filter is answered 0x8F (0x80 for MQTT 3) and creates
   nothing: no index entry ever holds an invalid filter and no delivery rests on one ---------- *)
Theorem subinvalid_code (ob : bool) (ver : N) (cl : client) (fs : list (bytes * N)) (i : nat) (f : bytes) (q : N) :
  nth_error fs i = Some (f, q) -> valid_filter f = false ->
  nth_error (fst (sub_codes ver ob cl fs)) i = Some (if ver <? 5 then 128 else 143) /\
  forall q', ~ In (f, q') (snd (sub_codes ver ob cl fs)).
Proof.
  intros Hn Hv. split.
  - destruct (sub_codes_nth ver ob cl fs) as [_ H]. rewrite (H i f q Hn). rewrite Hv. cbn [negb].
    unfold v3map. destruct (ver <? 5); reflexivity.
  - intros q' Hin. destruct (sub_codes_granted ver ob cl fs f q' Hin) as [H _]. congruence.
Qed.

Theorem subinvalid_creates_nothing (ob : bool) (st : ast) (c : client) (f : bytes) (q : N) :
  reachable ob st -> valid_filter f = false -> ~ In (c, (f, q)) (a_subs st).
Proof.
  intros Hr Hv Hin. destruct (reachable_inv ob st Hr) as (Hs & _). rewrite Forall_forall in Hs.
  destruct (Hs _ Hin) as [H _]. cbn in H. congruence.
Qed.

End Proofs.
