(* Proofs for C17 over the routing model of Auth/Acl.v: an invariant of [astep] for ALL permission
   relations, matching relations, filter-validity / shared-filter predicates, share-group oracles and
   histories (incl. takeover, expiry, topic aliases, QoS 2, shared subscriptions, No-Local); plus the
   lemmas for the server-level clause of C30 (invalid filter: 0x8F / 0x80, nothing created, nothing
   delivered). *)
From MV Require Import Base.Val Topics.Levels Topics.Match Hooks.Chain Auth.Acl.
From Coq Require Import Lia Permutation.
Open Scope N_scope.

Lemma beq_bytes_true (a b : bytes) : beq_bytes a b = true -> a = b.
Proof.
  revert b; induction a as [|x a IH]; intros [|y b] H; cbn in H; try discriminate; [reflexivity|].
  apply andb_prop in H. destruct H as [H1 H2]. apply N.eqb_eq in H1. subst y. f_equal. apply IH, H2.
Qed.

Lemma Forall_remove_key {A} (P : bytes * A -> Prop) (k : bytes) (l : list (bytes * A)) :
  Forall P l -> Forall P (remove_key k l).
Proof.
  induction 1 as [|[k' v] l Hx Hl IH]; cbn; [constructor|].
  destruct (beq_bytes k k'); [exact IH | constructor; assumption].
Qed.

Lemma assoc_In {A} (k : bytes) (l : list (bytes * A)) (v : A) : assoc k l = Some v -> In (k, v) l.
Proof.
  induction l as [|[k' v'] l IH]; cbn; [discriminate|].
  destruct (beq_bytes k k') eqn:E.
  - intro H. injection H as ->. apply beq_bytes_true in E. subst k'. left; reflexivity.
  - intro H. right. apply IH, H.
Qed.

Lemma Forall_filter {A} (P : A -> Prop) (f : A -> bool) (l : list A) : Forall P l -> Forall P (filter f l).
Proof. induction 1; cbn; [constructor|]. destruct (f x); [constructor|]; assumption. Qed.

Lemma alias_get_In (a : N) (l : list (N * bytes)) (t : bytes) : alias_get a l = Some t -> In (a, t) l.
Proof.
  induction l as [|[k t'] l IH]; cbn; [discriminate|].
  destruct (a =? k) eqn:E; [intro H; injection H as ->; apply N.eqb_eq in E; subst k; left; reflexivity|].
  intro H. right. apply IH, H.
Qed.

Lemma insert_all_perm {A} (x : A) (l y : list A) : In y (insert_all x l) -> Permutation (x :: l) y.
Proof.
  revert y; induction l as [|z r IH]; intros y Hin; cbn in Hin.
  - destruct Hin as [<-|[]]. apply Permutation_refl.
  - destruct Hin as [<-|Hin]; [apply Permutation_refl|].
    apply in_map_iff in Hin. destruct Hin as (y' & <- & Hy).
    eapply Permutation_trans; [apply perm_swap|]. apply perm_skip, IH, Hy.
Qed.

(* every order the engine tries for the delayed-will table is a permutation of it *)
Lemma perms_perm {A} (l p : list A) : In p (perms l) -> Permutation l p.
Proof.
  revert p; induction l as [|x r IH]; intros p Hin; cbn in Hin.
  - destruct Hin as [<-|[]]. constructor.
  - apply in_flat_map in Hin. destruct Hin as (q & Hq & Hp).
    eapply Permutation_trans; [apply perm_skip, IH, Hq | apply insert_all_perm, Hp].
Qed.

Section Proofs.
Variable perm : client -> bytes -> bool -> bool.
Variable matches : bytes -> bytes -> bool.
Variable valid_filter : bytes -> bool.
Variable is_shared : bytes -> bool.
Variable eff : bytes -> bytes.

Local Notation msg_ok := (msg_ok perm).
Local Notation eff_of := (eff_of is_shared eff).
Local Notation justified := (justified perm matches valid_filter is_shared eff).
Local Notation deliveries_ok := (deliveries_ok perm matches valid_filter is_shared eff).
Local Notation matching := (matching matches is_shared eff).
Local Notation fanout := (fanout perm matches is_shared eff).
Local Notation route := (route perm matches is_shared eff).
Local Notation publish_will := (publish_will perm matches is_shared eff).
Local Notation send_will := (send_will perm matches is_shared eff).
Local Notation close_with_will := (close_with_will perm matches is_shared eff).
Local Notation sub_codes := (sub_codes perm valid_filter is_shared).
Local Notation replay_one := (replay_one perm matches is_shared).
Local Notation replay_granted := (replay_granted perm matches is_shared).
Local Notation fire := (fire perm matches is_shared eff).
Local Notation astep := (astep perm matches valid_filter is_shared eff).
Local Notation arun := (arun perm matches valid_filter is_shared eff).

Definition oracle := bytes -> client -> bool.

(* ---------- the invariant ---------- *)
Definition sub_ok (e : subent) : Prop :=
  valid_filter (se_filter e) = true /\ perm (fst e) (se_filter e) false = true.
Definition queued_ok (c : client) (m : msg) : Prop :=
  perm c (m_topic m) false = true /\ msg_ok m /\ justified c m.
Definition will_ok (w : option will) : Prop :=
  match w with Some w' => valid_pub_topic (w_topic w') = true | None => True end.
(* every inbound alias of a connection is bound to a topic its client may publish to *)
Definition alias_ok (c : client) (e : N * bytes) : Prop :=
  perm c (snd e) true = true /\ valid_pub_topic (snd e) = true.
Definition sess_ok (e : client * sess) : Prop :=
  Forall (queued_ok (fst e)) (c_queue (snd e)) /\ will_ok (c_will (snd e)) /\
  Forall (alias_ok (fst e)) (c_alias (snd e)).
Definition ret_ok (e : bytes * msg) : Prop := fst e = m_topic (snd e) /\ msg_ok (snd e).
Definition del_ok (e : client * msg) : Prop := msg_ok (snd e).

Definition inv (st : ast) : Prop :=
  Forall sub_ok (a_subs st) /\ Forall ret_ok (a_ret st) /\ Forall sess_ok (a_cl st) /\ Forall del_ok (a_delayed st).

Lemma inv_init : inv a_init.
Proof. repeat split; constructor. Qed.

(* the order of the delayed-will table (a Go map) is immaterial to the invariant *)
Lemma inv_delayed_perm (st : ast) (d : list (client * msg)) :
  Permutation (a_delayed st) d -> inv st -> inv (mkAst (a_cl st) (a_subs st) (a_ret st) d).
Proof.
  intros Hp (Hs & Hr & Hc & Hd). repeat split; cbn; try assumption.
  exact (Permutation_Forall Hp Hd).
Qed.

Lemma deliveries_ok_nil : deliveries_ok [].
Proof. intros c m []. Qed.

Lemma deliveries_ok_app (a b : list (client * aev)) : deliveries_ok a -> deliveries_ok b -> deliveries_ok (a ++ b).
Proof. intros Ha Hb c m Hin. apply in_app_or in Hin. destruct Hin; [apply Ha | apply Hb]; assumption. Qed.

Lemma deliveries_ok_cons_other (x : client * aev) (l : list (client * aev)) :
  (forall m, snd x <> ADeliver m) -> deliveries_ok l -> deliveries_ok (x :: l).
Proof.
  intros Hx Hl c m [E|Hin]; [|apply Hl; exact Hin].
  exfalso. apply (Hx m). rewrite E. reflexivity.
Qed.

Lemma deliveries_ok_acks (cl : client) (l : list N) (f : N -> aev) :
  (forall p m, f p <> ADeliver m) -> deliveries_ok (map (fun p => (cl, f p)) l).
Proof.
  intros Hf c m Hin. apply in_map_iff in Hin. destruct Hin as (p & E & _). injection E as _ E.
  exfalso. apply (Hf p m E).
Qed.

Lemma matching_justifies (sel : oracle) (subs : list subent) (c : client) (t : bytes) e es :
  Forall sub_ok subs -> matching sel subs c t = e :: es ->
  exists f, valid_filter f = true /\ perm c f false = true /\ matches (eff_of f) t = true.
Proof.
  intros Hs Hm.
  assert (Hin : In e (matching sel subs c t)) by (rewrite Hm; left; reflexivity).
  unfold Acl.matching in Hin. apply filter_In in Hin. destruct Hin as [Hin Hc].
  apply andb_prop in Hc. destruct Hc as [Hc1 Hc2]. apply beq_bytes_true in Hc1.
  rewrite Forall_forall in Hs. destruct (Hs e Hin) as [Hv Hp].
  exists (se_filter e). rewrite <- Hc1. split; [exact Hv|]. split; [exact Hp|].
  unfold sub_hits in Hc2. unfold Acl.eff_of. destruct (is_shared (se_filter e)); [|exact Hc2].
  apply andb_prop in Hc2. tauto.
Qed.

Lemma fanout_ok (sel : oracle) (subs : list subent) (m : msg) (cls : list (client * sess)) :
  Forall sub_ok subs -> msg_ok m -> Forall sess_ok cls ->
  Forall sess_ok (fst (fanout sel subs m cls)) /\ deliveries_ok (snd (fanout sel subs m cls)).
Proof.
  intros Hs Hm. induction 1 as [|[c s] r Hx Hr IH]; cbn [Acl.fanout].
  - split; [constructor | apply deliveries_ok_nil].
  - destruct (fanout sel subs m r) as [r' evs]. cbn [fst snd] in IH. destruct IH as [IH1 IH2].
    destruct (matching sel subs c (m_topic m)) as [|e es] eqn:Em.
    + cbn [fst snd]. split; [constructor; assumption | assumption].
    + destruct (existsb se_nl (e :: es) && origin_is c m).
      { cbn [fst snd]. split; [constructor; assumption | assumption]. }
      destruct (perm c (m_topic m) false) eqn:Hp; cbn [negb].
      2:{ cbn [fst snd]. split; [constructor; assumption | assumption]. }
      pose proof (matching_justifies sel subs c (m_topic m) e es Hs Em) as Hj.
      destruct (c_online s).
      * cbn [fst snd]. split; [constructor; assumption|].
        intros c' m' [E|Hin]; [|apply IH2; exact Hin].
        injection E as <- <-. repeat split; assumption.
      * destruct (0 <? N.min (m_qos m) (maxq (e :: es))); cbn [fst snd].
        -- split; [|assumption]. constructor; [|assumption].
           destruct Hx as (Hq & Hw & Ha). split; [|split; [exact Hw | exact Ha]]. cbn [fst snd enqueue c_queue] in *.
           apply Forall_app. split; [exact Hq|]. constructor; [|constructor]. repeat split; assumption.
        -- split; [constructor; assumption | assumption].
Qed.

Lemma retain_ok (ret : list (bytes * msg)) (m : msg) : Forall ret_ok ret -> msg_ok m -> Forall ret_ok (retain ret m).
Proof.
  intros Hr Hm. unfold retain. destruct (nilb (m_payload m)).
  - apply Forall_remove_key, Hr.
  - constructor; [split; [reflexivity | exact Hm] | apply Forall_remove_key, Hr].
Qed.

Lemma route_ok (sel : oracle) (st : ast) (m : msg) :
  inv st -> msg_ok m -> inv (fst (route sel st m)) /\ deliveries_ok (snd (route sel st m)).
Proof.
  intros (Hs & Hr & Hc & Hd) Hm. unfold Acl.route.
  pose proof (fanout_ok sel (a_subs st) m (a_cl st) Hs Hm Hc) as Hf.
  destruct (fanout sel (a_subs st) m (a_cl st)) as [cls' evs]. cbn [fst snd] in *. destruct Hf as [Hf1 Hf2].
  split; [|exact Hf2]. repeat split; cbn; try assumption.
  destruct (m_retain m); [apply retain_ok; assumption | assumption].
Qed.

Lemma end_session_ok (st : ast) (cl : client) : inv st -> inv (end_session st cl).
Proof.
  intros (Hs & Hr & Hc & Hd). unfold end_session.
  destruct (assoc cl (a_cl st)) as [s|] eqn:Ea; [|repeat split; assumption].
  destruct (c_persist s).
  - repeat split; cbn; try assumption.
    constructor; [|apply Forall_remove_key, Hc].
    apply assoc_In in Ea. rewrite Forall_forall in Hc. destruct (Hc _ Ea) as (Hq & _).
    split; cbn; [exact Hq | split; [exact I | constructor]].
  - repeat split; cbn; try assumption; apply Forall_remove_key; assumption.
Qed.

Lemma publish_will_ok (sel : oracle) (st : ast) (cl : client) (w : option will) :
  inv st -> inv (fst (publish_will sel st cl w)) /\ deliveries_ok (snd (publish_will sel st cl w)).
Proof.
  intro Hi. unfold Acl.publish_will.
  destruct w as [w|]; [|split; [exact Hi | apply deliveries_ok_nil]].
  destruct (valid_pub_topic (w_topic w) && perm cl (w_topic w) true) eqn:Ec;
    [|split; [exact Hi | apply deliveries_ok_nil]].
  apply andb_prop in Ec. destruct Ec as [Ev Ep].
  assert (Hm : msg_ok (mkM (Some cl) (w_topic w) (w_payload w) (w_qos w) (w_retain w))) by (cbn; split; assumption).
  destruct (w_delay w).
  - cbn [fst snd]. split; [|apply deliveries_ok_nil].
    destruct Hi as (Hs & Hr & Hc & Hd). repeat split; cbn; try assumption.
    constructor; [exact Hm | apply Forall_remove_key, Hd].
  - apply route_ok; assumption.
Qed.

Lemma send_will_ok (sel : oracle) (st : ast) (cl : client) :
  inv st -> inv (fst (send_will sel st cl)) /\ deliveries_ok (snd (send_will sel st cl)).
Proof.
  intro Hi. unfold Acl.send_will.
  destruct (assoc cl (a_cl st)) as [s|]; [apply publish_will_ok, Hi | split; [exact Hi | apply deliveries_ok_nil]].
Qed.

Lemma close_with_will_ok (sel : oracle) (st : ast) (cl : client) :
  inv st -> inv (fst (close_with_will sel st cl)) /\ deliveries_ok (snd (close_with_will sel st cl)).
Proof.
  intro Hi. unfold Acl.close_with_will. pose proof (send_will_ok sel st cl Hi) as H.
  destruct (send_will sel st cl) as [st1 evs]. cbn [fst snd] in *. destruct H as [H1 H2].
  split; [apply end_session_ok, H1|].
  apply deliveries_ok_cons_other; [cbn; discriminate | exact H2].
Qed.

Lemma sub_codes_granted (ver : N) (ob : bool) (cl : client) (fs : list (bytes * (N * bool))) :
  forall f o, In (f, o) (snd (sub_codes ver ob cl fs)) -> valid_filter f = true /\ perm cl f false = true.
Proof.
  induction fs as [|[f0 [q0 nl0]] r IH]; cbn [Acl.sub_codes]; [intros f o []|].
  destruct (sub_codes ver ob cl r) as [codes gr]. cbn [snd] in IH.
  destruct (valid_filter f0) eqn:Ev; cbn [negb]; [|exact IH].
  destruct (nl0 && is_shared f0); [exact IH|].
  destruct (perm cl f0 false) eqn:Ep; cbn [negb]; [|exact IH].
  cbn [snd]. intros f o [E|Hin]; [injection E as <- <-; split; assumption | apply IH with o; exact Hin].
Qed.

Lemma add_sub_ok (cl : client) (gr : list (bytes * (N * bool))) (subs : list subent) :
  Forall sub_ok subs -> (forall f o, In (f, o) gr -> valid_filter f = true /\ perm cl f false = true) ->
  Forall sub_ok (add_sub cl gr subs).
Proof.
  revert subs. induction gr as [|[f o] r IH]; intros subs Hs Hg; cbn [add_sub]; [exact Hs|].
  apply IH.
  - constructor; [apply (Hg f o); left; reflexivity | apply Forall_filter, Hs].
  - intros f' o' Hin. apply (Hg f' o'). right; exact Hin.
Qed.

Lemma replay_one_ok (cl : client) (f : bytes) (nl : bool) (ret : list (bytes * msg)) :
  valid_filter f = true -> perm cl f false = true -> Forall ret_ok ret -> deliveries_ok (replay_one cl f nl ret).
Proof.
  intros Hv Hp Hr c m Hin. unfold Acl.replay_one in Hin.
  destruct (is_shared f) eqn:Esh; [destruct Hin|].
  apply in_map_iff in Hin.
  destruct Hin as (e & E & Hin). injection E as <- <-. apply filter_In in Hin. destruct Hin as [Hin Hc].
  apply andb_prop in Hc. destruct Hc as [Hc Hrd]. apply andb_prop in Hc. destruct Hc as [Hm _].
  rewrite Forall_forall in Hr. destruct (Hr e Hin) as [Hk Hok]. rewrite Hk in Hm, Hrd.
  split; [exact Hrd|]. split; [exact Hok|]. exists f. unfold Acl.eff_of. rewrite Esh. auto.
Qed.

Lemma replay_granted_ok (cl : client) (gr : list (bytes * (N * bool))) (ret : list (bytes * msg)) :
  (forall f o, In (f, o) gr -> valid_filter f = true /\ perm cl f false = true) -> Forall ret_ok ret ->
  deliveries_ok (replay_granted cl gr ret).
Proof.
  intros Hg Hr. induction gr as [|[f o] r IH]; cbn; [apply deliveries_ok_nil|].
  apply deliveries_ok_app.
  - destruct (Hg f o (or_introl eq_refl)) as [Hv Hp]. apply replay_one_ok; assumption.
  - apply IH. intros f' o' Hin. apply (Hg f' o'). right; exact Hin.
Qed.

Lemma clear_will_ok (cls : list (client * sess)) (c : client) : Forall sess_ok cls -> Forall sess_ok (clear_will cls c).
Proof.
  induction 1 as [|[k s] l Hx Hl IH]; cbn; [constructor|]. constructor; [|exact IH].
  destruct (beq_bytes k c); [|exact Hx].
  destruct Hx as (Hq & _ & Ha). split; [exact Hq | split; [exact I | exact Ha]].
Qed.

Lemma fire_ok (sel : oracle) (ds : list (client * msg)) : forall st, inv st -> Forall del_ok ds ->
  inv (fst (fire sel st ds)) /\ deliveries_ok (snd (fire sel st ds)).
Proof.
  induction ds as [|[c m] r IH]; intros st Hi Hd; cbn [Acl.fire].
  - split; [exact Hi | apply deliveries_ok_nil].
  - inversion Hd as [|x l Hm Hr]; subst. cbn in Hm.
    destruct Hi as (Hs & Hrt & Hc & Hdl).
    pose proof (fanout_ok sel (a_subs st) m (a_cl st) Hs Hm Hc) as Hf.
    destruct (fanout sel (a_subs st) m (a_cl st)) as [cls' evs]. cbn [fst snd] in Hf. destruct Hf as [Hf1 Hf2].
    set (ret' := match assoc c (a_cl st) with
                 | Some _ => if m_retain m then retain (a_ret st) m else a_ret st
                 | None => a_ret st end).
    assert (Hret : Forall ret_ok ret').
    { unfold ret'. destruct (assoc c (a_cl st)); [|exact Hrt].
      destruct (m_retain m); [apply retain_ok; assumption | exact Hrt]. }
    specialize (IH (mkAst (clear_will cls' c) (a_subs st) ret' (a_delayed st))).
    destruct (fire sel (mkAst (clear_will cls' c) (a_subs st) ret' (a_delayed st)) r) as [st' evs'].
    cbn [fst snd] in *. destruct IH as [IH1 IH2]; [repeat split; cbn; try assumption; apply clear_will_ok, Hf1 | exact Hr |].
    split; [exact IH1 | apply deliveries_ok_app; assumption].
Qed.

Lemma online_In (st : ast) (cl : client) (s : sess) : online st cl = Some s -> In (cl, s) (a_cl st).
Proof.
  unfold online. destruct (assoc cl (a_cl st)) as [s'|] eqn:E; [|discriminate].
  destruct (c_online s'); [|discriminate]. intro H. injection H as <-. apply assoc_In, E.
Qed.

Lemma set_sess_ok (st : ast) (cl : client) (s : sess) : inv st -> sess_ok (cl, s) -> inv (set_sess st cl s).
Proof.
  intros (Hs & Hr & Hc & Hd) Hx. repeat split; cbn; try assumption.
  constructor; [exact Hx | apply Forall_remove_key, Hc].
Qed.

Theorem astep_ok (ob : bool) (sel : oracle) (st : ast) (o : aop) :
  inv st -> inv (fst (astep ob sel st o)) /\ deliveries_ok (snd (astep ob sel st o)).
Proof.
  intro Hi.
  destruct o as [cl ver clean w|cl|cl|cl|cl topic payload qos rt pid alias|cl pid|cl pid fs|topic payload rt| |];
    cbn [Acl.astep].
  - (* connect, also over a live connection *)
    destruct (match w with Some w' => negb (valid_pub_topic (w_topic w')) | None => false end) eqn:Ew.
    { cbn [fst snd]. split; [exact Hi|].
      apply deliveries_ok_cons_other; [cbn; discriminate|].
      apply deliveries_ok_cons_other; [cbn; discriminate | apply deliveries_ok_nil]. }
    set (sp := match assoc cl (a_cl st) with
               | Some s => negb clean && negb (negb (c_persist s) && (c_ver s <? 5)) | None => false end).
    set (queue := match assoc cl (a_cl st) with Some s => if sp then c_queue s else [] | None => [] end).
    set (inq2 := match assoc cl (a_cl st) with Some s => if sp then c_inq2 s else [] | None => [] end).
    set (st1 := mkAst ((cl, mkC ver true (negb clean) w [] [] inq2) :: remove_key cl (a_cl st))
                      (if sp then a_subs st else remove_key cl (a_subs st)) (a_ret st) (remove_key cl (a_delayed st))).
    set (evs1 := (cl, AConnack true sp) :: map (fun m => (cl, ADeliver m)) queue
                 ++ map (fun pid => (cl, AAck T_PUBREC pid 0)) inq2).
    assert (H1 : inv st1).
    { destruct Hi as (Hs & Hr & Hc & Hd). repeat split; cbn [st1 a_subs a_ret a_cl a_delayed].
      - destruct sp; [exact Hs | apply Forall_remove_key, Hs].
      - exact Hr.
      - constructor; [|apply Forall_remove_key, Hc]. split; cbn; [constructor|]. split; [|constructor].
        destruct w as [w'|]; cbn; [|exact I]. cbn in Ew. destruct (valid_pub_topic (w_topic w')); [reflexivity | discriminate].
      - apply Forall_remove_key, Hd. }
    assert (H2 : deliveries_ok evs1).
    { unfold evs1. apply deliveries_ok_cons_other; [cbn; discriminate|]. apply deliveries_ok_app.
      - unfold queue. destruct (assoc cl (a_cl st)) as [s|] eqn:Ea; [|apply deliveries_ok_nil].
        destruct sp; [|apply deliveries_ok_nil].
        destruct Hi as (_ & _ & Hc & _).
        apply assoc_In in Ea. rewrite Forall_forall in Hc. destruct (Hc _ Ea) as [Hq _]. cbn in Hq.
        intros c m Hin. apply in_map_iff in Hin. destruct Hin as (m' & E & Hin). injection E as <- <-.
        rewrite Forall_forall in Hq. apply Hq, Hin.
      - apply deliveries_ok_acks. intros; discriminate. }
    destruct (assoc cl (a_cl st)) as [s|] eqn:Ea; [|split; assumption].
    destruct (c_online s); [|split; assumption].
    pose proof (publish_will_ok sel st1 cl (c_will s) H1) as H.
    destruct (publish_will sel st1 cl (c_will s)) as [st2 evs2]. cbn [fst snd] in *. destruct H as [H3 H4].
    split; [exact H3|]. apply deliveries_ok_app; [exact H2|].
    apply deliveries_ok_cons_other; [cbn; discriminate | exact H4].
  - (* DISCONNECT *)
    destruct (online st cl); [|split; [exact Hi | apply deliveries_ok_nil]].
    cbn [fst snd]. split.
    + pose proof (end_session_ok st cl Hi) as (Hs & Hr & Hc & Hd).
      repeat split; cbn; try assumption. apply Forall_remove_key, Hd.
    + apply deliveries_ok_cons_other; [cbn; discriminate | apply deliveries_ok_nil].
  - (* DISCONNECT with will *)
    destruct (online st cl); [apply close_with_will_ok, Hi | split; [exact Hi | apply deliveries_ok_nil]].
  - (* network close *)
    destruct (online st cl); [apply close_with_will_ok, Hi | split; [exact Hi | apply deliveries_ok_nil]].
  - (* publish, possibly through a topic alias *)
    destruct (online st cl) as [s|] eqn:Eo; [|split; [exact Hi | apply deliveries_ok_nil]].
    destruct (has_wild topic || (nilb topic && (alias =? 0))); [apply close_with_will_ok, Hi|].
    destruct (valid_pub_topic topic) eqn:Ev; cbn [negb].
    2:{ cbn [fst snd]. split; [exact Hi|]. destruct (qos =? 0); [apply deliveries_ok_nil|].
        apply deliveries_ok_cons_other; [cbn; discriminate | apply deliveries_ok_nil]. }
    destruct (perm cl topic true) eqn:Ep; cbn [negb].
    2:{ destruct (qos =? 0); [split; [exact Hi | apply deliveries_ok_nil]|].
        destruct (negb (c_ver s =? 5)); [apply close_with_will_ok, Hi|].
        cbn [fst snd]. split; [exact Hi|].
        apply deliveries_ok_cons_other; [cbn; discriminate | apply deliveries_ok_nil]. }
    destruct ((0 <? qos) && memN pid (c_inq2 s)).
    { cbn [fst snd]. split; [exact Hi|].
      apply deliveries_ok_cons_other; [cbn; discriminate | apply deliveries_ok_nil]. }
    (* the session's own invariant *)
    pose proof (online_In st cl s Eo) as Hin.
    assert (Hsess : sess_ok (cl, s)).
    { destruct Hi as (_ & _ & Hc & _). rewrite Forall_forall in Hc. apply (Hc _ Hin). }
    destruct Hsess as (Hq & Hw & Ha). cbn [fst snd] in Hq, Hw, Ha.
    (* the resolved topic is one the client may publish to *)
    set (resolved := if alias =? 0 then Some topic else if nilb topic then alias_get alias (c_alias s) else Some topic).
    assert (Hres : forall t, resolved = Some t -> perm cl t true = true /\ valid_pub_topic t = true).
    { unfold resolved. intros t. destruct (alias =? 0); [intro E; injection E as <-; split; assumption|].
      destruct (nilb topic); [|intro E; injection E as <-; split; assumption].
      intro E. apply alias_get_In in E. rewrite Forall_forall in Ha. apply (Ha _ E). }
    destruct resolved as [t|]; [|apply close_with_will_ok, Hi].
    destruct (Hres t eq_refl) as [Hpt Hvt].
    set (al' := if (0 <? alias) && negb (nilb topic) then alias_set alias topic (c_alias s) else c_alias s).
    set (q2' := if qos =? 2 then pid :: c_inq2 s else c_inq2 s).
    assert (Hal : Forall (alias_ok cl) al').
    { unfold al'. destruct ((0 <? alias) && negb (nilb topic)); [|exact Ha].
      unfold alias_set. constructor; [split; cbn; assumption | apply Forall_filter, Ha]. }
    assert (H0 : inv (set_sess st cl (mkC (c_ver s) true (c_persist s) (c_will s) (c_queue s) al' q2'))).
    { apply set_sess_ok; [exact Hi|]. split; cbn; [exact Hq | split; assumption]. }
    assert (Hm : msg_ok (mkM (Some cl) t payload qos rt)) by (cbn; split; assumption).
    pose proof (route_ok sel _ _ H0 Hm) as H.
    destruct (route sel (set_sess st cl (mkC (c_ver s) true (c_persist s) (c_will s) (c_queue s) al' q2'))
                    (mkM (Some cl) t payload qos rt)) as [st' evs]. cbn [fst snd] in *.
    destruct H as [H1 H2]. split; [exact H1|].
    apply deliveries_ok_app; [|exact H2].
    destruct (qos =? 0); [apply deliveries_ok_nil|].
    apply deliveries_ok_cons_other; [cbn; discriminate | apply deliveries_ok_nil].
  - (* PUBREL *)
    destruct (online st cl) as [s|] eqn:Eo; [|split; [exact Hi | apply deliveries_ok_nil]].
    destruct (memN pid (c_inq2 s)); cbn [fst snd].
    + split; [|apply deliveries_ok_cons_other; [cbn; discriminate | apply deliveries_ok_nil]].
      apply set_sess_ok; [exact Hi|].
      pose proof (online_In st cl s Eo) as Hin. destruct Hi as (_ & _ & Hc & _).
      rewrite Forall_forall in Hc. destruct (Hc _ Hin) as (Hq & Hw & Ha). split; cbn; [exact Hq | split; assumption].
    + split; [exact Hi | apply deliveries_ok_cons_other; [cbn; discriminate | apply deliveries_ok_nil]].
  - (* subscribe *)
    destruct (online st cl) as [s|]; [|split; [exact Hi | apply deliveries_ok_nil]].
    pose proof (sub_codes_granted (c_ver s) ob cl fs) as Hg.
    destruct (sub_codes (c_ver s) ob cl fs) as [codes gr]. cbn [fst snd] in *.
    destruct Hi as (Hs & Hr & Hc & Hd). split.
    + repeat split; cbn; try assumption. apply add_sub_ok; assumption.
    + apply deliveries_ok_cons_other; [cbn; discriminate|]. apply replay_granted_ok; assumption.
  - (* inline publish *)
    apply route_ok; [exact Hi | exact I].
  - (* will tick *)
    pose proof (fire_ok sel (a_delayed st) st Hi) as H.
    destruct Hi as (Hs & Hr & Hc & Hd). specialize (H Hd).
    destruct (fire sel st (a_delayed st)) as [st' evs]. cbn [fst snd] in *. destruct H as [(Hs' & Hr' & Hc' & Hd') H2].
    split; [|exact H2]. repeat split; cbn; try assumption. constructor.
  - (* session expiry *)
    cbn [fst snd]. split; [|apply deliveries_ok_nil].
    destruct Hi as (Hs & Hr & Hc & Hd). repeat split; cbn; try assumption; apply Forall_filter; assumption.
Qed.

Theorem arun_ok (ob : bool) (ops : list (oracle * aop)) : forall st, inv st ->
  inv (fst (arun ob st ops)) /\ Forall deliveries_ok (snd (arun ob st ops)).
Proof.
  induction ops as [|[sel o] r IH]; intros st Hi; cbn [Acl.arun].
  - split; [exact Hi | constructor].
  - pose proof (astep_ok ob sel st o Hi) as H. destruct (astep ob sel st o) as [st1 evs]. cbn [fst snd] in H.
    destruct H as [H1 H2]. specialize (IH st1 H1). destruct (arun ob st1 r) as [st2 rest]. cbn [fst snd] in *.
    destruct IH as [IH1 IH2]. split; [exact IH1 | constructor; assumption].
Qed.

(* ---------- the clauses of C17 over every history from the empty broker ---------- *)

Definition reachable (ob : bool) (st : ast) : Prop := exists ops, fst (arun ob a_init ops) = st.
Definition emitted (ob : bool) (evs : list (client * aev)) : Prop := exists ops, In evs (snd (arun ob a_init ops)).

Lemma reachable_inv (ob : bool) (st : ast) : reachable ob st -> inv st.
Proof. intros [ops <-]. apply arun_ok, inv_init. Qed.

Lemma emitted_ok (ob : bool) (evs : list (client * aev)) : emitted ob evs -> deliveries_ok evs.
Proof.
  intros [ops Hin]. pose proof (arun_ok ob ops a_init inv_init) as [_ H].
  rewrite Forall_forall in H. apply H, Hin.
Qed.

(* read: nobody receives a message on a topic it may not read (live fan-out incl. share groups, retained
   replay, resend to a resumed or taken-over session) *)
Theorem read_enforced (ob : bool) (evs : list (client * aev)) (c : client) (m : msg) :
  emitted ob evs -> In (c, ADeliver m) evs -> perm c (m_topic m) false = true.
Proof. intros He Hin. apply (emitted_ok ob evs He c m Hin). Qed.

(* write: whatever is delivered, retained, kept for an offline session or waiting as a delayed will and
   stems from a non-inline client was published with write permission on a valid non-$SYS topic name; and
   every topic alias of a connection is bound to such a topic (no bypass through an alias) *)
Theorem write_enforced (ob : bool) :
  (forall evs c m, emitted ob evs -> In (c, ADeliver m) evs -> msg_ok m) /\
  (forall st, reachable ob st ->
     (forall t m, In (t, m) (a_ret st) -> t = m_topic m /\ msg_ok m) /\
     (forall c s m, In (c, s) (a_cl st) -> In m (c_queue s) -> msg_ok m /\ perm c (m_topic m) false = true) /\
     (forall c m, In (c, m) (a_delayed st) -> msg_ok m) /\
     (forall c s a t, In (c, s) (a_cl st) -> In (a, t) (c_alias s) -> perm c t true = true /\ valid_pub_topic t = true)).
Proof.
  split.
  - intros evs c m He Hin. apply (emitted_ok ob evs He c m Hin).
  - intros st Hr. destruct (reachable_inv ob st Hr) as (Hs & Hrt & Hc & Hd). split; [|split; [|split]].
    + intros t m Hin. rewrite Forall_forall in Hrt. apply (Hrt _ Hin).
    + intros c s m Hin Hq. rewrite Forall_forall in Hc. destruct (Hc _ Hin) as [Hqs _].
      rewrite Forall_forall in Hqs. destruct (Hqs _ Hq) as (A & B & _). split; assumption.
    + intros c m Hin. rewrite Forall_forall in Hd. apply (Hd _ Hin).
    + intros c s a t Hin Ha. rewrite Forall_forall in Hc. destruct (Hc _ Hin) as (_ & _ & Hal).
      rewrite Forall_forall in Hal. apply (Hal _ Ha).
Qed.

(* the reason codes of a SUBSCRIBE, filter by filter *)
Definition code_of (ver : N) (ob : bool) (cl : client) (f : bytes) (q : N) (nl : bool) : N :=
  if negb (valid_filter f) then v3map ver 143
  else if nl && is_shared f then v3map ver 130
  else if negb (perm cl f false) then v3map ver (if ob then 128 else 135) else v3map ver q.

Lemma sub_codes_nth (ver : N) (ob : bool) (cl : client) (fs : list (bytes * (N * bool))) :
  length (fst (sub_codes ver ob cl fs)) = length fs /\
  forall i f q nl, nth_error fs i = Some (f, (q, nl)) ->
    nth_error (fst (sub_codes ver ob cl fs)) i = Some (code_of ver ob cl f q nl).
Proof.
  induction fs as [|[f0 [q0 nl0]] r [IHl IH]]; cbn [Acl.sub_codes].
  - split; [reflexivity | intros [|i] f q nl H; discriminate].
  - destruct (sub_codes ver ob cl r) as [codes gr]. cbn [fst] in *.
    assert (Hhd : fst (if negb (valid_filter f0) then (v3map ver 143 :: codes, gr)
                        else if nl0 && is_shared f0 then (v3map ver 130 :: codes, gr)
                        else if negb (perm cl f0 false) then (v3map ver (if ob then 128 else 135) :: codes, gr)
                        else (v3map ver q0 :: codes, (f0, (q0, nl0)) :: gr)) = code_of ver ob cl f0 q0 nl0 :: codes).
    { unfold code_of. destruct (negb (valid_filter f0)); [reflexivity|].
      destruct (nl0 && is_shared f0); [reflexivity|]. destruct (negb (perm cl f0 false)); reflexivity. }
    rewrite Hhd. split; [cbn; lia|].
    intros [|i] f q nl H; cbn in H |- *; [injection H as <- <- <-; reflexivity | apply IH, H].
Qed.

(* subscriptions: a denied filter (the string the client sent, with its $share prefix if any) is
   answered 0x87 (0x80 when obscured or MQTT 3), only valid permitted filters are ever in the index, and
   every delivery rests on such a filter whose effective filter matches the topic *)
Theorem sub_refused (ob : bool) :
  (forall ver cl fs i f q nl, nth_error fs i = Some (f, (q, nl)) -> valid_filter f = true -> nl && is_shared f = false ->
     perm cl f false = false ->
     nth_error (fst (sub_codes ver ob cl fs)) i = Some (if (ver <? 5) || ob then 128 else 135)) /\
  (forall st c f o, reachable ob st -> In (c, (f, o)) (a_subs st) -> valid_filter f = true /\ perm c f false = true) /\
  (forall evs c m, emitted ob evs -> In (c, ADeliver m) evs ->
     exists f, valid_filter f = true /\ perm c f false = true /\ matches (eff_of f) (m_topic m) = true).
Proof.
  split; [|split].
  - intros ver cl fs i f q nl Hn Hv Hnl Hp. destruct (sub_codes_nth ver ob cl fs) as [_ H]. rewrite (H i f q nl Hn).
    unfold code_of. rewrite Hv, Hnl, Hp. cbn [negb]. f_equal. unfold v3map. destruct ob; destruct (ver <? 5); reflexivity.
  - intros st c f o Hr Hin. destruct (reachable_inv ob st Hr) as (Hs & _). rewrite Forall_forall in Hs.
    apply (Hs _ Hin).
  - intros evs c m He Hin. apply (emitted_ok ob evs He c m Hin).
Qed.

(* $SYS: a client publish whose topic starts with $SYS changes nothing and reaches nobody *)
Theorem sys_refused (ob : bool) (sel : oracle) (st : ast) (cl : client) (topic payload : bytes) (qos : N) (rt : bool)
        (pid alias : N) :
  prefix (tag "$SYS") topic = true -> has_wild topic = false ->
  fst (astep ob sel st (APublish cl topic payload qos rt pid alias)) = st /\
  forall c m, ~ In (c, ADeliver m) (snd (astep ob sel st (APublish cl topic payload qos rt pid alias))).
Proof.
  intros Hp Hw. cbn [Acl.astep]. destruct (online st cl) as [s|]; [|split; [reflexivity | intros c m []]].
  rewrite Hw. assert (Hn : nilb topic = false) by (destruct topic; [discriminate Hp | reflexivity]).
  rewrite Hn. cbn [orb andb].
  unfold valid_pub_topic. rewrite Hp. cbn [negb andb fst snd]. split; [reflexivity|].
  intros c m. destruct (qos =? 0); cbn; [tauto | intros [E|[]]; discriminate].
Qed.

(* will topics: a CONNECT whose will topic is no valid topic name is refused and changes nothing (also
   when it would take over a live connection); every will a session holds has a valid topic name *)
Theorem will_topic_valid (ob : bool) :
  (forall sel st cl ver clean w, valid_pub_topic (w_topic w) = false ->
     astep ob sel st (AConnect cl ver clean (Some w)) = (st, [(cl, AConnack false false); (cl, AClosed)])) /\
  (forall st c s w, reachable ob st -> In (c, s) (a_cl st) -> c_will s = Some w -> valid_pub_topic (w_topic w) = true).
Proof.
  split.
  - intros sel st cl ver clean w Hv. cbn [Acl.astep]. rewrite Hv. reflexivity.
  - intros st c s w Hr Hin Hw. destruct (reachable_inv ob st Hr) as (_ & _ & Hc & _). rewrite Forall_forall in Hc.
    destruct (Hc _ Hin) as (_ & H & _). cbn in H. rewrite Hw in H. exact H.
Qed.

(* ---------- C30, server-level clause: an invalid filter is answered 0x8F (0x80 for MQTT 3) and creates
   nothing: no index entry ever holds an invalid filter and no delivery rests on one ---------- *)
Theorem subinvalid_code (ob : bool) (ver : N) (cl : client) (fs : list (bytes * (N * bool))) (i : nat) (f : bytes) (q : N) (nl : bool) :
  nth_error fs i = Some (f, (q, nl)) -> valid_filter f = false ->
  nth_error (fst (sub_codes ver ob cl fs)) i = Some (if ver <? 5 then 128 else 143) /\
  forall o, ~ In (f, o) (snd (sub_codes ver ob cl fs)).
Proof.
  intros Hn Hv. split.
  - destruct (sub_codes_nth ver ob cl fs) as [_ H]. rewrite (H i f q nl Hn). unfold code_of. rewrite Hv. cbn [negb].
    unfold v3map. destruct (ver <? 5); reflexivity.
  - intros o Hin. destruct (sub_codes_granted ver ob cl fs f o Hin) as [H _]. congruence.
Qed.

Theorem subinvalid_creates_nothing (ob : bool) (st : ast) (c : client) (f : bytes) (o : N * bool) :
  reachable ob st -> valid_filter f = false -> ~ In (c, (f, o)) (a_subs st).
Proof.
  intros Hr Hv Hin. destruct (reachable_inv ob st Hr) as (Hs & _). rewrite Forall_forall in Hs.
  destruct (Hs _ Hin) as [H _]. cbn in H. congruence.
Qed.

End Proofs.
