(* C17 — authorisation on every route a message can take.  A routing model of server.go over a
   permission relation [perm] (the answer of Hooks.OnACLCheck for a client id, a topic or filter, and
   read/write; a Section variable, so every theorem holds for ALL permission relations): the publish
   path (processPublish: wildcard / $SYS refusal, write check, QoS 2 packet-id check, topic-alias
   resolution AFTER the checks, retain, fan-out), the delivery path (publishToSubscribers with shared
   subscription groups and No-Local, publishToClient: read check at delivery time, also for retained
   replay and for messages in flight to an offline session), the subscribe path (processSubscribe:
   0x8F / 0x82 / 0x87 / 0x80, creation, retained replay), the will paths (validateConnect, sendLWT after
   fix 411d180, sendDelayedLWT, the will of a connection that is taken over), session resumption and
   takeover (inheritClientSession + ResendInflightMessages), session expiry (clearExpiredClients), the
   inbound QoS 2 exchange (PUBREC / PUBREL) and the inline client.  Specification (from the property
   text), monitors and the two engines [auth] and [subinvalid].  No proofs here. *)
From MV Require Import Base.Val Topics.Levels Topics.Match Hooks.Chain.
Open Scope N_scope.

Record msg := mkM { m_origin : option client;      (* None = the inline client / the server itself *)
                    m_topic : bytes; m_payload : bytes; m_qos : N; m_retain : bool }.
Record will := mkW { w_topic : bytes; w_payload : bytes; w_qos : N; w_retain : bool; w_delay : bool }.
(* a session known to the broker (an entry of Server.Clients) *)
Record sess := mkC { c_ver : N; c_online : bool; c_persist : bool; c_will : option will;
                     c_queue : list msg;            (* QoS > 0 messages in flight towards an offline session *)
                     c_alias : list (N * bytes);    (* inbound topic aliases of the connection *)
                     c_inq2 : list N }.             (* packet ids of inbound QoS 2 publishes awaiting PUBREL *)

(* a subscription: client, (filter as subscribed — with its $share/group/ prefix —, (qos, No-Local)) *)
Definition subent := (client * (bytes * (N * bool)))%type.
Definition se_filter (e : subent) : bytes := fst (snd e).
Definition se_qos (e : subent) : N := fst (snd (snd e)).
Definition se_nl (e : subent) : bool := snd (snd (snd e)).

Record ast := mkAst {
  a_cl : list (client * sess);
  a_subs : list subent;                             (* topic index *)
  a_ret : list (bytes * msg);                       (* retained store *)
  a_delayed : list (client * msg) }.                (* Server.loop.willDelayed *)
Definition a_init : ast := mkAst [] [] [] [].

Inductive aop :=
| AConnect (cl : client) (ver : N) (clean : bool) (w : option will)   (* also while the id is connected: takeover *)
| ADisconnect (cl : client)                                           (* DISCONNECT packet, reason 0x00 *)
| ADisconnectWill (cl : client)                                       (* MQTT 5 DISCONNECT with reason 0x04 *)
| ANetClose (cl : client)                                             (* the network connection drops *)
| APublish (cl : client) (topic payload : bytes) (qos : N) (retain : bool) (pid : N) (alias : N)   (* alias 0 = none *)
| APubrel (cl : client) (pid : N)
| ASubscribe (cl : client) (pid : N) (fs : list (bytes * (N * bool)))
| AInline (topic payload : bytes) (retain : bool)                     (* Server.Publish *)
| ATick                                                               (* sendDelayedLWT, every delayed will is due *)
| AExpire.                                                            (* clearExpiredClients, every offline session is due *)

Inductive aev :=
| AConnack (ok sp : bool)
| ADeliver (m : msg)
| AAck (ty pid rc : N)
| ASuback (pid : N) (codes : list N)
| AClosed.

Definition T_PUBCOMP := 7.
Definition memN (x : N) (l : list N) : bool := existsb (N.eqb x) l.
Fixpoint alias_get (a : N) (l : list (N * bytes)) : option bytes :=
  match l with [] => None | (k, t) :: r => if a =? k then Some t else alias_get a r end.
Definition alias_set (a : N) (t : bytes) (l : list (N * bytes)) : list (N * bytes) :=
  (a, t) :: filter (fun e => negb (a =? fst e)) l.

Section Acl.
Variable perm : client -> bytes -> bool -> bool.      (* OnACLCheck cl topic write *)
Variable matches : bytes -> bytes -> bool.            (* does the (plain) filter match the topic name *)
Variable valid_filter : bytes -> bool.                (* IsValidFilter(filter, false) *)
Variable is_shared : bytes -> bool.                   (* IsSharedFilter *)
Variable eff : bytes -> bytes.                        (* the filter behind $share/<group>/ *)

Definition has_wild (t : bytes) : bool := has 43 t || has 35 t.
Definition eff_of (f : bytes) : bytes := if is_shared f then eff f else f.
Definition origin_is (c : client) (m : msg) : bool :=
  match m_origin m with Some o => beq_bytes o c | None => false end.

(* [sel f c]: in this fan-out member c is the one chosen for the share group of filter f (SelectShared
   takes whichever member Go's map iteration yields first: an oracle) *)
Definition sub_hits (sel : bytes -> client -> bool) (t : bytes) (e : subent) : bool :=
  if is_shared (se_filter e) then matches (eff (se_filter e)) t && sel (se_filter e) (fst e)
  else matches (se_filter e) t.
(* the subscriptions of c through which topic t reaches it (Subscribers + MergeSharedSelected) *)
Definition matching (sel : bytes -> client -> bool) (subs : list subent) (c : client) (t : bytes) : list subent :=
  filter (fun e => beq_bytes (fst e) c && sub_hits sel t e) subs.
Definition maxq (l : list subent) : N := fold_right (fun e a => N.max (se_qos e) a) 0 l.

Definition enqueue (s : sess) (m : msg) : sess :=
  mkC (c_ver s) (c_online s) (c_persist s) (c_will s) (c_queue s ++ [m]) (c_alias s) (c_inq2 s).

(* publishToSubscribers / publishToClient over every session: No-Local (merged: any matching
   subscription asking for it), read check at delivery time; an offline session keeps a QoS > 0
   message in flight *)
Fixpoint fanout (sel : bytes -> client -> bool) (subs : list subent) (m : msg) (cls : list (client * sess))
  : list (client * sess) * list (client * aev) :=
  match cls with
  | [] => ([], [])
  | (c, s) :: r =>
      let '(r', evs) := fanout sel subs m r in
      match matching sel subs c (m_topic m) with
      | [] => ((c, s) :: r', evs)
      | ms =>
          if existsb se_nl ms && origin_is c m then ((c, s) :: r', evs)
          else if negb (perm c (m_topic m) false) then ((c, s) :: r', evs)
          else if c_online s then ((c, s) :: r', (c, ADeliver m) :: evs)
          else if 0 <? N.min (m_qos m) (maxq ms) then ((c, enqueue s m) :: r', evs)
          else ((c, s) :: r', evs)
      end
  end.

(* Topics.RetainMessage *)
Definition retain (ret : list (bytes * msg)) (m : msg) : list (bytes * msg) :=
  if nilb (m_payload m) then remove_key (m_topic m) ret else (m_topic m, m) :: remove_key (m_topic m) ret.

(* retain (if flagged) and fan out *)
Definition route (sel : bytes -> client -> bool) (st : ast) (m : msg) : ast * list (client * aev) :=
  let ret' := if m_retain m then retain (a_ret st) m else a_ret st in
  let '(cls', evs) := fanout sel (a_subs st) m (a_cl st) in
  (mkAst cls' (a_subs st) ret' (a_delayed st), evs).

(* the end of a connection: a persistent session stays (offline; will, aliases consumed), any other is
   removed together with its subscriptions *)
Definition end_session (st : ast) (cl : client) : ast :=
  match assoc cl (a_cl st) with
  | None => st
  | Some s =>
      if c_persist s then
        mkAst ((cl, mkC (c_ver s) false true None (c_queue s) [] (c_inq2 s)) :: remove_key cl (a_cl st))
              (a_subs st) (a_ret st) (a_delayed st)
      else mkAst (remove_key cl (a_cl st)) (remove_key cl (a_subs st)) (a_ret st) (a_delayed st)
  end.

(* sendLWT (after fix 411d180) for the will [w] of a connection of client id [cl]: a will is a publish by the client *)
Definition publish_will (sel : bytes -> client -> bool) (st : ast) (cl : client) (w : option will)
  : ast * list (client * aev) :=
  match w with
  | Some w =>
      if valid_pub_topic (w_topic w) && perm cl (w_topic w) true then
        let m := mkM (Some cl) (w_topic w) (w_payload w) (w_qos w) (w_retain w) in
        if w_delay w then (mkAst (a_cl st) (a_subs st) (a_ret st) ((cl, m) :: remove_key cl (a_delayed st)), [])
        else route sel st m
      else (st, [])
  | None => (st, [])
  end.
Definition send_will (sel : bytes -> client -> bool) (st : ast) (cl : client) : ast * list (client * aev) :=
  match assoc cl (a_cl st) with
  | Some s => publish_will sel st cl (c_will s)
  | None => (st, [])
  end.

(* a connection that ends with an error: will, then the session ends *)
Definition close_with_will (sel : bytes -> client -> bool) (st : ast) (cl : client) : ast * list (client * aev) :=
  let '(st1, evs) := send_will sel st cl in (end_session st1 cl, (cl, AClosed) :: evs).

(* processSubscribe, one reason code per filter *)
Fixpoint sub_codes (ver : N) (obscure : bool) (cl : client) (fs : list (bytes * (N * bool)))
  : list N * list (bytes * (N * bool)) :=
  match fs with
  | [] => ([], [])
  | (f, (q, nl)) :: r =>
      let '(codes, gr) := sub_codes ver obscure cl r in
      if negb (valid_filter f) then (v3map ver 143 :: codes, gr)                           (* 0x8F *)
      else if nl && is_shared f then (v3map ver 130 :: codes, gr)                          (* 0x82 *)
      else if negb (perm cl f false) then (v3map ver (if obscure then 128 else 135) :: codes, gr)
      else (v3map ver q :: codes, (f, (q, nl)) :: gr)
  end.

Fixpoint add_sub (cl : client) (fs : list (bytes * (N * bool))) (subs : list subent) : list subent :=
  match fs with
  | [] => subs
  | (f, o) :: r =>      (* in packet order: a filter repeated within one SUBSCRIBE keeps its last options *)
      add_sub cl r ((cl, (f, o)) :: filter (fun e => negb (beq_bytes (fst e) cl && beq_bytes (se_filter e) f)) subs)
  end.

(* publishRetainedToClient: not for shared filters; No-Local and the read check at delivery time *)
Definition replay_one (cl : client) (f : bytes) (nl : bool) (ret : list (bytes * msg)) : list (client * aev) :=
  if is_shared f then []
  else map (fun e => (cl, ADeliver (snd e)))
           (filter (fun e => matches f (fst e) && negb (nl && origin_is cl (snd e)) && perm cl (fst e) false) ret).
Definition replay_granted (cl : client) (gr : list (bytes * (N * bool))) (ret : list (bytes * msg)) : list (client * aev) :=
  flat_map (fun fo => replay_one cl (fst fo) (snd (snd fo)) ret) gr.

Definition clear_will (cls : list (client * sess)) (c : client) : list (client * sess) :=
  map (fun e => if beq_bytes (fst e) c
                then (fst e, mkC (c_ver (snd e)) (c_online (snd e)) (c_persist (snd e)) None (c_queue (snd e))
                                 (c_alias (snd e)) (c_inq2 (snd e)))
                else e) cls.

(* sendDelayedLWT: publish; if a session of that id (still or again) exists: retain, and that session's
   own will is wiped (cl.Properties.Will = Will{} hits the connection that took over, see C16) *)
Fixpoint fire (sel : bytes -> client -> bool) (st : ast) (ds : list (client * msg)) : ast * list (client * aev) :=
  match ds with
  | [] => (st, [])
  | (c, m) :: r =>
      let '(cls', evs) := fanout sel (a_subs st) m (a_cl st) in
      let ret' := match assoc c (a_cl st) with
                  | Some _ => if m_retain m then retain (a_ret st) m else a_ret st
                  | None => a_ret st end in
      let '(st', evs') := fire sel (mkAst (clear_will cls' c) (a_subs st) ret' (a_delayed st)) r in
      (st', evs ++ evs')
  end.

Definition online (st : ast) (cl : client) : option sess :=
  match assoc cl (a_cl st) with Some s => if c_online s then Some s else None | None => None end.

Definition set_sess (st : ast) (cl : client) (s : sess) : ast :=
  mkAst ((cl, s) :: remove_key cl (a_cl st)) (a_subs st) (a_ret st) (a_delayed st).

Definition astep (obscure : bool) (sel : bytes -> client -> bool) (st : ast) (o : aop) : ast * list (client * aev) :=
  match o with
  | AConnect cl ver clean w =>
      (* validateConnect (after fix 411d180): the will topic must be a topic name a client may publish to *)
      if match w with Some w' => negb (valid_pub_topic (w_topic w')) | None => false end then
        (st, [(cl, AConnack false false); (cl, AClosed)])
      else
        (* inheritClientSession + ResendInflightMessages; the delayed will of this id is cancelled; a
           connection of the same id that is still open is closed and — afterwards — publishes its will *)
        let old := assoc cl (a_cl st) in
        let sp := match old with
                  | Some s => negb clean && negb (negb (c_persist s) && (c_ver s <? 5))
                  | None => false end in
        let queue := match old with Some s => if sp then c_queue s else [] | None => [] end in
        let inq2 := match old with Some s => if sp then c_inq2 s else [] | None => [] end in
        let subs' := if sp then a_subs st else remove_key cl (a_subs st) in
        let st1 := mkAst ((cl, mkC ver true (negb clean) w [] [] inq2) :: remove_key cl (a_cl st)) subs' (a_ret st)
                         (remove_key cl (a_delayed st)) in
        let evs1 := (cl, AConnack true sp) :: map (fun m => (cl, ADeliver m)) queue
                    ++ map (fun pid => (cl, AAck T_PUBREC pid 0)) inq2 in
        match old with
        | Some s =>
            if c_online s then
              let '(st2, evs2) := publish_will sel st1 cl (c_will s) in (st2, evs1 ++ (cl, AClosed) :: evs2)
            else (st1, evs1)
        | None => (st1, evs1)
        end
  | ADisconnect cl =>
      match online st cl with
      | None => (st, [])
      | Some _ =>
          let st1 := end_session st cl in
          (mkAst (a_cl st1) (a_subs st1) (a_ret st1) (remove_key cl (a_delayed st1)), [(cl, AClosed)])
      end
  | ANetClose cl | ADisconnectWill cl =>                    (* Read ends with an error: sendLWT, then the session ends *)
      match online st cl with
      | None => (st, [])
      | Some _ => close_with_will sel st cl
      end
  | APublish cl topic payload qos rt pid alias =>
      match online st cl with
      | None => (st, [])
      | Some s =>
          if has_wild topic || (nilb topic && (alias =? 0)) then close_with_will sel st cl  (* PublishValidate *)
          else if negb (valid_pub_topic topic) then                                  (* $SYS *)
            (st, if qos =? 0 then [] else [(cl, AAck (ack_ty qos) pid 144)])
          else if negb (perm cl topic true) then          (* asked about the topic IN THE PACKET ("" for alias-only) *)
            if qos =? 0 then (st, [])
            else if negb (c_ver s =? 5) then close_with_will sel st cl               (* DisconnectClient 0x87 *)
            else (st, [(cl, AAck (ack_ty qos) pid 135)])
          else if (0 <? qos) && memN pid (c_inq2 s) then                             (* unreleased QoS 2 id: 0x91 *)
            (st, [(cl, AAck T_PUBREC pid 145)])
          else
            (* Inbound.Set: a packet with topic and alias (re)binds, an alias-only packet resolves *)
            let resolved := if alias =? 0 then Some topic
                            else if nilb topic then alias_get alias (c_alias s) else Some topic in
            match resolved with
            | None => close_with_will sel st cl                                      (* 0x94 alias never bound *)
            | Some t =>
                let al' := if (0 <? alias) && negb (nilb topic) then alias_set alias topic (c_alias s) else c_alias s in
                let q2' := if qos =? 2 then pid :: c_inq2 s else c_inq2 s in
                let st0 := set_sess st cl (mkC (c_ver s) true (c_persist s) (c_will s) (c_queue s) al' q2') in
                let '(st', evs) := route sel st0 (mkM (Some cl) t payload qos rt) in
                (st', (if qos =? 0 then [] else [(cl, AAck (ack_ty qos) pid 0)]) ++ evs)
            end
      end
  | APubrel cl pid =>
      match online st cl with
      | None => (st, [])
      | Some s =>
          if memN pid (c_inq2 s) then
            (set_sess st cl (mkC (c_ver s) true (c_persist s) (c_will s) (c_queue s) (c_alias s)
                                 (filter (fun x => negb (pid =? x)) (c_inq2 s))),
             [(cl, AAck T_PUBCOMP pid 0)])
          else (st, [(cl, AAck T_PUBCOMP pid 146)])                                  (* 0x92 *)
      end
  | ASubscribe cl pid fs =>
      match online st cl with
      | None => (st, [])
      | Some s =>
          let '(codes, gr) := sub_codes (c_ver s) obscure cl fs in
          (mkAst (a_cl st) (add_sub cl gr (a_subs st)) (a_ret st) (a_delayed st),
           (cl, ASuback pid codes) :: replay_granted cl gr (a_ret st))
      end
  | AInline topic payload rt => route sel st (mkM None topic payload 0 rt)
  | ATick =>
      let '(st', evs) := fire sel st (a_delayed st) in
      (mkAst (a_cl st') (a_subs st') (a_ret st') [], evs)
  | AExpire =>
      (* every session whose connection has ended is dropped with its subscriptions and in-flight messages *)
      let gone := map fst (filter (fun e => negb (c_online (snd e))) (a_cl st)) in
      (mkAst (filter (fun e => c_online (snd e)) (a_cl st)) (filter (fun e => negb (memb (fst e) gone)) (a_subs st))
             (a_ret st) (a_delayed st), [])
  end.

(* a history: every step with its own share-group oracle *)
Fixpoint arun (obscure : bool) (st : ast) (ops : list ((bytes -> client -> bool) * aop)) : ast * list (list (client * aev)) :=
  match ops with
  | [] => (st, [])
  | (sel, o) :: r => let '(st1, evs) := astep obscure sel st o in
                     let '(st2, rest) := arun obscure st1 r in (st2, evs :: rest)
  end.

(* ---------- specification (from the property text) ---------- *)

(* a message may travel: its origin (unless it is the inline client) holds write permission on the
   topic, which is a valid topic name outside $SYS *)
Definition msg_ok (m : msg) : Prop :=
  match m_origin m with
  | Some o => perm o (m_topic m) true = true /\ valid_pub_topic (m_topic m) = true
  | None => True
  end.
(* a delivery to c is justified by a valid filter that c was permitted to subscribe to and whose
   effective filter (behind $share/<group>/) matches the topic *)
Definition justified (c : client) (m : msg) : Prop :=
  exists f, valid_filter f = true /\ perm c f false = true /\ matches (eff_of f) (m_topic m) = true.

Definition deliveries_ok (evs : list (client * aev)) : Prop :=
  forall c m, In (c, ADeliver m) evs -> perm c (m_topic m) false = true /\ msg_ok m /\ justified c m.

End Acl.

(* ---------- monitors: the property text evaluated on what the real broker did ---------- *)

(* observed step: operation, what every connection received, retained store, topic index and client
   subscription maps after the step *)
Inductive oevt :=
| XConnack (ok sp : bool)
| XPublish (topic payload : bytes)
| XAck (ty pid rc : N)
| XSuback (pid : N) (codes : bytes)
| XClosed.
Record astepobs := mkAO { ao_op : aop; ao_evs : list (client * oevt); ao_ret : list (bytes * bytes);
                          ao_subs : list (bytes * bytes); ao_clsubs : list (bytes * bytes) }.

Definition acl_table := list (bytes * (bytes * bool)).
Definition perm_of (tbl : acl_table) : client -> bytes -> bool -> bool := acl_fn tbl.

(* who sent the message: first payload byte = index into the client table, 255 = the inline client *)
Definition origin_of (clients : list bytes) (payload : bytes) : option (option client) :=
  match payload with
  | [] => None
  | x :: _ => if x =? 255 then Some None else match nth_error clients (N.to_nat x) with Some c => Some (Some c) | None => None end
  end.

Definition write_ok (tbl : acl_table) (clients : list bytes) (t p : bytes) : bool :=
  match origin_of clients p with
  | Some (Some o) => perm_of tbl o t true && valid_pub_topic t
  | Some None => true
  | None => false                      (* a message nobody sent *)
  end.

Definition has_sub (subs : list (bytes * bytes)) (c f : bytes) : bool :=
  existsb (fun e => beq_bytes (fst e) c && beq_bytes (snd e) f) subs.

(* clause numbers: 1 read  2 write (forward, will, replay, resend, alias)  3 retained store  4 refused subscription
   5 unjustified delivery  6 invalid will topic admitted  7 invalid filter (0x8F / 0x80, nothing created) *)
Definition amonitor (tbl : acl_table) (clients : list bytes) (obscure : bool) (ver : N)
           (prev_subs : list (bytes * bytes)) (s : astepobs) : N :=
  let pubs := flat_map (fun e => match snd e with XPublish t p => [(fst e, (t, p))] | _ => [] end) (ao_evs s) in
  if existsb (fun e => negb (perm_of tbl (fst e) (fst (snd e)) false)) pubs then 1
  else if existsb (fun e => negb (write_ok tbl clients (fst (snd e)) (snd (snd e)))) pubs then 2
  else if existsb (fun e => negb (write_ok tbl clients (fst e) (snd e))) (ao_ret s) then 3
  else if existsb (fun e => negb (existsb (fun sb => beq_bytes (fst sb) (fst e) && valid_filter_spec (snd sb) &&
                                                    perm_of tbl (fst e) (snd sb) false &&
                                                    topic_matches (eff_filter (snd sb)) (fst (snd e))) (prev_subs ++ ao_subs s))) pubs then 5
  else
    match ao_op s with
    | ASubscribe cl pid fs =>
        let codes := flat_map (fun e => match snd e with XSuback _ cs => if beq_bytes (fst e) cl then cs else [] | _ => [] end) (ao_evs s) in
        let absent f := negb (has_sub (ao_subs s) cl f) && negb (has_sub (ao_clsubs s) cl f) in
        (* a filter that is granted elsewhere in the same packet may of course be present *)
        let granted_elsewhere f := existsb (fun fo => beq_bytes (fst fo) f && valid_filter_spec f && perm_of tbl cl f false
                                                      && negb (snd (snd fo) && is_share f)) fs in
        let fix chk (fs : list (bytes * (N * bool))) (cs : bytes) : N :=
          match fs, cs with
          | (f, (_, nl)) :: fr, c :: cr =>
              if negb (valid_filter_spec f) then
                if (c =? (if ver <? 5 then 128 else 143)) && absent f then chk fr cr else 7
              else if nl && is_share f then chk fr cr                    (* protocol error 0x82: C07's business *)
              else if negb (perm_of tbl cl f false) then
                if (c =? (if (ver <? 5) || obscure then 128 else 135)) && (absent f || granted_elsewhere f) then chk fr cr else 4
              else chk fr cr
          | _, _ => 0            (* end, or no SUBACK (connection closed): nothing to judge here *)
          end in
        chk fs codes
    | AConnect cl _ _ (Some w) =>
        if negb (valid_pub_topic (w_topic w)) &&
           existsb (fun e => beq_bytes (fst e) cl && match snd e with XConnack true _ => true | _ => false end) (ao_evs s)
        then 6 else 0
    | _ => 0
    end.

(* ---------- comparison with the model ---------- *)
Definition proj_ev (e : client * aev) : client * oevt :=
  (fst e, match snd e with
          | AConnack ok sp => XConnack ok sp
          | ADeliver m => XPublish (m_topic m) (m_payload m)
          | AAck ty pid rc => XAck ty pid rc
          | ASuback pid cs => XSuback pid cs
          | AClosed => XClosed end).
Definition beq_oevt (v5 : bool) (a b : oevt) : bool :=
  match a, b with
  | XConnack x y, XConnack x' y' => Bool.eqb x x' && (negb x || Bool.eqb y y')
  | XPublish t p, XPublish t' p' => beq_bytes t t' && beq_bytes p p'
  | XAck ty pid rc, XAck ty' pid' rc' =>      (* success-class reasons are not told apart *)
      (ty =? ty') && (pid =? pid') && (negb v5 || (rc =? rc') || ((rc <? 128) && (rc' <? 128)))
  | XSuback pid cs, XSuback pid' cs' => (pid =? pid') && beq_bytes cs cs'
  | XClosed, XClosed => true
  | _, _ => false
  end.
(* per client id the same events up to order (fan-out of several wills, retained replay and resend
   follow Go map iteration; at a takeover the old and the new connection share the id) *)
Fixpoint remove_first {A} (eq : A -> A -> bool) (x : A) (l : list A) : option (list A) :=
  match l with
  | [] => None
  | y :: r => if eq x y then Some r else match remove_first eq x r with Some r' => Some (y :: r') | None => None end
  end.
Fixpoint perm_eq {A} (eq : A -> A -> bool) (a b : list A) : bool :=
  match a with
  | [] => nilb b
  | x :: r => match remove_first eq x b with Some b' => perm_eq eq r b' | None => false end
  end.
Definition xevs_of (cl : client) (evs : list (client * oevt)) : list oevt :=
  map snd (filter (fun e => beq_bytes (fst e) cl) evs).
Definition aevs_match (ver_of : client -> N) (model obs : list (client * oevt)) : bool :=
  forallb (fun c => perm_eq (beq_oevt (ver_of c =? 5)) (xevs_of c model) (xevs_of c obs)) (map fst model ++ map fst obs).

(* acknowledgements are compared leniently unless both the old and the new connection speak MQTT 5 *)
Definition aver (st : ast) (o : aop) (c : client) : N :=
  let cur := match assoc c (a_cl st) with Some s => c_ver s | None => 5 end in
  match o with
  | AConnect cl ver _ _ => if beq_bytes c cl then (if (ver =? 5) && (cur =? 5) then 5 else 0) else cur
  | _ => cur
  end.

Definition ret_proj (ret : list (bytes * msg)) : list (bytes * bytes) := map (fun e => (fst e, m_payload (snd e))) ret.
Definition subs_proj (subs : list subent) : list (bytes * bytes) := map (fun e => (fst e, se_filter e)) subs.

Definition astep_matches (st st' : ast) (evs : list (client * aev)) (s : astepobs) : bool :=
  aevs_match (aver st (ao_op s)) (map proj_ev evs) (ao_evs s) &&
  same_set (ret_proj (a_ret st')) (ao_ret s) && same_set (subs_proj (a_subs st')) (ao_subs s) &&
  same_set (subs_proj (a_subs st')) (ao_clsubs s).

(* the share-group oracle: every way of choosing one member per shared filter in the index *)
Definition share_groups (subs : list subent) : list (bytes * list client) :=
  fold_right (fun e acc =>
                if is_share (se_filter e) then
                  match assoc (se_filter e) acc with
                  | Some ms => (se_filter e, fst e :: ms) :: remove_key (se_filter e) acc
                  | None => (se_filter e, [fst e]) :: acc
                  end
                else acc) [] subs.
Fixpoint choices (gs : list (bytes * list client)) : list (list (bytes * client)) :=
  match gs with
  | [] => [[]]
  | (f, ms) :: r => flat_map (fun c => map (cons (f, c)) (choices r)) ms
  end.
Definition sel_of (ch : list (bytes * client)) : bytes -> client -> bool :=
  fun f c => existsb (fun e => beq_bytes (fst e) f && beq_bytes (snd e) c) ch.

(* ---------- parsing ---------- *)
Definition as_will (v : val) : option (option will) :=
  match v with
  | VL [] => Some None
  | VL [VB t; VB p; VN q; r; d] => do r' <- as_bool r; do d' <- as_bool d; Some (Some (mkW t p q r' d'))
  | _ => None
  end.
Definition as_fqn (v : val) : option (bytes * (N * bool)) :=
  match v with VL [VB f; VN q; nl] => do nl' <- as_bool nl; Some (f, (q, nl')) | _ => None end.
Definition as_aop (v : val) : option aop :=
  match v with
  | VL [VN 0; VB cl; VN ver; clean; w] => do c' <- as_bool clean; do w' <- as_will w; Some (AConnect cl ver c' w')
  | VL [VN 1; VB cl] => Some (ADisconnect cl)
  | VL [VN 2; VB cl] => Some (ANetClose cl)
  | VL [VN 3; VB cl; VB t; VB p; VN q; r; VN pid; VN al] => do r' <- as_bool r; Some (APublish cl t p q r' pid al)
  | VL [VN 4; VB cl; VN pid; VL fs] => do fs' <- map_opt as_fqn fs; Some (ASubscribe cl pid fs')
  | VL [VN 5; VB t; VB p; r] => do r' <- as_bool r; Some (AInline t p r')
  | VL [VN 6] => Some ATick
  | VL [VN 7; VB cl] => Some (ADisconnectWill cl)
  | VL [VN 8; VB cl; VN pid] => Some (APubrel cl pid)
  | VL [VN 9] => Some AExpire
  | _ => None
  end.
Definition as_oevt (v : val) : option oevt :=
  match v with
  | VL [VN 0; ok; sp] => do ok' <- as_bool ok; do sp' <- as_bool sp; Some (XConnack ok' sp')
  | VL [VN 1; VB t; VB p] => Some (XPublish t p)
  | VL [VN 2; VN ty; VN pid; VN rc] => Some (XAck ty pid rc)
  | VL [VN 3; VN pid; VB cs] => Some (XSuback pid cs)
  | VL [VN 4] => Some XClosed
  | _ => None
  end.
Definition as_cevt (v : val) : option (client * oevt) :=
  match v with VL [VB c; e] => do e' <- as_oevt e; Some (c, e') | _ => None end.
Definition as_astepobs (v : val) : option astepobs :=
  match v with
  | VL [o; VL evs; VL ret; VL subs; VL clsubs] =>
      do o' <- as_aop o; do evs' <- map_opt as_cevt evs; do ret' <- map_opt as_bb ret;
      do subs' <- map_opt as_bb subs; do cs' <- map_opt as_bb clsubs;
      Some (mkAO o' evs' ret' subs' cs')
  | _ => None
  end.

(* ---------- engines ----------
   case = (obscure clients acl steps)   clients = list of client ids (payload byte 0 = index of the sender)
   acl = list of (client topic-or-filter write) that are permitted     step = (op events retained subs clientsubs) *)
Definition op_client (o : aop) : client :=
  match o with
  | AConnect c _ _ _ | ADisconnect c | ADisconnectWill c | ANetClose c | APublish c _ _ _ _ _ _ | APubrel c _
  | ASubscribe c _ _ => c
  | _ => []
  end.

Definition model_step (tbl : acl_table) (obscure : bool) (sel : bytes -> client -> bool) (st : ast) (o : aop) :=
  astep (perm_of tbl) topic_matches valid_filter_spec is_share eff_filter obscure sel st o.

(* sendDelayedLWT ranges over a Go map: when several delayed wills are due in one tick their publication
   order (visible in which of two retained wills on one topic stays) is arbitrary; the engine tries
   every order of the delayed-will table (AclProofs.inv_delayed_perm: the invariant does not depend on it) *)
Fixpoint insert_all {A} (x : A) (l : list A) : list (list A) :=
  match l with [] => [[x]] | y :: r => (x :: y :: r) :: map (cons y) (insert_all x r) end.
Fixpoint perms {A} (l : list A) : list (list A) :=
  match l with [] => [[]] | x :: r => flat_map (insert_all x) (perms r) end.
Definition tick_orders (st : ast) (o : aop) : list ast :=
  match o with
  | ATick => if Nat.leb (length (a_delayed st)) 5
             then map (fun d => mkAst (a_cl st) (a_subs st) (a_ret st) d) (perms (a_delayed st)) else [st]
  | _ => [st]
  end.

(* the first share-group choice under which the model's step equals the observation *)
Fixpoint find_choice (tbl : acl_table) (obscure : bool) (st : ast) (s : astepobs) (chs : list (list (bytes * client)))
  : option ast :=
  match chs with
  | [] => None
  | ch :: r =>
      let '(st', evs) := model_step tbl obscure (sel_of ch) st (ao_op s) in
      if astep_matches st st' evs s then Some st' else find_choice tbl obscure st s r
  end.

Fixpoint arun_check (tbl : acl_table) (clients : list bytes) (obscure : bool) (st : ast) (prev : list (bytes * bytes))
         (n : N) (steps : list astepobs) : N * N * N :=
  match steps with
  | [] => (0, 0, 0)
  | s :: r =>
      let ver := match ao_op s with
                 | AConnect _ v _ _ => v
                 | o => match assoc (op_client o) (a_cl st) with Some x => c_ver x | None => 0 end
                 end in
      let m := amonitor tbl clients obscure ver prev s in
      if negb (m =? 0) then (1, n, m)
      else
        let fix try_orders (sts : list ast) : option ast :=
          match sts with
          | [] => None
          | st0 :: rest => match find_choice tbl obscure st0 s (choices (share_groups (a_subs st0))) with
                           | Some st' => Some st'
                           | None => try_orders rest end
          end in
        match try_orders (tick_orders st (ao_op s)) with
        | None => (2, n, 0)
        | Some st' => arun_check tbl clients obscure st' (ao_subs s) (n + 1) r
        end
  end.

Definition a_interesting (steps : list astepobs) : bool :=
  existsb (fun s => match ao_op s with
                    | AConnect _ _ _ (Some _) | ASubscribe _ _ _ | APublish _ _ _ _ _ _ _ => true
                    | _ => false end) steps.

Definition acl_engine_gen (name : bytes) (v : val) : val :=
  match v with
  | VL [obscure; VL clients; VL acl; VL steps] =>
      match as_bool obscure, map_opt as_B clients, map_opt as_aclrule acl, map_opt as_astepobs steps with
      | Some ob, Some cls, Some tbl, Some ss =>
          let '(code, n, clause) := arun_check tbl cls ob a_init [] 1 ss in
          verdict code (if code =? 0 then name else if code =? 1 then tag "monitor" else tag "model")
                  (a_interesting ss) (if code =? 0 then [] else [VN n; VN clause])
      | _, _, _, _ => bad_case
      end
  | _ => bad_case
  end.

(* ENGINE auth Auth.Acl.auth_engine *)
Definition auth_engine (v : val) : val := acl_engine_gen (tag "history") v.

(* ENGINE subinvalid Auth.Acl.subinvalid_engine *)
Definition subinvalid_engine (v : val) : val := acl_engine_gen (tag "subinvalid") v.
