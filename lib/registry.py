"""Registry of claimed properties: which Coq files/theorems, which harness engines, and the text
that goes into MANIFEST.json and the evidence files.  MANIFEST.json is generated from this file
(./check --gen-manifest) so the two cannot drift apart."""
import json
import os

VERIF = os.path.dirname(os.path.dirname(os.path.abspath(__file__)))

TRUSTED_BASE = [
    "Coq 8.16.1 kernel (coqc, full .vo build via coq_makefile; vm_compute used for finite sweeps and witnesses; no native_compute)",
    "Coq standard library only (List, NArith, ZArith, Lia, Bool, Ascii/String syntax); no Axiom/Parameter/Admitted in the development (grep-checked on every run)",
    "extraction: Require Extraction + ExtrOcamlBasic only (no Extract Constant / Extract Inductive of our own; N, Z, positive, nat stay Coq datatypes); OCaml 4.13.1 ocamlfind ocamlopt; ocaml/modeld.ml (s-expression parser/printer, no property logic)",
    "correspondence harness: /verif/harness (Go, built with -tags verif against /repo's working tree), /verif/check + /verif/lib (plumbing, aggregation)",
]

BASELINE_OFF = ("cd /repo && GOFLAGS=-mod=mod GOPROXY=off GOSUMDB=off GOTOOLCHAIN=local "
                "go test -mod=mod -json -vet=off -count=1 -timeout 25m ./...")

PROPS = {}

PROPS["C29"] = dict(
    title="Variable byte integers are canonical and bounded",
    design_ref="DESIGN.md section 8, C29",
    technique="Coq proof (induction-free 4-level unrolling + lia) that the model of encodeLength/DecodeLength equals "
              "the MQTT 1.5.5 specification for all values and all byte strings; model tied to the Go code by "
              "differential execution (extracted model vs packets.DecodeLength/encodeLength)",
    level_text="Theorems over all N <= 268435455 and all byte lists: round trip, minimal length, decoder = standard's "
               "decoder, rejection above the maximum and beyond four bytes.  The Go functions are 40 lines; the model "
               "mirrors them statement by statement (uint32 wrap included) and is compared with them on an exhaustive "
               "boundary alphabet and random values on every run.",
    level_note="Trusted: Coq kernel, extraction (ExtrOcamlBasic), the OCaml driver, the Go harness; modelled not verified: "
               "bytes.Buffer / io.ByteReader (a list of bytes), Go uint32 arithmetic (written into the model as mod 2^32).",
    engines=[dict(hx="vbi")],
    theorems=["C29_roundtrip", "C29_minimal", "C29_decode_is_spec", "C29_reject_big", "C29_reject_long"],
    model_files="coq/Codec/Vbi.v",
    rule="decode: every byte string of length <= 6 (thorough 7) over the boundary alphabet {00,01,7f,80,81,ff} "
         "(exhaustive), encoder outputs followed by junk, random strings with forced continuation bits; encode: "
         "boundaries +-3 and random values of random bit width (thorough: every value below 2^21+1024).  "
         "non-trivial = multi-byte input / value > 127; distinct = distinct case lines",
    exhaustive=False,
    modelled="packets/codec.go encodeLength, DecodeLength (entire functions)",
    assumptions=["bytes read from the io.ByteReader are the bytes of the list (bytes.Reader trusted)",
                 "encodeLength is only specified for non-negative lengths"],
)


def manifest():
    props = [json.loads(l) for l in open(os.path.join(VERIF, "properties.jsonl"))]
    checks = []
    na = []
    for p in props:
        pid = p["id"]
        if pid in PROPS:
            c = PROPS[pid]
            checks.append({
                "property_id": pid,
                "quick_cmd": "./check %s --tier quick" % pid,
                "thorough_cmd": "./check %s --tier thorough" % pid,
                "evidence_file": "/verif/evidence/%s.json" % pid,
                "replay_cmd_template": "./check %s --replay {path}" % pid,
                "engine": ",".join(e["hx"] for e in c.get("engines", [])) or "coq",
                "level_claimed": {"category": c.get("level", "proof"), "text": c["level_text"],
                                  "design_ref": c.get("design_ref", "DESIGN.md section 8")},
                "level_note": c["level_note"],
                "technique": c["technique"],
            })
        else:
            na.append({"property_id": pid, "reason": NOT_CLAIMED.get(pid, "check not built yet (work in progress; see DESIGN.md section 12)")})
    return {
        "version": 1,
        "setup_cmd": "./check --setup",
        "hooks": {
            "guard": "verif",
            "enable": "go build -tags verif (the harness module replaces github.com/mochi-mqtt/server/v2 by /repo)",
            "baseline_off_cmd": BASELINE_OFF,
            "source_commits": HOOK_COMMITS,
            "add_only": True,
        },
        "engines": [
            {"name": "coq", "path": "/verif/coq", "serves_properties": sorted(PROPS),
             "kind_free_text": "Coq 8.16.1 development: models, specifications, theorems (Properties/Cxx.v), extraction"},
            {"name": "modeld", "path": "/verif/ocaml", "serves_properties": sorted(PROPS),
             "kind_free_text": "extracted Coq engines + generic OCaml driver"},
            {"name": "hx", "path": "/verif/harness", "serves_properties": sorted(PROPS),
             "kind_free_text": "Go correspondence harness running the real code (-tags verif)"},
        ],
        "checks": checks,
        "notes": "Generated from lib/registry.py by ./check --gen-manifest.  Known findings: KNOWN_FINDINGS.json.",
        "not_applicable": na,
    }


NOT_CLAIMED = {}

HOOK_COMMITS = ["6385440"]


def write_manifest():
    m = manifest()
    with open(os.path.join(VERIF, "MANIFEST.json"), "w") as f:
        json.dump(m, f, indent=1)
        f.write("\n")
