"""Registry of claimed properties: which Coq files/theorems, which harness engines, and the text
that goes into MANIFEST.json and the evidence files.  MANIFEST.json is generated from this file
(./check --gen-manifest) so the two cannot drift apart."""
import json
import os

VERIF = os.path.dirname(os.path.dirname(os.path.abspath(__file__)))

TRUSTED_BASE = [
    "Coq 8.16.1 kernel (coqc, full .vo build via coq_makefile; vm_compute used for finite sweeps and witnesses; no native_compute)",
    "Coq standard library only (List, NArith, ZArith, Lia, Bool, Ascii/String syntax); no Axiom/Parameter/Admitted in the development (grep-checked on every run)",
    "extraction: Require Extraction + ExtrOcamlBasic only (no Extract Constant / Extract Inductive of our own; N, Z, positive, nat stay Coq datatypes); OCaml 4.13.1 ocamlfind ocamlopt; ocaml/modeld.ml (s-expression parser/printer, no property logic)",
    "correspondence harness: /verif/harness (Go, built with -tags verif against /repo's working tree), /verif/check + /verif/lib (plumbing, aggregation)",
]

BASELINE_OFF = ("cd /repo && GOFLAGS=-mod=mod GOPROXY=off GOSUMDB=off GOTOOLCHAIN=local "
                "go test -mod=mod -json -vet=off -count=1 -timeout 25m ./...")

PROPS = {}

def _load():
    import glob
    import importlib.util
    for path in sorted(glob.glob(os.path.join(VERIF, "lib", "props", "C*.py"))):
        pid = os.path.basename(path)[:-3]
        spec = importlib.util.spec_from_file_location("prop_" + pid, path)
        mod = importlib.util.module_from_spec(spec)
        spec.loader.exec_module(mod)
        PROPS[pid] = mod.PROP


_load()


def manifest():
    props = [json.loads(l) for l in open(os.path.join(VERIF, "properties.jsonl"))]
    checks = []
    na = []
    for p in props:
        pid = p["id"]
        if pid in PROPS:
            c = PROPS[pid]
            checks.append({
                "property_id": pid,
                "quick_cmd": "./check %s --tier quick" % pid,
                "thorough_cmd": "./check %s --tier thorough" % pid,
                "evidence_file": "/verif/evidence/%s.json" % pid,
                "replay_cmd_template": "./check %s --replay {path}" % pid,
                "engine": ",".join(e["hx"] for e in c.get("engines", [])) or "coq",
                "level_claimed": {"category": c.get("level", "proof"), "text": c["level_text"],
                                  "design_ref": c.get("design_ref", "DESIGN.md section 8")},
                "level_note": c["level_note"],
                "technique": c["technique"],
            })
        else:
            na.append({"property_id": pid, "reason": NOT_CLAIMED.get(pid, "check not built yet (work in progress; see DESIGN.md section 12)")})
    return {
        "version": 1,
        "setup_cmd": "./check --setup",
        "hooks": {
            "guard": "verif",
            "enable": "go build -tags verif (the harness module replaces github.com/mochi-mqtt/server/v2 by /repo)",
            "baseline_off_cmd": BASELINE_OFF,
            "source_commits": HOOK_COMMITS,
            "add_only": True,
        },
        "engines": [
            {"name": "coq", "path": "/verif/coq", "serves_properties": sorted(PROPS),
             "kind_free_text": "Coq 8.16.1 development: models, specifications, theorems (Properties/Cxx.v), extraction"},
            {"name": "modeld", "path": "/verif/ocaml", "serves_properties": sorted(PROPS),
             "kind_free_text": "extracted Coq engines + generic OCaml driver"},
            {"name": "hx", "path": "/verif/harness", "serves_properties": sorted(PROPS),
             "kind_free_text": "Go correspondence harness running the real code (-tags verif)"},
        ],
        "checks": checks,
        "notes": "Generated from lib/registry.py by ./check --gen-manifest.  Known findings: KNOWN_FINDINGS.json.",
        "not_applicable": na,
    }


NOT_CLAIMED = {}

def _hook_commits():
    import subprocess
    try:
        out = subprocess.run(["git", "-C", "/repo", "log", "--format=%h %s", "--grep=^verif hooks:"],
                             stdout=subprocess.PIPE, text=True).stdout
        return [l.split()[0] for l in out.splitlines() if l.strip()][::-1]
    except Exception:
        return []


HOOK_COMMITS = _hook_commits()


def merge_findings():
    """findings.d/*.json (one file per property, hand-written) -> KNOWN_FINDINGS.json.  Runs only on
    ./check --gen-manifest, never during a check."""
    import glob
    findings, fixed = [], []
    for path in sorted(glob.glob(os.path.join(VERIF, "findings.d", "*.json"))):
        d = json.load(open(path))
        findings += d.get("findings", [])
        fixed += d.get("fixed", [])
    with open(os.path.join(VERIF, "KNOWN_FINDINGS.json"), "w") as f:
        json.dump({"findings": findings, "fixed": fixed}, f, indent=1)
        f.write("\n")


def write_manifest():
    merge_findings()
    m = manifest()
    with open(os.path.join(VERIF, "MANIFEST.json"), "w") as f:
        json.dump(m, f, indent=1)
        f.write("\n")
