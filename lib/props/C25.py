PROP = dict(
    title="Expired messages are not delivered and expiry intervals only shrink",
    design_ref="DESIGN.md section 8, C25",
    technique="Coq proofs over a virtual-time model of the expiry arithmetic (server.go minimum / Expiry stamping, "
              "the hold marker of publishToClient, clearExpiredRetainedMessages, ClearExpiredInflights, WritePacket's "
              "interval rewrite): housekeeping removes an unsent copy exactly when it runs strictly after publish time "
              "+ effective interval, so by induction over arbitrary sequences of housekeeping runs and delivery attempts "
              "no such copy is delivered afterwards; the delivered interval is the time remaining, modulo one "
              "executable known-finding predicate.  Model tied to the real broker by driving it through every boundary "
              "case and comparing the stored expiry, the survival of the copy after each housekeeping run, the "
              "delivery and the delivered interval",
    level_text="Theorems for all configurations (server maximum, publisher interval and version, publish time, place of "
               "the copy: retained store / in-flight of a parked session / in-flight held back by flow control) and all "
               "event sequences: C25_effective, C25_housekeeping_exact, C25_no_expired_delivery, "
               "C25_interval_shrinks_modulo_findings, and the kernel-checked refutation C25_interval_refuted that "
               "replays on the real broker.  The verdict on the code is the Coq monitor (late_ok, interval_ok) applied "
               "to what the receiving connection actually got.",
    level_note="Trusted: Coq kernel, extraction, OCaml driver, Go broker harness; housekeeping is driven with explicit "
               "times (verif-tag tick), publish and write times are the wall clock read back from the broker's stored "
               "copy / bracketed by the harness (the delivered interval must lie between WritePacket's value for the "
               "first and for the last second of the bracket - it does not grow with time).  Wall-clock dependence of the "
               "held-back scenario: the message M0 that occupies the send quota has to be published in the same second "
               "as the message M under observation; otherwise, with a server maximum as effective interval, a "
               "housekeeping run exactly at M's expiry time removes M0 (one second older) but not M, the PUBACK for M0 "
               "then frees no quota (expired in-flight messages do not give their send quota back - flow control, C11) "
               "and M's delivery is never triggered although M is alive: the run says nothing about M, shows up as a "
               "correspondence mismatch (seen 3 times in 144 loaded runs), and is therefore detected (Created of M0 vs "
               "M read from the broker) and repeated.  Modelled "
               "not verified: uint32 conversion of the interval (no overflow below 2^32 s), time.Now.  Not covered: "
               "the copy restored after a restart (C25-2: the storage layer does not persist Expiry - C20-C22, "
               "w-storage), will messages, the inline client.",
    engines=[dict(hx="expiry"), dict(hx="restart_expiry", timeout=900)],
    theorems=["C25_effective", "C25_housekeeping_exact", "C25_no_expired_delivery",
              "C25_interval_shrinks_modulo_findings", "C25_interval_refuted"],
    model_files="coq/Session/Expiry.v",
    rule="exhaustive grid: server maximum {0,2,3,86400} x publisher interval {0,1,2,3,5,100} (MQTT 5) or none (MQTT 3 "
         "publisher) x place {retained, parked session, held back by receive maximum 1} x one housekeeping run at "
         "expiry time + {-1,0,+1,+100}, then the delivery (late subscriber / reconnect / acknowledgement that frees "
         "the quota); mixed protocol versions: MQTT 5 publisher (interval 1/2/5) x MQTT 3.1.1 / 3.1 receiver and MQTT 3.x "
         "publisher x MQTT 3.x receiver, server maximum {0,3,86400}, copy in the retained store or in the in-flight "
         "store of a parked session, same boundary offsets (whether the message has an expiry of its own depends on "
         "the publisher's message only); 120 (thorough 6000) random scenarios with two housekeeping runs at offsets "
         "{-5,-1,0,1,2,7,100,100000} (retained: a late subscriber after each); 9 scenarios in which real time passes "
         "the expiry time (sleep 1.1-2.1 s) before the delivery.  restart_expiry (w-storage): server maximum {0,4,86400} x MQTT 5 "
         "publishes with interval {0,2,10,100000} and an MQTT 3.1.1 publish, retained and queued for an offline persistent "
         "session, on each of the four storage back ends; shutdown, restart on the same store, housekeeping at creation time "
         "+ {0..14, 86398..86404, 99998..100004}: after each run exactly the restored messages whose expiry time has not "
         "passed are left.  non-trivial = the message has an expiry time; "
         "distinct = distinct case lines",
    modelled="server.go processPublish/publishToSubscribers (minimum, Expiry), publishToClient (hold marker), "
             "clearExpiredRetainedMessages, clearExpiredInflights; clients.go ClearExpiredInflights, WritePacket "
             "(interval rewrite), ResendInflightMessages; inflight.go holdExpiry/heldExpiry",
    assumptions=["non-negative intervals and times; an MQTT 3 publisher has no interval of its own",
                 "the copy under observation is not acknowledged or overwritten during the scenario"],
)
