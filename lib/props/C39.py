PROP = dict(
    title="WebSocket transport is byte-transparent",
    design_ref="DESIGN.md section 8, C39",
    technique="Coq proof (induction over the message list and over the read-size sequence, chunking of the message "
              "reader as a universally quantified oracle) about a model of wsConn.Read / Write in "
              "listeners/websocket.go; model and implementation tied on every run by sending the same MQTT sessions "
              "over the real TCP listener and, randomly cut into WebSocket messages, over the real WebSocket listener "
              "of one real *mqtt.Server on loopback (gorilla/websocket as client) and comparing replies and forwarded "
              "publishes byte for byte",
    level_text="Theorems for every list of data messages, every sequence of read sizes and every chunking by the "
               "message reader: with all messages binary the bytes returned by the reads, followed by what is still "
               "pending, are exactly the concatenation of the payloads (nothing lost, duplicated or reordered at "
               "boundaries, empty messages and exact-fit boundaries included), no read with room returns zero bytes, "
               "and more non-empty reads than bytes deliver everything; the first non-binary message makes the read "
               "fail with ErrInvalidMessage after exactly the preceding binary payloads, and nothing of it or after "
               "it is delivered; every Write is one binary message and the payloads concatenate to the bytes "
               "written.  Partial: gorilla/websocket is the trusted message iterator (framing, masking, control "
               "frames, fragmentation are its business); the packet processing behind the byte stream is the same "
               "code as over TCP and is compared end to end only on the sampled sessions.",
    level_note="Trusted: Coq kernel, extraction, OCaml driver, Go harness, gorilla/websocket (both as the broker's "
               "iterator and as the harness' client), the loopback network stack.  Modelled not verified: "
               "websocket.Conn.NextReader / message reader (a list of (type, payload) messages read in arbitrary "
               "chunks), bufio.Reader (an arbitrary sequence of read sizes that stops at the first error).",
    engines=[dict(hx="ws", timeout=900)],
    theorems=["C39_concat", "C39_concat_complete", "C39_no_empty_read", "C39_nonbinary_ends",
              "C39_nonbinary_ends_complete", "C39_write",
              "C39_connections_independent", "C39_stale_reader_leaks"],
    model_files="coq/IO/WsFrame.v",
    rule="sessions: CONNECT (v4/v5) + 2..15 random SUBSCRIBE / UNSUBSCRIBE / PINGREQ / PUBLISH QoS 0-2 (payload 0..5000 "
         "bytes) / PUBREL; segmentations: one packet per message, whole stream in one message, one byte per message, "
         "random cuts with maximum 2/3/8/64/700/5000 bytes, the same with empty binary messages and ping frames "
         "sprinkled in, and with a run of 99..158 empty messages at a random boundary; a third of the runs with a "
         "64-byte client write buffer (messages leave as continuation frames); every mode with and without a text "
         "message at a random position; 17 fixed + 120 (thorough 3000) random cases; plus large messages: one websocket message of exactly 65535 / 65536 / 65537 / 131072 bytes or a whole 200000-byte stream (thorough: 45 more, up to 1 MiB + 1 and random 60000..320000), carrying one big PUBLISH or many batched 2 KiB packets, sent unfragmented or as continuation frames of 64 / 1000 / 4096 / 70000 bytes.  histories of several connections: 3..6 (thorough 1..6) earlier websocket connections that end while the broker is partway through a binary message (CONNECT, DISCONNECT, filler up to the 2048-byte read buffer, then a tail of garbage / whole PUBLISH packets to the observed topic / a foreign CONNECT + PUBLISHes), followed by an ordinary session compared with TCP as always, run with GOMAXPROCS(1) and at the default (6 such cases, thorough 66).  Text messages on a read boundary: 8 cases where the text message directly follows an empty binary message / a first message of exactly 2048 bytes (the read buffer) / one whole packet of more than 4096 bytes in one message / a run of 2048-byte messages; the text payload is a valid PINGREQ or a PUBLISH to the observed topic (also in half of the random text cases), so a broker that lets it through answers or forwards it.  Each case: replies over ws "
         "(concatenated binary payloads) = replies over tcp, bytes forwarded to an observing subscriber equal, "
         "connection ended by the broker iff a text message was sent, model read sequence = bytes sent over tcp.  "
         "non-trivial = more than one data message; distinct = distinct case lines",
    exhaustive=False,
    modelled="listeners/websocket.go wsConn.Read, wsConn.read, wsConn.Write (entire functions)",
    assumptions=["gorilla/websocket delivers the data messages in order, each payload complete and unaltered, and never "
                 "returns (0, nil) from a message reader for a non-empty buffer",
                 "no transport failure in the middle of a message",
                 "the consumer stops at the first read error (Client.Read returns, the connection is closed)"],
)
