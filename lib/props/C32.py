import conc_gen as G

CHECK = """From Coq Require Import List NArith.
From MV Require Import Conc.Locks Conc.LocksProofs.
@TABLE@
Import ListNotations.

(* the proved checker, evaluated by the kernel on the table regenerated from the Go source: every
   function releases on every path what it acquired (no unbalanced function), the call closure is
   closed, no lock class is re-acquired while held, the lock order has a topological numbering *)
Lemma lockgraph_ok : lock_discipline_ok_full fn_names unbalanced table = true.
Proof. vm_compute. reflexivity. Qed.

(* hence: goroutines whose lock behaviour is described by the table never deadlock on the broker's
   locks and can always run to completion, whatever the schedule *)
Theorem C32_holds_for_this_tree :
  (forall g, existsb (N.eqb g) unbalanced = false) /\\
  forall (cl : lock -> cls) (gs : list (fname * list ev)),
    (forall f es, In (f, es) gs -> conforms cl table unbalanced [(f, [])] es = true) ->
    forall sched,
      ~ deadlocked (run sched (map (fun g => thread_of (snd g)) gs)) /\\
      exists sched', all_done (run (sched ++ sched') (map (fun g => thread_of (snd g)) gs)).
Proof. exact (checked_table_sound_full fn_names unbalanced table lockgraph_ok). Qed.

Print Assumptions C32_holds_for_this_tree.
"""

DIAG = """From Coq Require Import List NArith.
From MV Require Import Conc.Locks.
@TABLE@
Eval vm_compute in (lock_violations table).
"""


def translate(tier):
    ok, side, cout, dout, notes = G.translate("C32", "lockgraph", "LockGraph", "LockCheck", CHECK, DIAG,
                                               ["Conc/Locks.vo", "Conc/LocksProofs.vo", "Base/Val.vo"])
    if side is None:
        return False, notes
    cls, fns, sites = side["classes"], side["fns"], side["sites"]
    unsupported = [n for n in side["notes"] if "UNSUPPORTED" in n]
    dynamic = [n for n in side["notes"] if "DYNAMIC" in n]
    blocking = [n for n in side["notes"] if "BLOCKING" in n]
    for u in (side.get("unbalanced") or [])[:12]:
        notes.append("UNBALANCED: %s leaves the function (%s at %s) while still holding %s: the lock is never released on this path"
                     % (u["fn"], u["how"], u["pos"], u["lock"]))
    if unsupported:
        notes.append("constructs the translator cannot describe (the table may not cover them): " + " | ".join(unsupported)[:1200])
    if ok:
        notes.append("kernel: lock_discipline_ok_full fn_names unbalanced table = true (vm_compute: every function balanced, "
                     "closure closed, no re-entrant acquisition, lock order numbered); "
                     "C32_holds_for_this_tree closed under the global context")
    else:
        viol = G.coq_list_of_tuples(dout, 3)
        for f, a, b in viol[:20]:
            fn, ca, cb = fns[f], cls[a], cls[b]
            where = [s["pos"] for s in sites if s["fn"] == fn and any(h.rsplit("/", 1)[0] == ca for h in s["held"])]
            if a == b:
                notes.append("RE-ENTRANT: %s acquires %s (itself or through a callee) while already holding it, at %s"
                             % (fn, cb, ", ".join(sorted(set(where))[:6])))
            else:
                notes.append("LOCK-ORDER: %s acquires %s while holding %s against the order of the rest of the code, at %s"
                             % (fn, cb, ca, ", ".join(sorted(set(where))[:6])))
        if not viol and not side.get("unbalanced"):
            notes.append("check file did not compile: " + cout[-1200:])
    notes.append("LockGraph: %d functions analysed, %d sites, %d lock classes: %s" % (
        side["functions_analysed"], len(sites), len(cls), ", ".join(cls)))
    nested = sorted({"%s -> %s" % (h.rsplit("/", 1)[0], s.get("class") or s.get("callee"))
                     for s in sites for h in s["held"]})
    notes.append("sites with a lock held (%d): %s" % (len(nested), "; ".join(nested)[:3000]))
    notes.append("calls under a lock whose callee is only known by interface / function type (%d): %s"
                 % (len(dynamic), " | ".join(d.split(": ", 2)[-1][:160] for d in dynamic)[:3000]))
    if blocking:
        notes.append("blocking operations under a lock, outside the model (%d): %s" % (len(blocking), " | ".join(blocking)[:1500]))
    return ok and not unsupported, notes


PROP = dict(
    title="The broker never deadlocks",
    design_ref="DESIGN.md section 8, C32",
    technique="Coq proof that goroutines obeying a lock-order discipline never deadlock on Go (RW) mutexes with writer "
              "preference, for every schedule; a Go-AST translator regenerates the table of lock acquisitions / calls made "
              "under locks from the source on every run; the proved boolean checker is evaluated on that table by the Coq "
              "kernel (vm_compute); concurrent stress of every lock-owning type of the real code with a progress watchdog; "
              "forced schedules on real sync.RWMutex values compared with the model's semantics",
    level_text="Theorems over all schedules, all sets of goroutines and all lock instances: acyclic lock-order graph and no "
               "re-acquisition of a held lock class imply no reachable deadlocked configuration and that every goroutine "
               "can finish; checker soundness; per run `lock_discipline_ok LockGraph.table = true` and the instantiated "
               "theorem for the current tree (Gen/LockCheck.v).  The table is extracted structurally (per function: "
               "acquisitions, deferred/explicit releases, calls, held sets), closure over calls is computed in Coq.",
    level_note="Partial: blocking on channels, sockets, WaitGroup, sync.Once is outside the lock model; callees behind "
               "interfaces / function values are resolved to the implementations inside the analysed packages only (each such "
               "call made under a lock is listed in the evidence); lock instances are abstracted to classes (owner type . "
               "mutex field) with one declared refinement (TopicsIndex.root vs other particles).  Trusted: Coq kernel, the "
               "translator astx (go/ast + go/types, stdlib only), extraction + OCaml driver and the Go harness for the "
               "dynamic part.",
    engines=[dict(hx="lockstress", timeout=900)],
    translate=translate,
    extra_obligations=2,
    theorems=["C32_rank_discipline_sound", "C32_discipline_sound", "C32_all_goroutines_can_finish",
              "C32_acyclic_means_no_cycle", "C32_checker_sound"],
    model_files="coq/Conc/Locks.v coq/Gen/LockGraph.v",
    rule="static: every function of the root package, packets, hooks/auth, hooks/storage, mempool, listeners, system "
         "(non-test files); dynamic: 11 stress scenarios (Inflight, Clients, Subscriptions, SharedSubscriptions, "
         "InlineSubscriptions, packets.Packets, TopicAliases, TopicsIndex, Client, listeners.Listeners, Hooks+Ledger), "
         "each op 6000 (thorough 60000) iterations on its own goroutine, hang = no progress for 1.5 s (4 s); 6 fixed + 48 "
         "(400) random forced schedules of 4 goroutines on 2 sync.RWMutex compared with the model.  non-trivial = "
         "operations completed / some goroutine observed blocked",
    exhaustive=False,
    modelled="sync.Mutex / sync.RWMutex (writer preference: a pending Lock blocks new RLocks), lock nesting of every "
             "function of the analysed packages; not modelled: channels, sockets, WaitGroups, Once, runtime scheduler",
    assumptions=["the table produced by astx describes the lock behaviour of the code (structural extraction, dynamic "
                 "dispatch resolved inside the analysed packages only)",
                 "the root particle (TopicsIndex.root) is never locked through another expression than x.root "
                 "(declared class refinement; RetainMessage locks a descendant returned by set())",
                 "hook implementations, inline-subscription handlers and net.Conn implementations called while a broker "
                 "lock is held do not call back into lock-owning broker types",
                 "every function releases on every path (return, panic, end) the locks it acquired, or covers them by a defer: "
                 "checked path-sensitively by the translator, reported per function in the table (unbalanced) and required "
                 "by the checker"],
    trusted=["harness/cmd/astx (Go-AST translator, stdlib go/ast + go/types): a wrong table would make the structural "
             "theorem be about the wrong program; mitigated by the stress / forced-hang search on the real code"],
)
