PROP = dict(
    title="Connections start with one CONNACK and only authenticated clients are admitted",
    design_ref="DESIGN.md section 8, C13",
    technique="Coq: component model of attachClient / readConnectionPacket / validateConnect / ConnectValidate / "
              "SendConnack (Session/Lifecycle.v); specification monitor mon13 written from the property text and MQTT "
              "section 3.1 (Session/LifeSpec.v); theorem by induction over all operation histories that the model never "
              "violates the monitor (invariant: packets only go to connections that already hold their CONNACK).  "
              "Interleaving model of the Clients.Add / SendConnack window (Conc/Connack.v) decided for all schedules by "
              "kernel-checked exhaustive exploration.  Tie to the code: differential execution of the exhaustive CONNECT "
              "variant product x hook configurations on the real broker, and forced schedules through verifPoints.",
    level_text="C13_first / C13_auth / C13_invalid_connect: for every configuration and every history of operations "
               "(connects, bad first packets, disconnects, takeovers, ticks, publishes) the model's trace satisfies the "
               "monitor; C13_validate_sound: everything validateConnect accepts is a valid CONNECT per MQTT 3.1 for all "
               "CONNECT variants.  The schedule clause (traffic to the connecting client id) is REFUTED: "
               "C13_connack_first_schedules_refuted is a schedule of the window model that replays on the real broker "
               "(PUBLISH written before CONNACK); C13_connack_first_modulo_findings proves CONNACK-first for every other "
               "schedule.  The verdict on the code is mon13 applied to what each connection actually received.",
    level_note="Trusted: Coq kernel, extraction, OCaml driver, Go broker harness (in-memory connections, quiescence probe), "
               "mochi's decoder for the CONNACK bytes.  Modelled not verified: the wire decoding of CONNECT (the harness "
               "encodes variants by hand; a missing credential field = decode failure), the authentication hook decision "
               "(oracle argument auth_ok; false when no hook is installed), the identifier assigned to an empty client id "
               "(oracle).  The sequential model does not reach MaximumClients; the refusal at the limit is covered by "
               "the interleaving model Conc/Limit.v (C35) read with the C13 clause: C13_limit_refusal_is_connack (every "
               "refused attempt was answered by the failure CONNACK of its version, for all schedules) and the monitor "
               "engine life13limit on the forced schedules of the real broker (a decided attempt's first packet is a "
               "CONNACK, 0x89 / 0x03 when refused).  The window model covers one publisher and one resuming connection.",
    engines=[dict(hx="life", args=["C13"], model="life13"),
             dict(hx="connack_sched", args=["C13"], model="connack_sched"),
             dict(hx="limit", model="life13limit")],
    theorems=["C13_first", "C13_auth", "C13_invalid_connect", "C13_validate_sound",
              "C13_connack_first_schedules_refuted", "C13_connack_first_modulo_findings",
              "C13_limit_refusal_is_connack"],
    model_files="coq/Session/Lifecycle.v coq/Conc/Connack.v coq/Session/LifeLimit.v (over coq/Conc/Limit.v)",
    rule="exhaustive product: 9 protocol name/version pairs x reserved bit x clean x {id, empty id} x 8 will variants "
         "(flag/qos 0-3/retain/empty topic/empty payload) x 8 credential variants (flags with/without fields, wrong "
         "password, missing field) x hook configs {no auth hook, allow-all, deny-all, user/password} x {fresh, existing "
         "session}, with capability variations (minimum version 4, maximum qos 1, retain unavailable); 5 kinds of non-CONNECT "
         "first packets; forced schedules of the CONNACK window (3 orders x MQTT 4/5); the forced schedules of the C35 engine `limit` (every "
         "interleaving of the 3 atomic steps of 3 concurrent attach attempts at limits 1 and 2, with and without takeover, plus "
         "random schedules) read by the monitor life13limit.  non-trivial = history of more than "
         "two steps or a forced schedule; distinct = distinct case lines",
    exhaustive=True,
    modelled="server.go attachClient (up to the read loop), readConnectionPacket, validateConnect, SendConnack (code "
             "mapping, session-present), packets.ConnectValidate, clients.go ParseConnect",
    assumptions=["connection numbers name distinct network connections (fresh_conns)",
                 "MaximumClients is not reached in the sequential histories (the limit is covered by the schedules of Conc/Limit.v)", "OnConnect hooks do not fail"],
)
