PROP = dict(
    title="Topic aliases are always resolvable by the receiver",
    design_ref="DESIGN.md section 8, C24",
    technique="Coq proofs by induction over per-connection message histories: (out) the model of "
              "OutboundTopicAliases.Set as used by publishToClient keeps the receiver's alias table equal to the "
              "broker's, so every PUBLISH on the connection passes the receiver-side check, modulo one executable "
              "known-finding predicate; (in) the model of PublishValidate + InboundTopicAliases.Set + processPublish "
              "equals the 'last binding on this connection' specification.  Both models are tied to the real broker "
              "by driving it with generated histories and comparing every PUBLISH on every connection",
    level_text="Theorems over all histories of all lengths: C24_out_modulo_findings (every PUBLISH has a topic or an "
               "alias bound earlier on the same connection to that topic), C24_out_alias_bounded (alias <= client "
               "maximum, none when 0; no exclusion), C24_in (refusals and resolution = specification), and the "
               "kernel-checked refutation C24_out_refuted that replays on the real broker.  The verdict on the code is "
               "the Coq receiver monitor recv_ok / in_obs_ok applied to the packets actually written (outbound) and to "
               "what a spy subscriber received (inbound).",
    level_note="Trusted: Coq kernel, extraction, OCaml driver, Go broker harness, mochi's decoder for the broker's output. "
               "Modelled not verified: what happened to each message on its way to the subscriber (queued and written / "
               "dropped on a full pending-writes queue / written from the in-flight store) is read back from the wire, "
               "the OnPublishDropped hook and the snapshot and given to the model as the event kind; the message's "
               "topic travels in its payload.  Concurrent publishers: interleaving model (AliasSched.v) whose atomic steps are Set "
               "(lookup + allocation under the table's lock) and the queue push; theorems over ALL schedules; the "
               "granularity is tied to the code by forced schedules at the verifPoints alias.afterCursor (inside Set's "
               "critical section) and publish.afterAlias (between Set and the queue): a second allocator is never seen "
               "inside while one is parked there, and the overtaking finding is reproduced on the real broker.  Not "
               "exercised: packets refused for the client's Maximum Packet Size after their alias was recorded (same "
               "finding as the queue-full drop, see C34).",
    engines=[dict(hx="alias"), dict(hx="aliassched")],
    theorems=["C24_out_modulo_findings", "C24_out_alias_bounded", "C24_out_refuted", "C24_in",
              "C24_sched_table_injective", "C24_sched_modulo_findings", "C24_sched_refuted_overtaken",
              "C24_split_set_not_injective"],
    model_files="coq/Session/Alias.v coq/Session/AliasSched.v",
    rule="outbound: 150 (thorough 4000) histories of 30 (50) steps: one v5 subscriber with Topic Alias Maximum "
         "{0,1,2,3,10} x Receive Maximum {0,1,2} (deferral), subscriptions q0/# (QoS 0) and q1/# (QoS 1), one "
         "publisher sending single publishes and bursts of 3-7 concatenated PUBLISH packets over 7 topics, pending-"
         "writes queue 2 in a third of the histories (drops), acknowledgements of the oldest message (deferred sends), "
         "network close and reconnect with clean start 0 (resend, takeover); one case per subscriber CONNECTION.  "
         "inbound: 150 (4000) histories: server Topic Alias Maximum {0,1,2,5,65535}, publishes with topic in "
         "{'', x/a, x/b, x/c} and alias 0..max+1, reconnects (bindings must not survive); a spy subscribed to # "
         "records what was routed; one case per client connection.  non-trivial = an alias appears on the wire / an "
         "alias-only publish was sent; distinct = distinct case lines.  Unit level (pure computation on the exported "
         "tables): OutboundTopicAliases of maximum 1/2/4 driven through 70 000 (thorough 140 000) distinct topics with "
         "re-uses of the earliest topics every 997 calls and around call 65536 (131072); every call near the boundaries "
         "1..max+2, 65530..65545, every re-use and every call that returned an alias is replayed by the model and judged "
         "by the receiver check, the rest as runs answered (0,false); InboundTopicAliases.Set with 1200 random calls "
         "(ids 1..max+1 and 65535, topics incl. '').  Forced schedules (engine aliassched, 42 quick / 236 thorough): "
         "Topic Alias Maximum 1/2/8 (random 1..8), 0-2 aliases bound beforehand; (a) publisher 0 parked inside Set, "
         "1-2 further publishers deliver first messages on other new topics in a chain (must not get inside; "
         "overlap = correspondence broken), then every topic published again by the same and by another publisher; "
         "(b) publisher 0 parked between Set and the queue, publisher 1 publishes the same / another topic and is "
         "let through first",
    modelled="topics.go OutboundTopicAliases.Set, InboundTopicAliases.Set; server.go publishToClient (alias block and "
             "its position relative to the in-flight store and the queue), processPublish (alias resolution), "
             "packets.PublishValidate (alias rules); clients.go ResendInflightMessages / processPacket's deferred send "
             "(stored copy written verbatim)",
    assumptions=["messages are published to non-empty topics", "one publisher at a time per subscriber (the harness is "
                 "sequential; the racing-publishers window is named in level_note)"],
)
