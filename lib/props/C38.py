PROP = dict(
    title="Reported $SYS statistics match the broker's actual state",
    design_ref="DESIGN.md section 8, C38",
    technique="Coq proof by induction over operation histories that a model of every update of Info.ClientsConnected/"
              "Subscriptions/Retained/Inflight in server.go and clients.go, carried next to the state these counters "
              "report (Clients map with the in-flight map of each session, topic index, retained store), keeps "
              "counter = actual count after every operation; model tied to the real broker by replaying generated "
              "mixed histories on it and comparing the four counters and the four actual counts after EVERY step",
    level_text="Theorem over all histories of all lengths (C38_counters, C38_every_quiescent_point, inductive core "
               "C38_step): connected clients, client subscriptions, retained messages and in-flight messages reported "
               "= actual, none negative.  The verdict on the code is the Coq monitor obs_ok applied to the counters "
               "and the independently counted state (VerifSnapshot) of the real broker after every step; a mismatch "
               "is a failing history (code 1).  The five defects that made the statement false on the pinned tree "
               "were reproduced and repaired; Findings/FixedC38.v keeps the old primitives with drift witnesses.",
    level_note="Trusted: Coq kernel, extraction, OCaml driver, Go broker harness (in-memory connections, quiescence "
               "probe, VerifSnapshot counting the topic index / retained store / in-flight maps under the verif tag). "
               "Modelled not verified: the routing outcome of each step (which session stored which in-flight record, "
               "whether the pending-writes queue was full, which sessions/messages housekeeping expired, which deferred "
               "record processPacket sent) is read back from hook events and snapshots and given to the model as part "
               "of the operation - topic matching, flow control and expiry arithmetic are other properties' models; the "
               "theorem quantifies over every such outcome.  The forced-schedule stream re-measures (same schedule, fresh broker, up to 3 "
               "times) an observation in which counter and established connections differ: the schedule controller "
               "(harness/fsched) takes a handler briefly blocked on a mutex for settled under heavy load and then samples "
               "before its CONNACK is written (2 of 120 loaded runs); a forced schedule is deterministic, so a real "
               "difference repeats and is reported unchanged.  Not covered: counters restored from a persistent store at "
               "start-up (loadServerInfo takes the stored values: C20-C22), the inline client, will messages.",
    engines=[dict(hx="stats"), dict(hx="statslimit")],
    theorems=["C38_counters", "C38_every_quiescent_point", "C38_step", "C38_connected_under_schedules"],
    model_files="coq/Session/Stats.v coq/Session/StatsLimit.v (over coq/Conc/Limit.v)",
    rule="150 (thorough 6000) histories of 36 (60) steps over client ids {a,b,c}: CONNECT (v3/4/5, clean 0/1, session "
         "expiry property, refused connect, takeover of connected and of parked sessions), SUBSCRIBE 1-2 filters incl. "
         "re-subscription, $share / $SHARE variants of one group, invalid and $SYS filters, UNSUBSCRIBE incl. absent "
         "filters and identifiers in use, PUBLISH QoS 0-2 with ids from {1..4} (colliding with outbound records), "
         "retain / clear, $SYS topic, message expiry; acknowledgements mostly for records the broker holds, reason "
         "codes 0x80/0x92/0x10; DISCONNECT / network close; housekeeping clients / retained / inflight / $SYS at "
         "now+{0,3,7,12,200}; configurations: pending-writes queue 1, receive maximum 1-2 (deferral), server receive "
         "maximum 2, maximum message expiry 10, maximum session expiry 5.  Counters compared after every step.  "
         "In every second history also write faults: a QoS 1/2 PUBLISH or the PUBREL of an open QoS 2 flow whose "
         "answer cannot be written (MemConn.WriteErr), which leaves a PUBACK / PUBREC / PUBCOMP in flight and ends the "
         "connection, followed by reconnects with clean start 0 (resend) or 1.  Besides the four counters of the "
         "statement every step compares, monitor only (no model counterpart), PacketsReceived, MessagesReceived, "
         "PacketsSent, MessagesSent with the harness' own count of what it fed and what reached the connections, and "
         "after a $SYS tick ClientsTotal / ClientsDisconnected with the Clients map.  "
         "non-trivial = history of >= 5 steps; distinct = distinct history lines.  Second stream: the forced schedules "
         "of the C35 engine's runLimitCase (own engine file eng_statslimit.go; every interleaving of the 3 atomic steps of 3 concurrent attach attempts at "
         "limits 1 and 2, with and without takeover, plus random schedules), read by the C38 monitor `statslimit`: "
         "after every schedule entry at which no teardown is pending, Info.ClientsConnected = connections holding a "
         "success CONNACK and still open (also after the winners have left)",
    modelled="server.go attachClient/inheritClientSession/processPublish/publishToClient (in-flight bookkeeping)/"
             "processPuback/Pubrec/Pubrel/Pubcomp/processSubscribe/processUnsubscribe/UnsubscribeClient/retainMessage/"
             "publishSysTopics/clearExpiredClients/clearExpiredRetainedMessages/clearExpiredInflights, processPacket's "
             "deferred-send tail; clients.go ResendInflightMessages/ClearInflights/ClearExpiredInflights: the counter "
             "updates and the state changes they accompany",
    assumptions=["routing outcomes are taken from the observation (oracle arguments of the operations)",
                 "no storage hook restores counters (fresh broker per history)"],
)
