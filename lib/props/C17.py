PROP = dict(
    title="Authorisation is enforced on every route a message can take",
    design_ref="DESIGN.md section 8, C17",
    technique="Coq proof of an invariant (by induction over the history) of a routing model of server.go parameterised "
              "by the permission relation: publish path (wildcard / $SYS refusal, write check, retain, fan-out), "
              "delivery path (read check at delivery time: live, retained replay, resend to a resumed session), "
              "subscribe path, will paths (CONNECT validation, sendLWT, delayed wills), inline client; model tied to "
              "the real broker by differential execution of generated histories under random permission tables "
              "installed through an ACL hook",
    level_text="Theorems for ALL permission relations, matching relations, filter-validity predicates and ALL histories "
               "from the empty broker: every delivery is to a client that may read the topic (C17_read); everything "
               "delivered, retained, queued for an offline session or pending as a delayed will that stems from a "
               "non-inline client was published with write permission on a valid non-$SYS topic name (C17_write); "
               "denied filters are answered 0x87/0x80, the index only ever holds valid permitted filters and every "
               "delivery rests on one (C17_sub_refused); a client publish to $SYS changes nothing (C17_sys); a CONNECT "
               "with an invalid will topic is refused and every stored will has a valid topic (C17_will_topic_valid).  "
               "The verdict on the code is given by Coq monitors over what the real broker delivered and retained "
               "(the first payload byte names the sender).",
    level_note="Trusted: Coq kernel, extraction, OCaml driver, Go broker harness, mochi's decoder for the broker's "
               "output, the verif-tag life-cycle snapshot (topic index, client subscription maps, retained store).  "
               "Modelled not verified: permissions are a function of the client id, the topic/filter string and the "
               "direction, constant over a history; no shared subscriptions, no No-Local, no takeover of a live "
               "connection, no session expiry, subscriptions at QoS 0/1 with every delivery acknowledged at once; "
               "restored subscriptions (storage hooks, finding C17-3) are outside this model.  The model is that of "
               "the repaired code (fix 411d180); Findings/FixedC17.v keeps the pre-fix will path with witnesses.  "
               "The engine subinvalid exercises the server-level clause of C30 (invalid filter: 0x8F / 0x80, nothing "
               "created) on the same model: lemmas subinvalid_code, subinvalid_creates_nothing in Auth/AclProofs.v.",
    engines=[dict(hx="auth")],
    theorems=["C17_read", "C17_write", "C17_sub_refused", "C17_sys", "C17_will_topic_valid"],
    model_files="coq/Auth/Acl.v",
    rule="auth: random permission table over 4 client ids x 22 topic/filter strings x read/write (density 40-80 %), "
         "histories of 20-40 operations: CONNECT v3/v4/v5 clean or persistent with wills on allowed / denied / $SYS / "
         "wildcard topics (retain on/off, QoS 0/1, delayed for v5), DISCONNECT, network drop, PUBLISH QoS 0-2 retain "
         "on/off on 4 topics + $SYS + wildcard, SUBSCRIBE with 1-2 filters (wildcards covering denied topics, denied "
         "and invalid filters), inline publishes, will ticks; at the end every subscriber resumes or reconnects and "
         "subscribes to #, a/#, d/x (retained replay and resend against read permission); obscure-not-authorized "
         "on 1/4; quick 700 / thorough 20000 histories.  subinvalid: 24 invalid filters x MQTT 3/3.1.1/5 first, then "
         "random mixes of invalid and valid filters with publishes in between; quick 300 / thorough 8000.  "
         "non-trivial = the history has a will, a subscribe or a publish; distinct = distinct case lines",
    modelled="server.go processPublish (topic check, write check, retain, ack, fan-out), publishToSubscribers / "
             "publishToClient (read check, offline in-flight), processSubscribe (codes, creation), "
             "publishRetainedToClient, validateConnect (will topic), sendLWT, sendDelayedLWT, inheritClientSession + "
             "ResendInflightMessages (resume), attachClient's end-of-connection block, Server.Publish (inline)",
    assumptions=["the permission relation is constant over a history and depends on the client id only",
                 "a client id is connected at most once at a time (no takeover of a live connection)",
                 "filter validity and matching are the specifications of C30 / C01 (valid_filter_spec, topic_matches)"],
)
