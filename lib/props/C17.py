PROP = dict(
    title="Authorisation is enforced on every route a message can take",
    design_ref="DESIGN.md section 8, C17",
    technique="Coq proof of an invariant (by induction over the history) of a routing model of server.go parameterised "
              "by the permission relation: publish path (wildcard / $SYS refusal, write check, QoS 2 packet-id check, "
              "topic-alias resolution after the checks, retain, fan-out), delivery path (share groups with a member "
              "oracle, No-Local, read check at delivery time: live, retained replay, resend to a resumed or taken-over "
              "session), subscribe path (plain and $share filters), will paths (CONNECT validation, sendLWT, delayed "
              "wills, the will of a connection that is taken over), session takeover and expiry, inline client; model tied to "
              "the real broker by differential execution of generated histories under random permission tables "
              "installed through an ACL hook",
    level_text="Theorems for ALL permission relations, matching relations, filter-validity / shared-filter predicates, "
               "share-group member choices and ALL histories from the empty broker (connects incl. takeover of a live "
               "connection, DISCONNECT with/without will, network drops, QoS 0-2 publishes with PUBREL and "
               "retransmission, topic aliases, plain and shared subscriptions, No-Local, inline publishes, will "
               "ticks, session expiry): every delivery is to a client that may read the topic, also the member a "
               "share group chose (C17_read); everything "
               "delivered, retained, queued for an offline session or pending as a delayed will that stems from a "
               "non-inline client was published with write permission on a valid non-$SYS topic name, and every topic "
               "alias of every connection is bound to a topic its client may write: no bypass through an alias "
               "(C17_write); "
               "denied filters are answered 0x87/0x80, the index only ever holds valid permitted filters and every "
               "delivery rests on one whose effective filter (behind $share/<group>/) matches the topic; the ACL is asked "
               "about the filter string as sent, share prefix included, as processSubscribe does (C17_sub_refused); a client publish to $SYS changes nothing (C17_sys); a CONNECT "
               "with an invalid will topic is refused and every stored will has a valid topic (C17_will_topic_valid).  "
               "The verdict on the code is given by Coq monitors over what the real broker delivered and retained "
               "(the first payload byte names the sender).",
    level_note="Trusted: Coq kernel, extraction, OCaml driver, Go broker harness, mochi's decoder for the broker's "
               "output, the verif-tag life-cycle snapshot (topic index, client subscription maps, retained store).  "
               "Modelled not verified: permissions are a function of the client id, the topic/filter string and the "
               "direction, constant over a history; which member a share group picks is an oracle (the engine searches "
               "the member choices for one that explains the observation; share-group members use clean sessions so "
               "that the choice stays observable); a takeover is the harness' deterministic schedule (new attach "
               "first, old teardown and will second); when several delayed wills are due in one tick (sendDelayedLWT ranges "
               "over a Go map) the engine accepts any publication order (it tries every order of the delayed-will table; "
               "AclProofs.perms_perm, inv_delayed_perm); outbound QoS 1/2 deliveries are acknowledged at once; "
               "the clients' own packet ids are kept clear of those the broker allocates (C10); UNSUBSCRIBE is "
               "not modelled; restored subscriptions (storage hooks, finding C17-3) are outside this model.  The model is that of "
               "the repaired code (fix 411d180); Findings/FixedC17.v keeps the pre-fix will path with witnesses.  "
               "The engine subinvalid (run under C30) exercises the server-level clause of C30 on the same model: lemmas subinvalid_code, subinvalid_creates_nothing in Auth/AclProofs.v.",
    engines=[dict(hx="auth")],
    theorems=["C17_read", "C17_write", "C17_sub_refused", "C17_sys", "C17_will_topic_valid"],
    model_files="coq/Auth/Acl.v",
    rule="auth: random permission table over 6 client ids (2 publishers, 2 subscribers, 2 share-group members) x 27 "
         "topic/filter strings (incl. the empty topic, invalid and $share filters) x read/write (density 40-80 %), "
         "histories of 20-40 operations: CONNECT v3/v4/v5 clean or persistent, also over a live connection "
         "(takeover), with wills on allowed / denied / $SYS / wildcard topics (retain on/off, QoS 0/1, delayed "
         "for v5), DISCONNECT 0x00 / 0x04, network drop, session expiry, PUBLISH QoS 0-2 retain on/off on 4 topics + "
         "$SYS + wildcard, with topic alias 1-2 (binding, re-binding to an often denied topic, alias-only packets "
         "incl. never bound), explicit PUBREL (known / unknown id) and retransmission of an unreleased QoS 2 "
         "publish, SUBSCRIBE with 1-2 filters at QoS 0-2 (wildcards covering denied topics, denied and invalid "
         "filters, No-Local, $share filters of two groups whose members have different read permissions), inline "
         "publishes, will ticks; at the end every subscriber resumes or reconnects and subscribes to #, a/#, d/x "
         "(retained replay and resend against read permission); obscure-not-authorized on 1/4; quick 700 / thorough "
         "20000 histories.  non-trivial = the history has a will, a subscribe or a publish; distinct = distinct case lines",
    modelled="server.go processPublish (topic check, write check, retain, ack, fan-out), publishToSubscribers / "
             "publishToClient (read check, No-Local, offline in-flight), Subscribers.SelectShared / MergeSharedSelected, "
             "processSubscribe (codes incl. 0x82, creation), publishRetainedToClient, validateConnect (will topic), "
             "sendLWT, sendDelayedLWT (incl. its wiping of the current connection's will), inheritClientSession + "
             "ResendInflightMessages (resume, takeover), clearExpiredClients, processPubrel, "
             "InboundTopicAliases.Set, attachClient's end-of-connection block, Server.Publish (inline)",
    assumptions=["the permission relation is constant over a history and depends on the client id only",
                 "at a takeover the new connection attaches before the old one runs its teardown (harness schedule)",
                 "filter validity and matching are the specifications of C30 / C01 (valid_filter_spec, topic_matches)"],
)
