PROP = dict(
    title="No client byte stream can crash the broker or disturb other clients",
    design_ref="DESIGN.md section 8, C28 (partial)",
    technique="Coq proofs about the inbound framing model (first byte = standard's flag table by a lifted 256-byte "
              "sweep; length field via the C29 theorems; size refusal decided from the header alone; packet "
              "boundaries), tied to Client.ReadFixedHeader/ReadPacket by differential execution; crash-freedom and "
              "isolation of other connections exercised dynamically beside a reference client pair (not proved)",
    level_text="PARTIAL.  Proved for all byte streams: the framing layer accepts exactly standard headers, refuses "
               "over-size packets before any body byte, never lets one packet's bytes leak into the next; for streams of ANY number of packets (induction): good packets followed by any tail come out exactly, the tail decides the end alone (C28_stream_complete/_bad_tail), and every delivered frame list is a segmentation of a stream prefix into standard in-limit packets (C28_stream_sound).  Decoder "
               "totality is C27.  Not provable in a model: run-time panics elsewhere in the Go handlers and scheduler-"
               "level interference; the `bytes` engine drives hostile streams next to reference traffic and the "
               "extracted monitor isolation_ok decides each observation.",
    level_note="Trusted: Coq kernel, extraction, OCaml driver, Go harness (in-memory connections; panics in connection "
               "handlers are caught per goroutine and reported as observations; a panic in another goroutine kills the "
               "harness process, which the driver reports as a violation).  Modelled not verified: bufio.Reader, "
               "io.ReadFull (a list of bytes).",
    engines=[dict(hx="framing"), dict(hx="bytes")],
    theorems=["C28_header_is_standard", "C28_maxsize_refused_before_body", "C28_frame_sound", "C28_framing_partial",
              "C28_stream_complete", "C28_stream_exact", "C28_stream_bad_tail", "C28_stream_sound"],
    model_files="coq/IO/Framing.v, coq/IO/FramingStream.v (proofs over whole streams), coq/IO/Isolation.v",
    rule="framing: all 256 first bytes; sizes -4..+4 around 14 limits covering 1-3 byte length fields; random "
         "streams of valid packets, garbage, non-minimal/over-long length fields, truncated, with random limits. "
         "bytes: 150 (thorough 5000) sessions: attacker sends 3-8 chunks (random, mutated catalogue vectors of "
         "packets.TPacketData, valid packets, huge declared lengths) after valid/absent CONNECT (v3/4/5, with will) "
         "while a publisher sends numbered messages to a subscriber; non-trivial = more than one frame / more than one "
         "reference message",
    modelled="packets/fixedheader.go Decode; clients.go ReadFixedHeader, ReadPacket up to io.ReadFull",
    assumptions=["bufio/io deliver the bytes of the stream in order"],
)
