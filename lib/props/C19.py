PROP = dict(
    title="Hook chain results are honoured consistently",
    design_ref="DESIGN.md section 8, C19",
    technique="Coq proofs by induction over the hook stack (a list of records of arbitrary functions, None = method not "
              "provided) about a model of the Hooks dispatch methods (OnPublish, OnPacketRead, OnSubscribe, "
              "OnConnectAuthenticate, OnACLCheck) and of what server.go / clients.go do with their results; model tied to "
              "the real broker by differential execution: stacks of 1-3 scripted mqtt.Hook implementations (+ one infra "
              "hook) are installed in the real broker, every hook logs what it was given, and the extracted model "
              "rebuilt from the same scripts must reproduce the hook log, every connection's packets, the retained "
              "store and the topic index after every step",
    level_text="Theorems for ALL hook stacks, clients, packets, protocol versions and QoS: invocation logs are the traces "
               "over the providing hooks in registration order with each hook given its predecessor's output "
               "(C19_order); a publish rejected on read ends the connection and nothing else happens "
               "(C19_reject_not_processed); a publish the OnPublish chain rejects / ignores / answers with any error is "
               "delivered to nobody and leaves the retained store unchanged in every broker state "
               "(C19_error_never_forwarded); admission iff some authentication hook allows (C19_any_auth); access iff some "
               "ACL hook allows, and the server forwards / retains / subscribes only what is permitted (C19_any_acl).  "
               "The verdict on the code is given by Coq monitors (order, rejected-on-read, error-not-forwarded, any-of "
               "auth, any-of ACL) evaluated on what the real broker did.",
    level_note="Trusted: Coq kernel, extraction, OCaml driver, Go broker harness (in-memory connections, quiescence "
               "probe), mochi's decoder for the broker's output.  Modelled not verified: hooks are total functions of "
               "(client id, packet projection: topic, payload, QoS, retain, packet id / filter list); the small broker "
               "around the chain has clean sessions only, no wills, no shared subscriptions, one matching subscriber "
               "per publish (fan-out order over Go maps is not exercised); OnPacketRead scripts act on PUBLISH packets "
               "only.  The model is that of the repaired code (fix fcb436d); Findings/FixedC19.v keeps the pre-fix "
               "behaviour with kernel-checked witnesses.",
    engines=[dict(hx="hooks")],
    theorems=["C19_order", "C19_reject_not_processed", "C19_error_never_forwarded", "C19_any_auth", "C19_any_acl"],
    model_files="coq/Hooks/Chain.v",
    rule="18 exhaustive histories (one OnPublish hook answering ErrRejectPacket / CodeSuccessIgnore / a packets.Code / a plain "
         "error / a success-class code / nil — each error bare, wrapped once and wrapped twice with %w; plus an OnPacketRead "
         "rejection in the same three shapes — before or after the ACL hook) x MQTT 3, 3.1.1, 5 x QoS 0-2 x retain, then "
         "random histories: stacks of 1-3 scripted hooks + an infra hook at a random position (per hook: optional "
         "auth table, ACL table, OnPacketRead / OnPublish tables topic -> (rename, append byte, set/clear retain, "
         "result, bare or %w-wrapped once / twice), OnSubscribe table filter -> (filter, qos)), 12-25 operations (connects of p0/p1/q with versions "
         "3/4/5, publishes on 4 topics + $SYS, subscribes of q with 1-2 filters incl. invalid/denied), a probe "
         "subscriber on # and a late subscriber per topic to observe retention; obscure-not-authorized on 1/4; "
         "quick 1200 / thorough 30000 histories.  non-trivial = some OnPublish or OnSubscribe hook was invoked; "
         "distinct = distinct case lines",
    modelled="hooks.go Hooks.OnPublish, OnPacketRead, OnSubscribe, OnConnectAuthenticate, OnACLCheck (entire methods); "
             "clients.go ReadPacket/Read (rejected read ends the connection); server.go processPublish (topic check, "
             "ACL, OnPublish result handling, retain, ack, forward), processSubscribe (per-filter codes, creation, "
             "retained replay), publishToClient (read check), attachClient (authenticate step)",
    assumptions=["hooks are deterministic functions of the client id and the packet projection",
                 "a hook result is its unwrapped class (nil / is ErrRejectPacket / is CodeSuccessIgnore / carries another "
                 "packets.Code / carries none): Chain.classify looks through %w wrappers as errors.Is / errors.As do "
                 "(ChainProofs.classify_wrapn); the harness returns every error bare and wrapped",
                 "the publisher has receive quota left and uses a fresh packet identifier (C07/C08/C11 cover the other cases)",
                 "filter validity and matching are the specifications of C30 / C01 (valid_filter_spec, topic_matches)"],
)
