PROP = dict(
    title="Subscription matching selects exactly the MQTT-matching subscribers",
    design_ref="DESIGN.md section 8, C01",
    technique="Coq refinement proof: the trie model of topics.go (set/seek/trim, scanSubscribers, gather*) selects, "
              "for every operation history and every topic name, exactly the subscriptions whose filter matches under "
              "the MQTT rules (topic_matches, written from the standard); model tied to the Go code by differential "
              "execution of the real TopicsIndex on exhaustive small-alphabet sets and random histories",
    level_text="WORK IN PROGRESS",
    level_note="WORK IN PROGRESS",
    engines=[dict(hx="topics_sub", model="topics")],
    theorems=[],
    model_files="coq/Topics/Trie.v",
    rule="",
    exhaustive=False,
    modelled="topics.go TopicsIndex",
    assumptions=[],
)
