PROP = dict(
    title="Subscription matching selects exactly the MQTT-matching subscribers",
    design_ref="DESIGN.md section 8, C01",
    technique="Coq refinement proof: the model of topics.go (particle tree as a nested inductive, set/seek/trim, "
              "scanSubscribers with its [key; \"+\"] loop, gather*) is shown, through the map content_at : path -> "
              "particle contents, to select for every operation history and every topic name exactly the client, "
              "shared and inline subscriptions whose filter matches under topic_matches (written from MQTT 4.7 / 4.8.2); "
              "model tied to the Go code by differential execution of the real TopicsIndex (extracted model + spec "
              "decide every observation)",
    level_text="Theorem C01_refines over all operation histories (lists of any length of subscribe / unsubscribe / inline "
               "/ retain operations) and all topic names: the three result sets of Subscribers(topic) are set-equal to "
               "the matching subscriptions of the abstract subscription set; shared subscriptions match on the filter "
               "after $share/<group>/ (C01_shared_on_inner_filter).  The model is a transliteration of ~250 lines of "
               "topics.go after the fixes d67a363 and 49432f1, compared with the real TopicsIndex on every single "
               "subscription of depth <= 3 over {a,b,\"\",+,#,$x,$SYS} x 4 flavours x every topic of depth <= 3, every "
               "pair of shallower subscriptions, and random multi-client histories with unsubscribe.",
    level_note="Trusted: Coq kernel, extraction (ExtrOcamlBasic), the OCaml driver, the Go harness.  Modelled not verified: "
               "Go maps (association lists; iteration order is irrelevant because results are compared as sets), "
               "strings.EqualFold on the share prefix (ASCII case + U+017F), packets.Subscription.Merge (the harness reads the "
               "per-filter Identifiers it accumulates to recover the (client, filter) pairs).  The byte-level delivery of "
               "PUBLISH packets to the selected subscribers is the subject of C03, not of this check.",
    engines=[dict(hx="topics_sub", model="topics")],
    theorems=["C01_refines", "C01_shared_on_inner_filter", "C01_only_matching", "C01_dollar"],
    model_files="coq/Topics/Trie.v (model), coq/Topics/Match.v + IndexSpec.v (specification)",
    rule="exhaustive: every subscription of <= 3 levels (thorough 4) over the tokens {a,b,\"\",+,#,$x,$SYS} as client, "
         "$share/g/, inline and $SHARE/h/ subscription x every topic of <= 3 (4) levels over {a,b,\"\",$x,$SYS}; every "
         "pair of subscriptions of <= 2 levels (3 flavours, same/different subscriber) x every topic of <= 2 (3) levels; "
         "random histories of 2-11 operations with unsubscribe over 3 clients / 3 inline ids / filters of <= 6 levels, "
         "queried on topics instantiated from the filters; ill-formed share filters and wildcard topics for "
         "correspondence only.  One case = one history + all its queries; non-trivial = some query selected something",
    exhaustive=False,
    modelled="topics.go: TopicsIndex.Subscribe, Unsubscribe, InlineSubscribe, InlineUnsubscribe, set, seek, trim, "
             "Subscribers, scanSubscribers, gatherSubscriptions, gatherSharedSubscriptions, gatherInlineSubscriptions, "
             "isolateParticle, SharedSubscriptions/Subscriptions/InlineSubscriptions maps",
    assumptions=["operations on the index are applied one at a time (concurrency is C31)",
                 "shared filters have a filter part after $share/<group>/ (IsValidFilter, checked before Subscribe; C30)",
                 "topic names are non-empty and contain no wildcard characters (IsValidFilter(topic, true); C30)",
                 "the harness stores a positive Identifier in every client subscription so that Merge records the filter"],
)
