PROP = dict(
    title="Idle connections are closed after one and a half keepalive periods",
    design_ref="DESIGN.md section 8, C37",
    technique="Coq proof (induction over the list of packet arrival times) about a millisecond model of "
              "Client.refreshDeadline and the Client.Read packet loop; model tied to the Go code by recording what the "
              "real Client.Read / Server.EstablishConnection pass to net.Conn.SetDeadline for every keepalive value "
              "0..65535 (no waiting), by event traces of whole sessions (every packet re-arms the deadline), and by "
              "wall-clock runs over net.Pipe on both sides of the 1.5 x K boundary",
    level_text="Theorems for every keepalive 0..65535 and every list of arrival times: closed once 1.5 K s have passed "
               "since the last packet (whatever came before), never closed while gaps stay below 1.5 K s (every packet is "
               "read and re-arms), a late packet is not read, keepalive 0 never closes; plus: the int64 nanosecond "
               "expression cannot wrap and equals 1500 K ms.  Partial: the timers of the OS / Go runtime (net.Conn "
               "deadlines fire when set) are trusted and exercised only by the wall-clock runs (K = 1 quick, 0..3 "
               "thorough, margins of a quarter of K); packet processing time is taken as zero in the model (in the "
               "code it only delays the re-arm, i.e. makes the deadline later).",
    level_note="Trusted: Coq kernel, extraction, OCaml driver, Go harness (its recording net.Conn and its clock reads). "
               "Modelled not verified: time.Time/Duration arithmetic (int64 ns, written into the model), net.Conn "
               "deadline semantics (a blocked Read fails once the deadline has passed), bufio.",
    engines=[dict(hx="keepalive")],
    theorems=["C37_deadline", "C37_closes_by", "C37_never_early", "C37_late_packet_not_read", "C37_zero_disables",
              "C37_outbound_irrelevant", "C37_mixed_closes_by", "C37_mixed_never_early", "C37_writes_do_not_extend"],
    model_files="coq/IO/Keepalive.v",
    rule="probe: every keepalive 0..65535 through the real Client.Read on a recording net.Conn (exhaustive; offset "
         "accepted in [1500 K, 1500 K + 50] ms); sessions: CONNECT (v4/v5) + 0..6 random packets through "
         "EstablishConnection for 25 boundary keepalives and 150 (thorough 3000) random ones, every packet must be "
         "followed by a correct re-arm; real time: K = 1 with a 1.25 s gap (must survive, then close within "
         "[1.5, 1.75] s) and a 1.75 s gap (must be closed first); thorough K = 0..3, several gaps.  outbound traffic: 10 (thorough 70) sessions of a subscriber that is silent after SUBSCRIBE while the broker writes to it on its own initiative (retained message on subscribe, inline publish, another client publishing, another client's will) at least 80 ms after the last inbound packet — every SetDeadline must still put the deadline 1.5 K after the last INBOUND packet (offsets are measured from it; writes are explicit no-op events in the model) — and a wall-clock run K = 1 with an inline publisher every 0.4 s (thorough 5 such runs, K = 0..3): closed 1.5 K after the SUBSCRIBE regardless of the deliveries.  non-trivial = "
         "K > 0 (sessions: at least one packet after the CONNECT); distinct = distinct case lines",
    exhaustive=True,
    modelled="clients.go refreshDeadline (entire function), Client.Read loop (arm / read / handle order); "
             "server.go attachClient's arm after OnConnect",
    assumptions=["a packet arrives at one instant and is processed in zero time (real processing only delays the re-arm)",
                 "net.Conn deadlines fire when set (OS / Go runtime timers; exercised by the wall-clock cases only)",
                 "the harness clock read precedes the code's time.Now() by less than 50 ms (least of up to 4 observations)"],
)
