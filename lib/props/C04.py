PROP = dict(
    title="Delivered QoS, subscription identifiers and retain flag follow the options",
    design_ref="DESIGN.md section 8, C04",
    technique="Coq proofs over the component model of the routing path (publishToSubscribers, Subscription.Merge, "
              "SelectShared/MergeSharedSelected with the map iteration as an oracle, publishToClient, "
              "publishRetainedToClient, processSubscribe): for every state, every list of overlapping subscriptions in "
              "every gather order and every oracle, the QoS / identifiers / retain flag on the wire equal the values "
              "computed directly from the set of matching subscriptions; model tied to the real broker by differential "
              "execution over in-memory connections (exhaustive small products + scripted shared/non-shared merges)",
    level_text="Theorems for all states, oracles, drop sets and publishes: C04_qos (min of publish QoS, highest matching "
               "subscription QoS, server maximum), C04_granted, C04_ids (multiset of the identifiers of the matching "
               "subscriptions), C04_ids_retained (identifier, retain flag and QoS of retained deliveries), C04_retain, and "
               "C04_history (the same on the output of the publish step in every state reachable by a history), C04_stored_copy / C04_resume (the copy stored for a client that cannot take the message now equals the transmitted one and is what a resumed session is sent).  Three "
               "defects were repaired first (see fixed:) and their pre-fix behaviour is kept as kernel-checked witnesses "
               "in coq/Findings/FixedC04.v.  The verdict on the code is the Coq monitor c04_publish / c04_subscribe "
               "applied to the PUBLISH packets and SUBACK codes the real broker wrote.",
    level_note="Trusted: Coq kernel, extraction, OCaml driver, Go broker harness, mochi's decoder for the broker's output in "
               "this check.  Matching is taken from the specification topic_matches (that the trie computes it is C01/C02).  "
               "Modelled not verified: Go maps keyed by client id are functions of the client; the shared selection is an "
               "oracle reconstructed from who received (all candidate oracles are tried).",
    engines=[dict(hx="route", args=["c04"], model="route_c04"), dict(hx="route", args=["c04f"], model="route_c04f"),
             dict(hx="route", args=["c04r"], model="route_c04f")],
    theorems=["C04_qos", "C04_granted", "C04_ids", "C04_ids_retained", "C04_retain", "C04_history", "C04_stored_copy", "C04_resume"],
    model_files="coq/Session/Deliver.v",
    rule="server maximum QoS 0/1/2 x subscriber version 4/5 x every single subscription over (QoS 0-2, identifier none/1/2, "
         "RAP) (exhaustive) + sampled sets of 2-3 overlapping subscriptions over {a/b, a/+, a/#, #} (quick 150, thorough 3000 "
         "per configuration); per set: three retained messages published at QoS 0/1/2 before the subscriptions (retained "
         "deliveries on each SUBSCRIBE), then live publishes at QoS 0/1/2 x retain flag; scripted merges of one client's "
         "non-shared subscription with two shared selections and an inline publish.  Second stream (c04f, 160 / 6000 histories): subscribers that withhold acknowledgements (MQTT 5 with Receive Maximum 1-2 and a persistent session, MQTT 3.1.1 persistent), bursts of QoS 1/2 publishes with unique payloads, single acknowledgements, disconnects and resumes: every PUBLISH copy received in any step (first transmission, released after a hold, delivered on reconnection, DUP resend) is judged by the C04 specification of the publish with that payload in the state in which it was published.  Third stream (c04r, 24 / 300 histories x bolt, redis (thorough: all four back ends)): the same with a real storage hook, a broker shutdown and a second broker on the same store (VerifReadStore) before the persistent sessions resume: a delivery resent after a restart must carry the QoS, subscription identifiers and retain flag the original delivery had.  non-trivial = a PUBLISH was delivered "
         "or the step is a SUBSCRIBE; distinct = distinct case lines",
    exhaustive=False,
    modelled="server.go publishToSubscribers/publishToClient (prefix)/publishRetainedToClient/processSubscribe, "
             "packets.go Subscription.Merge, topics.go SelectShared/MergeSharedSelected",
    assumptions=["protocol versions are 3, 4 or 5", "filters of one client are distinct map keys (state invariant, proved preserved)",
                 "share prefix spelled consistently ($share case variants address the same slot in the trie; not exercised)"],
)
