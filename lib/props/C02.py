PROP = dict(
    title="Retained messages returned on subscribe are exactly those matching the filter",
    design_ref="DESIGN.md section 8, C02",
    technique="Coq refinement proof: the model of TopicsIndex.RetainMessage / Messages / scanMessages (particle tree with "
              "retainPath bookkeeping plus the Retained map) returns, for every history of retain / clear / expiry "
              "operations and every well-formed filter, a permutation of the retained messages whose topic the filter "
              "matches under the same topic_matches as live delivery; nested induction over the particle tree is "
              "confined to the '#' descent; model tied to the Go code by differential execution of the real TopicsIndex",
    level_text="Theorem C02_refines over all operation histories and all filters with whole-level wildcards: Messages(filter) "
               "is a permutation (each message exactly once, C02_once) of { (t, m) | retained t = m, topic_matches filter t } "
               "(C02_exactly); in particular x/# includes x and leading wildcards skip every $-topic.  The model mirrors "
               "topics.go after fix 1c93a7c and is compared with the real index on all sets of <= 3 retained topics "
               "x all filters of depth <= 3 over the token alphabet and on random retain/clear/expire histories.",
    level_note="Trusted: Coq kernel, extraction, OCaml driver, Go harness.  Modelled not verified: packets.Packets (the "
               "Retained map, an association list), Go map iteration over child particles (order irrelevant: multiset "
               "comparison).  The retained PUBLISH packets actually written after SUBACK (publishRetainedToClient, "
               "subscription options, retain handling) belong to the broker-level checks (C04/C05), not to this one.",
    engines=[dict(hx="topics_ret", model="topics")],
    theorems=["C02_refines", "C02_exactly", "C02_once"],
    model_files="coq/Topics/Trie.v (model), coq/Topics/Match.v + IndexSpec.v (specification)",
    rule="exhaustive: every single retained topic of <= 3 levels (thorough 4) over {a,b,\"\",$x,$SYS}, every set of 2 and 3 "
         "retained topics of <= 2 levels (thorough: pairs of <= 3 levels) x every filter of <= 3 (4) levels over "
         "{a,b,\"\",+,#,$x,$SYS} plus ill-formed filters (correspondence only); random histories of 1-10 retain / clear / "
         "Retained.Delete operations on topics that are prefixes / extensions of each other, queried with filters "
         "generalised from the topics.  One case = one history + all its filters; non-trivial = some filter returned something",
    exhaustive=False,
    modelled="topics.go: TopicsIndex.RetainMessage, Messages, scanMessages, set, trim, isolateParticle; packets.Packets",
    assumptions=["operations on the index are applied one at a time (concurrency is C31)",
                 "retained topics are topic names: non-empty, no wildcard characters (checked by the server before RetainMessage; C30)",
                 "filters have wildcards only as whole levels and '#' only last (IsValidFilter; C30); other filters are compared "
                 "with the model only",
                 "the retained packet stored has FixedHeader.Retain set (the server stores only retained publishes)"],
)
