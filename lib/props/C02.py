PROP = dict(
    title="Retained messages returned on subscribe are exactly those matching the filter",
    design_ref="DESIGN.md section 8, C02",
    technique="Coq refinement proof: the model of TopicsIndex.RetainMessage / Messages / scanMessages (particle tree with "
              "retainPath bookkeeping plus the Retained map) returns, for every history of retain / clear / expiry "
              "operations and every well-formed filter, a permutation of the retained messages whose topic the filter "
              "matches under the same topic_matches as live delivery; nested induction over the particle tree is "
              "confined to the '#' descent; model tied to the Go code by differential execution of the real TopicsIndex",
    level_text="Theorem C02_refines over all operation histories and all filters with whole-level wildcards: Messages(filter) "
               "is a permutation (each message exactly once, C02_once) of { (t, m) | retained t = m, topic_matches filter t } "
               "(C02_exactly); in particular x/# includes x and leading wildcards skip every $-topic.  The model mirrors "
               "topics.go after fix 1c93a7c and is compared with the real index on all sets of <= 3 retained topics "
               "x all filters of depth <= 3 over the token alphabet and on random retain/clear/expire histories.",
    level_note="Trusted: Coq kernel, extraction, OCaml driver, Go harness.  Modelled not verified: packets.Packets (the "
               "Retained map, an association list), Go map iteration over child particles (order irrelevant: multiset "
               "comparison).  The retained PUBLISH packets actually written after SUBACK (publishRetainedToClient, "
               "subscription options, retain handling) belong to the broker-level checks (C04/C05); this check covers which "
               "of the matching retained messages reach the subscriber when some are not deliverable (ACL read denial, full "
               "in-flight window, packet ids exhausted) — C02_delivered_every_order and engine topics_retsub; retained "
               "messages held back by the client's Receive Maximum (send quota 0) are not exercised.",
    engines=[dict(hx="topics_ret", model="topics"), dict(hx="topics_retsub"), dict(hx="topics_retainsched")],
    theorems=["C02_refines", "C02_exactly", "C02_once", "C02_delivered_every_order", "C02_after_any_schedule"],
    model_files="coq/Topics/Trie.v (model), coq/Topics/Match.v + IndexSpec.v (specification), coq/Topics/RetSub.v "
                "(delivery loop of publishRetainedToClient + its specification)",
    rule="exhaustive: every single retained topic of <= 3 levels (thorough 4) over {a,b,\"\",$x,$SYS}, every set of 2 and 3 "
         "retained topics of <= 2 levels (thorough: pairs of <= 3 levels) x every filter of <= 3 (4) levels over "
         "{a,b,\"\",+,#,$x,$SYS} plus ill-formed filters (correspondence only); random histories of 1-10 retain / clear / "
         "Retained.Delete operations on topics that are prefixes / extensions of each other, queried with filters "
         "generalised from the topics.  One case = one history + all its filters; non-trivial = some filter returned something.  "
         "ADDED (broker level, engine topics_retsub, 700 / 12000 cases): the real broker over in-memory connections; 3-11 "
         "retained publishes of QoS 0/1/2 (one third of the cases all QoS 0) on topics over {a,b,c} (<= 2 levels), $x/a, "
         "a/b/c, b/; a v4 or v5 subscriber sends SUBSCRIBE (QoS 0/1/2) with one of 11 filters while a FAULT dimension is "
         "active: read access denied for 0-2 single topics by the ACL hook (mostly topics the filter selects), "
         "Capabilities.MaximumInflight 1-3 or a packet id space of 2-4 ids, and 0..capacity unacknowledged QoS 1 "
         "publishes already in flight to the subscriber.  The PUBLISH packets after SUBACK must satisfy RetSub.retsub_okb: "
         "each matching, readable retained message at most once at QoS min(message, subscription, 2) with the retain flag, "
         "every readable QoS 0 one present, exactly min(readable QoS>0 ones, free window slots) QoS>0 ones — for every scan "
         "order (the broker's map iteration order is unknown to the checker).  Classes: plain / acl / window / acl+window.  "
         "ADDED (concurrency, engine topics_retainsched, 900 / 15000 forced schedules, shared with C05): a retained publish "
         "parked at the schedule point retain.store between set(...) and the store while 1-2 goroutines unsubscribe / clear / "
         "subscribe on the same branch; after quiescence Messages(f) for the exact filter and every wildcard filter selecting "
         "the topic must be exactly the retained messages whose topic matches f under SOME serial order of the concurrent "
         "operations consistent with per-goroutine order (Topics.RetainConc.retain_engine)",
    exhaustive=False,
    modelled="topics.go: TopicsIndex.RetainMessage, Messages, scanMessages, set, trim, isolateParticle; packets.Packets",
    assumptions=["operations on the index are applied one at a time (concurrency is C31)",
                 "retained topics are topic names: non-empty, no wildcard characters (checked by the server before RetainMessage; C30)",
                 "filters have wildcards only as whole levels and '#' only last (IsValidFilter; C30); other filters are compared "
                 "with the model only",
                 "the retained packet stored has FixedHeader.Retain set (the server stores only retained publishes)"],
)
