PROP = dict(
    title="Every request that requires a response gets one",
    design_ref="DESIGN.md section 8, C07",
    technique="Coq proof by exhaustive case analysis that the response-deciding model of server.go answers every "
              "well-formed request (or closes), modulo two executable known-finding predicates; model tied to the "
              "real broker by differential execution of generated request sessions over in-memory connections",
    level_text="Theorem over all decision contexts and all well-formed requests (C07_modulo_findings) plus two "
               "kernel-checked refutation witnesses that replay on the real broker.  The verdict on the code is the "
               "Coq spec monitor obs_ok applied to what the requesting connection actually received.",
    level_note="Trusted: Coq kernel, extraction, OCaml driver, Go broker harness (in-memory net.Conn, quiescence "
               "detection through the verif-tag probe), mochi's own decoder used to parse the broker's output in this "
               "check (C23 uses an independent decoder).  Modelled not verified: the decision context (topic validity, "
               "ACL answer, in-flight record under the id, receive quota) is read from the real broker before each "
               "request; hooks that reject packets are excluded as the property says.",
    engines=[dict(hx="respond"), dict(hx="writesched", model="respond")],
    theorems=["C07_modulo_findings", "C07_modulo_findings_sized", "C07_refuted_pubrel", "C07_refuted_downgrade"],
    model_files="coq/Session/Respond.v",
    rule="every eighth session (MQTT 5) announces Maximum Packet Size 64 and half of its SUBSCRIBE/UNSUBSCRIBE requests carry 62-81 filters, so the acknowledgement cannot be sent and the connection must be ended (model_response_sized); sessions of 40 (thorough 60) random requests on one connection (PUBLISH QoS 0-2 on valid/$SYS/denied "
         "topics with ids from {1,2,3} so that ids collide with unreleased QoS 2 exchanges, PUBREL with 0/0x92, "
         "SUBSCRIBE/UNSUBSCRIBE with 1-3 filters incl. invalid/denied/shared+NoLocal, PINGREQ) x versions 3/4/5 x "
         "server max QoS 0/1/2 x receive maximum 1 x obscure-not-authorized.  writesched: 60 (thorough 1500) forced "
         "interleavings of the write loop and the handler at the schedule point write.beforeLock of WritePacket: the "
         "response (PINGRESP/SUBACK/PUBACK) enters WritePacket while 2-4 publishes for the same client are queued, "
         "the queue is drained, then the response takes the lock (or the other way round); every fifth schedule is a "
         "failed queued write: the write loop is held with the first packet until a burst of 1-2 small, one oversized "
         "(refused for the MQTT 5 subscriber's Maximum Packet Size 100) and 0-2 more small publishes is queued, so the "
         "refused packet is met with a non-empty queue behind it, then the subscriber sends a request (answered, and "
         "all small publishes on the wire, or the case counts as unanswered); non-trivial = the request requires a "
         "response; distinct = distinct (context, request, observation) lines",
    modelled="server.go processPacket/processPublish (up to the ack)/processPubrel/processSubscribe/"
             "processUnsubscribe/processPingreq/receivePacket: the response decision only",
    assumptions=["no hook rejects packets (property's premise)", "requests are well-formed in the sense of wf_request"],
)
