PROP = dict(
    title="Every published message reaches exactly the entitled subscribers, once each",
    design_ref="DESIGN.md section 8, C03",
    technique="Coq proof over the component model of the routing path that, in every state reachable by a history of "
              "connect/disconnect/subscribe/unsubscribe/publish/inline operations and for every oracle of the shared "
              "selection and every set of reported drops, the number of copies of a publish on a client's connection is 1 "
              "if the client is entitled (connected, holds a matching readable subscription whose No Local does not exclude "
              "the message) and not a reported drop, else 0, with topic, payload and properties preserved - modulo one "
              "executable known-finding predicate; model tied to the real broker by differential execution of generated "
              "histories over in-memory connections",
    level_text="C03_modulo_findings (all histories, oracles, drop sets), C03_state_modulo_findings (all well-formed states), "
               "C03_decision, C03_fields, C03_reachable (invariant preserved by every operation) and the kernel-checked "
               "refutation C03_refuted that replays on the real broker (KF_C03_nolocal_merge, behaviour pinned by "
               "TestMergeSubscription).  One defect was repaired (user properties stripped for subscribers with Request "
               "Problem Information = 0; witness in coq/Findings/FixedC03.v).  The verdict on the code is the Coq monitor "
               "c03_publish applied to what every connection actually received.",
    level_note="Trusted: Coq kernel, extraction, OCaml driver, Go broker harness (in-memory net.Conn, quiescence probe), "
               "mochi's decoder for the broker's output.  Reported drops (OnPublishDropped) enter as an oracle: a full outbound queue and, in the stream c03w, packets larger than "
               "the subscriber's Maximum Packet Size; in-flight limit and packet-id exhaustion are not provoked here (C10/C11).  QoS 0 to an offline session is dropped, QoS > 0 is kept and compared "
               "when the session reconnects (not compared for sessions holding shared subscriptions: the pick made while "
               "offline is unobservable).  Session takeover is excluded (C14).  Schedules: every step runs to quiescence.",
    engines=[dict(hx="route", args=["c03"], model="route_c03"), dict(hx="route", args=["c03w"], model="route_c03w")],
    theorems=["C03_modulo_findings", "C03_state_modulo_findings", "C03_decision", "C03_fields", "C03_reachable", "C03_refuted"],
    model_files="coq/Session/Deliver.v",
    rule="1200 (thorough 20000) histories of 25 (40) operations over 2-4 clients (MQTT 3.1.1 and 5 mixed, clean and persistent "
         "sessions, Request Problem Information 0), topics {a/b, a/c, a, b}, filters {a/b, a/+, a/#, #, +/b, a/c, +, b}, five "
         "$share filters in three groups, invalid and refused filters, No Local, RAP, RH 0-2, identifiers, read-deny list, "
         "QoS 0-2, retained / empty payloads, MQTT 5 properties, inline publish/subscribe/unsubscribe, server maximum QoS "
         "0/1/2, retain available on/off.  Second stream (c03w, 150 / 5000 histories): the write path - MQTT 5 subscribers with a "
         "Maximum Packet Size of 60-80 (100-120) bytes beside an unlimited MQTT 3.1.1 subscriber, write buffers of 64/16/200 bytes, "
         "bursts of 2-5 PUBLISH packets (QoS 0-2) fed to the broker in ONE read in which small messages are followed by an oversized "
         "one (last position in half of the bursts; reported dropped through OnPublishDropped) and then silence; judged at "
         "quiescence: every entitled copy that was not reported dropped is on the wire exactly once (payloads unique).  non-trivial = publish step with at least one delivery; distinct = distinct case lines",
    exhaustive=False,
    modelled="server.go processPublish (routing part)/publishToSubscribers/publishToClient (prefix), attachClient/"
             "inheritClientSession (session kept or dropped), processSubscribe/processUnsubscribe (bookkeeping), "
             "packets.go Merge, topics.go SelectShared/MergeSharedSelected",
    assumptions=["every client authorised to connect and to publish; read permission given by a fixed deny list",
                 "no session takeover, no packet-id or in-flight exhaustion, acknowledgements sent promptly"],
)
