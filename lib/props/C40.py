PROP = dict(
    title="The inline client API behaves like a regular subscriber and publisher",
    design_ref="DESIGN.md section 8, C40",
    technique="Coq proofs over the component model's inline operations (Server.Publish/Subscribe/Unsubscribe): an inline "
              "publish reaches every entitled client and every inline identifier with a matching subscription exactly once, "
              "client copies have the minimum QoS, an inline subscription gets the matching retained messages first and live "
              "messages afterwards, unsubscribing removes exactly (identifier, filter); model tied to the real broker by "
              "differential execution with recording inline handlers",
    level_text="C40_reaches_all_clients, C40_reaches_all_inline, C40_qos, C40_retained_then_live, C40_unsub_one, "
               "C40_unsub_others (all well-formed states, oracles, drop sets).  The verdict on the code is the Coq monitors "
               "c40_inline_calls / c40_inline_publish / c40_inline_subscribe applied to the recorded handler calls and the "
               "PUBLISH packets on the connections.",
    level_note="Trusted: as C03.  Matching (a trailing '#' matching the parent level) is topic_matches; the trie side is C01, "
               "where the inline parent-level defect was repaired.  Inline subscriptions are keyed by the identifier "
               "(Subscribers.InlineSubscriptions): one identifier with two matching filters is called once.  Concurrency: "
               "C40_inline_atomic_all_schedules is about the model in which InlineSubscribe's walk + add is one atomic step "
               "under the index root lock (that the code has this shape is re-read from the AST by C31's topics_rootlock); "
               "the split variant is refuted by a concrete schedule (C40_split_refuted); the real code is exercised on forced "
               "schedules through one verif-tag schedule point (commit 0f394d1), other interleavings only as the Go "
               "scheduler produces them.",
    engines=[dict(hx="route", args=["c40"], model="route_c40"), dict(hx="topics_inlinesched"), dict(hx="topics_inlinereent")],
    theorems=["C40_reaches_all_clients", "C40_reaches_all_inline", "C40_qos", "C40_retained_then_live", "C40_unsub_one",
              "C40_unsub_others", "C40_inline_atomic_all_schedules"],
    model_files="coq/Session/Deliver.v; coq/Topics/InlineConc.v (concurrency dimension: atomic model, split variant, checker)",
    rule="histories as for C03 with 35% inline operations (inline publish QoS 0-2 retained or not, inline subscribe / "
         "unsubscribe of identifiers 1-3 on {a/b, a/+, a/#, #, +/b, a/c, +, b}) mixed with regular clients.  non-trivial = "
         "inline operation, or publish step with an inline handler call.  "
         "ADDED concurrency dimension (engine topics_inlinesched, 900 / 15000 forced schedules on a real Server with "
         "InlineClient): an inline Subscribe is parked at the schedule point inline.add (between the walk that creates the "
         "filter's path and the insertion of the subscription) while 1-2 other goroutines run client Unsubscribe of the same "
         "filter, a retained clear on the branch, inline Unsubscribe of the same / another identifier, or a Publish; it is "
         "then released; after quiescence: publishes on the matching topics (trailing '#' on the parent level included), "
         "inline Unsubscribe, publishes again.  Verdict by Topics.InlineConc.inline_engine: some serial order consistent "
         "with every goroutine's order must explain every return value and every set of handlers called (each exactly "
         "once) under the plain-set specification.  "
         "ADDED (engine topics_inlinereent, ~390 / ~13000 cases): an inline Subscribe on a filter with a non-empty retained "
         "backlog whose handler, inside its first retained callback, causes another publish through the embedding API — "
         "re-entrantly (Server.Publish from inside the callback) or from a second goroutine while the callback is parked "
         "until that publish has returned — to a topic matching the same subscription or another one, with the retain flag "
         "or without; then a probe publish.  Verdict by Topics.InlineReent.reent_engine on the handler's log: every backlog "
         "message exactly once; the publish made during the hand-over exactly once if retained and matching (it either "
         "precedes the subscribe and is in the retained pass, or follows it and arrives live — never zero deliveries), at "
         "most once if not retained (zero is a serial order but differs from the model: subscription inserted first, code 2), "
         "never if not matching; the probe exactly once and last",
    exhaustive=False,
    modelled="server.go Publish/Subscribe/Unsubscribe/InjectPacket, topics.go InlineSubscribe/InlineUnsubscribe (as a set of "
             "(identifier, filter))",
    assumptions=["no regular client uses the client id 'inline'"],
)
