PROP = dict(
    title="The inline client API behaves like a regular subscriber and publisher",
    design_ref="DESIGN.md section 8, C40",
    technique="Coq proofs over the component model's inline operations (Server.Publish/Subscribe/Unsubscribe): an inline "
              "publish reaches every entitled client and every inline identifier with a matching subscription exactly once, "
              "client copies have the minimum QoS, an inline subscription gets the matching retained messages first and live "
              "messages afterwards, unsubscribing removes exactly (identifier, filter); model tied to the real broker by "
              "differential execution with recording inline handlers",
    level_text="C40_reaches_all_clients, C40_reaches_all_inline, C40_qos, C40_retained_then_live, C40_unsub_one, "
               "C40_unsub_others (all well-formed states, oracles, drop sets).  The verdict on the code is the Coq monitors "
               "c40_inline_calls / c40_inline_publish / c40_inline_subscribe applied to the recorded handler calls and the "
               "PUBLISH packets on the connections.",
    level_note="Trusted: as C03.  Matching (a trailing '#' matching the parent level) is topic_matches; the trie side is C01, "
               "where the inline parent-level defect was repaired.  Inline subscriptions are keyed by the identifier "
               "(Subscribers.InlineSubscriptions): one identifier with two matching filters is called once.",
    engines=[dict(hx="route", args=["c40"], model="route_c40")],
    theorems=["C40_reaches_all_clients", "C40_reaches_all_inline", "C40_qos", "C40_retained_then_live", "C40_unsub_one",
              "C40_unsub_others"],
    model_files="coq/Session/Deliver.v",
    rule="histories as for C03 with 35% inline operations (inline publish QoS 0-2 retained or not, inline subscribe / "
         "unsubscribe of identifiers 1-3 on {a/b, a/+, a/#, #, +/b, a/c, +, b}) mixed with regular clients.  non-trivial = "
         "inline operation, or publish step with an inline handler call",
    exhaustive=False,
    modelled="server.go Publish/Subscribe/Unsubscribe/InjectPacket, topics.go InlineSubscribe/InlineUnsubscribe (as a set of "
             "(identifier, filter))",
    assumptions=["no regular client uses the client id 'inline'"],
)
