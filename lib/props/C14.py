PROP = dict(
    title="Session present flag and session takeover behave per clean start",
    design_ref="DESIGN.md section 8, C14",
    technique="Coq: component model of attachClient / inheritClientSession / DisconnectClient / UnsubscribeClient / the "
              "handler tail (Session/Lifecycle.v); specification monitor mon14 (Session/LifeSpec.v); theorem by induction "
              "over all operation histories that the model never violates it, resting on a proved structural invariant "
              "(Session/LifeInv.v: Clients points to existing, not taken-over objects; open objects are registered; every "
              "topic-index entry belongs to the registered session that holds the subscription).  Interleaving models of "
              "the takeover windows (Conc/Takeover.v, Conc/Connack.v) decided for all schedules by kernel-checked "
              "exhaustive exploration.  Tie to the code: differential execution of takeover / reconnect histories on the "
              "real broker (manual teardown of the old handler) and forced schedules through verifPoints.",
    level_text="C14_sp, C14_resume_keeps, C14_clean_drops, C14_old_silent: for every configuration and every history of "
               "operations the model's trace satisfies the monitor (sequential orders).  Under schedules two clauses are "
               "REFUTED with witnesses that replay on the real broker: C14_registered_schedules_refuted (the old handler's "
               "stale !IsTakenOver() test lets it delete the NEW client's registration) and C14_keeps_schedules_refuted (a "
               "QoS>0 message published between inheritClientSession and Clients.Add is lost); the _modulo_findings "
               "theorems prove both clauses for every other schedule of the window models.",
    level_note="Trusted: Coq kernel, extraction, OCaml driver, Go broker harness, mochi's decoder for the packets a "
               "connection receives.  Modelled not verified: filters are literal topics (topic matching is C01), the "
               "persistent store (restore after clean start is C21), packet identifiers, flow control.  session present "
               "for a taken-over connected MQTT 5 session with expiry 0 is a documented don't-care of the monitor.",
    engines=[dict(hx="life", args=["C14"], model="life14"),
             dict(hx="takeover_sched", args=["C14"], model="takeover_sched"),
             dict(hx="connack_sched", args=["C14"], model="connack_sched"),
             dict(hx="restart_life", timeout=900)],
    theorems=["C14_sp", "C14_resume_keeps", "C14_clean_drops", "C14_old_silent",
              "C14_registered_schedules_refuted", "C14_registered_modulo_findings",
              "C14_keeps_schedules_refuted", "C14_keeps_modulo_findings"],
    model_files="coq/Session/Lifecycle.v coq/Conc/Takeover.v coq/Conc/Connack.v",
    rule="scenario product: old session MQTT 3/4/5 x clean 0/1 x expiry 0/30 x new connection MQTT 4/5 x clean 0/1 x "
         "{takeover of a live connection, reconnect after a network drop, takeover with late teardown} with subscriptions, "
         "unacknowledged QoS 1 messages and probe publishes before/after; 250 (thorough 6000) random histories of 22 (32) "
         "operations over two client ids; forced schedules: stale takeover check x clean 0/1, sequential orders, an old connection that stopped for its own "
         "reason before the takeover (own DISCONNECT, parked at attach.readReturned until the new connection is through; "
         "Compatibilities.PassiveClientDisconnect: not stopped by the takeover, closes later) x clean 0/1, publish "
         "inside/outside the inherit window x MQTT 4/5.  restart_life (w-storage): histories over two broker processes on one "
         "store of each of the four storage back ends (first process shut down or killed, store-loading step, the client id "
         "comes back with Clean Start 1 / a new persistent session, final restart): at a Clean Start nothing is recorded for "
         "the client id any more, and neither the broker's memory nor the state restored later holds a subscription or "
         "in-flight message older than the clean start (session present is not observed by this engine).  "
         "non-trivial = history of more than two steps or a forced schedule",
    modelled="server.go attachClient, inheritClientSession, DisconnectClient, UnsubscribeClient, SendConnack, the handler "
             "tail of attachClient; clients.go ParseConnect, Stop, ResendInflightMessages (as a multiset)",
    assumptions=["connection numbers name distinct network connections (fresh_conns)",
                 "subscription filters are literal topics; no retained message on a topic a session subscribes to"],
)
