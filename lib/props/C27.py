PROP = dict(
    title="Packet decoding is total: no input makes it panic or overread",
    design_ref="DESIGN.md section 8, C27",
    technique="Coq proof that the model of every per-type Decode method (packets.go), of Properties.Decode and of the "
              "codec.go field decoders ends in Ok or Err for every version byte, fixed header and body. The model reads "
              "buffers only through index/slice primitives that return an explicit Panic outcome exactly where Go raises a "
              "bounds panic; loops carry fuel and out-of-fuel is a separate outcome that is proved unreachable. The model "
              "is tied to the Go code by differential execution under recover() (outcome class and all decoded fields).",
    level_text="Theorems over all byte lists, all 256 header types/flags, all Remaining values and all version bytes: "
               "no Panic, no fuel exhaustion (C27_total, C27_total_stream); declared 16-bit lengths and property lengths "
               "exceeding the available bytes are rejected; returned slices and offsets lie inside the buffer.",
    level_note="Trusted: Coq kernel, extraction (ExtrOcamlBasic), the OCaml driver, the Go harness. Modelled, not verified: "
               "Go slice/index semantics (index i panics iff i >= len; s[lo:hi] panics iff not lo <= hi <= len, with "
               "cap = len as the harness allocates), bytes.Buffer as a list, unicode/utf8.Valid (Unicode table 3-7), "
               "encoding/binary BigEndian. Panics of other kinds (nil dereference etc.) cannot be expressed by the model; "
               "none exists on these paths (value receivers, no maps written) and the harness would observe one.",
    engines=[dict(hx="codec_total")],
    theorems=["C27_total", "C27_total_stream", "C27_declared_length_checked", "C27_bytes_inside",
              "C27_property_length_checked", "C27_property_block_inside"],
    model_files="coq/Codec/Wire.v coq/Codec/Props.v coq/Codec/MochiCodec.v",
    rule="(a) every vector of packets.TPacketData as a stream under versions 3/4/5, and its body with every truncation, "
         "every byte replaced by 00/01/7f/80/ff/+1/-1, every single deletion, insertions, and Remaining values that "
         "disagree with the body; (b) every body of length <= 5 over {00,01,02,26,80} for each of the 15 types under "
         "version 5 (<= 4 / <= 3 over {00,01,02,80} under 4 / 3), every CONNECT tail of length <= 5 over 7 bytes after a "
         "valid protocol header, all 256 header bytes x 8 tails; (c) random bodies biased to property identifiers and "
         "1-3 random mutations of real encoder outputs. thorough: 9-letter alphabet / length 7, 600k random. "
         "non-trivial = body longer than one byte; distinct = distinct case lines. (e) real encodings of packets carrying every special code point / ill-formed UTF-8 sequence in every string-typed field.",
    exhaustive=False,
    modelled="packets/codec.go decode* (entire), packets/properties.go Decode (entire), packets/packets.go all *Decode "
             "methods, packets/fixedheader.go Decode, the type switch of clients.go ReadPacket",
    assumptions=["the body handed to a Decode method has cap == len (ReadPacket copies it with append([]byte{}, p...); "
                 "spare capacity could only turn a would-be panic into a read of zero bytes inside the same allocation)",
                 "FixedHeader.Remaining is treated as an independent input (ReadPacket sets it to len(body))"],
)
