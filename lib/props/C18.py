PROP = dict(
    title="Auth ledger decisions are deterministic and use MQTT level semantics",
    design_ref="DESIGN.md section 8, C18",
    technique="Coq model of hooks/auth/ledger.go (RString.Matches, MatchTopic, AuthOk, ACLOk) with the Go maps (Users, "
              "Filters) as association lists in arbitrary order; proofs by induction over levels / rule lists and over "
              "Permutation that MatchTopic is level-by-level matching, that no decision depends on map enumeration "
              "order, that global rules decide in list order and a user's own rules take precedence; model tied to the "
              "Go code by differential execution, every ledger decision evaluated 50 times on the real code",
    level_text="Theorems for all filters/topics/ledgers/clients (unbounded): MatchTopic = level_match (exact match without "
               "wildcards, '+' exactly one level, trailing '#' one or more further levels) for every filter whose '#' "
               "levels are trailing; acl_ok/auth_ok are invariant under every re-enumeration of the Users map and of every "
               "Filters map (Permutation); the first matching / decisive global rule decides with its index, defaults "
               "(connect refused, ACL allowed) otherwise; a user's own record/ACL decides before any global rule; the model "
               "refines the declarative specification used by the run-time checker.  The real MatchTopic is compared on all "
               "filter x topic pairs of depth <= 3 over {a,b,\"\",+,#}; Ledger.AuthOk/ACLOk and the hook methods "
               "OnConnectAuthenticate/OnACLCheck on random ledgers with overlapping user filters of different access, 50 "
               "evaluations per decision (the set of distinct outcomes must be a singleton).",
    level_note="Trusted: Coq kernel, extraction (ExtrOcamlBasic), the OCaml driver, the Go harness; modelled not verified: "
               "strings.Split/Index/Compare, Go map lookup and iteration (an association list with unique keys enumerated "
               "in an arbitrary order).  A filter with a '#' level before its last level is outside the property (the "
               "existing suite pins MatchTopic('a/+/#/+','a/b/c/d/as/dds')); for it only model = code is checked.  "
               "Where matching filters of one map disagree the property fixes no answer; the model (a granting filter "
               "wins, as in the repaired code) is compared instead (class *-conflict).",
    engines=[dict(hx="ledger")],
    theorems=["C18_match_spec", "C18_match_exact", "C18_match_plus", "C18_match_trailing_hash",
              "C18_deterministic_user_acl", "C18_deterministic", "C18_users_map_order", "C18_order_auth",
              "C18_order_acl", "C18_order_default", "C18_user_precedence", "C18_refines_spec"],
    model_files="coq/Auth/Ledger.v",
    rule="MatchTopic: every filter x topic pair with <= 3 levels over {a,b,\"\",+,#} (thorough: filters also over {a+,#b}, "
         "topics <= 4 levels) (exhaustive); RString.Matches: every rule x value of length <= 3 over {a,b,*} (exhaustive); "
         "2500 (thorough 60000) random ledgers (0-3 users with up to 5 overlapping ACL filters from a nested pool and random "
         "access, 0-3 auth rules and 0-3 ACL rules with client/username/remote/password patterns) x 12 clients/topics x "
         "read+write (+ connect every third), each decision evaluated 50 times, the distinct (index, ok, hook result) "
         "outcomes reported; all 64 access assignments of three nested user filters.  non-trivial = a wildcard/separator "
         "in the filter, resp. a user record or a client-matching rule was reached; distinct = distinct case lines",
    exhaustive=False,
    modelled="hooks/auth/ledger.go RString.Matches, MatchTopic (matched result), Ledger.AuthOk, Ledger.ACLOk; "
             "hooks/auth/auth.go OnConnectAuthenticate, OnACLCheck (return value)",
    assumptions=["keys of a Go map are unique; its iteration order is arbitrary (modelled by universal quantification over permutations)",
                 "the elements result of MatchTopic is not part of the property and not compared"],
)
