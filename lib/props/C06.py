PROP = dict(
    title="Each shared-subscription group receives each matching message exactly once",
    design_ref="DESIGN.md section 8, C06",
    technique="Coq proofs over the component model of SelectShared/MergeSharedSelected with the Go map iteration as an "
              "explicit oracle, universally quantified: one chosen member per group, non-chosen members get nothing, at most "
              "one copy per client; the property's own notion of group (share name) holds outside one executable "
              "known-finding predicate; model tied to the real broker by differential execution (the oracle is "
              "reconstructed from who received: every candidate oracle is tried)",
    level_text="C06_one_per_group, C06_chosen_served, C06_not_chosen_nothing, C06_at_most_one (all states, all oracles), "
               "C06_modulo_findings (exactly one pick per share name unless one share name matches with two different "
               "filters) and the kernel-checked refutation C06_refuted that replays on the real broker "
               "(KF_C06_group_by_filter).  The verdict on the code is the Coq monitor c06_publish: some choice of one member "
               "per share name must explain exactly who received a copy AND the subscription identifiers and QoS on every copy (a member chosen for a group carries that group's identifier / QoS), so a group served through two members or through none is a failing input.",
    level_note="Trusted: as C03.  The finding is kept, not repaired: MQTT defines a shared subscription by ShareName + filter, "
               "the code follows that reading.",
    engines=[dict(hx="route", args=["c06"], model="route_c06"), dict(hx="route", args=["c06t"], model="route_c06")],
    theorems=["C06_one_per_group", "C06_chosen_served", "C06_not_chosen_nothing", "C06_at_most_one", "C06_modulo_findings",
              "C06_refuted"],
    model_files="coq/Session/Deliver.v",
    rule="histories as for C03 biased to shared subscriptions (1/2 of the subscriptions among $share/g/a/+, $share/h/a/#, "
         "$share/g/a/#, $share/h/a/b, $share/g/+/b; members also hold non-shared subscriptions, some offline).  "
         "Second stream (c06t, 200 / 8000 histories): share groups whose filter particle holds only the shared subscriptions "
         "($share/g/a/b, $share/h/x/+, $share/k/y, $share/g/a/b/c/+) while non-shared filters strictly below and above them are "
         "subscribed / unsubscribed and retained messages are set and cleared below them between the publishes (index trims).  "
         "non-trivial = publish step with at least one matching shared subscription",
    exhaustive=False,
    modelled="topics.go Subscribers.SelectShared/MergeSharedSelected, server.go publishToSubscribers",
    assumptions=["all members authorised to read except through the fixed deny list", "no OnSelectSubscribers hook"],
)
