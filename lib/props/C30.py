PROP = dict(
    title="Filter and topic-name validation follows the MQTT rules",
    design_ref="DESIGN.md section 8, C30",
    technique="Coq proof by induction over the bytes/levels of the string that the byte-level model of "
              "IsValidFilter / IsSharedFilter (topics.go, including strings.EqualFold against \"$SHARE\" and "
              "strings.HasPrefix against \"$SYS\") equals the level-wise specification written from the property "
              "text; model tied to the Go functions by differential execution on exhaustive small-alphabet strings",
    level_text="Theorems over ALL byte strings: filter validation = valid_filter_spec (non-empty, '#' only as whole last "
               "level, '+' only as whole levels, $share filter with non-empty wildcard-free share name and non-empty "
               "filter), publish-topic validation = valid_pub_topic_spec (no wildcard, no $SYS prefix), IsSharedFilter = "
               "is_share; levels_ok is shown equivalent to its Prop-level reading.  The real IsValidFilter/IsSharedFilter "
               "are compared with model and spec on every string of length <= 6 (thorough 8) over {/,+,#,$,a}, every "
               "string of <= 5 (thorough 6) tokens over {$share,$SHARE,$SYS,$sys,g,/,+,#}, case-folding corner cases "
               "and random strings on every run.  The SUBACK clause (0x8F / 0x80, nothing created) is checked by the "
               "broker harness (processSubscribe), which calls is_valid_filter.",
    level_note="Trusted: Coq kernel, extraction (ExtrOcamlBasic), the OCaml driver, the Go harness; modelled not verified: "
               "Go strings package (IndexRune/ContainsRune on ASCII runes = byte search; HasPrefix; EqualFold against the "
               "ASCII constant \"$SHARE\" = ASCII case folding plus U+017F for 'S', written into the model).  \"a '$share' "
               "filter\" is read as: first level equals \"$share\" up to case folding (the broker's constant is \"$SHARE\" and "
               "TopicsIndex.Subscribe indexes every case variant as a shared subscription); C30_filter_literal covers the "
               "literal reading outside the other case variants.",
    engines=[dict(hx="valid"), dict(hx="pubvalid"), dict(hx="subinvalid"), dict(hx="subinvalid_restart", timeout=900)],
    theorems=["C30_filter", "C30_topic", "C30_shared", "C30_filter_literal", "C30_levels_ok_meaning", "C30_split_join", "C30_suback", "C30_publish_never_invalid", "C30_publish_monitor"],
    model_files="coq/Topics/Valid.v",
    rule="three observations per string (IsValidFilter(s,false), IsValidFilter(s,true), IsSharedFilter(s)); strings: every "
         "string of length <= 6 (thorough 8) over {/,+,#,$,a} (exhaustive), every concatenation of <= 5 (thorough 6) tokens "
         "from {$share,$SHARE,$SYS,$sys,g,/,+,#} (exhaustive), 29 prefix words (case variants, U+017F, U+212A, invalid "
         "UTF-8, near misses) x 25 tails, random filters of depth <= 5 with hazard levels, random byte strings.  "
         "non-trivial = contains a wildcard or starts with '$'; distinct = distinct case lines.  subinvalid_restart (w-storage): "
         "persistent MQTT 3.1 / 3.1.1 / 5 sessions send SUBSCRIBE packets mixing accepted with refused filters (invalid, "
         "not authorised) on each of the four storage back ends; shutdown; restart on the same store: a refused filter "
         "is neither in the index nor in the client state nor in the store nor anywhere after the restart",
    rule_publish="pubvalid: the real broker (in-memory connections) receives PUBLISH packets whose topic name arrives "
         "plain, with a fresh topic alias, with an already bound alias + non-empty name (re-bind), alias-only (also after a "
         "refused re-bind and on never-bound aliases), QoS 0/1/2, retain on/off, MQTT 3.1/3.1.1/5; names: 13 hand-picked invalid "
         "names and the strings of length <= 3 over {/,+,#,$,a} x 3 routes (scripted: bind alias 1 to a valid name, send the "
         "name by the route, probe alias 1, plain valid publish, probe alias 2) and random histories of 16 (thorough 24) "
         "publishes; observed per message: OnPublished / OnRetainMessage topic names, what a subscriber to #, $SYS/#, $sys/# "
         "received, the acknowledgement, connection closure; at the end the retained store.  Verdict by the Coq monitor: an "
         "invalid name is never routed, retained, delivered or bound to an alias; a valid one is routed once under its own name",
    exhaustive=False,
    modelled="topics.go isolateParticle, IsSharedFilter, IsValidFilter (entire functions)",
    assumptions=["Go strings are byte sequences; '/', '+', '#', '$' are single bytes, so byte-level search equals rune-level search",
                 "the SUBACK reason code clause is covered by the broker-level check, not by this engine"],
)
