PROP = dict(
    title="Variable byte integers are canonical and bounded",
    design_ref="DESIGN.md section 8, C29",
    technique="Coq proof (induction-free 4-level unrolling + lia) that the model of encodeLength/DecodeLength equals "
              "the MQTT 1.5.5 specification for all values and all byte strings; model tied to the Go code by "
              "differential execution (extracted model vs packets.DecodeLength/encodeLength)",
    level_text="Theorems over all N <= 268435455 and all byte lists: round trip, minimal length, decoder = standard's "
               "decoder, rejection above the maximum and beyond four bytes.  The Go functions are 40 lines; the model "
               "mirrors them statement by statement (uint32 wrap included) and is compared with them on an exhaustive "
               "boundary alphabet and random values on every run.",
    level_note="Trusted: Coq kernel, extraction (ExtrOcamlBasic), the OCaml driver, the Go harness; modelled not verified: "
               "bytes.Buffer / io.ByteReader (a list of bytes), Go uint32 arithmetic (written into the model as mod 2^32).",
    engines=[dict(hx="vbi"), dict(hx="codec_par")],
    theorems=["C29_roundtrip", "C29_minimal", "C29_decode_is_spec", "C29_reject_big", "C29_reject_long"],
    model_files="coq/Codec/Vbi.v",
    rule="decode: every byte string of length <= 6 (thorough 7) over the boundary alphabet {00,01,7f,80,81,ff} "
         "(exhaustive), encoder outputs followed by junk, random strings with forced continuation bits; encode: "
         "boundaries +-3 and random values of random bit width (thorough: every value below 2^21+1024).  "
         "non-trivial = multi-byte input / value > 127; distinct = distinct case lines.  codec_par: 12 goroutines (thorough 16) "
         "encode values (VerifEncodeLength) and whole packets concurrently for ~1.2 s (8 s), every output differing from a "
         "sequential recomputation plus a sample is judged by the same Coq engines; plus one structural case: the go/ast "
         "scan of packets/*.go (non-test) must list no package-level variable written inside a function (empty allow-list: "
         "the unchanged package only has read-only tables and error values at package level)",
    exhaustive=False,
    modelled="packets/codec.go encodeLength, DecodeLength (entire functions)",
    assumptions=["bytes read from the io.ByteReader are the bytes of the list (bytes.Reader trusted)",
                 "encodeLength is only specified for non-negative lengths"],
)


