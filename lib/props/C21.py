PROP = dict(
    title="A crash never loses acknowledged state or resurrects discarded state",
    design_ref="DESIGN.md section 8, C20 / C21 / C22",
    technique="The write log of a history is the list of logical storage writes; a process death after the k-th write "
              "leaves the store of the first k writes.  Coq: the restart theorem of C20 holds for every list of writes, "
              "hence for every prefix (findings are monotone in the log); writes leave the state under other keys "
              "unchanged; a taken-over client causes no client-record write.  Acknowledgements are tied in through "
              "markers the harness records between the writes (OnPacketSent / OnPacketProcessed): an acknowledgement "
              "sent before the write it promises is a violation.  Tie to the code: every write boundary of every "
              "generated history on the real broker (a wrapping hook forwards only the first k writes), restart, snapshot.",
    level_text="Theorems over all histories, all crash points k and all four back ends: C21_crash_modulo_findings (the "
               "restarted broker holds exactly the state of the first k writes: nothing written lost, nothing deleted "
               "back, no subscription / in-flight message without its session), C21_untouched_state_kept, "
               "C21_superseded_never_deletes_live (hook level), C21_refuted (PUBACK/PUBREC to the publisher precedes the "
               "subscribers' in-flight writes).  Each run checks per crash point: restored state = abstract state of the "
               "first k recorded writes = restart model; no SUBACK/UNSUBACK/PUBACK before the write it acknowledges "
               "(except the listed finding); no storage event touching a session on behalf of a superseded client object; no leftover of a session at a Clean Start; at the last boundary the memory of the broker equals the state of the writes (nothing accepted for a session exists in memory only).",
    level_note="Trusted as C20, plus the write-limiting hook (it cuts inside a hook call by forwarding an equivalent call "
               "for the writes still allowed; the engine cross-checks its write count against the model).  The process "
               "death is simulated at the granularity of one Set/Delete; the engines' own atomicity and durability of a "
               "single write are not modelled.  The acknowledgement clause is checked on recorded histories, not proved "
               "of a broker model (the broker's packet handling is outside this model).",
    engines=[dict(hx="crash", timeout=2400)],
    theorems=["C21_refuted", "C21_crash_modulo_findings", "C21_untouched_state_kept", "C21_superseded_never_deletes_live", "C21_clean_start_nothing_restored"],
    model_files="coq/Storage/StoreHooks.v coq/Storage/Restart.v coq/Storage/Crash.v coq/Storage/RestartEngine.v",
    rule="every k in 0..(number of writes) of: the 18 directed histories of C20 (incl. Clean Start 1 over a live and over an offline session with unacknowledged QoS 1/2 messages) (bolt+redis; thorough all four) and random "
         "histories of 5..20 client operations (quick 10, alternating bolt/redis; thorough 100 on pebble+bolt+redis, "
         "every 10th also badger).  plus the two-life histories of C20 (a killed first process is a crash followed by further operation on the same store) as complete cases.  non-trivial = k > 2; distinct = distinct case lines",
    exhaustive=False,
    modelled="as C20; crash = prefix of the write log",
    assumptions=["as C20", "a single storage write is atomic and durable in the engine",
                 "the broker handles one packet of a client at a time (markers of different clients may interleave)"],
)
