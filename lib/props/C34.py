PROP = dict(
    title="Accepted output is flushed and every dropped message is reported",
    design_ref="DESIGN.md section 8, C34",
    technique="Coq proof by invariant over arbitrary sequences of WritePacket calls (from the write loop and directly "
              "from the handler; any packet sizes, any queue lengths seen, any refusals before the buffer logic) of a "
              "model of clients.go WritePacket's four buffer branches, flushOutbuf and WriteLoop: reported-sent = "
              "written ++ buffered, and a non-empty buffer implies a queued write is still to come; hence at "
              "quiescence the buffer is empty and reported = written.  Model tied to the real broker by running it with "
              "write buffers of 16-200 bytes, small queues / in-flight stores, clients with a Maximum Packet Size and "
              "bursts of publishes in one read, and comparing the bytes written with the OnPacketSent events at every "
              "quiescent point and the Write calls' shape with the model's",
    level_text="Theorems over all call sequences: C34_flushed, C34_drops_reported, C34_refusals_reported, "
               "C34_write_calls_shape.  The verdict on the code is the Coq monitor applied to what the MemConn received "
               "and what the hooks reported after every step: packets reported sent = packets written (multisets), every "
               "message routed to the connection is written or reported dropped.  Three defects that made the statement "
               "false on the pinned tree were reproduced and repaired; Findings/FixedC34.v keeps the old behaviour.",
    level_note="Trusted: Coq kernel, extraction, OCaml driver, Go broker harness (MemConn records every Write call; "
               "quiescence = every handler parked and every queue drained).  Modelled not verified: bytes.Buffer, the "
               "channel used as pending-writes queue (its length enters the model as an oracle per call; the theorem "
               "quantifies over it), errors of the network write itself (a failing net.Conn keeps the buffer for a later "
               "flush and ends the connection).  The order of OnPacketSent events of two goroutines may differ from the "
               "wire order by a scheduling accident, so the monitor compares multisets.  QoS 0 messages for a client "
               "whose connection is already closed are discarded without a report (the session is offline; outside "
               "the write path this property is anchored in).",
    engines=[dict(hx="writebuf"), dict(hx="writesched", model="respond"), dict(hx="flushfault")],
    theorems=["C34_flushed", "C34_drops_reported", "C34_refusals_reported", "C34_write_calls_shape", "C34_flushed_all_schedules", "C34_fault_monitor_sound", "C34_flushed_despite_faults", "C34_fault_model_extends"],
    model_files="coq/IO/WriteBuf.v",
    rule="240 (thorough 6000) histories of 14 (24) steps on one MQTT 5 subscriber (w/# QoS 0, x/# QoS 1) with write "
         "buffer 64/16/200 bytes, three flavours: Maximum Packet Size 50 with a third of the payloads at 60 bytes "
         "(refused by the write loop), pending-writes queue 1-3 (queue-full drops), in-flight store 3 (refusals); "
         "steps: publisher burst of 1-8 PUBLISH packets in one read, the subscriber publishing 2-6 messages to "
         "itself in one read (direct PUBACKs between queued publishes), acknowledging everything outstanding, PINGREQ. "
         "After every step: Write calls on the connection, OnPacketSent / OnPublishDropped events, messages expected. "
         "non-trivial = some Write call carried several packets or something was dropped; distinct = distinct histories",
    modelled="clients.go WritePacket (size check, the four buffer branches, reporting), flushOutbuf, flushIdle, WriteLoop; "
             "server.go publishToClient (drop branches and their hook calls)",
    assumptions=["net.Conn.Write succeeds while the connection is open", "the connection is observed at quiescent points"],
)
