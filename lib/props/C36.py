PROP = dict(
    title="Shutdown closes every connection and waits for all handlers",
    design_ref="DESIGN.md section 8, C35/C36 (and sections 4, 5.4: interleaving models, forced schedules)",
    technique="Coq interleaving model (Base/Sched.v) of Server.Close racing with connections being established: accept "
              "loop thread (tcp.go Serve), one handler thread per connection with ClientsWg.Add inside the handler "
              "(attachClient), closer thread (Close / TCP.Close / closeListenerClients / ClientsWg.Wait), clients as "
              "environment (dial, leave); a state invariant is proved preserved by every atomic instruction, hence after "
              "EVERY schedule of ANY number of connections; tie to the code by forced schedules on the real broker with a "
              "real listeners.NewTCP listener on 127.0.0.1 and real client sockets: handlers and the closer are parked at "
              "verifPoints delimiting the model's atomic steps, and after every harness action the position of every "
              "handler and of Close, and at the end what every client received, are compared with Sched.run on the same "
              "schedule",
    level_text="Theorems over all schedules: C36_all_closed_modulo_findings: whenever Close was called and nothing in the "
               "broker can move any more and no handler still waits for the CONNECT of a silent client "
               "(KF_C36_silent_connection, refuted for the current code by C36_all_closed_refuted and reproduced on the "
               "real code: Close blocks in ClientsWg.Wait) and no MQTT 5 client's Maximum Packet Size is below the 27 bytes "
               "of the shutdown DISCONNECT (KF_C36_disconnect_too_large), for EVERY assignment of write outcomes (oracle "
               "bit per connection: DisconnectClient = try to write, ALWAYS stop), Close has returned, the listener is closed, every "
               "connection that reached the broker is closed, every MQTT 5 client that had been told it was connected "
               "was sent DISCONNECT 0x8B, and no handler is alive; C36_stops_accepting / C36_no_spawn_after_close; "
               "C36_waits_modulo_findings: Close returns only after every handler has finished unless a spawned handler "
               "had not yet run ClientsWg.Add when Wait returned (KF_C36_unstarted_handler, refuted for the current code by "
               "C36_waits_refuted, reproduced on the real code); C36_refuted_prefix: the pre-fix code violated "
               "the same statement also outside that finding (two repaired defects).  The verdict on the code is the Coq monitor on what the real "
               "broker and the real clients observed.",
    level_note="Partial by nature (DESIGN section 2): the Go runtime, the OS TCP stack and sync.WaitGroup are modelled "
               "(Wait returns when the counter is 0 at entry or at the Done that makes it 0; a listener's close resets "
               "pending connections and refuses new ones), not verified.  The accept loop cannot be parked (no verifPoint "
               "in package listeners): it runs eagerly, so schedules that delay it between Accept and its `end` check are "
               "covered by the theorems but not replayed.  KDisconnect is one atomic step for all snapshot clients; "
               "KDisconnect / listener close / Wait entry are separate model steps that the harness can only run "
               "back to back.  quiescence is defined on the model state (every instruction is guarded by the phase it "
               "starts from).  Trusted: Coq kernel, extraction, OCaml driver, Go harness incl. harness/fsched (goroutine "
               "identity and blocked-state detection from runtime.Stack).",
    engines=[dict(hx="shutdown")],
    theorems=["C36_all_closed_modulo_findings", "C36_all_closed_refuted", "C36_all_closed_refuted_too_large", "C36_stops_accepting", "C36_no_spawn_after_close", "C36_waits_modulo_findings",
              "C36_waits_refuted", "C36_refuted_prefix"],
    model_files="coq/Base/Sched.v coq/Conc/Shutdown.v",
    rule="forced schedules, real TCP listener: (1) every combination of positions {not yet dialed, spawned before "
         "ClientsWg.Add, CONNECT read before Clients.Add, in Clients before CONNACK, serving, nothing sent and handler "
         "waiting for the CONNECT, half of the CONNECT sent and handler waiting, nothing sent and handler not started} of "
         "two connections at the moment Close starts (64; silent clients later send the rest, go away or stay silent), the remaining steps of the closer (end flag, snapshot, disconnect+close listener+Wait, "
         "return) and of the handlers randomly interleaved, late dials (full, silent, partial CONNECT) and clients leaving included (64 schedules, "
         "thorough 512); (2) the 36 position pairs with Close run through without any handler moving; (3) 20 "
         "(thorough 1200) random schedules with three connections; (4) a dial after Close returned.  Connections carry a flavour: MQTT 5 Maximum Packet Size 25 / 26 / 27 / 1000, an injected write fault "
         "on DISCONNECT packets (broker-side net.Conn wrapper), or none.  Every schedule ends "
         "by letting everything that can move run (quiescence).  Observed after every action: where every handler and "
         "Close are; at the end: per client dial result, success CONNACK, DISCONNECT (0x8B for v5), connection closed.  "
         "non-trivial = Close was called and at least one connection reached the broker",
    exhaustive=False,
    modelled="server.go Close, closeListenerClients, attachClient (ClientsWg.Add/Done, Clients.Add, done check, "
             "SendConnack, read loop, teardown), DisconnectClient as 'write DISCONNECT, close'; listeners/listeners.go "
             "CloseAll + ClientsWg.Wait; listeners/tcp.go Serve and Close (end flag, accept, spawn, listener close)",
    assumptions=["one listener; clients use distinct client ids and clean sessions (no takeover during shutdown)",
                 "hooks do not block (OnStopped / hook Stop are outside the model)"],
)
