PROP = dict(
    title="Everything the broker writes is well-formed for the client's protocol version",
    design_ref="DESIGN.md section 8, C23",
    technique="Coq proofs that (1) the stream monitor built on an independent reference decoder is sound w.r.t. the "
              "Prop-level well-formedness statement and (2) writers through WritePacket's critical section never "
              "interleave packets, for all schedules; the monitor is then applied to every byte the real broker "
              "writes in generated mixed-version histories",
    level_text="Theorems: C23_monitor_sound (for all contexts and byte streams), C23_no_interleaving (for all programs "
               "and all schedules; induction with an invariant), three kernel-checked refutation witnesses for the "
               "known findings.  The verdict on the code is the extracted monitor on the complete byte stream of every "
               "connection (error paths, takeovers, wills, shutdown, small Maximum Packet Size, Request Problem "
               "Information 0).  C23_encoder_output (from Codec/CodecC23.v): every well-formed packet whose abstraction the standard allows is encoded to bytes the reference decoder reads back as exactly that packet.  Partial: that every packet the broker BUILDS has a valid abstraction is what the monitor checks per run.",
    level_note="Trusted: Coq kernel, extraction, OCaml driver, Go broker harness.  The reference codec SpecCodec.v was "
               "written from the OASIS texts independently of mochi's codec.  Modelled not verified: the lock "
               "(sync.RWMutex) as 'only the holder proceeds'; net.Conn.Write as atomic append.",
    engines=[dict(hx="wire")],
    theorems=["C23_monitor_sound", "C23_no_interleaving", "C23_refuted_v3_disconnect",
              "C23_refuted_v3_connack_code", "C23_refuted_suback_0x82", "C23_encoder_output"],
    model_files="coq/Session/Wellformed.v, coq/Conc/WriteMux.v, coq/Codec/SpecCodec.v",
    rule="120 (thorough 3000) histories x 40 (70) steps over 4 client ids with random versions 3/4/5 and CONNECT "
         "properties (Maximum Packet Size 20-80, Request Problem Information 0, Request Response Information, receive "
         "maximum, topic alias maximum, session expiry, wills), publishes QoS 0-2 with properties and oversize "
         "payloads, subscribes incl. invalid/denied/shared+NoLocal, acks, protocol violations, DISCONNECT 0/4, net "
         "close, takeover, housekeeping ticks, inline publishes, server shutdown; one case per connection = its "
         "complete output stream; non-trivial = more than one packet; distinct = distinct streams",
    modelled="clients.go WritePacket critical section (interleaving model); output judged against SpecCodec.v",
    assumptions=["a goroutine outside cl.Lock() touches neither the connection nor outbuf (checked by reading WritePacket)"],
)
