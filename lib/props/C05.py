PROP = dict(
    title="Retained store reflects the latest retained publish per topic",
    design_ref="DESIGN.md section 8, C05",
    technique="Coq proof by induction over operation histories that the retained map of the component model equals the "
              "specification 'latest retained publish per topic, nothing after an empty payload, nothing while retain is "
              "unavailable' (a fold over the history), plus case analysis of publishRetainedToClient for Retain Handling and "
              "shared filters; model tied to the real broker by differential execution of generated histories",
    level_text="C05_latest / C05_store (all histories, all filters, all topics), C05_rh, C05_shared_none, C05_unavailable, "
               "C05_flag.  The verdict on the code is the Coq monitor c05_subscribe: the PUBLISH packets following each "
               "SUBACK must be exactly the latest retained message of every matching topic computed from the history.",
    level_note="Trusted: as C03.  Which retained topics a filter selects is topic_matches (the trie walk scanMessages is C02).  "
               "Retained message expiry is not exercised (C25).  Concurrency: C05_retain_atomic_all_schedules is about the "
               "model in which RetainMessage's set + store is one atomic step under the index root lock (that the code has "
               "this shape is re-read from the AST by C31's topics_rootlock); the split variant is refuted by a concrete "
               "schedule (C05_split_refuted); the real index is exercised on forced schedules through one verif-tag schedule "
               "point (commit 8460ea7), other interleavings only as the Go scheduler produces them.",
    engines=[dict(hx="route", args=["c05"], model="route_c05"), dict(hx="topics_retainsched")],
    theorems=["C05_latest", "C05_store", "C05_rh", "C05_shared_none", "C05_unavailable", "C05_flag",
              "C05_retain_atomic_all_schedules"],
    model_files="coq/Session/Deliver.v; coq/Topics/RetainConc.v (concurrency dimension: atomic model, split variant, checker)",
    rule="histories as for C03 biased to retained publishes (1/2 retained, 1/4 of those with empty payload), repeated "
         "subscriptions with Retain Handling 0/1/2, shared filters, retain available off in 1/6 of the histories.  "
         "non-trivial = SUBSCRIBE step while something is retained or something was delivered.  "
         "ADDED concurrency dimension (engine topics_retainsched, 900 / 15000 forced schedules on a real TopicsIndex): a "
         "retained publish is parked at the schedule point retain.store (between set(...), which creates the topic's path, "
         "and the store) while 1-2 other goroutines run the client Unsubscribe of a filter equal to the topic, a retained "
         "clear on the topic or on a sibling, a Subscribe / Unsubscribe below it, another retained publish, or a Messages "
         "query; it is then released; after quiescence Messages(f) for the exact filter and the wildcard filters that select "
         "the topic (x/#, x/+, +/y, #), a clear, and the queries again.  Verdict by Topics.RetainConc.retain_engine: some "
         "serial order consistent with every goroutine's order must explain every return value and every Messages result as "
         "the latest retained publish per matching topic",
    exhaustive=False,
    modelled="server.go retainMessage/publishRetainedToClient/processSubscribe, topics.go RetainMessage (as a map)",
    assumptions=["no retained message expires during a history"],
)
