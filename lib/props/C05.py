PROP = dict(
    title="Retained store reflects the latest retained publish per topic",
    design_ref="DESIGN.md section 8, C05",
    technique="Coq proof by induction over operation histories that the retained map of the component model equals the "
              "specification 'latest retained publish per topic, nothing after an empty payload, nothing while retain is "
              "unavailable' (a fold over the history), plus case analysis of publishRetainedToClient for Retain Handling and "
              "shared filters; model tied to the real broker by differential execution of generated histories",
    level_text="C05_latest / C05_store (all histories, all filters, all topics), C05_rh, C05_shared_none, C05_unavailable, "
               "C05_flag.  The verdict on the code is the Coq monitor c05_subscribe: the PUBLISH packets following each "
               "SUBACK must be exactly the latest retained message of every matching topic computed from the history.",
    level_note="Trusted: as C03.  Which retained topics a filter selects is topic_matches (the trie walk scanMessages is C02).  "
               "Retained message expiry is not exercised (C25).",
    engines=[dict(hx="route", args=["c05"], model="route_c05")],
    theorems=["C05_latest", "C05_store", "C05_rh", "C05_shared_none", "C05_unavailable", "C05_flag"],
    model_files="coq/Session/Deliver.v",
    rule="histories as for C03 biased to retained publishes (1/2 retained, 1/4 of those with empty payload), repeated "
         "subscriptions with Retain Handling 0/1/2, shared filters, retain available off in 1/6 of the histories.  "
         "non-trivial = SUBSCRIBE step while something is retained or something was delivered",
    exhaustive=False,
    modelled="server.go retainMessage/publishRetainedToClient/processSubscribe, topics.go RetainMessage (as a map)",
    assumptions=["no retained message expires during a history"],
)
